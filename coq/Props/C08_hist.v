(* C08 over HISTORIES on one live ContinuousDomain object: restriction, perturbation, acceptability, the unconstrained-index list,
   the fixed-coordinate wrapper's admission test and the constrained sampling entry point all work with the constraint set that
   the latest set_constraint_list handed over - whether the caller passed a new list or the list object it had passed before and
   edited in place since.  Only statements, each closed by `exact`, with Print Assumptions beneath.
   Model: LV.Model.DomainHist (entry points written over the STORED fields _halfspaces / _one_hot_unconstrained_indices /
   _cheby_center / force_hitandrun_sampling; the pure functions of LV.Model.Restrict are what a freshly built domain computes). *)
From Coq Require Import List QArith Bool Arith.
From LV Require Import Model.Restrict Model.Samplers Model.DomainHist Proofs.Restrict Proofs.Samplers Proofs.DomainHist.
Import ListNotations.
Open Scope Q_scope.

(* Whatever happened to the object, the stored half-spaces and unconstrained indices are those of the constraint list it holds. *)
Theorem C08_history_stored_fields_are_current bs ops :
  let s := drun (dfresh bs) ops in
  s_bounds s = bs /\ s_cons s = latest_cons [] ops /\
  s_hs s = stored_hs bs (latest_cons [] ops) /\ s_uncon s = stored_uncon bs (latest_cons [] ops).
Proof. exact (history_stored_fields bs ops). Qed.
Print Assumptions C08_history_stored_fields_are_current.

(* A query (restrict / perturb / acceptable / unconstrained indices / fixed-wrapper admission) leaves the object as it was. *)
Theorem C08_history_query_reads_only s o : is_query o = true -> fst (dstep s o) = s.
Proof. exact (query_reads_only s o). Qed.
Print Assumptions C08_history_query_reads_only.

(* After ANY history - constraint sets replaced (by new lists or by the same list edited in place), cleared, the hit-and-run flag
   switched, samples drawn, any queries in between - a query answers exactly what a freshly built domain answers whose
   constraint list is the one handed over LAST. *)
Theorem C08_history_query_is_fresh bs pre o post : is_query o = true ->
  let s := drun (dfresh bs) pre in
  nth (length pre) (dtrace (dfresh bs) (pre ++ o :: post)) ONone = fresh_out (Dom bs (latest_cons [] pre)) (s_centre s) o.
Proof. exact (history_query_is_fresh bs pre o post). Qed.
Print Assumptions C08_history_query_is_fresh.

(* The list of unconstrained indices the domain keeps is exactly: the coordinates to which EVERY constraint gives weight zero
   (however small a non-zero weight is, its coordinate is constrained). *)
Theorem C08_unconstrained_indices_spec bs cs j :
  In j (stored_uncon bs cs) <-> (j < length bs)%nat /\ forall c, In c cs -> nth j (fst c) 0 == 0.
Proof. exact (uncon_indices_spec bs cs j). Qed.
Print Assumptions C08_unconstrained_indices_spec.

(* Region clauses at any moment of a history (state reached from a fresh object: `coherent`), for the constraints set last. *)
Theorem C08_history_restrict_in_domain s vp on us ps : coherent s -> s_constrained s = true ->
  interior (dom_of s) (s_centre s) -> Forall (fun p => length p = s_dim s) ps -> Forall unit_interval us ->
  (forall h, In h (cons_rows (dom_of s)) -> (2 <= nnz (fst h))%nat) ->
  exists m used, snd (dstep s (DRestrict vp on us ps)) = OPts m used /\ length m = length ps /\ Forall (feasible (dom_of s)) m.
Proof. exact (history_restrict_feasible s vp on us ps). Qed.
Print Assumptions C08_history_restrict_in_domain.

Theorem C08_history_near_point_in_domain s pt on zs us m : coherent s -> s_constrained s = true ->
  interior (dom_of s) (s_centre s) -> Forall (fun z => length z = s_dim s) zs -> Forall unit_interval us ->
  (forall h, In h (cons_rows (dom_of s)) -> (2 <= nnz (fst h))%nat) ->
  snd (dstep s (DNear pt on zs us)) = ONear (Some m) -> length m = length zs /\ Forall (feasible (dom_of s)) m.
Proof. exact (history_near_feasible s pt on zs us m). Qed.
Print Assumptions C08_history_near_point_in_domain.

(* A fixed-coordinate wrapper is accepted only for coordinates no constraint of the current set mentions (with values inside
   their bounds): C08_fixed_wrappers_in_domain then applies to it. *)
Theorem C08_history_fixed_accepted_is_valid s fixed : coherent s -> fixed_ok_st s fixed = true -> fixed_valid (dom_of s) fixed.
Proof. exact (fixed_accepted_is_valid s fixed). Qed.
Print Assumptions C08_history_fixed_accepted_is_valid.

(* The constrained sampling entry point hands the sampler the FULL half-space system of the current constraints (constraint rows and
   both bound rows of every coordinate); if what the sampler returns satisfies the system it was handed (C08_hitandrun_inside,
   C08_rejection_with_padding_feasible), the points returned - in the forced branch with the unconstrained columns overwritten by
   values inside their bounds - lie in the region of the current constraints. *)
Theorem C08_history_sample_in_domain s n raw ok vals : coherent s -> s_constrained s = true ->
  Forall (fun p => length p = s_dim s /\ sat_all (s_hs s) p) raw -> Forall (in_box (sub_bounds s)) vals ->
  exists forced x0 box out, snd (dstep s (DSample n raw ok vals)) = OSample forced (halfspaces (dom_of s)) x0 box out /\
                            Forall (feasible (dom_of s)) out.
Proof. exact (history_sample_feasible s n raw ok vals). Qed.
Print Assumptions C08_history_sample_in_domain.

(* non-vacuity: the box [0,2]^3.  The caller sets  x + y >= 1  (centre (1, 1, 1)); column 2 is unconstrained; the outside point
   (0, 0, 0) is pulled onto that face.  The caller then edits its list in place - the constraint becomes  x + (1/2^28) z >= 3/2  -
   and sets it again: now column 1 is unconstrained and column 2, whose weight is tiny but not zero, is constrained; a wrapper fixing
   column 2 is refused, one fixing column 1 is accepted; the same outside point is now pulled onto the NEW face. *)
Example C08_history_example :
  let bs := [(0, 2); (0, 2); (0, 2)] in
  let c1 := [([1; 1; 0], 1)] in
  let c2 := [([1; 0; 1 # 268435456], 3 # 2)] in
  let ops := [DSet c1 [1; 1; 1] true; DUncon; DRestrict None true [] [[0; 0; 0]];
              DSet c2 [7 # 4; 1; 1] true; DUncon; DFixOk [(2%nat, 1)]; DFixOk [(1%nat, 1)]; DRestrict None true [] [[0; 0; 0]]] in
  let t := dtrace (dfresh bs) ops in
  nth 1 t ONone = OIdx [2%nat] /\ nth 4 t ONone = OIdx [1%nat] /\
  nth 5 t ONone = OBool false /\ nth 6 t ONone = OBool true /\
  (exists m1 m2, nth 2 t ONone = OPts [m1] 0 /\ nth 7 t ONone = OPts [m2] 0 /\
                 dot [1; 1; 0] m1 == 1 /\ dot [1; 0; 1 # 268435456] m2 == 3 # 2 /\ ~ dot [1; 0; 1 # 268435456] m1 == 3 # 2) /\
  s_cons (drun (dfresh bs) ops) = c2.
Proof.
  cbv zeta. repeat split; try (vm_compute; reflexivity).
  eexists _, _. split; [vm_compute; reflexivity|]. split; [vm_compute; reflexivity|]. vm_compute. repeat split; discriminate.
Qed.
