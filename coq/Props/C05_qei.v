(* C05, Monte-Carlo parallel expected improvement (qEI) — statements about the executable model Model.ParallelEI of
   ExpectedParallelImprovement._evaluate_at_point_list / evaluate_at_point_list (tied to the running code by the in-Coq
   correspondence Model.ParallelEICorr: stub predictor, prescribed factor, scripted draws).  Only statements, each closed by `exact`.

   Notation of the model: a call evaluates the candidate sets `sets` (set k = (means mk of its q points, rows Lk of the factor of
   the joint covariance of set k ++ pending; C17: Lk Lk' = cov)), `mp` = means of the p pending points, c = q + p,
   `stream` = the standard normal draws in the order numpy.random.normal hands them out, N = num_mc_iterations,
   B = num_mc_iterations_per_loop.  Lz c L z j = sum_{l<c} L[j][l] z[l];  amin = minimum of a non-empty list;  qmax 0 x = max(0, x). *)
From Coq Require Import List QArith Bool Arith.
From LV Require Import Model.ParallelEI Proofs.ParallelEI.
Import ListNotations.
Open Scope Q_scope.

(* the draws one call executes: the loop runs whole blocks of b = min(B, N) draws until N is reached, so it executes the least
   multiple of b that is >= N (more than N when b does not divide N) ... *)
Theorem C05_qei_number_of_executed_draws N B : (0 < N)%nat -> (0 < B)%nat ->
  let b := Nat.min B N in
  (N <= n_exec N B)%nat /\ (n_exec N B < N + b)%nat /\ exists t, n_exec N B = (t * b)%nat.
Proof. exact (n_exec_spec N B). Qed.
Print Assumptions C05_qei_number_of_executed_draws.

(* ... and these draws are the first n_exec vectors of c successive entries of the stream, whatever the block size *)
Theorem C05_qei_executed_draws N B c stream : (n_exec N B * c <= length stream)%nat ->
  length (executed_draws N B c stream) = n_exec N B /\
  Forall (fun z => length z = c) (executed_draws N B c stream) /\
  concat (executed_draws N B c stream) = firstn (n_exec N B * c) stream.
Proof. exact (executed_draws_spec N B c stream). Qed.
Print Assumptions C05_qei_executed_draws.

(* (a) the estimate of candidate set k is the arithmetic mean, over the executed draws z, of the improvement over `best` of the
   minimum of the posterior sample y = m - L z at the q + p points, m = (means of set k) ++ (pending means).
   (The code forms L z + best - m: its sample is m - L z, the draw enters with the opposite sign, equally distributed.) *)
Theorem C05_qei_estimate_is_sample_mean q sets mp best N B stream k mk Lk :
  (forall s, In s sets -> length (fst s) = q) -> (0 < q + length mp)%nat -> (0 < N)%nat -> (0 < B)%nat -> (k < length sets)%nat ->
  nth k sets ([], []) = (mk, Lk) ->
  let c := (q + length mp)%nat in
  let m := mk ++ mp in
  let y := fun z : vec => map (fun j => nth j m 0 - Lz c Lk z j) (seq 0 c) in
  let zs := executed_draws N B c stream in
  nth k (qei q sets mp best N B stream) 0 == sumQ (map (fun z => qmax 0 (best - amin (y z))) zs) / ofnat (length zs).
Proof. exact (qei_estimate_is_sample_mean_explicit q sets mp best N B stream k mk Lk). Qed.
Print Assumptions C05_qei_estimate_is_sample_mean.

(* (b) one estimate per candidate set, each non-negative (nothing required) *)
Theorem C05_qei_nonneg q sets mp best N B stream : Forall (fun e => 0 <= e) (qei q sets mp best N B stream).
Proof. exact (qei_nonneg q sets mp best N B stream). Qed.
Print Assumptions C05_qei_nonneg.

Theorem C05_qei_one_estimate_per_set q sets mp best N B stream : length (qei q sets mp best N B stream) = length sets.
Proof. exact (qei_length q sets mp best N B stream). Qed.
Print Assumptions C05_qei_one_estimate_per_set.

(* (c) set independence: the estimate of a candidate set depends only on that set's means and factor, the pending means, best,
   N, B and the draws — the same value at any position of any vectorised call that contains the set ... *)
Theorem C05_qei_set_independent q sets sets' mp best N B stream k k' :
  (forall s, In s sets -> length (fst s) = q) -> (forall s, In s sets' -> length (fst s) = q) ->
  (0 < q + length mp)%nat -> (0 < N)%nat -> (0 < B)%nat -> (k < length sets)%nat -> (k' < length sets')%nat ->
  nth k sets ([], []) = nth k' sets' ([], []) ->
  nth k (qei q sets mp best N B stream) 0 == nth k' (qei q sets' mp best N B stream) 0.
Proof. exact (qei_set_independent q sets sets' mp best N B stream k k'). Qed.
Print Assumptions C05_qei_set_independent.

(* ... in particular the same value as when the set is evaluated alone *)
Theorem C05_qei_set_alone q sets mp best N B stream k :
  (forall s, In s sets -> length (fst s) = q) -> (0 < q + length mp)%nat -> (0 < N)%nat -> (0 < B)%nat -> (k < length sets)%nat ->
  nth k (qei q sets mp best N B stream) 0 == nth 0 (qei q [nth k sets ([], [])] mp best N B stream) 0.
Proof. exact (qei_set_alone q sets mp best N B stream k). Qed.
Print Assumptions C05_qei_set_alone.

(* the public entry point evaluate_at_point_list(points, batch_size): whatever the batch size, the estimate of candidate set k is
   the estimate (a) of that set on the draws of its own batch — the stream moved on by the n_exec * c draws of each earlier batch
   (set_estimate c (mk, Lk) mp best zs is the right-hand side of (a): the mean over zs of max(0, best - min_j (m - L z)_j)) *)
Theorem C05_qei_public_batches batch q sets mp best N B stream k :
  (forall s, In s sets -> length (fst s) = q) -> (0 < q + length mp)%nat -> (0 < N)%nat -> (0 < B)%nat -> (k < length sets)%nat ->
  let bs := match batch with Some b0 => if (b0 =? 0)%nat then length sets else b0 | None => length sets end in
  let c := (q + length mp)%nat in
  nth k (qei_public batch q sets mp best N B stream) 0 ==
  set_estimate c (nth k sets ([], [])) mp best (executed_draws N B c (skipn ((k / bs) * (n_exec N B * c)) stream)).
Proof. exact (qei_public_estimate batch q sets mp best N B stream k). Qed.
Print Assumptions C05_qei_public_batches.

(* (d) one point per candidate set and no pending point: the mean of max(0, best - (m - l z)), l the 1x1 factor *)
Theorem C05_qei_single_point sets best N B stream k m L :
  (forall s, In s sets -> length (fst s) = 1%nat) -> (0 < N)%nat -> (0 < B)%nat -> (k < length sets)%nat ->
  nth k sets ([], []) = ([m], L) ->
  nth k (qei 1 sets [] best N B stream) 0 ==
  mean_list (map (fun z => qmax 0 (best - (m - entry L 0 0 * nth 0 z 0))) (executed_draws N B 1 stream)).
Proof. exact (qei_single_point sets best N B stream k m L). Qed.
Print Assumptions C05_qei_single_point.

(* a concrete non-trivial instance (hypotheses satisfiable): two candidate sets of two points and one pending point, three
   requested draws executed as two blocks of two (four draws), one vectorised call *)
Example C05_qei_example :
  map Qred (qei 2 [([1; 0], [[1; 0; 0]; [1#2; 1; 0]; [0; 1#2; 1]]); ([-1; 2], [[2; 0; 0]; [0; 0; 0]; [1; -1; 1#2]])] [1#2] (1#4) 3 2
                [1; 0; -1;   -1; 1; 0;   1#2; 2; -2;   0; 0; 1;   7; 7; 7])
  = [19 # 16; 27 # 16]
  /\ n_exec 3 2 = 4%nat.
Proof. vm_compute. split; reflexivity. Qed.
