(* C01 — every suggested point is a feasible, well-formed configuration.
   Only statements, each closed by `exact`, with Print Assumptions beneath.  Models: LV.Model.EndpointTail (the endpoint
   tails) composed of LV.Model.Decode (C09) and LV.Model.Distinct (C10); vocabulary (relaxed_ok, qorc_ok, fill_contract,
   random_contract, spe_contract, draws_ok, resp_ok, count_ok, costs_ok) in LV.Proofs.EndpointTail.

   resp_ok d opts n r  :=  every point of r is Admissible d  /\  (|points| = n  \/  |points| < n and d is fully discrete or
                           int-constrained)  /\  (no options: no costs | options: one cost per point, each an option).
   relaxed_ok d x      :=  x lies in the relaxed (one-hot) box of d and satisfies the double-typed constraints: what the
                           optimisers / one-hot samplers deliver (C07, C08).  The *_contract hypotheses are the range
                           contracts of numpy.random / scipy.stats / the one-hot sampler for the calls actually made. *)
From Coq Require Import List QArith ZArith Bool Arith SetoidList.
From LV Require Import Model.Domain Model.Decode Model.EndpointTail Proofs.Domain Proofs.Decode Proofs.EndpointTail.
Import ListNotations.
Open Scope Q_scope.

(* The boolean evaluated in Coq on the implementation's responses is the specification. *)
Theorem C01_response_spec_decided d opts n r : resp_okb d opts n r = true <-> resp_ok d opts n r.
Proof. exact (resp_okb_spec d opts n r). Qed.
Print Assumptions C01_response_spec_decided.

(* map_one_hot_points_to_categorical, whole batch, int constraints included: every feasible relaxed batch decodes to
   admissible configurations, whatever the shuffles, the random-neighbour draws and the category choices are. *)
Theorem C01_decode_admissible {O} (choose : O -> row -> list Z -> option Z) d rnds perms oss xs ps :
  choose_member choose -> wf_domain d = true -> Forall (relaxed_ok d) xs ->
  decode_batch_gen choose d rnds perms oss xs = Some ps -> Forall (Admissible d) ps.
Proof. exact (decode_batch_admissible choose d rnds perms oss xs ps). Qed.
Print Assumptions C01_decode_admissible.

(* ... one configuration per relaxed row, fewer only on an int-constrained domain, never more. *)
Theorem C01_decode_count {O} (choose : O -> row -> list Z -> option Z) d rnds perms oss xs ps :
  (length xs <= length oss)%nat -> decode_batch_gen choose d rnds perms oss xs = Some ps ->
  (length ps <= length xs)%nat /\ (is_int_constrained d = false -> length ps = length xs).
Proof. exact (decode_batch_length choose d rnds perms oss xs ps). Qed.
Print Assumptions C01_decode_count.

(* The discrete neighbour search of the GP endpoint (int floor/ceil lattice x all category assignments, rounded), for every
   acquisition function and every option, hands feasible relaxed points to the decode. *)
Theorem C01_neighbour_search_stays_feasible o d af xs :
  wf_domain d = true -> Forall (relaxed_ok d) xs -> Forall (relaxed_ok d) (find_best o d af xs).
Proof. exact (find_best_relaxed_ok o d af xs). Qed.
Print Assumptions C01_neighbour_search_stays_feasible.

(* replace_duplicate_points: kept proposals plus fresh in-domain points; size restored unless discrete / int-constrained. *)
Theorem C01_replace_duplicates_admissible d pts hist tol orc q out : wf_domain d = true -> Forall (Admissible d) pts ->
  (forall u2, kept_of d pts hist tol = Some u2 -> fill_contract d (DS.zlen pts - DS.zlen u2) hist orc q) ->
  replace_dups d pts hist tol orc q = Some out ->
  Forall (Admissible d) out /\ (length out <= length pts)%nat /\
  (is_discrete d = false -> is_int_constrained d = false -> length out = length pts).
Proof. exact (replace_dups_ok d pts hist tol orc q out). Qed.
Print Assumptions C01_replace_duplicates_admissible.

(* quasi-random and prior draws in the categorical domain *)
Theorem C01_random_points_admissible d ps n pcols q pts : wf_domain d = true -> random_contract d ps n pcols q ->
  random_pts d ps n pcols q = Some pts ->
  Forall (Admissible d) pts /\ (length pts <= Z.to_nat n)%nat /\ (is_int_constrained d = false -> length pts = Z.to_nat n).
Proof. exact (random_pts_ok d ps n pcols q pts). Qed.
Print Assumptions C01_random_points_admissible.

(* ---- the five endpoints.  tail_count and task_costs_spec are the second and third conjunct of resp_ok. *)
Theorem C01_tail_gp_admissible d parallel af xs hist hist_oh o r :
  wf_domain d = true -> Forall (relaxed_ok d) xs -> (length xs <= length (o_cats (g_dec o)))%nat ->
  (forall pts u2, convert_from_one_hot d parallel af (g_dec o) xs = Some pts -> kept_of d pts hist uniq_tol = Some u2 ->
     fill_contract d (DS.zlen pts - DS.zlen u2) hist (g_choice o) (g_q o)) ->
  gp_tail d [] parallel af xs hist hist_oh o = Some r -> resp_ok d [] (length xs) r.
Proof. exact (tail_gp_admissible d parallel af xs hist hist_oh o r). Qed.
Print Assumptions C01_tail_gp_admissible.

Theorem C01_tail_gp_multitask_admissible d opts af xs hist hist_oh o r :
  wf_domain d = true -> opts <> [] -> list_min opts < list_max opts ->
  Forall (relaxed_ok (with_task d opts)) xs -> (length xs <= length (o_cats (g_dec o)))%nat ->
  (forall pts aug u2, convert_from_one_hot (with_task d opts) false af (g_dec o) xs = Some pts ->
     decode_b (with_task d opts) (g_hdec o) hist_oh = Some aug -> kept_of (with_task d opts) pts aug uniq_tol = Some u2 ->
     fill_contract (with_task d opts) (DS.zlen pts - DS.zlen u2) aug (g_choice o) (g_q o)) ->
  gp_tail d opts false af xs hist hist_oh o = Some r -> resp_ok d opts (length xs) r.
Proof. exact (tail_gp_multitask_admissible d opts af xs hist hist_oh o r). Qed.
Print Assumptions C01_tail_gp_multitask_admissible.

Theorem C01_tail_random_admissible d opts ps n pcols q draws r : wf_domain d = true -> (0 <= n)%Z ->
  random_contract d ps n pcols q ->
  (forall pts, random_pts d ps n pcols q = Some pts -> opts <> [] -> draws_ok opts (length pts) draws) ->
  random_tail d opts ps n pcols q draws = Some r -> resp_ok d opts (Z.to_nat n) r.
Proof. exact (tail_random_admissible d opts ps n pcols q draws r). Qed.
Print Assumptions C01_tail_random_admissible.

Theorem C01_tail_spe_admissible d opts ps path n o r : wf_domain d = true -> (0 <= n)%Z ->
  match path with
  | SPERandom => random_contract d ps n (s_pcols o) (s_q o)
  | SPEDraw => spe_contract d (Z.to_nat n) o
  end ->
  (forall r', spe_tail d opts ps path n o = Some r' -> opts <> [] -> draws_ok opts (length (r_points r')) (s_draws o)) ->
  spe_tail d opts ps path n o = Some r -> resp_ok d opts (Z.to_nat n) r.
Proof. exact (tail_spe_admissible d opts ps path n o r). Qed.
Print Assumptions C01_tail_spe_admissible.

Theorem C01_tail_search_admissible d ph u parallel af xs hist hist_oh o r :
  wf_domain d = true -> Forall (relaxed_ok d) xs -> (length xs <= length (o_cats (g_dec o)))%nat ->
  (forall par pts u2, convert_from_one_hot d par af (g_dec o) xs = Some pts -> kept_of d pts hist uniq_tol = Some u2 ->
     fill_contract d (DS.zlen pts - DS.zlen u2) hist (g_choice o) (g_q o)) ->
  search_tail d [] ph u parallel af xs hist hist_oh o = Some r -> resp_ok d [] (length xs) r.
Proof. exact (tail_search_admissible d ph u parallel af xs hist hist_oh o r). Qed.
Print Assumptions C01_tail_search_admissible.

Theorem C01_tail_spe_search_admissible d ps ph path n o r : wf_domain d = true -> (0 <= n)%Z ->
  match ph, path with
  | SInit, _ | SExploit, SPERandom => random_contract d ps n (s_pcols o) (s_q o)
  | _, _ => spe_contract d (Z.to_nat n) o
  end ->
  spe_search_tail d [] ps ph path n o = Some r -> resp_ok d [] (Z.to_nat n) r.
Proof. exact (tail_spe_search_admissible d ps ph path n o r). Qed.
Print Assumptions C01_tail_spe_search_admissible.

(* select_random_task_by_softmax: the probabilities handed to numpy.random.choice are exp(-c_i)/sum_j exp(-c_j)
   (exponentials as given positive numbers): positive, sum to one, and a cheaper task is never less likely. *)
Theorem C01_softmax_spec exps : exps <> [] -> Forall (fun e => 0 < e) exps ->
  length (softmax exps) = length exps /\
  Forall (fun p => 0 < p) (softmax exps) /\
  qsum_plain (softmax exps) == 1 /\
  (forall i j, (i < length exps)%nat -> (j < length exps)%nat ->
     nth i (softmax exps) 0 == nth i exps 0 / qsum_plain exps /\
     (nth j exps 0 <= nth i exps 0 -> nth j (softmax exps) 0 <= nth i (softmax exps) 0)).
Proof. exact (softmax_spec exps). Qed.
Print Assumptions C01_softmax_spec.

(* non-vacuity: a constrained four-component domain; the second proposal duplicates the first and is replaced by a fresh
   decoded point of the one-hot sampler *)
Example C01_example :
  wf_domain ex_dom = true /\
  gp_tail ex_dom [] false (fun x => nth 1 x 0) [[(3#2); (13#4); (1#8); (1#4); (1#2); 2]; [(3#2); (13#4); (1#8); (1#4); (1#2); 2]]
    [[0; 0; 5; (1#4)]] [] ex_gporc
  = Some {| r_points := [[(3#2); 4; 7; (5#2)]; [3; 0; 1; (5#2)]]; r_costs := None |}.
Proof. exact gp_tail_example. Qed.
