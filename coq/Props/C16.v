(* C16 — the Parzen-estimator model splits and scores data as specified.
   Only statements, each closed by `exact`, with Print Assumptions beneath.  Model: LV.Model.ParzenSplit. *)
From Coq Require Import List QArith ZArith Bool Arith Permutation Qround.
From LV Require Import Model.ParzenSplit Model.ParzenSplitCorr Proofs.ParzenSplit.
Import ListNotations.
Open Scope Q_scope.

(* Split: for every observation set (ties, duplicates), gamma, forget factor >= 0 and EVERY permutation numpy.argsort may
   return (contract: a permutation of the kept indices under which the values are non-decreasing), a constructed
   estimator has |lower| = s = max(int(gamma m), 3) >= 3, |greater| = m - s >= 1 with m = n - int(forget n) >= 10 the
   number of unforgotten points, lower ++ greater is a rearrangement of the kept observations, and every lower value
   is <= every greater value (reading of 7.0: any size-s sub-multiset of lowest values). *)
Theorem C16_split_spec gamma forget pts vals perm lower greater :
  0 <= forget -> length vals = length pts ->
  form_model gamma forget pts vals perm = Ok (lower, greater) ->
  let zm := unforgotten forget (length pts) in
  let m := Z.to_nat zm in
  let s := Z.to_nat (lower_size gamma zm) in
  sorting_perm_b (firstn m vals) perm = true ->
  length lower = s /\ length greater = (m - s)%nat /\ (3 <= s)%nat /\ (s < m)%nat /\ (10 <= m <= length pts)%nat /\
  Permutation (lower ++ greater) (kept_obs m pts vals) /\
  (forall a b, In a lower -> In b greater -> snd a <= snd b).
Proof. exact (split_spec gamma forget pts vals perm lower greater). Qed.
Print Assumptions C16_split_spec.

(* int() is floor here: s = max(floor(gamma m), 3) and m = n - floor(forget n). *)
Theorem C16_split_sizes_floor gamma forget n :
  0 <= gamma -> 0 <= forget -> (0 <= unforgotten forget n)%Z ->
  unforgotten forget n = (Z.of_nat n - Qfloor (forget * inject_Z (Z.of_nat n)))%Z /\
  lower_size gamma (unforgotten forget n) = Z.max (Qfloor (inject_Z (unforgotten forget n) * gamma)) 3.
Proof.
  exact (fun Hg Hf Hm => conj (unforgotten_floor forget n Hf) (lower_size_floor gamma (unforgotten forget n) Hg Hm)).
Qed.
Print Assumptions C16_split_sizes_floor.

(* The insufficient-data error is raised exactly when that split is impossible: fewer than ten unforgotten points, or
   the lower set would leave no greater point (s > m - 1). *)
Theorem C16_split_errors gamma forget pts vals perm :
  let zm := unforgotten forget (length pts) in
  form_model gamma forget pts vals perm = ErrInsufficientData <-> (zm < 10 \/ zm - 1 < lower_size gamma zm)%Z.
Proof. exact (split_error_iff gamma forget pts vals perm). Qed.
Print Assumptions C16_split_errors.

(* Greater density: the mean of the kernel values over the set (d n = sum), 0 <= d <= alpha. *)
Theorem C16_density_nonneg krow alpha : krow <> [] -> (forall x, In x krow -> 0 <= x <= alpha) ->
  exists d, greater_density krow = Some d /\ d * qlen krow == qsum krow /\ 0 <= d <= alpha.
Proof. exact (density_nonneg krow alpha). Qed.
Print Assumptions C16_density_nonneg.

(* Lower density: the same mean plus the 1e-10 floor, hence >= 1e-10 > 0. *)
Theorem C16_lower_floor krow alpha : krow <> [] -> (forall x, In x krow -> 0 <= x <= alpha) ->
  exists d, lower_density krow = Some (d + SPE_MINIMUM_LOWER_DENSITY_VALUE) /\ greater_density krow = Some d /\
            d * qlen krow == qsum krow /\
            SPE_MINIMUM_LOWER_DENSITY_VALUE <= d + SPE_MINIMUM_LOWER_DENSITY_VALUE /\
            0 < d + SPE_MINIMUM_LOWER_DENSITY_VALUE <= alpha + SPE_MINIMUM_LOWER_DENSITY_VALUE.
Proof. exact (lower_floor krow alpha). Qed.
Print Assumptions C16_lower_floor.

(* Ratio: defined, equal to 1 / (gamma + (1 - gamma) g / l), and in (0, 1/gamma]. *)
Theorem C16_ratio_formula_and_range gamma l g : 0 < gamma -> gamma < 1 -> 0 < l -> 0 <= g ->
  exists r, ratio gamma l g = Some r /\ r == 1 / (gamma + (1 - gamma) * (g / l)) /\ 0 < r /\ r <= 1 / gamma.
Proof. exact (ratio_spec gamma l g). Qed.
Print Assumptions C16_ratio_formula_and_range.

(* evaluate_expected_improvement on non-empty sets, for all kernel values in [0, alpha]. *)
Theorem C16_expected_improvement gamma alpha klow kgre : 0 < gamma -> gamma < 1 -> klow <> [] -> kgre <> [] ->
  (forall x, In x klow -> 0 <= x <= alpha) -> (forall x, In x kgre -> 0 <= x <= alpha) ->
  exists l g r, expected_improvement gamma klow kgre = Some (l, g, r) /\
    lower_density klow = Some l /\ greater_density kgre = Some g /\
    0 < l /\ 0 <= g /\
    r == 1 / (gamma + (1 - gamma) * (g / l)) /\ 0 < r /\ r <= 1 / gamma.
Proof. exact (ei_spec gamma alpha klow kgre). Qed.
Print Assumptions C16_expected_improvement.

(* Every estimator the constructor builds satisfies the whole ratio clause (both sets are non-empty). *)
Theorem C16_constructor_ratio_clause gamma forget pts vals perm lower greater :
  0 < gamma -> gamma < 1 -> 0 <= forget -> length vals = length pts ->
  form_model gamma forget pts vals perm = Ok (lower, greater) ->
  sorting_perm_b (firstn (Z.to_nat (unforgotten forget (length pts))) vals) perm = true ->
  ratio_clause gamma (map fst lower) (map fst greater).
Proof. exact (constructor_ratio_clause gamma forget pts vals perm lower greater). Qed.
Print Assumptions C16_constructor_ratio_clause.

(* Lies: a lie at p adds the entry k(p,p) = alpha >= every entry to the kernel row at p; the density there does not go
   down (and stays <= alpha) - one lie, any number of lies, greater or lower set. *)
Theorem C16_lie_raises_density krow alpha j d d' : krow <> [] -> (forall x, In x krow -> x <= alpha) ->
  qmean krow = Some d -> qmean (append_lie_entries krow (repeat alpha j)) = Some d' -> d <= d' /\ d' <= alpha.
Proof. exact (lies_raise_density krow alpha j d d'). Qed.
Print Assumptions C16_lie_raises_density.

Theorem C16_lie_raises_lower_density krow alpha l l' : krow <> [] -> (forall x, In x krow -> x <= alpha) ->
  lower_density krow = Some l -> lower_density (append_lie_entries krow [alpha]) = Some l' -> l <= l'.
Proof. exact (lie_raises_lower_density krow alpha l l'). Qed.
Print Assumptions C16_lie_raises_lower_density.

(* ... and a larger greater density never raises the improvement ratio. *)
Theorem C16_ratio_antitone_in_greater gamma l g g' r r' : 0 < gamma -> gamma < 1 -> 0 < l -> 0 <= g -> g <= g' ->
  ratio gamma l g = Some r -> ratio gamma l g' = Some r' -> r' <= r.
Proof. exact (ratio_antitone_in_greater gamma l g g' r r'). Qed.
Print Assumptions C16_ratio_antitone_in_greater.

(* Bandwidths: whatever the point spread (NaN from an empty set included), the covariance built by
   form_one_hot_covariance has 1 + one_hot_dim hyperparameters, all finite and > 0 (fallback included). *)
Theorem C16_bandwidths_valid numerical cat_ls factor stds :
  let h := one_hot_covariance numerical cat_ls factor stds in
  length h = S (length stds) /\ forall x, In x h -> exists q, x = Some q /\ 0 < q.
Proof. exact (bandwidths_valid numerical cat_ls factor stds). Qed.
Print Assumptions C16_bandwidths_valid.

(* With finite spreads the fallback is not taken and numerical bandwidths are factor^2 (std + 1e-8) / 2. *)
Theorem C16_bandwidths_from_spread numerical c factor stds :
  0 < factor -> 0 < c -> (forall s, In s stds -> exists q, s = Some q /\ 0 <= q) ->
  one_hot_covariance numerical (Some c) factor stds =
    raw_hyperparameters numerical (Some c) (map (bandwidth_sq factor) stds) /\
  forall s q, In s stds -> s = Some q ->
    exists b, bandwidth_sq factor s = Some b /\ b == factor * factor * ((q + STD_EPSILON_HACK) / 2) /\ 0 < b.
Proof. exact (bandwidths_from_spread numerical c factor stds). Qed.
Print Assumptions C16_bandwidths_from_spread.

(* Search variant (form_sigopt_parzen_estimator_for_search after the repair "fix: SPE search forces the threshold split only
   when some observation violates a threshold").  Membership clause, in full: whenever at least one observation violates a
   threshold (is not strictly below some non-NaN scaled upper threshold) and more observations satisfy the thresholds than the
   space has dimensions, lower = exactly the satisfiers, greater = exactly the violators, both non-empty, and
   gamma = #violators / n lies in (0, 1). *)
Theorem C16_search_split dim (pts : list point) thr pf dflt :
  length pf = length pts ->
  let viol := violations thr pf in
  (0 < count_true viol)%nat ->
  (dim < length pts - count_true viol)%nat ->
  exists lower greater gamma,
    search_split dim pts viol dflt = (lower, greater, gamma) /\
    Permutation (lower ++ greater) pts /\
    length greater = count_true viol /\ length lower = (length pts - count_true viol)%nat /\
    (forall x, In x lower <-> exists i, (i < length pts)%nat /\ within thr (nth i pf []) = true /\ nth i pts [] = x) /\
    (forall x, In x greater <-> exists i, (i < length pts)%nat /\ within thr (nth i pf []) = false /\ nth i pts [] = x) /\
    gamma == inject_Z (Z.of_nat (count_true viol)) / inject_Z (Z.of_nat (length pts)) /\
    0 < gamma /\ gamma < 1 /\ lower <> [] /\ greater <> [].
Proof. exact (search_split_spec dim pts thr pf dflt). Qed.
Print Assumptions C16_search_split.

(* Otherwise - no violator at all, or the satisfiers do not outnumber the dimension - the constructor's split and gamma stay. *)
Theorem C16_search_split_default dim (pts : list point) viol dflt :
  (count_true viol = 0 \/ ~ (dim < length pts - count_true viol))%nat -> search_split dim pts viol dflt = dflt.
Proof. exact (search_split_default dim pts viol dflt). Qed.
Print Assumptions C16_search_split_default.

(* The threshold split, whenever it is forced, satisfies the ratio clause. *)
Theorem C16_search_ratio_clause_forced dim (pts : list point) thr pf dflt lower greater gamma :
  length pf = length pts ->
  (0 < count_true (violations thr pf))%nat ->
  (dim < length pts - count_true (violations thr pf))%nat ->
  search_split dim pts (violations thr pf) dflt = (lower, greater, gamma) ->
  0 < gamma /\ gamma < 1 /\ ratio_clause gamma lower greater.
Proof. exact (search_ratio_clause_forced dim pts thr pf dflt lower greater gamma). Qed.
Print Assumptions C16_search_ratio_clause_forced.

(* Companion, NO VIOLATOR.  With no violator the property's membership clause cannot hold literally: "lower = all satisfiers,
   greater = the violators" would make the greater set empty, and an empty set has no density (the mean over an empty axis is
   NaN; `expected_improvement gamma klow [] = None` in the model), so the density and ratio clauses of the same property would
   fail - this is what the code did before the repair (gamma = 0, NaN ratio, the endpoint died with an AssertionError).  The
   reading of DESIGN 11.5 therefore restricts the membership clause to requests with at least one violator, and the repaired
   view keeps the constructor's estimator here: gamma stays gamma0 (the view passes 0.2), the lower set holds the
   s = max(floor(gamma0 n), 3) observations with the lowest values of the chosen constraint metric, the greater set the
   n - s >= 1 others (for every permutation numpy.argsort may return), both densities are defined and the ratio lies in
   (0, 1/gamma0]. *)
Theorem C16_search_no_violator gamma0 dim pts vals perm thr pf lower greater gamma :
  0 < gamma0 -> gamma0 < 1 -> length vals = length pts ->
  count_true (violations thr pf) = 0%nat ->
  sorting_perm_b vals perm = true ->
  search_model gamma0 dim pts vals perm thr pf = Ok (lower, greater, gamma) ->
  gamma = gamma0 /\
  exists lo gr, form_model gamma0 0 pts vals perm = Ok (lo, gr) /\ lower = map fst lo /\ greater = map fst gr /\
    let n := length pts in
    let s := Z.to_nat (lower_size gamma0 (Z.of_nat n)) in
    Z.of_nat s = Z.max (Qfloor (inject_Z (Z.of_nat n) * gamma0)) 3 /\
    length lower = s /\ length greater = (n - s)%nat /\ (3 <= s)%nat /\ (s < n)%nat /\ (10 <= n)%nat /\
    Permutation (lo ++ gr) (combine pts vals) /\
    (forall a b, In a lo -> In b gr -> snd a <= snd b) /\
    ratio_clause gamma lower greater.
Proof. exact (search_model_no_violator gamma0 dim pts vals perm thr pf lower greater gamma). Qed.
Print Assumptions C16_search_no_violator.

(* Hence EVERY estimator the search view builds (threshold split or constructor's split; any thresholds, NaN thresholds
   included; any sorting permutation) has gamma in (0, 1), two non-empty sets, and satisfies the whole ratio clause: no
   hypothesis about violators is left (before the repair this was `_partial`, with a `_refuted` sibling for gamma = 0). *)
Theorem C16_search_ratio_clause gamma0 dim pts vals perm thr pf lower greater gamma :
  0 < gamma0 -> gamma0 < 1 -> length vals = length pts -> length pf = length pts ->
  sorting_perm_b vals perm = true ->
  search_model gamma0 dim pts vals perm thr pf = Ok (lower, greater, gamma) ->
  0 < gamma /\ gamma < 1 /\ lower <> [] /\ greater <> [] /\ ratio_clause gamma lower greater.
Proof. exact (search_model_ratio_clause gamma0 dim pts vals perm thr pf lower greater gamma). Qed.
Print Assumptions C16_search_ratio_clause.

(* non-vacuity of the three search cases (ten 1-d observations 0..9 with values 0..9; the first instance was the
   counterexample `C16_search_ratio_refuted` of the unrepaired view) *)
Example C16_search_example :
  let rows a n := map (fun k => [inject_Z (Z.of_nat k)]) (seq a n) in
  sorting_perm_b search_witness_vals (seq 0 10) = true /\
  count_true (violations [Some 100] search_witness_pf) = 0%nat /\
  search_model (1 # 5) 1 search_witness_pts search_witness_vals (seq 0 10) [Some 100] search_witness_pf
    = Ok (rows 0 3, rows 3 7, 1 # 5)%nat /\
  count_true (violations [Some 8] search_witness_pf) = 2%nat /\
  search_model (1 # 5) 1 search_witness_pts search_witness_vals (seq 0 10) [Some 8] search_witness_pf
    = Ok (rows 0 8, rows 8 2, 2 # 10)%nat /\
  search_model (1 # 5) 9 search_witness_pts search_witness_vals (seq 0 10) [Some 8] search_witness_pf
    = Ok (rows 0 3, rows 3 7, 1 # 5)%nat /\
  (exists l g r, expected_improvement (1 # 5) [1; 1 # 2; 1 # 4] (repeat (1 # 8) 7) = Some (l, g, r) /\ 0 < r /\ r <= 5).
Proof. exact search_examples. Qed.

(* Tie: a split case accepted by the in-Coq correspondence check (with the argsort permutation NumPy returned) shows the
   implementation's lower_points / greater_points to be, row by row, the points of a model split for which everything in
   C16_split_spec holds. *)
Theorem C16_correspondence_split_sound gamma forget pts vals p lo gr :
  0 <= forget -> length vals = length pts ->
  split_case_ok gamma forget pts vals (Some p) (OOk lo gr) = true ->
  exists lower greater,
    form_model gamma forget pts vals p = Ok (lower, greater) /\
    Forall2 (Forall2 Qeq) (map fst lower) lo /\ Forall2 (Forall2 Qeq) (map fst greater) gr /\
    let m := Z.to_nat (unforgotten forget (length pts)) in
    let s := Z.to_nat (lower_size gamma (unforgotten forget (length pts))) in
    length lower = s /\ length greater = (m - s)%nat /\ (3 <= s)%nat /\ (s < m)%nat /\ (10 <= m <= length pts)%nat /\
    Permutation (lower ++ greater) (kept_obs m pts vals) /\
    (forall a b, In a lower -> In b greater -> snd a <= snd b).
Proof. exact (split_case_ok_sound gamma forget pts vals p lo gr). Qed.
Print Assumptions C16_correspondence_split_sound.

(* non-vacuity: 12 observations with ties and a duplicate point, gamma = 1/4, a sorting permutation that is not the stable
   one; densities, ratio and a lie on concrete kernel rows; bandwidths with a NaN spread *)
Example C16_example :
  let pts := map (fun k => [inject_Z k; 1]) [0; 1; 2; 3; 4; 5; 6; 7; 8; 9; 10; 10]%Z in
  let vals := [5; 3; 3; 9; 1; 3; 7; 8; 2; 6; 4; 3] in
  let perm := [4; 8; 11; 2; 1; 5; 10; 0; 9; 6; 7; 3]%nat in
  sorting_perm_b vals perm = true /\
  (exists lo gr, form_model (1 # 4) 0 pts vals perm = Ok (lo, gr) /\
     map snd lo = [1; 2; 3] /\ length gr = 9%nat /\ map fst lo = [[4; 1]; [8; 1]; [10; 1]]) /\
  form_model (1 # 4) 0 (firstn 9 pts) (firstn 9 vals) (seq 0 9) = ErrInsufficientData /\
  form_model (1 # 2) (1 # 4) pts vals perm = ErrInsufficientData /\
  (exists l g r, expected_improvement (1 # 4) [1; 1 # 2; 1 # 4] [1 # 8; 0] = Some (l, g, r) /\
     r == 1 / ((1 # 4) + (3 # 4) * (g / l)) /\ 0 < r /\ r <= 4) /\
  (exists d d', qmean [1 # 2; 1 # 4] = Some d /\ qmean (append_lie_entries [1 # 2; 1 # 4] [1]) = Some d' /\
     d == 3 # 8 /\ d' == 7 # 12) /\
  one_hot_covariance [1]%nat (Some (3 # 10)) 1 [None; None] = [Some 1; Some 1; Some 1].
Proof.
  cbv zeta. split; [vm_compute; reflexivity|]. split.
  { eexists _, _. split; [vm_compute; reflexivity|]. vm_compute. repeat split; reflexivity. }
  split; [vm_compute; reflexivity|]. split; [vm_compute; reflexivity|]. split.
  { eexists _, _, _. split; [vm_compute; reflexivity|]. vm_compute. repeat split; discriminate. }
  split; [|vm_compute; reflexivity].
  eexists _, _. split; [vm_compute; reflexivity|]. split; [vm_compute; reflexivity|]. vm_compute. split; reflexivity.
Qed.
