(* C04, GP posterior and likelihood — statements about Gen.GenAcq modules GPScalar / LogLikGrad (regenerated from
   gaussian_process.py and log_likelihood.py). *)
From Coq Require Import Reals Lra.
From Coquelicot Require Import Coquelicot.
From LV Require Import Lib.RBase Gen.GenAcq Proofs.GPGrad.
Open Scope R_scope.

(* mean: d(sum_j k_j a_j + sum_c p_c b_c) = sum_j k_j' a_j + sum_c p_c' b_c *)
Theorem C04_gp_mean_grad dim n np x (ke pc : nat -> R -> R) (dke dpc : nat -> R) a b kxx t i k :
  (forall j, (j < n)%nat -> is_derive (ke j) t (dke j)) -> (forall c, (c < np)%nat -> is_derive (pc c) t (dpc c)) ->
  is_derive (fun t => GPScalar.mean dim n np x (fun _ j => ke j t) a b kxx (fun _ c => pc c t) i) t
            (GPScalar.grad_mean dim n np x (fun _ j _ => dke j) a b kxx (fun _ c _ => dpc c) i k).
Proof. exact (gp_mean_grad_is_derivative dim n np x ke pc dke dpc a b kxx t i k). Qed.
Print Assumptions C04_gp_mean_grad.

(* variance: with the cardinal functions c = K^-1 k(t), K^-1 symmetric and k(x,x) constant (translation invariance):
   d(k(x,x) - sum_j k_j c_j) = -2 sum_j k_j' c_j, also for the floored variance where the floor is inactive *)
Theorem C04_gp_var_grad n Kinv (ke : nat -> R -> R) (dke : nat -> R) kxx t dim np (x : nat -> nat -> R) a b i k :
  (forall j l, Kinv j l = Kinv l j) -> (forall j, (j < n)%nat -> is_derive (ke j) t (dke j)) ->
  is_derive (fun u => kxx - bigsum n (fun j => ke j u * cardf n Kinv ke j u)) t
            (GPScalar.grad_var dim n np (fun _ j _ => dke j) (fun _ j => cardf n Kinv ke j t) a b (fun _ => kxx) i k) /\
  (1 / 10 ^ 100 < kxx - bigsum n (fun j => ke j t * cardf n Kinv ke j t) ->
   is_derive (fun u => GPScalar.var dim n np x (fun _ j => ke j u) (fun _ j => cardf n Kinv ke j u) a b (fun _ => kxx) i) t
             (GPScalar.grad_var dim n np (fun _ j _ => dke j) (fun _ j => cardf n Kinv ke j t) a b (fun _ => kxx) i k)).
Proof.
  intros H1 H2. split.
  - exact (gp_var_grad_is_derivative n Kinv ke dke kxx t H1 H2 dim np a b i k).
  - exact (gp_floored_var_grad_is_derivative n Kinv ke dke kxx t H1 H2 dim np x a b i k).
Qed.
Print Assumptions C04_gp_var_grad.

(* log marginal likelihood, PARTIAL: Jacobi's formula (d log det K = tr(K^-1 dK)) and d(r' K^-1 r) = -(a' dK a) — the latter
   combining d(K^-1) = -K^-1 dK K^-1 with the envelope identity P' a = 0 proved in C02 — are hypotheses *)
Theorem C04_loglik_grad_partial n nh a dK Kinv s h (Q D : R -> R) theta :
  is_derive Q theta (- quadform n a dK h) -> is_derive D theta (tracef n dK Kinv h) ->
  is_derive (fun th => - s * (Q th + D th)) theta (LogLikGrad.grad n nh a dK Kinv s (fun _ => 1) h).
Proof. exact (loglik_grad_linear_partial n nh a dK Kinv s h Q D theta). Qed.
Print Assumptions C04_loglik_grad_partial.

(* log parameterisation: d/da L(exp a) = L'(exp a) exp a, the generated log_scaling factor *)
Theorem C04_loglik_grad_log_domain (L : R -> R) (dL al : R) n nh a dK Kinv s h :
  is_derive L (exp al) dL -> dL = LogLikGrad.grad n nh a dK Kinv s (fun _ => 1) h ->
  is_derive (fun u => L (exp u)) al (LogLikGrad.grad n nh a dK Kinv s (fun _ => exp al) h).
Proof. exact (loglik_grad_log_domain L dL al n nh a dK Kinv s h). Qed.
Print Assumptions C04_loglik_grad_log_domain.
