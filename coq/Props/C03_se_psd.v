(* C03, "positive semi-definite Gram matrices", SQUARE-EXPONENTIAL part: for every n, every dimension, every point set and every choice of
   length scales the Gram matrix of the SquareExponential kernel — as built by the three entry points regenerated from covariance.py
   (Gen.GenCovariance.SquareExponential: kernel_matrix_sym with observation noise, kernel_matrix_cross on one point set, the pairwise
   covariance / _covariance) — is positive semi-definite.  More: its entrywise product with ANY positive semi-definite matrix is again
   positive semi-definite ("Schur multiplier"), so the multitask kernel (Gen.GenMultitask._covariance = physical kernel x task kernel,
   the task kernel of the library being a one-dimensional SquareExponential on the task cost) has PSD Gram matrices whenever the physical
   Gram matrix is PSD — no factor of the physical matrix is required — and unconditionally when the physical kernel is SquareExponential.
   Proof (Proofs/SEPsd.v): exp(-|u_a-u_b|^2/2) = g_a exp(<u_a,u_b>) g_b, exp = limit of its series, <u_a,u_b> has the factor u,
   Hadamard.hadamard_psd; no Bochner, no Schoenberg.  The guard "all length scales positive" (what the library enforces, C03_hyper_rejects)
   is stated in every theorem although the proofs do not use it: a negative scale gives the same kernel, and at ls k = 0 the
   statement would only be about Coq's total division, not about the library (see C03_se_gram_psd_any_ls).
   NOT covered: the Matern kernels C0, C2, C4 — PSD of their n x n Gram matrices stays a hypothesis decided by the eigenvalue search.
   Only statements + exact + Print Assumptions here. *)
From Coq Require Import Reals Arith Lra.
From LV Require Import Lib.RBase Gen.GenCovariance Gen.GenMultitask Proofs.Hadamard Proofs.SEPsd.
Open Scope R_scope.

(* build_kernel_matrix(points_sampled, noise_variance): alpha * exp(-d2/2) + noise on the diagonal *)
Theorem C03_se_gram_psd n dim xs ls lsq lcu alpha noise :
  (forall k, 0 < ls k) -> 0 <= alpha -> (forall j, 0 <= noise j) ->
  psdR n (fun a b => SquareExponential.kernel_matrix_sym dim xs noise ls lsq lcu alpha a b).
Proof. exact (SE_sym_gram_psd n dim xs ls lsq lcu alpha noise). Qed.
Print Assumptions C03_se_gram_psd.

(* remark: the guard on the length scales is not used (l and -l give the same kernel; at l = 0 this is a fact about Coq's total
   division only and says nothing about the library, which rejects such hyperparameters) *)
Theorem C03_se_gram_psd_any_ls n dim xs ls lsq lcu alpha noise :
  0 <= alpha -> (forall j, 0 <= noise j) ->
  psdR n (fun a b => SquareExponential.kernel_matrix_sym dim xs noise ls lsq lcu alpha a b).
Proof. exact (SE_sym_gram_psd_any_ls n dim xs ls lsq lcu alpha noise). Qed.
Print Assumptions C03_se_gram_psd_any_ls.

(* stronger: the entrywise product of the SE Gram matrix with any PSD matrix B is PSD *)
Theorem C03_se_gram_schur_multiplier n dim xs ls lsq lcu alpha noise (B : nat -> nat -> R) :
  (forall k, 0 < ls k) -> 0 <= alpha -> (forall j, 0 <= noise j) -> psdR n B ->
  psdR n (fun a b => SquareExponential.kernel_matrix_sym dim xs noise ls lsq lcu alpha a b * B a b).
Proof. exact (fun _ Ha Hn => SE_sym_gram_schur n dim xs noise ls lsq lcu alpha Ha Hn B). Qed.
Print Assumptions C03_se_gram_schur_multiplier.

(* build_kernel_matrix(points_sampled, points_to_sample = the same points): the clamped-expansion path *)
Theorem C03_se_cross_gram_psd n dim xs ls lsq lcu alpha :
  (forall k, 0 < ls k) -> 0 <= alpha ->
  psdR n (fun a b => SquareExponential.kernel_matrix_cross dim xs xs ls lsq lcu alpha a b).
Proof. exact (SE_cross_gram_psd n dim xs ls lsq lcu alpha). Qed.
Print Assumptions C03_se_cross_gram_psd.

(* covariance(x, z)[i] on the pairs (point a, point b) of one point set *)
Theorem C03_se_pairwise_gram_psd n dim xs ls lsq lcu alpha i :
  (forall k, 0 < ls k) -> 0 <= alpha ->
  psdR n (fun a b => SquareExponential.covariance dim (fun _ => xs a) (fun _ => xs b) ls lsq lcu alpha i).
Proof. exact (SE_pair_gram_psd n dim xs ls lsq lcu alpha i). Qed.
Print Assumptions C03_se_pairwise_gram_psd.

(* the step before the limit: every partial sum of the exponential series of a matrix with a factor is PSD *)
Theorem C03_se_partial_sums_psd n m (A L : nat -> nat -> R) N :
  factored n m A L -> psdR n (fun a b => bigsum N (fun p => A a b ^ p / INR (fact p))).
Proof. exact (expS_factored_psd n m A L N). Qed.
Print Assumptions C03_se_partial_sums_psd.

(* multitask kernel, task factor = SquareExponential on the task coordinates ts (dimt = 1 in the library): PSD as soon as the physical
   Gram matrix P is PSD.  This discharges the hypothesis "psdR n T" of C03_multitask_gram_psd AND weakens "P has a factor" to "P is PSD". *)
Theorem C03_multitask_gram_psd_se_task n (P : nat -> nat -> R) dimt ts lst lsqt lcut alphat pg tg ph th :
  (forall k, 0 < lst k) -> psdR n P ->
  psdR n (fun a b => GenMultitask._covariance (fun _ => P a b)
                       (fun i => SquareExponential._covariance dimt (fun _ => ts a) (fun _ => ts b) lst lsqt lcut alphat i) pg tg ph th 0%nat).
Proof. exact (fun _ => multitask_se_task_psd n P dimt ts lst lsqt lcut alphat pg tg ph th). Qed.
Print Assumptions C03_multitask_gram_psd_se_task.

(* the same in the shape of C03_multitask_gram_psd (physical Gram matrix with a factor) *)
Theorem C03_multitask_gram_psd_se_task_factored n m (P L : nat -> nat -> R) dimt ts lst lsqt lcut alphat pg tg ph th :
  (forall k, 0 < lst k) -> factored n m P L ->
  psdR n (fun a b => GenMultitask._covariance (fun _ => P a b)
                       (fun i => SquareExponential._covariance dimt (fun _ => ts a) (fun _ => ts b) lst lsqt lcut alphat i) pg tg ph th 0%nat).
Proof. exact (fun _ => multitask_se_task_factored n m P L dimt ts lst lsqt lcut alphat pg tg ph th). Qed.
Print Assumptions C03_multitask_gram_psd_se_task_factored.

(* physical AND task kernel SquareExponential: unconditional (process variance alpha >= 0 on the product, as the library applies it) *)
Theorem C03_multitask_gram_psd_se_se n dim xs ls lsq lcu alphap dimt ts lst lsqt lcut alphat alpha pg tg ph th :
  (forall k, 0 < ls k) -> (forall k, 0 < lst k) -> 0 <= alpha ->
  psdR n (fun a b => alpha * GenMultitask._covariance
                       (fun i => SquareExponential._covariance dim (fun _ => xs a) (fun _ => xs b) ls lsq lcu alphap i)
                       (fun i => SquareExponential._covariance dimt (fun _ => ts a) (fun _ => ts b) lst lsqt lcut alphat i) pg tg ph th 0%nat).
Proof. exact (fun _ _ => multitask_se_se_psd n dim xs ls lsq lcu alphap dimt ts lst lsqt lcut alphat alpha pg tg ph th). Qed.
Print Assumptions C03_multitask_gram_psd_se_se.

(* the kernel-matrix path of the multitask kernel: physical kernel matrix (with noise) .* task kernel matrix *)
Theorem C03_multitask_kernel_matrix_psd_se_se n dim xs noise ls lsq lcu alpha dimt ts lst lsqt lcut alphat pg tg ph th :
  (forall k, 0 < ls k) -> (forall k, 0 < lst k) -> 0 <= alpha -> 0 <= alphat -> (forall j, 0 <= noise j) ->
  psdR n (fun a b => GenMultitask._covariance
                       (fun _ => SquareExponential.kernel_matrix_sym dim xs noise ls lsq lcu alpha a b)
                       (fun _ => SquareExponential.kernel_matrix_cross dimt ts ts lst lsqt lcut alphat a b) pg tg ph th 0%nat).
Proof. exact (fun _ _ => multitask_se_se_matrix_psd n dim xs noise ls lsq lcu alpha dimt ts lst lsqt lcut alphat pg tg ph th). Qed.
Print Assumptions C03_multitask_kernel_matrix_psd_se_se.

(* the other reading of the same fact: SE x SE on disjoint coordinate blocks is ONE SquareExponential kernel on the concatenated
   coordinates with the concatenated length scales *)
Theorem C03_se_product_is_se dim dimt x z t s ls lst lsq lcu alpha lsq' lcu' alpha' lsq'' lcu'' alpha'' i :
  SquareExponential._covariance dim x z ls lsq lcu alpha i * SquareExponential._covariance dimt t s lst lsq' lcu' alpha' i
  = SquareExponential._covariance (dim + dimt) (fun j => cat dim (x j) (t j)) (fun j => cat dim (z j) (s j)) (cat dim ls lst)
      lsq'' lcu'' alpha'' i.
Proof. exact (SE_product_is_SE dim dimt x z t s ls lst lsq lcu alpha lsq' lcu' alpha' lsq'' lcu'' alpha'' i). Qed.
Print Assumptions C03_se_product_is_se.

(* non-vacuity: three points (0,0), (1,2), (3,-1) in the plane, length scales (1/2, 2), alpha = 3, noise (0, 1/10, 1/100) *)
Definition ex_xs (a k : nat) : R :=
  match a, k with O, _ => 0 | S O, O => 1 | S O, _ => 2 | _, O => 3 | _, _ => -1 end.
Definition ex_ls (k : nat) : R := match k with O => 1/2 | _ => 2 end.
Definition ex_noise (j : nat) : R := match j with O => 0 | S O => 1/10 | _ => 1/100 end.
Example C03_se_gram_psd_example :
  (forall k, 0 < ex_ls k) /\ 0 <= 3 /\ (forall j, 0 <= ex_noise j) /\
  psdR 3 (fun a b => SquareExponential.kernel_matrix_sym 2 ex_xs ex_noise ex_ls ex_ls ex_ls 3 a b) /\
  SquareExponential.kernel_matrix_sym 2 ex_xs ex_noise ex_ls ex_ls ex_ls 3 0 1 = 3 * exp (- (5 / 2)) /\
  SquareExponential.kernel_matrix_sym 2 ex_xs ex_noise ex_ls ex_ls ex_ls 3 1 1 = 3 + 1 / 10.
Proof.
  assert (Hl : forall k, 0 < ex_ls k) by (intros [|k]; simpl; lra).
  assert (Hn : forall j, 0 <= ex_noise j) by (intros [|[|j]]; simpl; lra).
  repeat split; try assumption; try lra.
  - apply C03_se_gram_psd; [assumption|lra|assumption].
  - unfold SquareExponential.kernel_matrix_sym; simpl. rewrite Rplus_0_r. f_equal. f_equal. field.
  - unfold SquareExponential.kernel_matrix_sym; simpl.
    replace (- (1 / 2) * (0 + (1 / (1 / 2) - 1 / (1 / 2)) * ((1 / (1 / 2) - 1 / (1 / 2)) * 1) + (2 / 2 - 2 / 2) * ((2 / 2 - 2 / 2) * 1))) with 0 by field.
    rewrite exp_0. ring.
Qed.
