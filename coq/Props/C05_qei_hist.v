(* C05, Monte-Carlo parallel expected improvement on a LIVE object: histories in which the predictor's data change after the object
   was built (gp.append_lie_data, gp.update_historical_data: the same predictor object answers differently) and the pending points
   are re-assigned, with evaluations in between.  Statements about Model.ParallelEIHist (the object keeps the incumbent of its
   construction, its pending points and the iteration counts; everything else is asked of the predictor at every evaluation), tied to
   the running class by the op-sequence correspondence Model.ParallelEIHistCorr.  Only statements, each closed by `exact`. *)
From Coq Require Import List QArith Bool Arith.
From LV Require Import Model.ParallelEI Model.ParallelEIHist Proofs.ParallelEI Proofs.ParallelEIHist.
Import ListNotations.
Open Scope Q_scope.

(* after ANY history the predictor in force is the one named last and the object differs from the constructed one only in the pending
   points assigned last: evaluations, earlier predictors and earlier pending sets leave nothing behind *)
Theorem C05_qei_hist_state ops p o :
  state_after p o ops = (last_predictor p ops, mkobj (o_q o) (last_pending (o_pending o) ops) (o_best o) (o_N o) (o_B o)).
Proof. exact (state_after_spec ops p o). Qed.
Print Assumptions C05_qei_hist_state.

(* every evaluation inside a history is the evaluation of an object constructed with the pending points held now, on the predictor as it
   answers now; when that predictor reports the incumbent the object was built with (lie data carry the worst observed value), it IS the
   freshly constructed object *)
Theorem C05_qei_hist_eval_is_fresh p0 q pend0 N B ops1 sets e st ops2 :
  let p := last_predictor p0 ops1 in
  let pend := last_pending pend0 ops1 in
  nth (count_evals ops1) (run p0 (construct p0 q pend0 N B) (ops1 ++ QEval sets e st :: ops2)) [] = eval p (construct p0 q pend N B) sets e st /\
  (p_best p = p_best p0 -> construct p0 q pend N B = construct p q pend N B).
Proof. exact (hist_eval_is_fresh p0 q pend0 N B ops1 sets e st ops2). Qed.
Print Assumptions C05_qei_hist_eval_is_fresh.

(* the reading of one estimate inside a history (direct and public entry): the mean over the executed draws of its call of
   max(0, best - min_j (m - L z)_j) with m = the means the predictor answers NOW for candidate set k and for the pending points held NOW,
   L = the factor of the joint covariance it answers NOW for their union, best = the incumbent of the construction *)
Theorem C05_qei_hist_estimate p o sets entry stream k :
  (forall s, In s sets -> length s = o_q o) -> (0 < o_q o + length (o_pending o))%nat -> (0 < o_N o)%nat -> (0 < o_B o)%nat -> (k < length sets)%nat ->
  let c := (o_q o + length (o_pending o))%nat in
  let bs := match entry with Some (Some b0) => if (b0 =? 0)%nat then length sets else b0 | _ => length sets end in
  let sk := nth k sets [] in
  nth k (eval p o sets entry stream) 0 ==
  set_estimate c (map (mean_of (p_means p)) sk, fac_of (p_facs p) (sk ++ o_pending o)) (mp_now p o) (o_best o)
    (executed_draws (o_N o) (o_B o) c (skipn ((k / bs) * (n_exec (o_N o) (o_B o) * c)) stream)).
Proof. exact (hist_estimate_reading p o sets entry stream k). Qed.
Print Assumptions C05_qei_hist_estimate.

(* a concrete history (hypotheses satisfiable): one candidate point, one pending point; evaluate, the predictor's data change (the mean of
   the pending point drops from 1 to -1), evaluate again on the same draws: the estimate follows the predictor *)
Example C05_qei_hist_example :
  let pA := mkpred 0 [([0], 1); ([1], 1)] [([[0]; [1]], [[1; 0]; [0; 1]])] in
  let pB := mkpred 0 [([0], 1); ([1], -1)] [([[0]; [1]], [[1; 0]; [0; 1]])] in
  map (map Qred) (run pA (construct pA 1 [[1]] 2 2) [QEval [[[0]]] None [0; 0; 1; 0]; QPredictor pB; QEval [[[0]]] None [0; 0; 1; 0]])
  = [[0]; [1]].
Proof. vm_compute. reflexivity. Qed.
