(* C11, likelihood value — statements about Gen.GenGP (regenerated from log_likelihood.py and gaussian_process.py). *)
From mathcomp Require Import all_ssreflect all_algebra.
From LV Require Import Lib.MxAux Gen.GenGP Proofs.GP.
Set Implicit Arguments. Unset Strict Implicit. Unset Printing Implicit Defensive.
Import GRing.Theory Num.Theory.
Local Open Scope ring_scope.

(* The returned number is -scale * (r^T K^-1 r + log det K), with log det K := 2 * sum(log(diag(chol K))) (the contract on
   the Cholesky diagonal), for the residual r and K^-1 r the GP computed. *)
Theorem C11_loglik_value (F : realFieldType) (n : nat) (chol : 'M[F]_n -> 'M[F]_n) (sumlogdiag : 'M[F]_n -> F)
        (K : 'M[F]_n) (r : 'cV[F]_n) (scaling_factor : F) :
  LogLik.log_likelihood_value chol sumlogdiag K r (invmx K *m r) scaling_factor =
  - scaling_factor * ((r^T *m invmx K *m r) 0 0 + 2%:R * sumlogdiag (chol K)).
Proof. exact: loglik_value. Qed.
Print Assumptions C11_loglik_value.

(* r is the GLS-demeaned residual y - P b of C02 and the GP's K_inv_demeaned_y is K^-1 r, with K built from the observation
   noise; or from the nugget when one is given (auto-noise), and then the noise is absent *)
Theorem C11_residual_noise (F : realFieldType) (n p : nat) (Kker : 'M[F]_n) (noise y : 'cV[F]_n) (Pmx : 'M[F]_(n,p)) :
  GPNoise.K_inv_demeaned_y Kker noise y Pmx = invmx (Kker + diag_mx noise^T) *m GPNoise.demeaned_y Kker noise y Pmx /\
  GPNoise.demeaned_y Kker noise y Pmx = y - Pmx *m GPNoise.poly_coef Kker noise y Pmx.
Proof. split; [exact: noise_residual|by []]. Qed.
Print Assumptions C11_residual_noise.

Theorem C11_residual_nugget (F : realFieldType) (n p : nat) (Kker : 'M[F]_n) (tik : F) (y : 'cV[F]_n) (Pmx : 'M[F]_(n,p)) :
  GPNugget.kernel_matrix Kker tik = Kker + tik%:M /\
  GPNugget.K_inv_demeaned_y Kker tik y Pmx = invmx (GPNugget.kernel_matrix Kker tik) *m GPNugget.demeaned_y Kker tik y Pmx.
Proof. split; [exact: nugget_K|exact: (@a_is_Kinv_residual F n p (GPNugget.kernel_matrix Kker tik) Pmx y)]. Qed.
Print Assumptions C11_residual_nugget.
