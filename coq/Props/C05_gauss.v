(* C05, Gaussian-integral part — the assumption "forall z, 0 < Phi z < 1" of Props/C05.v and the word "partial" in
   C05_ei_incumbent_derivative_partial are discharged: the Gaussian integral is proved in Lib/Gauss.v (no axioms beyond the
   standard library's real numbers), the tail bound and the integral identity in Proofs/AcqGauss.v.
   Statements about Lib.RBase.pdf / Phi and Gen.GenAcq (regenerated on every run). *)
From Coq Require Import Reals Lra.
From Coquelicot Require Import Coquelicot.
From LV Require Import Lib.RBase Lib.Gauss Gen.GenAcq Proofs.Acq Proofs.AcqGauss.
Open Scope R_scope.

(* int_0^oo exp(-t^2) dt = sqrt(PI)/2, and the standard normal density has mass 1/2 on [0, oo) *)
Theorem C05_gaussian_integral :
  is_lim (fun x => RInt (fun t => exp (- t ^ 2)) 0 x) p_infty (sqrt PI / 2) /\
  is_lim (fun x => RInt pdf 0 x) p_infty (1 / 2).
Proof. split; [exact gauss_integral_half|exact pdf_integral_half]. Qed.
Print Assumptions C05_gaussian_integral.

(* Phi(z) = 1/2 + int_0^z pdf is a probability *)
Theorem C05_Phi_range : forall z, 0 < Phi z < 1.
Proof. exact Phi_range. Qed.
Print Assumptions C05_Phi_range.

(* Phi is a distribution function: limits 1 and 0 at +oo and -oo, symmetric *)
Theorem C05_Phi_limits :
  is_lim Phi p_infty 1 /\ is_lim Phi m_infty 0 /\ (forall z, Phi (- z) = 1 - Phi z).
Proof. split; [exact Phi_lim_p|split; [exact Phi_lim_m|exact Phi_sym]]. Qed.
Print Assumptions C05_Phi_limits.

(* Gaussian tail (Mills ratio) and what it gives for G z = z Phi z + pdf z: G -> 0 at -oo and G > 0 everywhere, so the clamp
   max(0, .) of the generated EI value is never active and the value is positive when the variance is *)
Theorem C05_gaussian_tail dim x mean var gmean gvar best i :
  (forall z, z < 0 -> Phi z <= pdf z / (- z)) /\
  is_lim G m_infty 0 /\ (forall z, 0 < G z) /\
  EI.value dim x mean var gmean gvar best i = sqrt (var i) * G ((best - mean i) / sqrt (var i)) /\
  (0 < var i -> 0 < EI.value dim x mean var gmean gvar best i).
Proof.
  split; [exact Phi_mills|split; [exact G_lim_m|split; [exact G_pos|split]]].
  - exact (ei_value_no_clamp dim x mean var gmean gvar best i).
  - exact (ei_value_pos dim x mean var gmean gvar best i).
Qed.
Print Assumptions C05_gaussian_tail.

(* sigma G((best - mu)/sigma) IS E[max(best - Y, 0)] for Y ~ N(mu, sigma^2) (density pdf((y - mu)/sigma)/sigma, which is positive
   and has total mass 1):
   (1) as the limit, a -> -oo, of the proper Riemann integrals of (best - y) * density over [a, best];
   (2) the same as Coquelicot's generalised Riemann integral over (-oo, best];
   (3) as the generalised Riemann integral of max(best - y, 0) * density over the whole real line. *)
Theorem C05_ei_is_expected_improvement mu sigma best : 0 < sigma ->
  is_lim (fun a => RInt (fun y => (best - y) * pdf ((y - mu) / sigma) / sigma) a best) m_infty (sigma * G ((best - mu) / sigma)) /\
  is_RInt_gen (fun y => (best - y) * (pdf ((y - mu) / sigma) / sigma)) (Rbar_locally m_infty) (at_point best)
              (sigma * G ((best - mu) / sigma)) /\
  is_RInt_gen (fun y => Rmax (best - y) 0 * (pdf ((y - mu) / sigma) / sigma)) (Rbar_locally m_infty) (Rbar_locally p_infty)
              (sigma * G ((best - mu) / sigma)) /\
  (forall y, 0 < pdf ((y - mu) / sigma) / sigma) /\
  is_RInt_gen (fun y => pdf ((y - mu) / sigma) / sigma) (Rbar_locally m_infty) (Rbar_locally p_infty) 1.
Proof.
  intros Hs. split; [exact (ei_is_expected_improvement_lim' mu sigma best Hs)|split].
  - exact (ei_is_expected_improvement_gen mu sigma best Hs).
  - split; [exact (ei_is_expected_improvement_line mu sigma best Hs)|split].
    + exact (ndens_pos mu sigma Hs).
    + exact (ndens_total_mass mu sigma Hs).
Qed.
Print Assumptions C05_ei_is_expected_improvement.

(* the normal-CDF success-probability model lies in (0,1): last conjunct of C05_success_probabilities without its hypothesis
   (0 < var i is kept because the model is only meaningful there; the range statement itself needs no hypothesis) *)
Theorem C05_cdf_model_range_unconditional dim x mean var gmean gvar thr i :
  0 < var i -> 0 < CDF.value dim x mean var gmean gvar thr i < 1.
Proof. intros _. exact (cdf_model_range_unconditional dim x mean var gmean gvar thr i). Qed.
Print Assumptions C05_cdf_model_range_unconditional.
