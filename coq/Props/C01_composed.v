(* C01 composed with C07 and C08: the optimiser / sampler stage in front of the endpoint tails of Props/C01.v.
   Only statements, each closed by `exact`, with Print Assumptions beneath.

   Models: LV.Model.Compose01 (glue: the relaxed search domain in C08's / C07's types, the one-hot sampler, the optimiser
   stage of the GP endpoint, the proposal loop of the Parzen endpoint, the end-to-end endpoints) over LV.Model.Restrict /
   Samplers (C08), LV.Model.Optim (C07), LV.Model.EndpointTail (C01).  Vocabulary (LV.Proofs.Compose01):

   oh_dom d            the one-hot ContinuousDomain of d as a C08 domain: bounds one_hot_box d, EVERY constraint of d (double-
                       and int-typed) with its weights spread over the relaxed coordinates
   RP.feasible D p     C08's region: p in the bounds of D and  weights . p >= rhs  for every constraint, EXACTLY (rationals);
                       on the running code C01 / C08 read constraints within 1e-9 * max(1,|rhs|) (DESIGN 7.0)
   RP.interior D c     c has the right length and is strictly inside every halfspace row (what find_interior_point returns
                       when it reports feasibility, C08_cheby_flag_gives_interior)
   cons_two d          every constraint has two or more non-zero weights (C08's quantifier; DESIGN 11.5: a one-variable
                       constraint is a bound and is not enforced by restrict_points_using_constraints)
   unit_stream us      every uniform handed to a restriction lies in [0,1];  vorc_ok, mode_ok: that for each optimiser run
   samp_ok d n o       range contracts of the primitive draws of the one-hot sampler (unit rows in [0,1], Latin-hypercube
                       offsets in [0,1/n) and permutations, hit-and-run draw triples, enough of them when padding runs)
   quasi_prim, random_prim, fill_prim, near_prim, spe_prim
                       the same for generate_quasi_random_points_in_domain / priors / generate_distinct_random_points /
                       generate_random_points_near_point / draw_samples: ranges of numpy / scipy draws only.
   No hypothesis of the form `relaxed_ok d x` is left. *)
From Coq Require Import List QArith ZArith Bool Arith SetoidList Permutation.
From LV Require Import Model.Domain Model.Decode Model.EndpointTail Proofs.Domain Proofs.Decode Proofs.EndpointTail.
From LV Require Import Model.Compose01 Proofs.Compose01.
Import ListNotations.
Open Scope Q_scope.

(* ---- bridges between the three domain vocabularies *)
(* C08 -> C01: a point of C08's region of the search domain is what the tails ask for. *)
Theorem C01_composed_feasible_is_relaxed_ok d p : RP.feasible (oh_dom d) p -> relaxed_ok d p.
Proof. exact (feasible_relaxed_ok d p). Qed.
Print Assumptions C01_composed_feasible_is_relaxed_ok.

(* C07 -> C01: C07's boolean domain test (Model/Optim.v in_dom_b, the one its correspondence evaluates on every batch the
   real optimisers hand to the acquisition function) on the representation derived from d - lower / upper bounds of the
   relaxed box, any fixed coordinates, every constraint - gives the box exactly and every constraint within the tolerance
   tol that test was run with; at tol = 0 it gives relaxed_ok.  (C07's THEOREMS are generic in the domain predicate and
   carry no tolerance: below they are instantiated with C08's exact region.) *)
Theorem C01_composed_in_dom_b_tolerance tol d fixed p :
  OP.in_dom_b tol (oh_lb d) (oh_ub d) fixed (oh_cons d) p = true -> relaxed_ok_tol tol d p.
Proof. exact (in_dom_b_relaxed tol d fixed p). Qed.
Print Assumptions C01_composed_in_dom_b_tolerance.
Theorem C01_composed_in_dom_b_exact d fixed p :
  OP.in_dom_b 0 (oh_lb d) (oh_ub d) fixed (oh_cons d) p = true -> relaxed_ok d p.
Proof. exact (in_dom_b_relaxed_ok d fixed p). Qed.
Print Assumptions C01_composed_in_dom_b_exact.

(* ---- the two contracts C07 asks of the restriction hold for C08's restriction of the search domain, for EVERY batch:
   every returned row of the right length is in the region (okpt d q := length q = oh_dim d -> RP.feasible (oh_dom d) q) *)
Theorem C01_composed_restriction_contract d fixed c us : wf_domain d = true -> cons_two d ->
  (is_constrained d = true -> RP.interior (oh_dom d) c) -> (forall k, Forall RP.unit_interval (us k)) ->
  RP.fixed_valid (oh_dom d) fixed ->
  (forall k b, Forall (okpt d) (oh_restrict d fixed c us k b)) /\ (forall k b, length (oh_restrict d fixed c us k b) = length b).
Proof. exact (oh_restrict_contract d fixed c us). Qed.
Print Assumptions C01_composed_restriction_contract.

(* the a-priori task as a fixed last coordinate of the domain with the task column is a valid fixed index *)
Theorem C01_composed_task_fixed_valid d opts t : wf_domain d = true -> In t opts ->
  RP.fixed_valid (oh_dom (with_task d opts)) (task_fixed d t).
Proof. exact (task_fixed_valid d opts t). Qed.
Print Assumptions C01_composed_task_fixed_valid.

(* ---- the one-hot sampler (all four branches): n feasible rows *)
Theorem C01_composed_sampler_feasible d c n o rows : wf_domain d = true ->
  (is_constrained d = true -> RP.interior (oh_dom d) c) -> samp_ok d n o -> oh_sample d c n o = Some rows ->
  Forall (RP.feasible (oh_dom d)) rows /\ length rows = n.
Proof. exact (oh_sample_ok d c n o rows). Qed.
Print Assumptions C01_composed_sampler_feasible.

(* ---- the optimiser stage of the GP endpoint: for every PARTIAL acquisition function (row -> option Q, None = NaN, as in C07's
   model; of the lies appended so far; a batch without any defined value ends the stage in SErr (SOpt ValueError)), every
   incumbent, every optimiser parameter set, every pretest set and every stream of draws, every point the stage returns
   lies in the relaxed box and satisfies every constraint; the count is the requested one.
   One call of vectorized_acquisition_optimization first ... *)
Theorem C01_composed_vec_acq_opt d fixed c af best_obs P pretest o p : stage_ctx d fixed c -> vorc_ok o ->
  vec_acq_opt d fixed c af best_obs P pretest o = SOk p -> length p = oh_dim d -> RP.feasible (oh_dom d) p.
Proof. exact (vec_acq_opt_okpt d fixed c af best_obs P pretest o p). Qed.
Print Assumptions C01_composed_vec_acq_opt.
(* ... then the constant-liar loop, the one-suggestion parallel-EI run and the search endpoint's own loop. *)
Theorem C01_composed_gp_stage_relaxed_ok D fixed c afl best n m xs : stage_ctx D fixed c -> mode_ok m ->
  gp_stage D fixed c afl best n m = SOk xs -> Forall (relaxed_ok D) xs /\ length xs = n.
Proof. exact (gp_stage_relaxed_ok D fixed c afl best n m xs). Qed.
Print Assumptions C01_composed_gp_stage_relaxed_ok.

(* ---- END TO END.  resp_ok d opts n r: every point of r Admissible d, the count rule, the task-cost rule. *)
(* random endpoint (and the random / initialisation branches of the Parzen endpoints) *)
Theorem C01_composed_random_endpoint d opts ps n pcols c so cols dec draws r : wf_domain d = true -> (0 <= n)%Z ->
  (is_constrained d = true -> RP.interior (oh_dom d) c) -> random_prim d ps n pcols c so cols dec ->
  (opts <> [] -> draws_ok opts (length (r_points r)) draws) ->
  random_endpoint d opts ps n pcols c so cols dec draws = Some r -> resp_ok d opts (Z.to_nat n) r.
Proof. exact (random_endpoint_admissible d opts ps n pcols c so cols dec draws r). Qed.
Print Assumptions C01_composed_random_endpoint.

(* GP endpoint without task options, both parallelism modes (and the search endpoint's own optimisation as a third mode).
   afl: the partial acquisition function the optimisers see; aft: the function as the discrete neighbour search of the tail
   sees it - Model/EndpointTail.v models that search for total functions only, so it is a separate arbitrary argument *)
Theorem C01_composed_gp_endpoint d c afl aft best n m hist dec f r :
  wf_domain d = true -> cons_two d -> (is_constrained d = true -> RP.interior (oh_dom d) c) -> mode_ok m ->
  (n <= length (o_cats dec))%nat ->
  (forall xs pts, gp_stage d [] c afl best n m = SOk xs -> convert_from_one_hot d (is_qei m) aft dec xs = Some pts ->
     fill_prim d c (fill_k d pts hist) hist f) ->
  gp_endpoint d c afl aft best n m hist dec f = Some r -> resp_ok d [] n r.
Proof. exact (gp_endpoint_admissible d c afl aft best n m hist dec f r). Qed.
Print Assumptions C01_composed_gp_endpoint.

(* GP endpoint with task options: search domain with the task column, fixed at the task t drawn a priori *)
Theorem C01_composed_gp_endpoint_multitask d opts t ct afl aft best n P pretest os hist_oh dec hdec f r :
  wf_domain d = true -> opts <> [] -> list_min opts < list_max opts -> In t opts -> cons_two d ->
  (is_constrained d = true -> RP.interior (oh_dom (with_task d opts)) ct) -> Forall vorc_ok os ->
  (n <= length (o_cats dec))%nat ->
  (forall xs pts aug, cl_stage (with_task d opts) (task_fixed d t) ct afl best P pretest n os = SOk xs ->
     convert_from_one_hot (with_task d opts) false aft dec xs = Some pts ->
     decode_b (with_task d opts) hdec hist_oh = Some aug ->
     fill_prim (with_task d opts) ct (fill_k (with_task d opts) pts aug) aug f) ->
  gp_endpoint_mt d opts t ct afl aft best n P pretest os hist_oh dec hdec f = Some r -> resp_ok d opts n r.
Proof. exact (gp_endpoint_mt_admissible d opts t ct afl aft best n P pretest os hist_oh dec hdec f r). Qed.
Print Assumptions C01_composed_gp_endpoint_multitask.

(* Parzen-estimator endpoint: proposals around the lower points (near point / uniform fall-back), accept / reject, padding *)
Theorem C01_composed_spe_endpoint d opts ps path n c g r : wf_domain d = true -> (0 <= n)%Z -> cons_two d ->
  (is_constrained d = true -> RP.interior (oh_dom d) c) ->
  match path with
  | SPERandom => random_prim d ps n (sg_pcols g) c (sg_rso g) (sg_rcols g) (sg_rdec g)
  | SPEDraw => spe_prim d c (Z.to_nat n) g
  end ->
  (opts <> [] -> draws_ok opts (length (r_points r)) (sg_draws g)) ->
  spe_endpoint d opts ps path n c g = Some r -> resp_ok d opts (Z.to_nat n) r.
Proof. exact (spe_endpoint_admissible d opts ps path n c g r). Qed.
Print Assumptions C01_composed_spe_endpoint.
(* whatever the SLSQP / L-BFGS-B multistart returned (any rows of the right length), re-restricted it is feasible *)
Theorem C01_composed_spe_max_location d c scipy_out us : wf_domain d = true -> cons_two d ->
  (is_constrained d = true -> RP.interior (oh_dom d) c) -> Forall RP.unit_interval us ->
  Forall (fun p => length p = oh_dim d) scipy_out -> Forall (RP.feasible (oh_dom d)) (spe_max_location d c scipy_out us).
Proof. exact (spe_max_location_feasible d c scipy_out us). Qed.
Print Assumptions C01_composed_spe_max_location.

(* search endpoints (requests without task options) *)
Theorem C01_composed_search_endpoint d c ph u afl aft best n m afl_pi aft_pi Pde maxiter pretest sos hist dec f r :
  wf_domain d = true -> cons_two d -> (is_constrained d = true -> RP.interior (oh_dom d) c) ->
  mode_ok m -> Forall (fun o => unit_stream (so_us o)) sos -> (n <= length (o_cats dec))%nat ->
  (forall afl' aft' m' xs pts, gp_stage d [] c afl' best n m' = SOk xs -> convert_from_one_hot d (is_qei m') aft' dec xs = Some pts ->
     fill_prim d c (fill_k d pts hist) hist f) ->
  search_endpoint d c ph u afl aft best n m afl_pi aft_pi Pde maxiter pretest sos hist dec f = Some r -> resp_ok d [] n r.
Proof. exact (search_endpoint_admissible d c ph u afl aft best n m afl_pi aft_pi Pde maxiter pretest sos hist dec f r). Qed.
Print Assumptions C01_composed_search_endpoint.
Theorem C01_composed_spe_search_endpoint d ps ph path n c g r : wf_domain d = true -> (0 <= n)%Z -> cons_two d ->
  (is_constrained d = true -> RP.interior (oh_dom d) c) ->
  match ph, path with
  | SInit, _ | SExploit, SPERandom => random_prim d ps n (sg_pcols g) c (sg_rso g) (sg_rcols g) (sg_rdec g)
  | _, _ => spe_prim d c (Z.to_nat n) g
  end ->
  spe_search_endpoint d ps ph path n c g = Some r -> resp_ok d [] (Z.to_nat n) r.
Proof. exact (spe_search_endpoint_admissible d ps ph path n c g r). Qed.
Print Assumptions C01_composed_spe_search_endpoint.

(* non-vacuity: x + y <= 3 in [0,2]^2 with a two-valued categorical (relaxed dimension 4, centre (1/2,1/2,1/2,1/2)).
   Random endpoint: rejection sampling keeps two of three candidates. *)
Example C01_composed_random_example :
  wf_domain cx_dom = true /\ RP.interior (oh_dom cx_dom) cx_c /\ random_prim cx_dom [] 2 [] cx_c cx_so [] cx_dec /\
  random_endpoint cx_dom [] [] 2 [] cx_c cx_so [] cx_dec [] = Some {| r_points := [[2#2; 2#4; 1]; [2#4; 2#2; 2]]; r_costs := None |}.
Proof. exact random_endpoint_example. Qed.
(* GP endpoint: two constant-liar rounds (one DE generation of three members, near-best + random ES starts, one Adam step);
   the first suggestion is pulled onto the face x + y = 3 by the constrained restriction, duplicates the history after the
   decode and is replaced by a fresh point of the rejection sampler.  The acquisition function cx_af is undefined (NaN) for
   y > 3/2; with a function that has no value anywhere the stage ends in the ValueError of numpy.nanargmax. *)
Example C01_composed_gp_example :
  wf_domain cx_dom = true /\ cons_two cx_dom /\ RP.interior (oh_dom cx_dom) cx_c /\ mode_ok cx_mode /\
  gp_stage cx_dom [] cx_c cx_af (fun _ => [1; 1; 1; 0]) 2 cx_mode = SOk [[7#4; 5#4; 1; 0]; [3#2; 1; 1#4; 3#4]] /\
  fill_prim cx_dom cx_c 1 cx_hist cx_fill /\
  gp_endpoint cx_dom cx_c cx_af cx_aft (fun _ => [1; 1; 1; 0]) 2 cx_mode cx_hist cx_dec cx_fill
  = Some {| r_points := [[3#2; 1; 2]; [2#8; 2#4; 2]]; r_costs := None |} /\
  gp_stage cx_dom [] cx_c (fun _ _ => None) (fun _ => [1; 1; 1; 0]) 2 cx_mode = SErr (SOpt OP.ValueError).
Proof. exact gp_endpoint_example. Qed.
