(* C04 composed: gradient of the log marginal likelihood with the kernel's own hyperparameter-gradient tensor, for the library's kernels.

   C04_loglik_grad_full (Props/C04_loglik.v) proves that the regenerated log-likelihood value is differentiable in a hyperparameter and that
   the regenerated gradient is its derivative, UNDER the hypothesis
       forall i j, is_derive (fun t => Kker t i j) x (dKt h i j)
   (kernel-matrix entries differentiable, tensor slice = derivative).  C04_kernels (Props/C04_kernels.v) proves, for the pairwise entry
   points covariance / hyperparameter_grad_covariance of each kernel, that column 0 is d/d alpha and column S k0 is d/d (length scale k0).
   Here the two are composed: for SquareExponential, C2RadialMatern and C4RadialMatern (the default kernel) that hypothesis is DISCHARGED
   for the regenerated matrix entry points (Gen.GenCovariance.<Kernel>.kernel_matrix_sym / kernel_hparam_grad_tensor_sym), so that

       the value compute_log_likelihood returns, as a function of hyperparameter number h (others fixed), is differentiable at theta h and
       its derivative is entry h of compute_grad_log_likelihood, the loop being fed build_kernel_hparam_grad_tensor ITSELF,

   with only these hypotheses left: the Cholesky contract near theta h (L L' = K, L lower triangular, positive diagonal), P' K^-1 P invertible
   (polynomial mean), and for a length-scale hyperparameter h = S k0 the guard of C04_kernels: k0 < dim, theta h > 0, lcu k0 = (theta h)^3
   (set_hyperparameters stores the cubes; the derivative of 1/l^2 does not exist at l = 0).  Nothing is asked of h = 0 (alpha).

   Conventions: theta : nat -> R is the hyperparameter vector, theta 0 = alpha (process variance), theta (S k) = length scale k;
   upd theta h t replaces coordinate h by t (LogLikFull.upd); the kernel part of the kernel matrix is
       Kfun th = \matrix_(i, j) <Kernel>.kernel_matrix_sym dim xs (zero noise) (fun k => th (S k)) lsq lcu (th 0) i j
   (GenGP's kernel_matrix adds the noise / nugget itself); lsq, lcu are the cached squares / cubes the generated functions take as separate
   arguments (the value does not read them; the tensor reads lcu (h - 1)).  mxv / cvv: nat-indexed views of a matrix / column.
   Axioms: the Reals axioms, classic, functional extensionality, constructive_indefinite_description (choiceType structure on R, RStruct).
   This file: the entry-by-entry statement for the three kernels and the SquareExponential theorems; Props/C04_loglik_matern.v: the same
   theorems for C4RadialMatern (the default kernel) and C2RadialMatern (split to keep Print Assumptions fast).
   Only statements + exact + Print Assumptions here (proofs: Proofs/ComposeLogLik.v). *)
From Coq Require Import Reals.
From Coquelicot Require Import Coquelicot.
From mathcomp Require Import all_ssreflect all_fingroup all_algebra.
From LV Require Import Lib.RBase Lib.MxAux Lib.RStruct Lib.RMxDeriv Gen.GenGP Gen.GenAcq Gen.GenCovariance Proofs.LogLikFull Proofs.ComposeLogLik.
Set Implicit Arguments. Unset Strict Implicit. Unset Printing Implicit Defensive.
Import GRing.Theory.
Local Open Scope ring_scope.

(* the guard of C04_kernels on hyperparameter h (vacuous for h = 0) *)
Definition hparam_guard (dim : nat) (lcu theta : nat -> R) (h : nat) : Prop :=
  forall k0, h = S k0 -> (k0 < dim)%coq_nat /\ Rlt 0 (theta h) /\ lcu k0 = (theta h ^ 3)%Re.

(* THE DISCHARGED HYPOTHESIS, entry by entry, for any two points j, j2 and any (constant) noise nz on the diagonal *)
Theorem C04_kernel_matrix_entries_differentiable dim nh xs nz lsq lcu theta h j j2 :
  hparam_guard dim lcu theta h ->
  is_derive (fun t => SquareExponential.kernel_matrix_sym dim xs nz (fun k => LogLikFull.upd theta h t (S k)) lsq lcu (LogLikFull.upd theta h t 0%N) j j2)
            (theta h) (SquareExponential.kernel_hparam_grad_tensor_sym dim nh xs (fun k => theta (S k)) lsq lcu (theta 0%N) j j2 h) /\
  is_derive (fun t => C2RadialMatern.kernel_matrix_sym dim xs nz (fun k => LogLikFull.upd theta h t (S k)) lsq lcu (LogLikFull.upd theta h t 0%N) j j2)
            (theta h) (C2RadialMatern.kernel_hparam_grad_tensor_sym dim nh xs (fun k => theta (S k)) lsq lcu (theta 0%N) j j2 h) /\
  is_derive (fun t => C4RadialMatern.kernel_matrix_sym dim xs nz (fun k => LogLikFull.upd theta h t (S k)) lsq lcu (LogLikFull.upd theta h t 0%N) j j2)
            (theta h) (C4RadialMatern.kernel_hparam_grad_tensor_sym dim nh xs (fun k => theta (S k)) lsq lcu (theta 0%N) j j2 h).
Proof.
  move=> H. split; last split.
  - exact: (kernel_entry_derive SE_entries_ok nh xs lsq nz j j2 H).
  - exact: (kernel_entry_derive C2_entries_ok nh xs lsq nz j j2 H).
  - exact: (kernel_entry_derive C4_entries_ok nh xs lsq nz j j2 H).
Qed.
Print Assumptions C04_kernel_matrix_entries_differentiable.

Section C04_loglik_kernels.
Variables (n p dim nh : nat) (chol : 'M[R]_n -> 'M[R]_n) (xs : nat -> nat -> R) (lsq lcu : nat -> R).
Variables (noise y : 'cV[R]_n) (Pmx : 'M[R]_(n,p)) (s : R) (theta : nat -> R) (h : nat).

(* ================================================================== SquareExponential *)
Let Kse (th : nat -> R) : 'M[R]_n :=
  \matrix_(i, j) SquareExponential.kernel_matrix_sym dim xs (fun _ => 0%Re) (fun k => th (S k)) lsq lcu (th 0%N) i j.
Let Tse := SquareExponential.kernel_hparam_grad_tensor_sym dim nh xs (fun k => theta (S k)) lsq lcu (theta 0%N).

(* as a statement about the kernel matrix: the hypothesis of C04_loglik_grad_full / C04_loglik_gradient_vector, with dKt := the matrices of the tensor *)
Theorem C04_se_kernel_matrix_derivative :
  hparam_guard dim lcu theta h ->
  forall i j : 'I_n, is_derive (fun t => Kse (LogLikFull.upd theta h t) i j) (theta h) ((\matrix_(i, j) Tse i j h : 'M[R]_n) i j).
Proof. exact: (Kfun_derive SE_entries_ok). Qed.

(* THE COMPOSED THEOREM: per-point noise, polynomial mean *)
Theorem C04_loglik_grad_se :
  hparam_guard dim lcu theta h ->
  locally (theta h) (fun t => let K := GPNoise.kernel_matrix (Kse (LogLikFull.upd theta h t)) noise in
                              chol K *m (chol K)^T = K /\ is_trig_mx (chol K) /\ forall i, Rlt 0 (chol K i i)) ->
  GPNoise.PT_K_inv_P (Kse theta) noise Pmx \in unitmx ->
  is_derive (fun t => let Kk := Kse (LogLikFull.upd theta h t) in
               LogLik.log_likelihood_value chol (fun L : 'M[R]_n => \sum_i ln (L i i)) (GPNoise.kernel_matrix Kk noise)
                 (GPNoise.demeaned_y Kk noise y Pmx) (GPNoise.K_inv_demeaned_y Kk noise y Pmx) s) (theta h)
    (LogLikGrad.grad n nh (cvv (GPNoise.K_inv_demeaned_y (Kse theta) noise y Pmx)) Tse
                     (mxv (invmx (GPNoise.kernel_matrix (Kse theta) noise))) s (fun _ => 1%Re) h).
Proof. exact: (loglik_grad_kernel SE_entries_ok). Qed.

(* zero mean *)
Theorem C04_loglik_grad_se_zero_mean :
  hparam_guard dim lcu theta h ->
  locally (theta h) (fun t => let K := GPNoiseZeroMean.kernel_matrix (Kse (LogLikFull.upd theta h t)) noise in
                              chol K *m (chol K)^T = K /\ is_trig_mx (chol K) /\ forall i, Rlt 0 (chol K i i)) ->
  is_derive (fun t => let Kk := Kse (LogLikFull.upd theta h t) in
               LogLik.log_likelihood_value chol (fun L : 'M[R]_n => \sum_i ln (L i i)) (GPNoiseZeroMean.kernel_matrix Kk noise)
                 (GPNoiseZeroMean.demeaned_y y) (GPNoiseZeroMean.K_inv_demeaned_y Kk noise y) s) (theta h)
    (LogLikGrad.grad n nh (cvv (GPNoiseZeroMean.K_inv_demeaned_y (Kse theta) noise y)) Tse
                     (mxv (invmx (GPNoiseZeroMean.kernel_matrix (Kse theta) noise))) s (fun _ => 1%Re) h).
Proof. exact: (loglik_grad_kernel_zero_mean SE_entries_ok). Qed.

(* Tikhonov nugget tik instead of the per-point noise; h a kernel hyperparameter (the nugget does not depend on it) *)
Theorem C04_loglik_grad_se_nugget (tik : R) :
  hparam_guard dim lcu theta h ->
  locally (theta h) (fun t => let K := GPNugget.kernel_matrix (Kse (LogLikFull.upd theta h t)) tik in
                              chol K *m (chol K)^T = K /\ is_trig_mx (chol K) /\ forall i, Rlt 0 (chol K i i)) ->
  GPNugget.PT_K_inv_P (Kse theta) tik Pmx \in unitmx ->
  is_derive (fun t => let Kk := Kse (LogLikFull.upd theta h t) in
               LogLik.log_likelihood_value chol (fun L : 'M[R]_n => \sum_i ln (L i i)) (GPNugget.kernel_matrix Kk tik)
                 (GPNugget.demeaned_y Kk tik y Pmx) (GPNugget.K_inv_demeaned_y Kk tik y Pmx) s) (theta h)
    (LogLikGrad.grad n nh (cvv (GPNugget.K_inv_demeaned_y (Kse theta) tik y Pmx)) Tse
                     (mxv (invmx (GPNugget.kernel_matrix (Kse theta) tik))) s (fun _ => 1%Re) h).
Proof. move=> H. exact: (loglik_grad_kernel_nugget SE_entries_ok _ _ _ H). Qed.

(* log parameterisation (log_domain=True): theta h = exp al; the derivative in al carries the generated log_scaling factor exp al *)
Theorem C04_loglik_grad_se_log_domain (al : R) :
  hparam_guard dim lcu theta h -> theta h = exp al ->
  locally (exp al) (fun t => let K := GPNoise.kernel_matrix (Kse (LogLikFull.upd theta h t)) noise in
                             chol K *m (chol K)^T = K /\ is_trig_mx (chol K) /\ forall i, Rlt 0 (chol K i i)) ->
  GPNoise.PT_K_inv_P (Kse theta) noise Pmx \in unitmx ->
  is_derive (fun u => let Kk := Kse (LogLikFull.upd theta h (exp u)) in
               LogLik.log_likelihood_value chol (fun L : 'M[R]_n => \sum_i ln (L i i)) (GPNoise.kernel_matrix Kk noise)
                 (GPNoise.demeaned_y Kk noise y Pmx) (GPNoise.K_inv_demeaned_y Kk noise y Pmx) s) al
    (LogLikGrad.grad n nh (cvv (GPNoise.K_inv_demeaned_y (Kse theta) noise y Pmx)) Tse
                     (mxv (invmx (GPNoise.kernel_matrix (Kse theta) noise))) s (fun _ => exp al) h).
Proof. move=> H. exact: (loglik_grad_kernel_log_domain SE_entries_ok _ _ _ H). Qed.


(* the same about the TRANSLATED loops of compute_grad_log_likelihood (Gen.GenAcq.LogLikGrad.grad_linear / grad_logdom; Props/C04_handir.v:
   they equal the hand-written form); hyp = the hyperparameter vector the loop takes its log_scaling from (theta h = exp (hyp h)) *)
Theorem C04_loglik_grad_se_translated_loop (hyp : nat -> R) :
  hparam_guard dim lcu theta h ->
  locally (theta h) (fun t => let K := GPNoise.kernel_matrix (Kse (LogLikFull.upd theta h t)) noise in
                              chol K *m (chol K)^T = K /\ is_trig_mx (chol K) /\ forall i, Rlt 0 (chol K i i)) ->
  GPNoise.PT_K_inv_P (Kse theta) noise Pmx \in unitmx ->
  is_derive (fun t => let Kk := Kse (LogLikFull.upd theta h t) in
               LogLik.log_likelihood_value chol (fun L : 'M[R]_n => \sum_i ln (L i i)) (GPNoise.kernel_matrix Kk noise)
                 (GPNoise.demeaned_y Kk noise y Pmx) (GPNoise.K_inv_demeaned_y Kk noise y Pmx) s) (theta h)
    (LogLikGrad.grad_linear n nh (cvv (GPNoise.K_inv_demeaned_y (Kse theta) noise y Pmx)) Tse s hyp
                            (mxv (invmx (GPNoise.kernel_matrix (Kse theta) noise))) h).
Proof. move=> H. exact: (loglik_grad_kernel_linear_loop SE_entries_ok _ _ _ H). Qed.

Theorem C04_loglik_grad_se_log_domain_translated_loop (hyp : nat -> R) :
  hparam_guard dim lcu theta h -> theta h = exp (hyp h) ->
  locally (exp (hyp h)) (fun t => let K := GPNoise.kernel_matrix (Kse (LogLikFull.upd theta h t)) noise in
                                  chol K *m (chol K)^T = K /\ is_trig_mx (chol K) /\ forall i, Rlt 0 (chol K i i)) ->
  GPNoise.PT_K_inv_P (Kse theta) noise Pmx \in unitmx ->
  is_derive (fun u => let Kk := Kse (LogLikFull.upd theta h (exp u)) in
               LogLik.log_likelihood_value chol (fun L : 'M[R]_n => \sum_i ln (L i i)) (GPNoise.kernel_matrix Kk noise)
                 (GPNoise.demeaned_y Kk noise y Pmx) (GPNoise.K_inv_demeaned_y Kk noise y Pmx) s) (hyp h)
    (LogLikGrad.grad_logdom n nh (cvv (GPNoise.K_inv_demeaned_y (Kse theta) noise y Pmx)) Tse s hyp
                            (mxv (invmx (GPNoise.kernel_matrix (Kse theta) noise))) h).
Proof. move=> H. exact: (loglik_grad_kernel_logdom_loop SE_entries_ok _ _ _ H). Qed.
End C04_loglik_kernels.
Print Assumptions C04_se_kernel_matrix_derivative.
Print Assumptions C04_loglik_grad_se.
Print Assumptions C04_loglik_grad_se_zero_mean.
Print Assumptions C04_loglik_grad_se_nugget.
Print Assumptions C04_loglik_grad_se_log_domain.
Print Assumptions C04_loglik_grad_se_translated_loop.
Print Assumptions C04_loglik_grad_se_log_domain_translated_loop.

(* non-vacuity (SquareExponential, differentiation in the LENGTH SCALE, h = 1): one observation at x = 7 in dimension 1, constant mean,
   alpha = 3, length scale 1/2 (so lcu 0 = 1/8), noise 1/10; the Cholesky factor of the 1 x 1 kernel matrix is its square root *)
Definition ex_theta (k : nat) : R := match k with O => 3%Re | _ => (1 / 2)%Re end.
Example C04_loglik_grad_se_example (y : 'cV[R]_1) (s : R) :
  let Kse (th : nat -> R) : 'M[R]_1 :=
    \matrix_(i, j) SquareExponential.kernel_matrix_sym 1 (fun _ _ => 7%Re) (fun _ => 0%Re) (fun k => th (S k)) (fun _ => (1 / 4)%Re) (fun _ => (1 / 8)%Re) (th 0%N) i j in
  let noise : 'cV[R]_1 := const_mx (1 / 10)%Re in
  let P1 : 'M[R]_(1,1) := const_mx 1 in
  hparam_guard 1 (fun _ => (1 / 8)%Re) ex_theta 1 /\
  is_derive (fun t => let Kk := Kse (LogLikFull.upd ex_theta 1 t) in
               LogLik.log_likelihood_value chol11 (fun L : 'M[R]_1 => \sum_i ln (L i i)) (GPNoise.kernel_matrix Kk noise)
                 (GPNoise.demeaned_y Kk noise y P1) (GPNoise.K_inv_demeaned_y Kk noise y P1) s) (1 / 2)%Re
    (LogLikGrad.grad 1 2 (cvv (GPNoise.K_inv_demeaned_y (Kse ex_theta) noise y P1))
                     (SquareExponential.kernel_hparam_grad_tensor_sym 1 2 (fun _ _ => 7%Re) (fun k => ex_theta (S k)) (fun _ => (1 / 4)%Re) (fun _ => (1 / 8)%Re) (ex_theta 0%N))
                     (mxv (invmx (GPNoise.kernel_matrix (Kse ex_theta) noise))) s (fun _ => 1%Re) 1).
Proof.
  move=> Kse noise P1.
  have Ha : Rlt 0 (ex_theta 0%N) by apply: (IZR_lt 0 3).
  have Hl : Rlt 0 (ex_theta 1%N) by apply: Rdiv_lt_0_compat; [exact: Rlt_0_1|apply: (IZR_lt 0 2)].
  have Hc : (1 / 8)%Re = (ex_theta 1%N ^ 3)%Re by rewrite /ex_theta /=; field.
  have Hn : Rle 0 (noise 0 0) by rewrite mxE; apply: Rlt_le; apply: Rdiv_lt_0_compat; [exact: Rlt_0_1|apply: (IZR_lt 0 10)].
  split; first exact: (inst_hparam_ok (lcu := fun _ => (1 / 8)%Re) Hl Hc).
  exact: (@loglik_grad_se_instance 2 (fun _ _ => 7%Re) (fun _ => (1 / 4)%Re) (fun _ => (1 / 8)%Re) ex_theta noise y s Ha Hl Hc Hn).
Qed.
