(* part of Props/C03_matern_psd.v, split per kernel so that the Print Assumptions of one property compile in parallel *)
(* C03, "positive semi-definite Gram matrices", MATERN part — closes the Schoenberg hypothesis: for every n, every dimension, every point
   set and every choice of length scales the Gram matrix of C0RadialMatern, C2RadialMatern and C4RadialMatern (C4 is the library's default
   kernel) — as built by the entry points regenerated from covariance.py (Gen.GenCovariance: kernel_matrix_sym with observation noise,
   kernel_matrix_cross on one point set, the pairwise covariance / _covariance) — is positive semi-definite.  More: it is a Schur
   multiplier (its entrywise product with ANY PSD matrix is PSD), so the multitask kernel (Gen.GenMultitask._covariance = physical kernel x
   task kernel; the library's default configuration is C4RadialMatern x SquareExponential) has PSD Gram matrices unconditionally.
   Proof (Proofs/MaternMixture.v, Proofs/MaternPsd.v): the three profiles are positive scale mixtures of Gaussians,
       C_k phi_k(r) = int_0^oo u^k exp(-u^2) exp(-(r^2/4)/u^2) du,   k = 0, 2, 4,   C_k = sqrt(PI)/2, sqrt(PI)/4, 3 sqrt(PI)/8
   (theorems C03_matern_mixture_c0/c2/c4 below: Cauchy-Schloemilch substitution on proper Riemann integrals + the Gaussian integral of
   Lib/Gauss.v, the fundamental theorem of calculus for u E and u^3 E), each Gaussian exp(-s |u_a - u_b|^2) is a Schur multiplier
   (Proofs/SEPsd.v), and Schur multipliers are closed under non-negative scaling, Riemann integration over a parameter and pointwise limits.
   As in C03_se_psd.v the guard "all length scales positive" (what the library enforces) is stated although the proofs do not use it.
   Only statements + exact + Print Assumptions here. *)
From Coq Require Import Reals Arith Lra.
From Coquelicot Require Import Coquelicot.
From LV Require Import Lib.RBase Gen.GenCovariance Gen.GenMultitask Proofs.Hadamard Proofs.Covariance Proofs.SEPsd Proofs.MaternMixture
  Proofs.MaternPsd.
From LV Require Import Props.C03_matern_psd_c0 Props.C03_matern_psd_c2.   (* the Example below shows all three kernels on one point set *)
Open Scope R_scope.


(* ================================================================== C4RadialMatern *)
(* build_kernel_matrix(points_sampled, noise_variance): alpha * phiC4(r) + noise on the diagonal *)
Theorem C03_c4_gram_psd n dim xs ls lsq lcu alpha noise :
  (forall k, 0 < ls k) -> 0 <= alpha -> (forall j, 0 <= noise j) ->
  psdR n (fun a b => C4RadialMatern.kernel_matrix_sym dim xs noise ls lsq lcu alpha a b).
Proof. exact (C4_sym_gram_psd n dim xs ls lsq lcu alpha noise). Qed.
Print Assumptions C03_c4_gram_psd.

Theorem C03_c4_gram_psd_any_ls n dim xs ls lsq lcu alpha noise :
  0 <= alpha -> (forall j, 0 <= noise j) ->
  psdR n (fun a b => C4RadialMatern.kernel_matrix_sym dim xs noise ls lsq lcu alpha a b).
Proof. exact (C4_sym_gram_psd_any_ls n dim xs ls lsq lcu alpha noise). Qed.
Print Assumptions C03_c4_gram_psd_any_ls.

(* stronger: the entrywise product of the Gram matrix with any PSD matrix B is PSD *)
Theorem C03_c4_gram_schur_multiplier n dim xs ls lsq lcu alpha noise (B : nat -> nat -> R) :
  (forall k, 0 < ls k) -> 0 <= alpha -> (forall j, 0 <= noise j) -> psdR n B ->
  psdR n (fun a b => C4RadialMatern.kernel_matrix_sym dim xs noise ls lsq lcu alpha a b * B a b).
Proof. exact (fun _ Ha Hn => C4_sym_gram_schur n dim xs noise ls lsq lcu alpha Ha Hn B). Qed.
Print Assumptions C03_c4_gram_schur_multiplier.

(* build_kernel_matrix(points_sampled, points_to_sample = the same points): the clamped-expansion path *)
Theorem C03_c4_cross_gram_psd n dim xs ls lsq lcu alpha :
  (forall k, 0 < ls k) -> 0 <= alpha ->
  psdR n (fun a b => C4RadialMatern.kernel_matrix_cross dim xs xs ls lsq lcu alpha a b).
Proof. exact (C4_cross_gram_psd n dim xs ls lsq lcu alpha). Qed.
Print Assumptions C03_c4_cross_gram_psd.

(* covariance(x, z)[i] on the pairs (point a, point b) of one point set *)
Theorem C03_c4_pairwise_gram_psd n dim xs ls lsq lcu alpha i :
  (forall k, 0 < ls k) -> 0 <= alpha ->
  psdR n (fun a b => C4RadialMatern.covariance dim (fun _ => xs a) (fun _ => xs b) ls lsq lcu alpha i).
Proof. exact (C4_pair_gram_psd n dim xs ls lsq lcu alpha i). Qed.
Print Assumptions C03_c4_pairwise_gram_psd.

(* multitask kernel, physical kernel C4RadialMatern, task kernel SquareExponential on the task coordinates ts (dimt = 1 in the library):
   unconditional (process variance alpha >= 0 on the product, as the library applies it) *)
Theorem C03_multitask_gram_psd_c4_se n dim xs ls lsq lcu alphap dimt ts lst lsqt lcut alphat alpha pg tg ph th :
  (forall k, 0 < ls k) -> (forall k, 0 < lst k) -> 0 <= alpha ->
  psdR n (fun a b => alpha * GenMultitask._covariance
                       (fun i => C4RadialMatern._covariance dim (fun _ => xs a) (fun _ => xs b) ls lsq lcu alphap i)
                       (fun i => SquareExponential._covariance dimt (fun _ => ts a) (fun _ => ts b) lst lsqt lcut alphat i) pg tg ph th 0%nat).
Proof. exact (fun _ _ => multitask_C4_se_psd n dim xs ls lsq lcu alphap dimt ts lst lsqt lcut alphat alpha pg tg ph th). Qed.
Print Assumptions C03_multitask_gram_psd_c4_se.

(* the kernel-matrix path of the multitask kernel: physical kernel matrix (with noise) .* task kernel matrix *)
Theorem C03_multitask_kernel_matrix_psd_c4_se n dim xs noise ls lsq lcu alpha dimt ts lst lsqt lcut alphat pg tg ph th :
  (forall k, 0 < ls k) -> (forall k, 0 < lst k) -> 0 <= alpha -> 0 <= alphat -> (forall j, 0 <= noise j) ->
  psdR n (fun a b => GenMultitask._covariance
                       (fun _ => C4RadialMatern.kernel_matrix_sym dim xs noise ls lsq lcu alpha a b)
                       (fun _ => SquareExponential.kernel_matrix_cross dimt ts ts lst lsqt lcut alphat a b) pg tg ph th 0%nat).
Proof. exact (fun _ _ => multitask_C4_se_matrix_psd n dim xs noise ls lsq lcu alpha dimt ts lst lsqt lcut alphat pg tg ph th). Qed.
Print Assumptions C03_multitask_kernel_matrix_psd_c4_se.

(* physical kernel C4RadialMatern with ANY PSD task Gram matrix T: no factor of either matrix is needed *)
Theorem C03_multitask_gram_psd_c4_any_task n dim xs ls lsq lcu alphap (T : nat -> nat -> R) pg tg ph th :
  (forall k, 0 < ls k) -> psdR n T ->
  psdR n (fun a b => GenMultitask._covariance
                       (fun i => C4RadialMatern._covariance dim (fun _ => xs a) (fun _ => xs b) ls lsq lcu alphap i)
                       (fun _ => T a b) pg tg ph th 0%nat).
Proof. exact (fun _ => multitask_C4_any_task_psd n dim xs ls lsq lcu alphap T pg tg ph th). Qed.
Print Assumptions C03_multitask_gram_psd_c4_any_task.

(* ------------------------------------------------------------------ non-vacuity: three points (0,0), (1,2), (3,-1) in the plane, length
   scales (1/2, 2), alpha = 3, noise (0, 1/10, 1/100); the scaled points are (0,0), (2,1), (6,-1/2): r_01 = sqrt 5 *)
Definition mex_xs (a k : nat) : R :=
  match a, k with O, _ => 0 | S O, O => 1 | S O, _ => 2 | _, O => 3 | _, _ => -1 end.
Definition mex_ls (k : nat) : R := match k with O => 1/2 | _ => 2 end.
Definition mex_noise (j : nat) : R := match j with O => 0 | S O => 1/10 | _ => 1/100 end.
Example C03_c4_gram_psd_example :
  (forall k, 0 < mex_ls k) /\ 0 <= 3 /\ (forall j, 0 <= mex_noise j) /\
  psdR 3 (fun a b => C4RadialMatern.kernel_matrix_sym 2 mex_xs mex_noise mex_ls mex_ls mex_ls 3 a b) /\
  psdR 3 (fun a b => C2RadialMatern.kernel_matrix_sym 2 mex_xs mex_noise mex_ls mex_ls mex_ls 3 a b) /\
  psdR 3 (fun a b => C0RadialMatern.kernel_matrix_sym 2 mex_xs mex_noise mex_ls mex_ls mex_ls 3 a b) /\
  C4RadialMatern.kernel_matrix_sym 2 mex_xs mex_noise mex_ls mex_ls mex_ls 3 0 1 = 3 * ((1 + sqrt 5 + 1 / 3 * 5) * exp (- sqrt 5)) /\
  C0RadialMatern.kernel_matrix_sym 2 mex_xs mex_noise mex_ls mex_ls mex_ls 3 0 1 = 3 * exp (- sqrt 5) /\
  C4RadialMatern.kernel_matrix_sym 2 mex_xs mex_noise mex_ls mex_ls mex_ls 3 1 1 = 3 + 1 / 10.
Proof.
  assert (Hl : forall k, 0 < mex_ls k) by (intros [|k]; simpl; lra).
  assert (Hn : forall j, 0 <= mex_noise j) by (intros [|[|j]]; simpl; lra).
  assert (E5 : 0 + (0 / (1 / 2) - 1 / (1 / 2)) * ((0 / (1 / 2) - 1 / (1 / 2)) * 1) + (0 / 2 - 2 / 2) * ((0 / 2 - 2 / 2) * 1) = 5) by field.
  assert (E0 : 0 + (1 / (1 / 2) - 1 / (1 / 2)) * ((1 / (1 / 2) - 1 / (1 / 2)) * 1) + (2 / 2 - 2 / 2) * ((2 / 2 - 2 / 2) * 1) = 0) by field.
  repeat split; try assumption; try lra.
  - apply C03_c4_gram_psd; [assumption|lra|assumption].
  - apply C03_c2_gram_psd; [assumption|lra|assumption].
  - apply C03_c0_gram_psd; [assumption|lra|assumption].
  - unfold C4RadialMatern.kernel_matrix_sym; simpl. rewrite E5. ring.
  - unfold C0RadialMatern.kernel_matrix_sym; simpl. rewrite E5. ring.
  - unfold C4RadialMatern.kernel_matrix_sym; simpl. rewrite E0, sqrt_0, Ropp_0, exp_0. ring.
Qed.

