(* C04 composed, Matern part: the theorems of Props/C04_loglik_se.v (read its header: conventions, hypotheses, axioms) for C4RadialMatern
   - the library's default kernel - and C2RadialMatern.  The regenerated log-likelihood value is differentiable in every hyperparameter
   (alpha = number 0, length scale k0 = number S k0) and entry h of the regenerated gradient, fed the kernel's regenerated
   hyperparameter-gradient tensor, is the derivative; hypotheses left: the Cholesky contract near theta h, P' K^-1 P invertible, and for a
   length scale the guard of C04_kernels (k0 < dim, theta h > 0, lcu k0 = (theta h)^3).  Coincident points are included (C04_kernels treats
   them by a squeeze argument: sqrt is not differentiable at 0 but the kernels are).
   Only statements + exact + Print Assumptions here (proofs: Proofs/ComposeLogLik.v). *)
From Coq Require Import Reals.
From Coquelicot Require Import Coquelicot.
From mathcomp Require Import all_ssreflect all_fingroup all_algebra.
From LV Require Import Lib.RBase Lib.MxAux Lib.RStruct Lib.RMxDeriv Gen.GenGP Gen.GenAcq Gen.GenCovariance Proofs.LogLikFull Proofs.ComposeLogLik.
Set Implicit Arguments. Unset Strict Implicit. Unset Printing Implicit Defensive.
Import GRing.Theory.
Local Open Scope ring_scope.


Section C04_loglik_matern.
Variables (n p dim nh : nat) (chol : 'M[R]_n -> 'M[R]_n) (xs : nat -> nat -> R) (lsq lcu : nat -> R).
Variables (noise y : 'cV[R]_n) (Pmx : 'M[R]_(n,p)) (s : R) (theta : nat -> R) (h : nat).
(* the guard of C04_kernels on hyperparameter h (vacuous for h = 0); the same as hparam_guard of Props/C04_loglik_se.v *)
Let hparam_guard (dim : nat) (lcu theta : nat -> R) (h : nat) : Prop :=
  forall k0, h = S k0 -> (k0 < dim)%coq_nat /\ Rlt 0 (theta h) /\ lcu k0 = (theta h ^ 3)%Re.

(* ================================================================== C4RadialMatern (the library's default kernel) *)
Let Kc4 (th : nat -> R) : 'M[R]_n :=
  \matrix_(i, j) C4RadialMatern.kernel_matrix_sym dim xs (fun _ => 0%Re) (fun k => th (S k)) lsq lcu (th 0%N) i j.
Let Tc4 := C4RadialMatern.kernel_hparam_grad_tensor_sym dim nh xs (fun k => theta (S k)) lsq lcu (theta 0%N).

Theorem C04_c4_kernel_matrix_derivative :
  hparam_guard dim lcu theta h ->
  forall i j : 'I_n, is_derive (fun t => Kc4 (LogLikFull.upd theta h t) i j) (theta h) ((\matrix_(i, j) Tc4 i j h : 'M[R]_n) i j).
Proof. exact: (Kfun_derive C4_entries_ok). Qed.

Theorem C04_loglik_grad_c4 :
  hparam_guard dim lcu theta h ->
  locally (theta h) (fun t => let K := GPNoise.kernel_matrix (Kc4 (LogLikFull.upd theta h t)) noise in
                              chol K *m (chol K)^T = K /\ is_trig_mx (chol K) /\ forall i, Rlt 0 (chol K i i)) ->
  GPNoise.PT_K_inv_P (Kc4 theta) noise Pmx \in unitmx ->
  is_derive (fun t => let Kk := Kc4 (LogLikFull.upd theta h t) in
               LogLik.log_likelihood_value chol (fun L : 'M[R]_n => \sum_i ln (L i i)) (GPNoise.kernel_matrix Kk noise)
                 (GPNoise.demeaned_y Kk noise y Pmx) (GPNoise.K_inv_demeaned_y Kk noise y Pmx) s) (theta h)
    (LogLikGrad.grad n nh (cvv (GPNoise.K_inv_demeaned_y (Kc4 theta) noise y Pmx)) Tc4
                     (mxv (invmx (GPNoise.kernel_matrix (Kc4 theta) noise))) s (fun _ => 1%Re) h).
Proof. exact: (loglik_grad_kernel C4_entries_ok). Qed.

Theorem C04_loglik_grad_c4_zero_mean :
  hparam_guard dim lcu theta h ->
  locally (theta h) (fun t => let K := GPNoiseZeroMean.kernel_matrix (Kc4 (LogLikFull.upd theta h t)) noise in
                              chol K *m (chol K)^T = K /\ is_trig_mx (chol K) /\ forall i, Rlt 0 (chol K i i)) ->
  is_derive (fun t => let Kk := Kc4 (LogLikFull.upd theta h t) in
               LogLik.log_likelihood_value chol (fun L : 'M[R]_n => \sum_i ln (L i i)) (GPNoiseZeroMean.kernel_matrix Kk noise)
                 (GPNoiseZeroMean.demeaned_y y) (GPNoiseZeroMean.K_inv_demeaned_y Kk noise y) s) (theta h)
    (LogLikGrad.grad n nh (cvv (GPNoiseZeroMean.K_inv_demeaned_y (Kc4 theta) noise y)) Tc4
                     (mxv (invmx (GPNoiseZeroMean.kernel_matrix (Kc4 theta) noise))) s (fun _ => 1%Re) h).
Proof. exact: (loglik_grad_kernel_zero_mean C4_entries_ok). Qed.

Theorem C04_loglik_grad_c4_nugget (tik : R) :
  hparam_guard dim lcu theta h ->
  locally (theta h) (fun t => let K := GPNugget.kernel_matrix (Kc4 (LogLikFull.upd theta h t)) tik in
                              chol K *m (chol K)^T = K /\ is_trig_mx (chol K) /\ forall i, Rlt 0 (chol K i i)) ->
  GPNugget.PT_K_inv_P (Kc4 theta) tik Pmx \in unitmx ->
  is_derive (fun t => let Kk := Kc4 (LogLikFull.upd theta h t) in
               LogLik.log_likelihood_value chol (fun L : 'M[R]_n => \sum_i ln (L i i)) (GPNugget.kernel_matrix Kk tik)
                 (GPNugget.demeaned_y Kk tik y Pmx) (GPNugget.K_inv_demeaned_y Kk tik y Pmx) s) (theta h)
    (LogLikGrad.grad n nh (cvv (GPNugget.K_inv_demeaned_y (Kc4 theta) tik y Pmx)) Tc4
                     (mxv (invmx (GPNugget.kernel_matrix (Kc4 theta) tik))) s (fun _ => 1%Re) h).
Proof. move=> H. exact: (loglik_grad_kernel_nugget C4_entries_ok _ _ _ H). Qed.

Theorem C04_loglik_grad_c4_log_domain (al : R) :
  hparam_guard dim lcu theta h -> theta h = exp al ->
  locally (exp al) (fun t => let K := GPNoise.kernel_matrix (Kc4 (LogLikFull.upd theta h t)) noise in
                             chol K *m (chol K)^T = K /\ is_trig_mx (chol K) /\ forall i, Rlt 0 (chol K i i)) ->
  GPNoise.PT_K_inv_P (Kc4 theta) noise Pmx \in unitmx ->
  is_derive (fun u => let Kk := Kc4 (LogLikFull.upd theta h (exp u)) in
               LogLik.log_likelihood_value chol (fun L : 'M[R]_n => \sum_i ln (L i i)) (GPNoise.kernel_matrix Kk noise)
                 (GPNoise.demeaned_y Kk noise y Pmx) (GPNoise.K_inv_demeaned_y Kk noise y Pmx) s) al
    (LogLikGrad.grad n nh (cvv (GPNoise.K_inv_demeaned_y (Kc4 theta) noise y Pmx)) Tc4
                     (mxv (invmx (GPNoise.kernel_matrix (Kc4 theta) noise))) s (fun _ => exp al) h).
Proof. move=> H. exact: (loglik_grad_kernel_log_domain C4_entries_ok _ _ _ H). Qed.


(* the same about the TRANSLATED loops of compute_grad_log_likelihood (Gen.GenAcq.LogLikGrad.grad_linear / grad_logdom; Props/C04_handir.v:
   they equal the hand-written form); hyp = the hyperparameter vector the loop takes its log_scaling from (theta h = exp (hyp h)) *)
Theorem C04_loglik_grad_c4_translated_loop (hyp : nat -> R) :
  hparam_guard dim lcu theta h ->
  locally (theta h) (fun t => let K := GPNoise.kernel_matrix (Kc4 (LogLikFull.upd theta h t)) noise in
                              chol K *m (chol K)^T = K /\ is_trig_mx (chol K) /\ forall i, Rlt 0 (chol K i i)) ->
  GPNoise.PT_K_inv_P (Kc4 theta) noise Pmx \in unitmx ->
  is_derive (fun t => let Kk := Kc4 (LogLikFull.upd theta h t) in
               LogLik.log_likelihood_value chol (fun L : 'M[R]_n => \sum_i ln (L i i)) (GPNoise.kernel_matrix Kk noise)
                 (GPNoise.demeaned_y Kk noise y Pmx) (GPNoise.K_inv_demeaned_y Kk noise y Pmx) s) (theta h)
    (LogLikGrad.grad_linear n nh (cvv (GPNoise.K_inv_demeaned_y (Kc4 theta) noise y Pmx)) Tc4 s hyp
                            (mxv (invmx (GPNoise.kernel_matrix (Kc4 theta) noise))) h).
Proof. move=> H. exact: (loglik_grad_kernel_linear_loop C4_entries_ok _ _ _ H). Qed.

Theorem C04_loglik_grad_c4_log_domain_translated_loop (hyp : nat -> R) :
  hparam_guard dim lcu theta h -> theta h = exp (hyp h) ->
  locally (exp (hyp h)) (fun t => let K := GPNoise.kernel_matrix (Kc4 (LogLikFull.upd theta h t)) noise in
                                  chol K *m (chol K)^T = K /\ is_trig_mx (chol K) /\ forall i, Rlt 0 (chol K i i)) ->
  GPNoise.PT_K_inv_P (Kc4 theta) noise Pmx \in unitmx ->
  is_derive (fun u => let Kk := Kc4 (LogLikFull.upd theta h (exp u)) in
               LogLik.log_likelihood_value chol (fun L : 'M[R]_n => \sum_i ln (L i i)) (GPNoise.kernel_matrix Kk noise)
                 (GPNoise.demeaned_y Kk noise y Pmx) (GPNoise.K_inv_demeaned_y Kk noise y Pmx) s) (hyp h)
    (LogLikGrad.grad_logdom n nh (cvv (GPNoise.K_inv_demeaned_y (Kc4 theta) noise y Pmx)) Tc4 s hyp
                            (mxv (invmx (GPNoise.kernel_matrix (Kc4 theta) noise))) h).
Proof. move=> H. exact: (loglik_grad_kernel_logdom_loop C4_entries_ok _ _ _ H). Qed.

(* ================================================================== C2RadialMatern *)
Let Kc2 (th : nat -> R) : 'M[R]_n :=
  \matrix_(i, j) C2RadialMatern.kernel_matrix_sym dim xs (fun _ => 0%Re) (fun k => th (S k)) lsq lcu (th 0%N) i j.
Let Tc2 := C2RadialMatern.kernel_hparam_grad_tensor_sym dim nh xs (fun k => theta (S k)) lsq lcu (theta 0%N).

Theorem C04_loglik_grad_c2 :
  hparam_guard dim lcu theta h ->
  locally (theta h) (fun t => let K := GPNoise.kernel_matrix (Kc2 (LogLikFull.upd theta h t)) noise in
                              chol K *m (chol K)^T = K /\ is_trig_mx (chol K) /\ forall i, Rlt 0 (chol K i i)) ->
  GPNoise.PT_K_inv_P (Kc2 theta) noise Pmx \in unitmx ->
  is_derive (fun t => let Kk := Kc2 (LogLikFull.upd theta h t) in
               LogLik.log_likelihood_value chol (fun L : 'M[R]_n => \sum_i ln (L i i)) (GPNoise.kernel_matrix Kk noise)
                 (GPNoise.demeaned_y Kk noise y Pmx) (GPNoise.K_inv_demeaned_y Kk noise y Pmx) s) (theta h)
    (LogLikGrad.grad n nh (cvv (GPNoise.K_inv_demeaned_y (Kc2 theta) noise y Pmx)) Tc2
                     (mxv (invmx (GPNoise.kernel_matrix (Kc2 theta) noise))) s (fun _ => 1%Re) h).
Proof. exact: (loglik_grad_kernel C2_entries_ok). Qed.
End C04_loglik_matern.
Print Assumptions C04_c4_kernel_matrix_derivative.
Print Assumptions C04_loglik_grad_c4.
Print Assumptions C04_loglik_grad_c4_zero_mean.
Print Assumptions C04_loglik_grad_c4_nugget.
Print Assumptions C04_loglik_grad_c4_log_domain.
Print Assumptions C04_loglik_grad_c4_translated_loop.
Print Assumptions C04_loglik_grad_c4_log_domain_translated_loop.
Print Assumptions C04_loglik_grad_c2.
