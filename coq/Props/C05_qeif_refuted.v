(* C05, "Monte-Carlo parallel improvement ... with pending points and failure models agrees with the exact value within Monte-Carlo error":
   REFUTED for the faithful model Model/ParallelEIF.v (and replayed on the real class on every run: tools/props/C05.py,
   qeif_fallback_instance; KNOWN_FINDINGS.json).  In a pass in which no sample improves at a feasible point the estimator falls back to
   (success probability of the candidate) * max(0, best - min over ALL points of the sample) - the pending points included, whether or not
   they are feasible.  Witness: one candidate that is always feasible and never improves, one pending point that always improves and is
   never feasible: the improvement over the feasible points is 0 at EVERY executed draw, yet the estimate is positive (about 5). *)
From Coq Require Import List QArith Bool Arith.
From LV Require Import Model.ParallelEI Model.ParallelEIF.
Import ListNotations.
Open Scope Q_scope.

Theorem C05_qeif_fallback_counts_infeasible_pending_refuted :
  exists q (s : fset) (fms : list fmod) (mp : vec) best N B stream,
    Forall (fun z => masked_improvement (q + length mp) s fms mp best z == 0) (executed_draws N B (q + length mp) stream) /\
    length (executed_draws N B (q + length mp) stream) = 2%nat /\
    0 < nth 0 (qeif q [s] fms mp best N B stream) 0.
Proof.
  exists 1%nat, (([10], [[1; 0]; [0; 1]]), [([-(8)], [[1; 0]; [0; 1]])], [1]), [([8], 0)], [-(5)], 0, 2%nat, 2%nat, [1; 1; -(1); 2].
  split; [|split].
  - vm_compute. repeat constructor.
  - reflexivity.
  - vm_compute. reflexivity.
Qed.
Print Assumptions C05_qeif_fallback_counts_infeasible_pending_refuted.
