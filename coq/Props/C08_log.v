(* C08, the log_sample option of the quasi-random samplers (used by the hyperparameter search): statements only. *)
From Coq Require Import Reals Lra.
From LV Require Import Proofs.LogSample.
Open Scope R_scope.

(* sampling log-uniformly: whatever the box sampler returns inside [ln lo, ln hi] is returned, exponentiated, inside [lo, hi] *)
Theorem C08_log_sample_in_bounds lo hi p : 0 < lo -> lo <= hi -> ln lo <= p <= ln hi -> lo <= exp p <= hi.
Proof. exact (exp_of_log_sample lo hi p). Qed.
Print Assumptions C08_log_sample_in_bounds.

Theorem C08_log_bounds_ordered lo hi : 0 < lo -> lo <= hi -> ln lo <= ln hi.
Proof. exact (log_bounds_ordered lo hi). Qed.
Print Assumptions C08_log_bounds_ordered.

Example C08_log_sample_example : 1 <= exp (ln 2) <= 4.
Proof. apply (exp_of_log_sample 1 4 (ln 2)); [lra|lra|]. split; left; apply ln_increasing; lra. Qed.
