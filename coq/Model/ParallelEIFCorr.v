(* Correspondence cases for the Monte-Carlo parallel expected improvement with failure models (C05, qEI with failures): the
   output of the REAL ExpectedParallelImprovementWithFailures (constructor: incumbent; _evaluate_at_point_list /
   evaluate_at_point_list: estimates), run on stub predictors (objective and one per failure model) with prescribed dyadic means
   and covariances, stub failure models with prescribed thresholds and success probabilities inside the real
   ProductOfListOfProbabilisticFailures, a prescribed dyadic factor per covariance and scripted dyadic normal draws, is compared
   inside Coq with Model.ParallelEIF, with Model.Incumbent.incumbent_failures, and with the reading of the theorems evaluated on
   the implementation's own output. *)
From Coq Require Import List QArith Qabs Bool Arith.
From LV Require Import Model.ParallelEI Model.ParallelEIF.
From LV Require Model.Incumbent Model.ParallelEICorr.
Import ListNotations.
Open Scope Q_scope.

Record case := mkcase {
  c_q       : nat;                  (* num_points_to_sample *)
  c_fsets   : list fset;            (* per candidate set: objective (means, factor); per failure model (means, factor); per failure model the success probability of its first point *)
  c_fms     : list fmod;            (* per failure model: its means of the pending points, its threshold *)
  c_mp      : vec;                  (* objective means of the pending points *)
  c_hvals   : vec;                  (* predictor.points_sampled_value *)
  c_hprobs  : list vec;             (* per failure model: its success probabilities at predictor.points_sampled *)
  c_best0   : Q;                    (* predictor.best_observed_value *)
  c_best    : Q;                    (* best_value of the constructed object *)
  c_N       : nat;                  (* num_mc_iterations *)
  c_B       : nat;                  (* num_mc_iterations_per_loop *)
  c_entry   : option (option nat);  (* None: _evaluate_at_point_list directly; Some b: evaluate_at_point_list(batch_size=b) *)
  c_stream  : vec;                  (* what the scripted numpy.random.normal hands out, flat (longer than needed) *)
  c_blocks  : list (nat * nat);     (* the size= arguments numpy.random.normal was called with, in order *)
  c_out     : vec                   (* the estimates the implementation returned *)
}.

(* ProductOfListOfProbabilisticFailures.compute_probability_of_success at the sampled points: numpy.prod(poss, axis=0) *)
Definition product_probs (n : nat) (per_model : list vec) : vec := fold_right (map2 Qmult) (repeat 1 n) per_model.

(* _get_best_location_value_not_failure: the rule of Model.Incumbent.incumbent_failures, the fallback being whatever the base
   class took from the predictor *)
Definition incumbent (vals probs : vec) (best0 : Q) : Q :=
  let r := Incumbent.incumbent_failures vals probs in
  match fst r with None => best0 | Some _ => snd r end.

Definition le_up_to_rounding (a b : Q) : bool := Qle_bool a (b + Qabs b * (1 # 4503599627370496)).

Definition check (c : case) : bool :=
  let q := c_q c in let fsets := c_fsets c in let fms := c_fms c in let mp := c_mp c in
  let N := c_N c in let B := c_B c in let stream := c_stream c in
  let best := incumbent (c_hvals c) (product_probs (length (c_hvals c)) (c_hprobs c)) (c_best0 c) in
  let cs := (q + length mp)%nat in
  let n := length fsets in
  let e := n_exec N B in
  let b := Nat.min B N in
  let per_call := (passes N b N 0)%nat in
  let bs := match c_entry c with
            | None => n
            | Some None => n
            | Some (Some b0) => if (b0 =? 0)%nat then n else b0
            end in
  let calls := ((n + bs - 1) / bs)%nat in
  let model := match c_entry c with
               | None => qeif q fsets fms mp best N B stream
               | Some batch => qeif_public batch q fsets fms mp best N B stream
               end in
  (* the reading of the theorems on the implementation's output: set k, over the blocks of ITS call (the call holds the sets of
     its batch), the masked improvements, or the success-probability weighted improvements in the blocks that fall back *)
  let batch_of := fun k => firstn bs (skipn ((k / bs) * bs) fsets) in
  let stream_of := fun k => skipn ((k / bs) * (e * cs)) stream in
  let reading := map (fun k => fset_estimate_w cs (batch_of k) fms mp best (nth k fsets dfset)
                                 (executed_blocks N B cs (stream_of k))) (seq 0 n) in
  (* the plain parallel EI of the objective data on the negated draws bounds it (success probabilities in [0,1]) *)
  let plain := map (fun k => set_estimate cs (s_obj (nth k fsets dfset)) mp best
                               (executed_draws N B cs (map Qopp (stream_of k)))) (seq 0 n) in
  Qeq_bool (c_best c) best
  && ParallelEICorr.vec_eqb e (c_out c) model
  && ParallelEICorr.vec_eqb e (c_out c) reading
  && forallb (fun x => Qle_bool 0 x) (c_out c)
  && (length plain =? length (c_out c))%nat
  && forallb (fun xy => le_up_to_rounding (fst xy) (snd xy)) (combine (c_out c) plain)
  && ParallelEICorr.blocks_eqb (c_blocks c) (repeat (b, cs) (calls * per_call)).
