(* Executable model of libsigopt/compute/search.py (ProbabilityOfImprovementSearch and the normalised search
   coordinates), of AcquisitionFunction.evaluate_at_point_list (batching), of
   ProductOfListOfProbabilisticFailures._compute_probability_of_success and of the repulsor bookkeeping of
   views/rest/search_next_points.py (get_distance_parameter, search_strategy_optimization,
   next_points_probability_improvement) (C19).  No proofs here.  Values are exact rationals; squared distances, no sqrt:
   the categorical target `t` (numpy.sqrt(one_hot_dim) in the code) is an argument of the model. *)
From Coq Require Import List QArith Bool Arith.
Import ListNotations.
Open Scope Q_scope.

Notation point := (list Q).
Definition Qltb (x y : Q) : bool := negb (Qle_bool y x).
Definition Qmaxb (a b : Q) : Q := if Qle_bool a b then b else a.

Fixpoint zipw {A B C} (f : A -> B -> C) (la : list A) (lb : list B) : list C :=
  match la, lb with a :: la', b :: lb' => f a b :: zipw f la' lb' | _, _ => [] end.

(* ---------------------------------------------------------------- domain: one-hot layout (form_one_hot_domain) *)
(* double / int / quantized parameters occupy one coordinate with bounds [lo, hi]; a categorical parameter with k
   elements occupies k consecutive coordinates with bounds [0, 1] *)
Inductive comp := Num (lo hi : Q) | Cat (k : nat).
Notation domain := (list comp).

Definition comp_width (c : comp) : nat := match c with Num _ _ => 1%nat | Cat k => k end.
Fixpoint one_hot_dim (d : domain) : nat := match d with [] => O | c :: r => (comp_width c + one_hot_dim r)%nat end.
Definition comp_bounds (c : comp) : list (Q * Q) := match c with Num lo hi => [(lo, hi)] | Cat k => repeat (0, 1) k end.
Definition oh_bounds (d : domain) : list (Q * Q) := flat_map comp_bounds d.

(* map_non_categorical_points_to_unit_hypercube: (x - lower) / (upper - lower), every coordinate *)
Definition to_unit1 (b : Q * Q) (x : Q) : Q := (x - fst b) / (snd b - fst b).
(* map_non_categorical_points_from_unit_hypercube: u * (upper - lower) + lower *)
Definition from_unit1 (b : Q * Q) (u : Q) : Q := u * (snd b - fst b) + fst b.
Definition to_unit (b : list (Q * Q)) (p : point) : point := zipw to_unit1 b p.
Definition from_unit (b : list (Q * Q)) (u : point) : point := zipw from_unit1 b u.

(* numpy.argmax: index of the first maximum *)
Fixpoint argmax_from (best : Q) (bi i : nat) (l : list Q) : nat :=
  match l with
  | [] => bi
  | x :: r => if Qltb best x then argmax_from x i (S i) r else argmax_from best bi (S i) r
  end.
Definition argmax (l : list Q) : nat := match l with [] => O | x :: r => argmax_from x O 1%nat r end.

(* one_hot_points[:, cat_indices] = 0; one_hot_points[range(n), cat_indices[0] + best] = target *)
Definition one_hot_block (k b : nat) (t : Q) : point := map (fun j => if Nat.eqb j b then t else 0) (seq 0 k).

(* round_one_hot_points_categorical_values_to_target on one (already unit-mapped) row *)
Fixpoint round_cats (d : domain) (t : Q) (u : point) : point :=
  match d with
  | [] => []
  | Num _ _ :: d' => firstn 1 u ++ round_cats d' t (skipn 1 u)
  | Cat k :: d' => one_hot_block k (argmax (firstn k u)) t ++ round_cats d' t (skipn k u)
  end.

(* convert_one_hot_to_search_hypercube_points, one row; t = numpy.sqrt(domain.one_hot_dim) *)
Definition to_search (d : domain) (t : Q) (p : point) : point := round_cats d t (to_unit (oh_bounds d) p).

(* the category selected in every categorical parameter of a one-hot (possibly relaxed) point *)
Fixpoint cat_choice (d : domain) (p : point) : list nat :=
  match d with
  | [] => []
  | Num _ _ :: d' => cat_choice d' (skipn 1 p)
  | Cat k :: d' => argmax (firstn k p) :: cat_choice d' (skipn k p)
  end.

(* ---------------------------------------------------------------- compute_distance_matrix_squared, one entry *)
Definition sumsq (x : point) : Q := fold_right (fun a s => a * a + s) 0 x.
Definition dot (x z : point) : Q := fold_right Qplus 0 (zipw Qmult x z).
(* numpy.fmax(0, sum_x_sq + sum_z_sq - 2 * dot(x, z)) *)
Definition dist2 (x z : point) : Q := Qmaxb 0 (sumsq x + sumsq z - 2 * dot x z).
(* the specification it is proved equal to: sum of squared coordinate differences *)
Definition sqdist (x z : point) : Q := fold_right Qplus 0 (zipw (fun a b => (a - b) * (a - b)) x z).

(* ---------------------------------------------------------------- ProbabilityOfImprovementSearch *)
Record st := mkst { reps : list point; dpar : Q }.

Definition wf_point (d : domain) (p : point) : bool := Nat.eqb (length p) (one_hot_dim d).

(* numpy.any(distance < self.distance_parameter, axis=0), one column *)
Definition near (dp : Q) (rs : list point) (s : point) : bool := existsb (fun r => Qltb (dist2 r s) dp) rs.

Definition eval_point (d : domain) (t : Q) (s : st) (fm : point -> Q) (p : point) : Q :=
  if near (dpar s) (reps s) (to_search d t p) then 0 else fm p.

(* _evaluate_at_point_list: one batch; None = the shape assertion fails *)
Definition eval_batch (d : domain) (t : Q) (s : st) (fm : point -> Q) (pts : list point) : option (list Q) :=
  if forallb (wf_point d) pts then Some (map (eval_point d t s fm) pts) else None.

(* AcquisitionFunction.evaluate_at_point_list: while current_index < n: evaluate points[current:current+batch] *)
Fixpoint eval_chunks (fuel bs : nat) (d : domain) (t : Q) (s : st) (fm : point -> Q) (pts : list point)
  : option (list Q) :=
  match pts with
  | [] => Some []
  | _ => match fuel with
         | O => None
         | S f => match eval_batch d t s fm (firstn bs pts), eval_chunks f bs d t s fm (skipn bs pts) with
                  | Some a, Some b => Some (a ++ b)
                  | _, _ => None
                  end
         end
  end.
(* batch_size = batch_size or n; assert batch_size > 0 *)
Definition evaluate (bs : option nat) (d : domain) (t : Q) (s : st) (fm : point -> Q) (pts : list point)
  : option (list Q) :=
  let b := match bs with None => length pts | Some O => length pts | Some b => b end in
  if Nat.eqb b 0 then None else
  if forallb (wf_point d) pts then eval_chunks (length pts) b d t s fm pts else None.

(* add_normalized_repulsor_point; None = the shape assertion fails *)
Definition add_repulsors (d : domain) (t : Q) (s : st) (pts : list point) : option st :=
  if forallb (wf_point d) pts then Some (mkst (reps s ++ map (to_search d t) pts) (dpar s)) else None.

(* ProbabilityOfImprovementSearch.__init__ *)
Definition pi_search_init (d : domain) (t dp : Q) (r0 : option (list point)) : option st :=
  match r0 with None => Some (mkst [] dp) | Some pts => add_repulsors d t (mkst [] dp) pts end.

(* ---------------------------------------------------------------- failure models *)
(* ProductOfListOfProbabilisticFailures: numpy.prod(poss, axis=0), one point *)
Definition prod_fm (fms : list (point -> Q)) (p : point) : Q := fold_right Qmult 1 (map (fun f => f p) fms).
Definition prodQ (l : list Q) : Q := fold_right Qmult 1 l.
(* ProbabilisticFailures: 1 / (1 + exponential); the exponential is an argument *)
Definition logistic (e : Q) : Q := 1 / (1 + e).

(* ---------------------------------------------------------------- search_next_points.py *)
(* distances_squared = [0.04, 0.01, 0.0025, 0.0004]; dim * numpy.random.choice(distances_squared, 1) *)
Definition dist_consts : list Q := [4 # 100; 1 # 100; 25 # 10000; 4 # 10000].
Definition get_dp (n : nat) (draw : nat) : Q := inject_Z (Z.of_nat n) * nth draw dist_consts 0.

(* next_points_probability_improvement: repulsors = observed points, then pending points *)
Definition view_init (d : domain) (t : Q) (sampled pending : list point) (draw : nat) : option st :=
  pi_search_init d t (get_dp (length d) draw)
    (Some (match pending with [] => sampled | _ => sampled ++ pending end)).

Section Loop.
  Variable d : domain.
  Variable t : Q.
  (* the optimiser: whatever point it returns for the acquisition function in its current state *)
  Variable opt : st -> point.

  (* for _ in range(num_to_sample): pick; add_normalized_repulsor_point(pick); distance_parameter = get_distance_parameter(dim).
     One scripted random draw per iteration.  The trace records the state each pick was chosen in. *)
  Fixpoint loop (s : st) (draws : list nat) : option (list (st * point) * st) :=
    match draws with
    | [] => Some ([], s)
    | w :: r =>
        let pick := opt s in
        match add_repulsors d t s [pick] with
        | None => None
        | Some s1 =>
            match loop (mkst (reps s1) (get_dp (length d) w)) r with
            | None => None
            | Some (tr, e) => Some ((s, pick) :: tr, e)
            end
        end
    end.

  (* search_strategy_optimization: returned points, the acquisition function's state afterwards, and the trace *)
  Definition search_opt (s0 : st) (draws : list nat) : option (list point * st * list (st * point)) :=
    match loop s0 draws with
    | None => None
    | Some (tr, _) => Some (map snd tr, mkst (reps s0) (dpar s0), tr)
    end.
End Loop.
