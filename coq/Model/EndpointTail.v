(* Executable model of the TAIL of the five next-points endpoints (C01): everything between "relaxed points produced by
   the optimiser / sampler" and the response.

     views/rest/gp_next_points_categorical.py   get_discrete_conversion_option, find_best_one_hot_neighbor_by_af,
                                                convert_from_one_hot, _form_domain_with_task_dimension,
                                                convert_one_hot_points_to_distinct_categorical_points (both branches),
                                                select_random_task_by_softmax, the response of view()
     views/rest/spe_next_points.py              draw_samples (accept / reject loop, padding, sub-sampling),
                                                create_random_suggestions, create_spe_suggestions (tail),
                                                _return_results_to_zigopt
     views/rest/search_next_points.py           view() dispatch, next_points_probability_improvement (tail)
     views/rest/spe_search_next_points.py       view() dispatch, initilization_sequence, spe_search_next_points (tail)
     views/rest/random_search_next_points.py    view()
     compute/domain.py                          generate_quasi_random_points_in_domain (both branches),
                                                generate_distinct_random_points (the `is_constrained` guard in front of the
                                                C10 model), replace_duplicate_points on a constrained domain

   It COMPOSES the models of C09 (Model/Decode.v: decode_batch_gen, lattices, rounding, snap_tasks) and C10
   (Model/Distinct.v: identify_unique, distinct_points, quasi_random, prior_requests); nothing is re-modelled.
   No proofs here.  What the optimisers / samplers / random libraries return is an explicit argument; the contracts
   under which the theorems hold are stated in Proofs/EndpointTail.v. *)
From Coq Require Import List QArith ZArith Bool Arith Qround Qabs.
From LV Require Import Model.Domain Model.Decode.
From LV Require Model.Distinct.
Import ListNotations.
Open Scope Q_scope.

Module DS := LV.Model.Distinct.

(* ------------------------------------------------------------------ the two domain vocabularies *)
Definition to_comp (c : component) : DS.comp :=
  match c with
  | Double lo hi => DS.CDouble lo hi
  | Int lo hi => DS.CInt lo hi
  | Cat es => DS.CCat es
  | Grid es => DS.CGrid es
  end.
Definition ddom (d : domain) : list DS.comp := map to_comp (comps d).
Definition is_constrained (d : domain) : bool := negb (Nat.eqb (length (cons d)) 0).      (* bool(constraint_list) *)
Definition is_discrete (d : domain) : bool := DS.is_discrete (ddom d).

(* CATEGORICAL_POINT_UNIQUENESS_TOLERANCE = 1e-2 *)
Definition uniq_tol : Q := 1 # 100.

(* ------------------------------------------------------------------ the decode, with its three oracles bundled:
   outcomes of the random-neighbour branch, shuffles, and the category numpy.random.choice returned per row *)
Record dorc := { o_rnds : list (list (list bool)); o_perms : list (list nat); o_cats : list (list Z) }.
Definition decode_b (d : domain) (o : dorc) (xs : list row) : option (list point) :=
  decode_batch_with d (o_rnds o) (o_perms o) (o_cats o) xs.

(* ------------------------------------------------------------------ CategoricalDomain.generate_quasi_random_points_in_domain
   constrained: rows of the one-hot sampler (C08), decoded;  unconstrained: one column of draws per component (C10) *)
Record qorc := { q_cols : list (list Q); q_rows : list row; q_dec : dorc }.
Definition quasi_points (d : domain) (n : Z) (q : qorc) : option (list point) :=
  if is_constrained d then decode_b d (q_dec q) (q_rows q) else Some (DS.quasi_random n (q_cols q)).

(* generate_distinct_random_points: `if not self.is_discrete or self.is_constrained: quasi-random`, else the C10 model *)
Definition distinct_pts (d : domain) (k : Z) (hist : list point) (orc : list Z) (q : qorc) : option (list point) :=
  if (k =? 0)%Z then Some [] else
  if negb (is_discrete d) || is_constrained d then quasi_points d k q
  else DS.distinct_points (ddom d) k hist DS.default_dup_prob orc (q_cols q).

(* replace_duplicate_points: the members kept by the two identify_unique calls, then the distinct sampler's rows *)
Definition kept_of (d : domain) (pts hist : list point) (tol : Q) : option (list point) :=
  match DS.identify_unique (ddom d) pts None tol with
  | None => None
  | Some u1 => DS.identify_unique (ddom d) u1 (Some hist) tol
  end.
Definition replace_dups (d : domain) (pts hist : list point) (tol : Q) (orc : list Z) (q : qorc) : option (list point) :=
  match kept_of d pts hist tol with
  | None => None
  | Some u2 =>
      match distinct_pts d (DS.zlen pts - DS.zlen u2) hist orc q with
      | None => None
      | Some fill => Some (u2 ++ fill)
      end
  end.

(* ------------------------------------------------------------------ the discrete neighbour search of the GP endpoint *)
Inductive nopt := NNone | NInt | NCat | NBoth.
Definition n_ints (cs : list component) : nat := length (filter is_int cs).
Definition prod_cats (cs : list component) : Z :=
  fold_right (fun c a => match c with Cat es => (Z.of_nat (length es) * a)%Z | _ => a end) 1%Z cs.
Definition MAX_NEIGHBORING_POINTS : Z := 30000.
Definition MAX_INT_COMPONENTS : nat := 14.
Definition MAX_PRODUCT_OF_CATS : Z := 4000.
(* get_discrete_conversion_option, branch by branch *)
Definition conv_option (cs : list component) : nopt :=
  let ni := n_ints cs in let pc := prod_cats cs in
  let ints_ok := Nat.ltb 0 ni && Nat.leb ni MAX_INT_COMPONENTS in
  let cats_ok := (1 <? pc)%Z && (pc <=? MAX_PRODUCT_OF_CATS)%Z in
  if ints_ok && cats_ok then
    (if (pc * 2 ^ Z.of_nat ni <=? MAX_NEIGHBORING_POINTS)%Z then NBoth else NInt)
  else if (MAX_PRODUCT_OF_CATS <? pc)%Z || (pc =? 1)%Z then (if ints_ok then NInt else NNone)
  else if Nat.ltb MAX_INT_COMPONENTS ni || Nat.eqb ni 0 then (if cats_ok then NCat else NNone)
  else NNone.
(* the candidate list built for one relaxed point *)
Definition neighbours (o : nopt) (d : domain) (x : row) : list row :=
  let cs := comps d in
  match o with
  | NNone => [x]
  | NCat => map (round_grid_row cs) (map (round_int_row cs) (cat_lattice cs x))
  | NInt => map (round_grid_row cs) (map (round_cat_row cs) (neighboring_int_points d x))
  | NBoth => map (round_grid_row cs) (neighboring_cat_points d (neighboring_int_points d x))
  end.
(* max(zip(points, values), key=lambda t: t[1]): the first maximum *)
Definition best_neighbour (af : row -> Q) (nb : list row) (x : row) : row := nth (argmax (map af nb)) nb x.
Definition find_best (o : nopt) (d : domain) (af : row -> Q) (xs : list row) : list row :=
  match o with NNone => xs | _ => map (fun x => best_neighbour af (neighbours o d x) x) xs end.
(* convert_from_one_hot; `parallel` = isinstance(acquisition_function, ExpectedParallelImprovement) *)
Definition conv_choice (d : domain) (parallel : bool) : nopt :=
  if parallel || is_int_constrained d then NNone else conv_option (comps d).
Definition convert_from_one_hot (d : domain) (parallel : bool) (af : row -> Q) (o : dorc) (xs : list row) : option (list point) :=
  decode_b d o (find_best (conv_choice d parallel) d af xs).

(* ------------------------------------------------------------------ multitask: _form_domain_with_task_dimension *)
Definition with_task (d : domain) (opts : list Q) : domain :=
  {| comps := comps d ++ [Double (list_min opts) (list_max opts)];
     cons := map (fun k => {| weights := weights k ++ [0]; rhs := rhs k; cty := cty k |}) (cons d) |}.

(* select_random_task_by_softmax: exp(-c_i) / sum_j exp(-c_j); the exponentials are given (positive) numbers *)
Definition qsum_plain (l : list Q) : Q := fold_right Qplus 0 l.
Definition softmax (exps : list Q) : list Q := map (fun e => e / qsum_plain exps) exps.

(* ------------------------------------------------------------------ responses *)
Record response := { r_points : list point; r_costs : option (list Q) }.
Definition obind {A B} (o : option A) (f : A -> option B) : option B := match o with Some a => f a | None => None end.

(* ---- GP endpoint: convert_one_hot_points_to_distinct_categorical_points + response.
        hist = points_sampled.points (no tasks) / the relaxed history rows with their task column (multitask), which the
        code decodes again with the task domain *)
Record gporc := { g_dec : dorc; g_hdec : dorc; g_choice : list Z; g_q : qorc }.
Definition gp_tail (d : domain) (opts : list Q) (parallel : bool) (af : row -> Q) (xs : list row)
  (hist : list point) (hist_oh : list row) (o : gporc) : option response :=
  match opts with
  | [] =>
      obind (convert_from_one_hot d parallel af (g_dec o) xs) (fun pts =>
      obind (replace_dups d pts hist uniq_tol (g_choice o) (g_q o)) (fun out =>
      Some {| r_points := out; r_costs := None |}))
  | _ :: _ =>
      let dt := with_task d opts in
      obind (convert_from_one_hot dt false af (g_dec o) xs) (fun pts =>
      obind (decode_b dt (g_hdec o) hist_oh) (fun aug =>
      obind (replace_dups dt pts aug uniq_tol (g_choice o) (g_q o)) (fun out =>
      Some {| r_points := map (@removelast Q) out; r_costs := Some (snap_tasks (map (fun p => last p 0) out) opts) |})))
  end.

(* ---- random / initialisation suggestions: priors iff supplied and the domain is unconstrained *)
Definition random_pts (d : domain) (ps : list DS.prior) (n : Z) (pcols : list (list Q)) (q : qorc) : option (list point) :=
  match DS.view_path ps (is_constrained d) with
  | DS.UsePriors => Some (DS.rows_of (Z.to_nat n) pcols)
  | DS.UseQuasi => quasi_points d n q
  end.
(* the draws requested from the prior sampler *)
Definition prior_reqs (d : domain) (ps : list DS.prior) : list DS.request := DS.prior_requests (ddom d) ps.

(* task costs of the SPE / random endpoints: what numpy.random.choice(options, [p=softmax,] size=len(points)) returned *)
Definition with_costs (opts : list Q) (pts : list point) (draws : list Q) : response :=
  {| r_points := pts; r_costs := match opts with [] => None | _ :: _ => Some draws end |}.

Definition random_tail (d : domain) (opts : list Q) (ps : list DS.prior) (n : Z) (pcols : list (list Q)) (q : qorc)
  (draws : list Q) : option response :=
  obind (random_pts d ps n pcols q) (fun pts => Some (with_costs opts pts draws)).

(* ---- SPENextPoints.draw_samples: one batch = test points with their scaled EI and the uniform drawn for each *)
Definition accept (batch : list (row * Q * Q)) : list row :=
  map (fun t => fst (fst t)) (filter (fun t => Qltb (snd t) (snd (fst t))) batch).     (* test_probs < scaled EI *)
Fixpoint spe_loop (n : nat) (bsz limit : Z) (batches : list (list (row * Q * Q))) (samples : list row) (rej : Z)
  : list row * Z :=
  if Nat.ltb (length samples) n && (rej <? limit)%Z then
    match batches with
    | [] => (samples, rej)                       (* the script ran out: never with a well-formed script *)
    | b :: r => spe_loop n bsz limit r (samples ++ accept b) (rej + bsz)%Z
    end
  else (samples, rej).
Definition nth_rows (rows : list row) (ix : list nat) : list row :=
  flat_map (fun j => match nth_error rows j with Some a => [a] | None => [] end) ix.
(* pad with uniform points of the one-hot domain / sub-sample without replacement *)
Definition spe_finish (n : nat) (samples pad : list row) (ix : list nat) : list row :=
  if Nat.ltb (length samples) n then samples ++ pad
  else if Nat.ltb n (length samples) then nth_rows samples ix
  else samples.
Definition draw_samples (n : nat) (bsz limit : Z) (batches : list (list (row * Q * Q))) (pad : list row) (ix : list nat)
  : list row * Z :=
  let '(s, rej) := spe_loop n bsz limit batches [] 0%Z in (spe_finish n s pad ix, rej).
Definition SPE_BATCH_SIZE : Z := 1000.
Definition SPE_REJECTION_SAMPLES_LIMIT : Z := 100000.

(* which of the two paths SPENextPoints.view takes (initialisation phase, too many open suggestions or too little
   data: random; otherwise the estimator is sampled) is an input: the theorems hold for both *)
Inductive spe_path := SPERandom | SPEDraw.
Record speorc := { s_batches : list (list (row * Q * Q)); s_pad : list row; s_ix : list nat; s_dec : dorc;
                   s_pcols : list (list Q); s_q : qorc; s_draws : list Q }.
Definition spe_tail (d : domain) (opts : list Q) (ps : list DS.prior) (path : spe_path) (n : Z) (o : speorc) : option response :=
  match path with
  | SPERandom => random_tail d opts ps n (s_pcols o) (s_q o) (s_draws o)
  | SPEDraw =>
      let samples := fst (draw_samples (Z.to_nat n) SPE_BATCH_SIZE SPE_REJECTION_SAMPLES_LIMIT (s_batches o) (s_pad o) (s_ix o)) in
      obind (decode_b d (s_dec o) samples) (fun pts => Some (with_costs opts pts (s_draws o)))
  end.

(* ---- search endpoints.  The phase and the 0.8 coin are inputs (identify_search_phase is Model/Phases.v, C14) *)
Inductive sphase := SInit | SExploit | SResolve.
Definition RESOLVE_PHASE_PROB : Q := 8 # 10.
(* SearchNextPoints.view: expected-improvement phases delegate to the GP endpoint; the probability-of-improvement branch
   converts with the neighbour search, de-duplicates against the history and reports no task costs *)
Definition search_tail (d : domain) (opts : list Q) (ph : sphase) (u : Q) (parallel : bool) (af : row -> Q) (xs : list row)
  (hist : list point) (hist_oh : list row) (o : gporc) : option response :=
  let gp := gp_tail d opts parallel af xs hist hist_oh o in
  match ph with
  | SInit | SExploit => gp
  | SResolve =>
      if Qltb u RESOLVE_PHASE_PROB then
        obind (convert_from_one_hot d false af (g_dec o) xs) (fun pts =>
        obind (replace_dups d pts hist uniq_tol (g_choice o) (g_q o)) (fun out =>
        Some {| r_points := out; r_costs := None |}))
      else gp
  end.
(* SPESearchNextPoints.view *)
Definition spe_search_tail (d : domain) (opts : list Q) (ps : list DS.prior) (ph : sphase) (path : spe_path) (n : Z)
  (o : speorc) : option response :=
  match ph with
  | SInit => obind (random_pts d ps n (s_pcols o) (s_q o)) (fun pts => Some {| r_points := pts; r_costs := None |})
  | SExploit => spe_tail d opts ps path n o
  | SResolve =>
      let samples := fst (draw_samples (Z.to_nat n) SPE_BATCH_SIZE SPE_REJECTION_SAMPLES_LIMIT (s_batches o) (s_pad o) (s_ix o)) in
      obind (decode_b d (s_dec o) samples) (fun pts => Some {| r_points := pts; r_costs := None |})
  end.

(* ------------------------------------------------------------------ the decidable specification of a response,
   evaluated in Coq on what the implementation returned *)
Definition memQb (x : Q) (l : list Q) : bool := existsb (Qeq_bool x) l.
Definition count_okb (d : domain) (n m : nat) : bool :=
  Nat.eqb m n || (Nat.ltb m n && (is_discrete d || is_int_constrained d)).
Definition costs_okb (opts : list Q) (npts : nat) (cs : option (list Q)) : bool :=
  match opts, cs with
  | [], None => true
  | _ :: _, Some l => Nat.eqb (length l) npts && forallb (fun c => memQb c opts) l
  | _, _ => false
  end.
Definition resp_okb (d : domain) (opts : list Q) (n : nat) (r : response) : bool :=
  forallb (admissibleb d) (r_points r) && count_okb d n (length (r_points r)) && costs_okb opts (length (r_points r)) (r_costs r).
(* the search endpoints' own branches report no task costs *)
Definition resp_nocost_okb (d : domain) (n : nat) (r : response) : bool :=
  forallb (admissibleb d) (r_points r) && count_okb d n (length (r_points r)) &&
  match r_costs r with None => true | Some _ => false end.

(* ------------------------------------------------------------------ the views' own post-condition:
   `assert len(categorical_next_points) == num_to_sample or self.domain.is_discrete` (GpNextPointsCategorical.view,
   SearchNextPoints.view).  None = AssertionError.  An int-constrained domain with a double parameter whose decode deletes a
   row fails it (finding "C01:gp-search:int-constrained-short-batch-assertion-error", Props/C01_refuted.v). *)
Definition view_assert (d : domain) (n : nat) (r : option response) : option response :=
  obind r (fun x => if Nat.eqb (length (r_points x)) n || is_discrete d then Some x else None).
Definition gp_view (d : domain) (opts : list Q) (parallel : bool) (af : row -> Q) (xs : list row)
  (hist : list point) (hist_oh : list row) (o : gporc) : option response :=
  view_assert d (length xs) (gp_tail d opts parallel af xs hist hist_oh o).
