(* Executable model of libsigopt/compute/optimization.py: MultistartOptimizer.optimize over a scripted inner
   optimiser (the SciPy SLSQP / L-BFGS-B wrappers enter only through the outcome of each run).  No proofs here. *)
From Coq Require Import List QArith Bool Arith.
From LV Require Import Model.Optim.
Import ListNotations.
Open Scope Q_scope.

(* what one run of self.optimizer.optimize() leaves behind *)
Record outcome := mkoc {
  oc_raised : bool;         (* numpy.linalg.LinAlgError was raised *)
  oc_success : bool;        (* optimization_results.success *)
  oc_end : point;           (* optimization_results.x, which becomes objective_function.current_point *)
  oc_fun : option Q         (* -optimization_results.fun ; None stands for NaN *)
}.

Record ms_state := mkms {
  ms_best : option point;        (* best_point *)
  ms_bestv : option Q;           (* best_function_value ; None stands for -inf *)
  ms_starts : batch;
  ms_ends : batch;
  ms_vals : list (option Q);     (* None stands for NaN *)
  ms_succ : list bool
}.
Definition ms_init : ms_state := mkms None None [] [] [] [].

Definition NUM_BACKUP : nat := 1000.   (* NUM_BACKUP_MULTISTARTS; the two MINIMUM_SUCCESSFUL_* constants are 0 *)

(* function_value > best_function_value with NaN and -inf *)
Definition gtv (f b : option Q) : bool :=
  match f, b with
  | None, _ => false
  | Some _, None => true
  | Some f, Some b => Qltb b f
  end.

Section MS.
  Variable acc : point -> bool.             (* domain.check_point_acceptable *)
  Variable run : nat -> point -> outcome.   (* the k-th inner run, started at the given point *)
  Variable gen : nat -> batch.              (* domain.generate_quasi_random_points_in_domain(k) *)

  (* (function_value, success) as recorded for one run *)
  (* current_point after the run: a run that raised leaves the start in place *)
  Definition end_of (p : point) (o : outcome) : point := if oc_raised o then p else oc_end o.
  Definition ms_record (p : point) (o : outcome) : option Q * bool :=
    let fv := if oc_raised o then None else oc_fun o in
    let sc := if oc_raised o then false else oc_success o in
    if acc (end_of p o) then (fv, sc) else (None, false).

  Definition is_none {A} (o : option A) : bool := match o with None => true | Some _ => false end.

  Fixpoint ms_loop (nm nsel : nat) (k : nat) (todo : batch) (st : ms_state) : result ms_state :=
    match todo with
    | [] => Err RuntimeError          (* the for-else branch *)
    | p :: r =>
        let o := run k p in
        let '(fv, sc) := ms_record p o in
        let st1 := mkms (ms_best st) (ms_bestv st) (ms_starts st ++ [p]) (ms_ends st ++ [end_of p o])
                        (ms_vals st ++ [fv]) (ms_succ st ++ [sc]) in
        let take := is_none (ms_best st) || (sc && gtv fv (ms_bestv st)) in
        let st2 :=
          if take then
            if is_none (ms_best st) && negb sc
            then (* the first run failed: keep a point of the caller, best_point = point *)
              mkms (Some p) (ms_bestv st1) (ms_starts st1) (ms_ends st1) (ms_vals st1) (ms_succ st1)
            else mkms (Some (end_of p o)) (match fv with None => ms_bestv st | Some f => Some f end)
                      (ms_starts st1) (ms_ends st1) (ms_vals st1) (ms_succ st1)
          else st1 in
        let n := length (ms_vals st2) in
        let stop := if Nat.eqb nm 0 then Nat.eqb n nsel else (nm <=? n)%nat in
        if stop then Ok st2 else ms_loop nm nsel (S k) r st2
    end.

  (* MultistartOptimizer.optimize(selected_starts) *)
  Definition ms_optimize (nm : nat) (selected : option batch) : result ms_state :=
    match selected, (nm <? 1)%nat with
    | None, true => Err ValueError
    | _, _ =>
        let sel := match selected with None => [] | Some s => s end in
        let initial := if (nm <=? length sel)%nat then sel else sel ++ gen (nm - length sel) in
        ms_loop nm (length sel) 0 (initial ++ gen NUM_BACKUP) ms_init
    end.
End MS.
