(* Correspondence for Model.Poly: the harness prints the matrix and the tensor the running code returned (dyadic points and small
   exponents: every product is exact in binary floating point as long as it fits in 53 bits, which the generator guarantees). *)
From Coq Require Import List QArith Bool.
From LV Require Import Model.Poly.
Import ListNotations.
Open Scope Q_scope.

Record case := mkcase { c_dim : nat; c_idx : list (list nat); c_pts : list (list Q); c_mat : list (list Q); c_ten : list (list (list Q)) }.

Definition leq {A} (eq : A -> A -> bool) := fix go (a b : list A) : bool :=
  match a, b with [], [] => true | x :: a', y :: b' => eq x y && go a' b' | _, _ => false end.

Definition check (c : case) : bool :=
  leq (leq Qeq_bool) (polymatQ (c_dim c) (c_idx c) (c_pts c)) (c_mat c) &&
  leq (leq (leq Qeq_bool)) (gradtenQ (c_dim c) (c_idx c) (c_pts c)) (c_ten c).
