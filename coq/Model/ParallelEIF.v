(* Executable model of the Monte-Carlo parallel expected improvement WITH FAILURE MODELS,
     libsigopt/compute/expected_improvement.py : ExpectedParallelImprovementWithFailures._evaluate_at_point_list
   and of the public AcquisitionFunction.evaluate_at_point_list driving it batch by batch.  NO proofs in this file.
   (The incumbent rule _get_best_location_value_not_failure of the class is the rule of ExpectedImprovementWithFailures, already
   modelled as Model.Incumbent.incumbent_failures; the correspondence Model.ParallelEIFCorr ties the class to it.)

   One vectorised call evaluates n = num_to_evaluate candidate SETS of q = num_points_to_sample points each, together with the
   p = num_points_being_sampled pending points, under F = failure_model.num_pfs failure models.  What enters from outside:
     fsets  : for each candidate set k, in the order of the call, the triple
                ( (objective means of its q points, L_k rows of the factor of the objective covariance of set k ++ pending),
                  for each failure model i: (pf_i.predictor's means of the q points, rows of the factor of pf_i's covariance of set k ++ pending),
                  for each failure model i: pf_i.compute_probability_of_success at the FIRST point of set k )
     fms    : for each failure model i the pair (pf_i.predictor's means of the pending points, pf_i.threshold)
     mp     : the objective means of the pending points
     best   : self.best_value
     N, B   : num_mc_iterations, num_mc_iterations_per_loop
     stream : the standard normal draws, flat, in the order numpy.random.normal hands them out (each block of shape
              (block, q+p) row-major: one row = one draw z).  ONE array of draws per pass of the loop: the SAME rows z drive the
              objective sample and the sample of every failure model, for all the candidate sets of the call.
   The model follows the array program statement by statement: the factor tensors, the means reshaped to (n, q) and transposed,
   tensordot over axis 1 of both operands, the two slice updates (here `+= mean`: the sample is m + L z), best - predictions, the
   running product of the indicator arrays `predictions_failures[i] < threshold_i`, the product with the improvements, amax over
   axis 0, fmax with 0, the test `numpy.sum(max_improvement) == 0` on the WHOLE block (all candidate sets, all draws of the pass)
   and the replacement by improvement * success probability of the first point, the sum over axis 1, the while loop over blocks
   and the final division. *)
From Coq Require Import List QArith Bool Arith.
From LV Require Import Model.ParallelEI.
Import ListNotations.
Open Scope Q_scope.

Notation fset := (cset * list cset * vec)%type.   (* one candidate set: (objective, per failure model, success probabilities of its first point) *)
Notation fmod := (vec * Q)%type.                  (* one failure model: (its means of the pending points, its threshold) *)
Notation dcset := (@nil Q, @nil (list Q)).
Notation dfmod := (@nil Q, 0).
Notation dfset := (dcset, @nil cset, @nil Q).

Definition s_obj (s : fset) : cset := fst (fst s).
Definition s_fail (s : fset) : list cset := snd (fst s).
Definition s_probs (s : fset) : vec := snd s.
(* what failure model i sees of the candidate sets of the call: chol_cov_tensor_failures[i, :, :, k], mean_to_evaluate_failures[i] *)
Definition fm_sets (i : nat) (fsets : list fset) : list cset := map (fun s => nth i (s_fail s) dcset) fsets.

Definition qltb (a b : Q) : bool := negb (Qle_bool b a).      (* a < b *)
Definition prodQ (l : vec) : Q := fold_right Qmult 1 l.       (* numpy.prod(poss, axis=0) of ProductOfListOfProbabilisticFailures *)

(* elementwise operations on (c, n, b) arrays  —  [j][k][d] *)
Definition tmap (f : Q -> Q) (T : list mat) : list mat := map (map (map f)) T.
Definition tmap2 (f : Q -> Q -> Q) (A B : list mat) : list mat := map2 (map2 (map2 f)) A B.

(* posterior_predictions[:q, :, :] += mean_to_evaluate[:, :, None] *)
Definition addm_first (q : nat) (pp : list mat) (mte : mat) : list mat :=
  map2 (fun ppj mj => map2 (fun ppjk mjk => map (fun x => x + mjk) ppjk) ppj mj) (firstn q pp) mte ++ skipn q pp.
(* posterior_predictions[-p:, :, :] += mean_being_sampled[:, None, None] *)
Definition addm_last (p : nat) (pp : list mat) (mbs : vec) : list mat :=
  let h := (length pp - p)%nat in
  firstn h pp ++ map2 (fun ppj m => map (map (fun x => x + m)) ppj) (skipn h pp) mbs.

(* tensordot(chol, normals, ([1], [1])), then the two slice updates: the samples m + L z of one model (objective or failure
   model) at the q + p points, for every candidate set and every draw of the block  —  [j][k][d] *)
Definition predictions (q p : nat) (sets : list cset) (mbs : vec) (normals : mat) : list mat :=
  let c := (q + p)%nat in
  let pp0 := tensordot c (length sets) (chol_tensor c sets) normals in
  let pp1 := addm_first q pp0 (mean_to_evaluate q sets) in
  if (p =? 0)%nat then pp1 else addm_last p pp1 mbs.

(* posterior_predictions_failures_product *= posterior_predictions_failures[i] < pf.threshold *)
Definition mask_step (acc : list mat) (ppf_thr : list mat * Q) : list mat :=
  tmap2 Qmult acc (tmap (fun x => if qltb x (snd ppf_thr) then 1 else 0) (fst ppf_thr)).

(* numpy.fmax(0.0, numpy.amax(T, axis=0))  —  [k][d] *)
Definition max_improvement (n b : nat) (T : list mat) : mat := map (map (qmax 0)) (amax0 n b T).

(* one pass of the while body *)
Definition fblock_contribution (q : nat) (fsets : list fset) (fms : list fmod) (mp : vec) (best : Q) (normals : mat) : vec :=
  let p := length mp in
  let n := length fsets in
  let b := length normals in
  let pp := predictions q p (map s_obj fsets) mp normals in
  let ppf := map (fun i => (predictions q p (fm_sets i fsets) (fst (nth i fms dfmod)) normals, snd (nth i fms dfmod))) (seq 0 (length fms)) in
  let imp := tmap (fun x => best - x) pp in                                   (* posterior_improvement_predictions *)
  let prod := fold_left mask_step ppf (tmap (fun _ => 1) imp) in              (* ones_like, then *= for each failure model *)
  let nf := tmap2 Qmult imp prod in                                           (* ..._not_failures *)
  let mi := max_improvement n b nf in
  let mi' := if Qeq_bool (sumQ (map sumQ mi)) 0 then                          (* if numpy.sum(max_improvement) == 0: *)
               let sp := map (fun s => prodQ (s_probs s)) fsets in            (* failure_model.compute_probability_of_success(points[:, 0, :]) *)
               let nf' := map (fun impj => map2 (fun row s => map (fun x => x * s) row) impj sp) imp in   (* improvement * success_prob[None, :, None] *)
               max_improvement n b nf'
             else mi in
  map sumQ mi'.

(* ExpectedParallelImprovementWithFailures._evaluate_at_point_list : one estimate per candidate set of the call (the loop is the
   loop of Model.ParallelEI: whole blocks of min(B, N) draws until N is reached) *)
Definition qeif (q : nat) (fsets : list fset) (fms : list fmod) (mp : vec) (best : Q) (N B : nat) (stream : vec) : vec :=
  let c := (q + length mp)%nat in
  let b := Nat.min B N in
  let '(result, executed) := mc_loop (fblock_contribution q fsets fms mp best) N b c N 0 stream (repeat 0 (length fsets)) in
  map (fun r => r / ofnat executed) result.

(* AcquisitionFunction.evaluate_at_point_list(points, batch_size) for this class, num_to_evaluate >= 1: successive calls of
   _evaluate_at_point_list on slices of bs sets, each call drawing fresh normals (the stream moves on) *)
Fixpoint qeif_batched (fuel bs q : nat) (fsets : list fset) (fms : list fmod) (mp : vec) (best : Q) (N B : nat) (stream : vec) : vec :=
  match fuel with
  | O => []
  | S fuel' =>
      match fsets with
      | [] => []
      | _ => qeif q (firstn bs fsets) fms mp best N B stream
             ++ qeif_batched fuel' bs q (skipn bs fsets) fms mp best N B (skipn (n_exec N B * (q + length mp)) stream)
      end
  end.
Definition qeif_public (batch : option nat) (q : nat) (fsets : list fset) (fms : list fmod) (mp : vec) (best : Q) (N B : nat) (stream : vec) : vec :=
  let bs := match batch with Some b0 => if (b0 =? 0)%nat then length fsets else b0 | None => length fsets end in
  qeif_batched (length fsets) bs q fsets fms mp best N B stream.

(* ---- the reading of one estimate (used in the statements) ---- *)
(* y = m + L z : the sample of one model at the q + p points, m = (its means of the set) ++ (its means of the pending points) *)
Definition fsample (c : nat) (s : cset) (mbs : vec) (z : vec) : vec := map (fun j => nth j (fst s ++ mbs) 0 + Lz c (snd s) z j) (seq 0 c).
(* point j of the draw z is feasible: for EVERY failure model i the sampled value of model i AT THAT POINT (same z) is STRICTLY
   below the threshold of model i *)
Definition feasible (c : nat) (s : fset) (fms : list fmod) (z : vec) (j : nat) : bool :=
  forallb (fun i => qltb (nth j (fsample c (nth i (s_fail s) dcset) (fst (nth i fms dfmod)) z) 0) (snd (nth i fms dfmod))) (seq 0 (length fms)).
Definition feasible_points (c : nat) (s : fset) (fms : list fmod) (z : vec) : list nat := filter (feasible c s fms z) (seq 0 c).
(* improvement over best of the lowest objective sample among the FEASIBLE points of the draw (0 when no point is feasible) *)
Definition masked_improvement (c : nat) (s : fset) (fms : list fmod) (mp : vec) (best : Q) (z : vec) : Q :=
  match feasible_points c s fms z with
  | [] => 0
  | js => qmax 0 (best - amin (map (fun j => nth j (fsample c (s_obj s) mp z) 0) js))
  end.
(* what replaces it in a block whose masked improvements are all zero: fmax(0, amax_j ((best - y_j) * success probability)) ... *)
Definition fallback_gain (c : nat) (s : fset) (mp : vec) (best : Q) (z : vec) : Q :=
  qmax 0 (amax (map (fun y => (best - y) * prodQ (s_probs s)) (fsample c (s_obj s) mp z))).
(* ... which for a success probability >= 0 is: probability * improvement of the lowest objective sample (all points) *)
Definition weighted_improvement (c : nat) (s : fset) (mp : vec) (best : Q) (z : vec) : Q :=
  prodQ (s_probs s) * improvement best (fsample c (s_obj s) mp z).

(* the blocks of draws one call executes: passes N b N 0 blocks of b = min(B, N) rows of c entries *)
Fixpoint blocks (c b t : nat) (stream : vec) : list mat :=
  match t with O => [] | S t' => rows c b stream :: blocks c b t' (skipn (b * c) stream) end.
Definition executed_blocks (N B c : nat) (stream : vec) : list mat := let b := Nat.min B N in blocks c b (passes N b N 0) stream.

(* a block falls back when the masked improvement of EVERY candidate set of the call at EVERY draw of the block is zero *)
Definition block_falls_back (c : nat) (fsets : list fset) (fms : list fmod) (mp : vec) (best : Q) (blk : mat) : bool :=
  forallb (fun s => forallb (fun z => Qeq_bool (masked_improvement c s fms mp best z) 0) blk) fsets.
Definition block_term (c : nat) (fsets : list fset) (fms : list fmod) (mp : vec) (best : Q) (s : fset) (blk : mat) : Q :=
  if block_falls_back c fsets fms mp best blk then sumQ (map (fallback_gain c s mp best) blk)
  else sumQ (map (masked_improvement c s fms mp best) blk).
Definition block_term_w (c : nat) (fsets : list fset) (fms : list fmod) (mp : vec) (best : Q) (s : fset) (blk : mat) : Q :=
  if block_falls_back c fsets fms mp best blk then sumQ (map (weighted_improvement c s mp best) blk)
  else sumQ (map (masked_improvement c s fms mp best) blk).
Definition fset_estimate (c : nat) (fsets : list fset) (fms : list fmod) (mp : vec) (best : Q) (s : fset) (blks : list mat) : Q :=
  sumQ (map (block_term c fsets fms mp best s) blks) / ofnat (length (concat blks)).
Definition fset_estimate_w (c : nat) (fsets : list fset) (fms : list fmod) (mp : vec) (best : Q) (s : fset) (blks : list mat) : Q :=
  sumQ (map (block_term_w c fsets fms mp best s) blks) / ofnat (length (concat blks)).
(* no block of the call falls back / the set alone keeps every block from falling back *)
Definition no_fallback (c : nat) (fsets : list fset) (fms : list fmod) (mp : vec) (best : Q) (blks : list mat) : bool :=
  forallb (fun blk => negb (block_falls_back c fsets fms mp best blk)) blks.
Definition set_active (c : nat) (s : fset) (fms : list fmod) (mp : vec) (best : Q) (blks : list mat) : bool :=
  forallb (fun blk => existsb (fun z => negb (Qeq_bool (masked_improvement c s fms mp best z) 0)) blk) blks.
(* every point of every draw is feasible for the set *)
Definition all_feasible (c : nat) (s : fset) (fms : list fmod) (zs : mat) : bool :=
  forallb (fun z => forallb (feasible c s fms z) (seq 0 c)) zs.

(* shapes: every model has q means per candidate set, F = length fms entries per set, p pending means per failure model *)
Definition fset_wf (q F : nat) (s : fset) : Prop :=
  length (fst (s_obj s)) = q /\ length (s_fail s) = F /\ (forall f, In f (s_fail s) -> length (fst f) = q) /\ length (s_probs s) = F.
Definition qeif_wf (q : nat) (fsets : list fset) (fms : list fmod) (mp : vec) : Prop :=
  (forall s, In s fsets -> fset_wf q (length fms) s) /\ (forall fm, In fm fms -> length (fst fm) = length mp).
