(* Executable model of libsigopt/aux/samplers.py (C08): unit-cube transform, uniform, Latin hypercube, rejection
   sampling with hit-and-run padding, hit-and-run, grid.  No proofs here.  Random draws (uniforms, permutations, normal
   rows, index choices) and the Sobol/Halton unit-cube values are arguments. *)
From Coq Require Import List QArith Qround Bool Arith ZArith.
From LV Require Import Model.Restrict.
Import ListNotations.
Open Scope Q_scope.

(* unit_cube_sampler_transform_decorator:  pts_min + pts_scale * unit_cube_points  (one row) *)
Definition cube_transform (bs : list (Q * Q)) (u : point) : point := map2 (fun b ui => fst b + (snd b - fst b) * ui) bs u.
(* generate_uniform_random_points / sobol / halton: the unit rows come from numpy.random.random / qmcpy *)
Definition cube_sampler (bs : list (Q * Q)) (unit_rows : list point) : list point := map (cube_transform bs) unit_rows.

(* generate_latin_hypercube_points, unit cube: row k starts as k/n + U[k][j] in every column j; column j is then
   shuffled on its own: row i receives the entry of row perm_j[i] *)
Definition lhs_unit (n dim : nat) (U : list point) (perms : list (list nat)) : list point :=
  map (fun i => map (fun j => let k := nth i (nth j perms []) O in
                              inject_Z (Z.of_nat k) / inject_Z (Z.of_nat n) + nth j (nth k U []) 0)
                    (seq 0 dim)) (seq 0 n).
Definition lhs_points (bs : list (Q * Q)) (n : nat) (U : list point) (perms : list (list nat)) : list point :=
  cube_sampler bs (lhs_unit n (length bs) U perms).
(* the stratum [k/n, (k+1)/n) a unit coordinate falls in *)
Definition stratum (n : nat) (x : Q) : Z := Qfloor (inject_Z (Z.of_nat n) * x).
Definition strata_of_dim (n : nat) (j : nat) (pts : list point) : list Z := map (fun p => stratum n (nth j p 0)) pts.

(* generate_uniform_random_points_rejection_sampling: blocks of (already transformed) candidate points; a block is
   filtered by  A x <= b  and appended, `left` and the trial budget go down; stops when enough points were found, the
   budget is spent (or the oracle has no more blocks) *)
Fixpoint rejection_loop (hs : list halfspace) (block_size : Z) (blocks : list (list point)) (acc : list point)
  (lft budget : Z) : list point * Z :=
  if Z.ltb 0 lft && Z.ltb 0 budget then
    match blocks with
    | [] => (acc, lft)
    | blk :: rest =>
        let good := filter (sat_all_b hs) blk in
        rejection_loop hs block_size rest (acc ++ good) (lft - Z.of_nat (length good)) (budget - block_size)
    end
  else (acc, lft).
Definition rejection_sampling (hs : list halfspace) (num : nat) (block_size budget : Z) (blocks : list (list point))
  : list point * bool :=
  match num with
  | O => ([], false)
  | _ => let '(pts, lft) := rejection_loop hs block_size blocks [] (Z.of_nat num) budget in
         if Z.ltb 0 lft then (pts, false) else (firstn num pts, true)
  end.

(* one hit-and-run move: intersections of x + t d with the rows, t in [tmin, tmax] picked by u.
   The library divides the direction by its Euclidean norm first; the move is invariant under a positive rescaling of
   d (tmin and tmax scale inversely), so the model keeps the unnormalised direction and stays in Q.
   None stands for numpy.amax/amin of an empty selection (ValueError). *)
Definition hr_params (hs : list halfspace) (x d : point) : list (Q * Q) :=     (* (z_i, c_i) *)
  map (fun h => let z := dot (fst h) d in (z, (snd h - dot (fst h) x) / z)) hs.
Definition max_list (l : list Q) : option Q := match l with [] => None | x :: r => Some (fold_left Qmaxb r x) end.
Definition min_list (l : list Q) : option Q := match l with [] => None | x :: r => Some (fold_left Qminb r x) end.
Definition hr_step (hs : list halfspace) (x d : point) (u : Q) : option point :=
  let zc := hr_params hs x d in
  match max_list (map snd (filter (fun p => Qltb (fst p) 0) zc)), min_list (map snd (filter (fun p => Qltb 0 (fst p)) zc)) with
  | Some tmin, Some tmax => let t := tmin + (tmax - tmin) * u in Some (map2 (fun xi di => xi + t * di) x d)
  | _, _ => None
  end.

Definition is_zero_vec (v : point) : bool := forallb (fun x => Qeq_bool x 0) v.
(* generate_hitandrun_random_points: per iteration a normal row z, a uniform u and an index choice r (used from the
   run-up on: r < iteration selects an earlier point); the direction is the normal row during run-up, afterwards the
   vector from the running mean to the selected earlier point (the normal row again when that vector is zero) *)
Fixpoint hr_loop (hs : list halfspace) (runup : nat) (it : nat) (x mean : point) (pts : list point)
  (draws : list (point * Q * nat)) : option (list point) :=
  match draws with
  | [] => Some pts
  | (z, u, r) :: rest =>
      let d := if Nat.ltb it runup then z
               else let w := map2 Qminus (nth r pts []) mean in if is_zero_vec w then z else w in
      match hr_step hs x d u with
      | None => None
      | Some x' =>
          let mean' := map2 (fun m xi => m + (xi - m) / inject_Z (Z.of_nat (S it))) mean x' in
          hr_loop hs runup (S it) x' mean' (pts ++ [x']) rest
      end
  end.
Definition hitandrun (hs : list halfspace) (dim num : nat) (x0 : point) (draws : list (point * Q * nat)) : option (list point) :=
  let runup := (10 * (dim + 1))%nat in
  let discard := (25 * (dim + 1))%nat in
  match hr_loop hs runup 0 x0 (repeat 0 dim) [] (firstn (runup + discard + num) draws) with
  | None => None
  | Some pts => Some (skipn (discard + runup) pts)
  end.

(* generate_uniform_random_points_rejection_sampling_with_hitandrun_padding *)
Definition rejection_with_padding (hs : list halfspace) (dim num : nat) (block_size budget : Z) (blocks : list (list point))
  (x0 : point) (draws : list (point * Q * nat)) : option (list point * bool) :=
  let '(pts, ok) := rejection_sampling hs num block_size budget blocks in
  if negb ok && Nat.ltb 0 num then
    match hitandrun hs dim (num - length pts) x0 draws with
    | None => None
    | Some more => Some (pts ++ more, ok)
    end
  else Some (pts, ok).

(* generate_grid_points: numpy.linspace(lo, hi, k) per axis, all combinations *)
Definition linspace (lo hi : Q) (k : nat) : list Q :=
  match k with
  | O => []
  | S O => [lo]
  | S k' => map (fun i => lo + inject_Z (Z.of_nat i) * ((hi - lo) / inject_Z (Z.of_nat k'))) (seq 0 k)
  end.
Fixpoint product (axes : list (list Q)) : list point :=
  match axes with
  | [] => [[]]
  | ax :: rest => flat_map (fun a => map (cons a) (product rest)) ax
  end.
Definition grid_points (ppd : list nat) (bs : list (Q * Q)) : list point :=
  match ppd with
  | [] => []
  | _ => if existsb (Nat.eqb 0) ppd then [] else
         let ppd' := match ppd with [k] => repeat k (length bs) | _ => ppd end in
         product (map2 (fun b k => linspace (fst b) (snd b) k) bs ppd')
  end.
