(* Executable model of libsigopt/compute/python_utils.py: build_polynomial_matrix and build_grad_polynomial_tensor (the
   polynomial mean of the GP: C02 "polynomial mean with GLS coefficients", C04 "gradient of the posterior mean"), with
   indices_represent_zero_mean / indices_represent_constant_mean.  The code is written once, over an arbitrary carrier with
   0, 1, multiplication and an embedding of nat (pow(x, k) is k-fold multiplication, pow(x, 0) = 1 also for x = 0), and
   instantiated at Q (correspondence with the running code on dyadic inputs) and at R (the derivative theorem).  No proofs. *)
From Coq Require Import List QArith Reals Arith Bool.
Import ListNotations.

Section Generic.
  Variable T : Type.
  Variables (zero one : T) (mul : T -> T -> T) (ofnat : nat -> T).

  Fixpoint powT (x : T) (e : nat) : T := match e with O => one | S e' => mul x (powT x e') end.

  (* poly_mat[row][col] = 1; for (this_point, this_index) in zip(point, indices): poly_mat[row][col] *= pow(this_point, this_index) *)
  Fixpoint mono_go (acc : T) (x : list T) (e : list nat) : T :=
    match x, e with xi :: x', ei :: e' => mono_go (mul acc (powT xi ei)) x' e' | _, _ => acc end.
  Definition mono (x : list T) (e : list nat) : T := mono_go one x e.

  (* numpy.array_equal(indices_list, numpy.zeros((1, dim))) *)
  Definition is_constant_mean (idx : list (list nat)) (dim : nat) : bool :=
    match idx with
    | [e] => Nat.eqb (length e) dim && forallb (Nat.eqb 0) e
    | _ => false
    end.

  Definition build_polynomial_matrix (dim : nat) (idx : list (list nat)) (pts : list (list T)) : list (list T) :=
    match idx with
    | [] => map (fun _ => [zero]) pts                                       (* n == 0: numpy.zeros((m, 1)) *)
    | _ => if is_constant_mean idx dim then map (fun _ => map (fun _ => one) idx) pts   (* numpy.ones((m, n)) *)
           else map (fun p => map (mono p) idx) pts
    end.

  (* grad_poly_ten[row][col][d] = 1; for this_dim, (this_point, this_index): if d != this_dim: *= pow(p, i)
     else: if this_index == 0: = 0 else: *= this_index * pow(p, this_index - 1) *)
  Fixpoint grad_go (acc : T) (k d : nat) (x : list T) (e : list nat) : T :=
    match x, e with
    | xi :: x', ei :: e' =>
        let acc' := if Nat.eqb d k
                    then match ei with O => zero | S ei' => mul acc (mul (ofnat ei) (powT xi ei')) end
                    else mul acc (powT xi ei) in
        grad_go acc' (S k) d x' e'
    | _, _ => acc
    end.
  Definition grad_entry (x : list T) (e : list nat) (d : nat) : T := grad_go one 0 d x e.

  Definition build_grad_polynomial_tensor (dim : nat) (idx : list (list nat)) (pts : list (list T)) : list (list (list T)) :=
    if is_constant_mean idx dim || match idx with [] => true | _ => false end
    then map (fun _ => map (fun _ => repeat zero dim) idx) pts               (* numpy.zeros((m, n, dim)) *)
    else map (fun p => map (fun e => map (grad_entry p e) (seq 0 dim)) idx) pts.
End Generic.

(* instances *)
Definition Qofnat (n : nat) : Q := inject_Z (Z.of_nat n).
Definition monoQ := mono Q 1%Q Qmult.
Definition grad_entryQ := grad_entry Q 0%Q 1%Q Qmult Qofnat.
Definition polymatQ := build_polynomial_matrix Q 0%Q 1%Q Qmult.
Definition gradtenQ := build_grad_polynomial_tensor Q 0%Q 1%Q Qmult Qofnat.

Definition monoR := mono R 1%R Rmult.
Definition grad_entryR := grad_entry R 0%R 1%R Rmult INR.
Definition polymatR := build_polynomial_matrix R 0%R 1%R Rmult.
Definition gradtenR := build_grad_polynomial_tensor R 0%R 1%R Rmult INR.
