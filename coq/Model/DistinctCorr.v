(* Correspondence cases for C10: the implementation's logged random-library calls and its outputs are compared with
   Model.Distinct and with the decidable specifications, inside Coq. *)
From Coq Require Import List QArith Qabs ZArith Bool Arith.
From LV Require Import Model.Distinct.
Import ListNotations.
Open Scope Q_scope.

(* one logged call of the random libraries (arguments as the implementation passed them) *)
Inductive call :=
| LChoiceNR (a : list Z) (n : Z)            (* numpy.random.choice(tuple, n, replace=False); tuple sorted by the harness *)
| LRandint (lo hi n : Z)
| LChoice (a : list Q) (n : Z)
| LUniform (lo hi : Q) (n : Z)
| LTruncnorm (a b loc scale : Q) (n : Z)
| LBeta (a b loc scale : Q) (n : Z).

Definition list_eqb {A} (eq : A -> A -> bool) := fix go (a b : list A) : bool :=
  match a, b with [], [] => true | x :: a', y :: b' => eq x y && go a' b' | _, _ => false end.
Definition close (x y : Q) : bool :=
  Qle_bool (Qabs (x - y)) ((1 # 1000000000) * (if Qle_bool 1 (Qabs y) then Qabs y else 1)).
Definition call_eqb (x y : call) : bool :=
  match x, y with
  | LChoiceNR a n, LChoiceNR a' n' => list_eqb Z.eqb a a' && (n =? n')%Z
  | LRandint l h n, LRandint l' h' n' => (l =? l')%Z && (h =? h')%Z && (n =? n')%Z
  | LChoice a n, LChoice a' n' => list_eqb Qeq_bool a a' && (n =? n')%Z
  | LUniform l h n, LUniform l' h' n' => Qeq_bool l l' && Qeq_bool h h' && (n =? n')%Z
  | LTruncnorm a b l s n, LTruncnorm a' b' l' s' n' =>
      close a a' && close b b' && Qeq_bool l l' && Qeq_bool s s' && (n =? n')%Z      (* a, b are quotients *)
  | LBeta a b l s n, LBeta a' b' l' s' n' =>
      Qeq_bool a a' && Qeq_bool b b' && Qeq_bool l l' && Qeq_bool s s' && (n =? n')%Z
  | _, _ => false
  end.

Definition req_call (n : Z) (r : request) : option call :=
  match r with
  | RChoice a => Some (LChoice a n)
  | RRandint lo hi => Some (LRandint lo hi n)
  | RUniform lo hi => Some (LUniform lo hi n)
  | RTruncnorm a b l s => Some (LTruncnorm a b l s n)
  | RBeta a b l s => Some (LBeta a b l s n)
  | RInvalid => None
  end.
Definition calls_of (n : Z) (rs : list request) : option (list call) := all_some (map (req_call n) rs).

(* calls generate_distinct_random_points is expected to make; None = it raises *)
Definition plan_calls (d : domain) (p : plan) : option (list call) :=
  match p with
  | PEmpty => Some []
  | PRandom n => calls_of n (quasi_requests d)
  | PChoice avail n => Some [LChoiceNR avail n]
  | PAll _ total extra => Some [LRandint 0 (total + 1) extra]
  | PIndexError => None
  end.

Definition rows_eqb := list_eqb peqb.
Definition rows_same_set (a b : list point) : bool :=
  (length a =? length b)%nat && forallb (fun p => memP p b) a && forallb (fun p => memP p a) b.

Definition opt_calls_eqb (a : option (list call)) (b : list call) : bool :=
  match a with Some a => list_eqb call_eqb a b | None => false end.

Definition check_distinct (d : domain) (k : Z) (h : list point) (dp : Q) (calls : list call) (orc : list Z)
  (cols : list (list Q)) (out : option (list point)) : bool :=
  let p := distinct_plan d k h dp in
  match out, distinct_points d k h dp orc cols with
  | None, None => true
  | Some o, Some m =>
      opt_calls_eqb (plan_calls d p) calls &&
      match p with
      | PRandom _ => rows_eqb m o && (negb (is_discrete d) || forallb (in_domain_b d) o)
      | PAll _ _ _ => rows_same_set m o && distinct_spec_b d k h o      (* tuple(set) order is unspecified *)
      | _ => rows_eqb m o && distinct_spec_b d k h o
      end
  | _, _ => false
  end.

Definition opt_rows_eqb (a b : option (list point)) : bool :=
  match a, b with Some a, Some b => rows_eqb a b | None, None => true | _, _ => false end.

Inductive case :=
| CDistinct (d : domain) (k : Z) (h : list point) (dp : Q) (calls : list call) (orc : list Z) (cols : list (list Q))
            (out : option (list point))
| CUnique (d : domain) (test : list point) (cmp : option (list point)) (tol : Q) (out : option (list point))
| CReplace (d : domain) (pts hist : list point) (tol : Q) (calls : list call) (orc : list Z) (cols : list (list Q))
           (out : option (list point))
| CRandom (d : domain) (n : Z) (calls : list call) (cols : list (list Q)) (out : list point)
| CPrior (d : domain) (ps : list prior) (n : Z) (calls : list call) (cols : list (list Q)) (out : list point)
| CView (d : domain) (ps : list prior) (constrained : bool) (used_priors : bool)
(* a whole request served by SPENextPoints.view (search = 0) or SPESearchNextPoints.view (search = 1 initialisation, 2 exploitation,
   3 explore / resolve): the phase the view computed, the counts create_spe_suggestions saw, whether the estimator could be formed, and the
   sampler that produced the suggestions (0 priors, 1 quasi-random, 2 the estimator) *)
| CSpeView (ps : list prior) (constrained : bool) (search : nat) (init : bool) (obs open : Z) (formed : bool) (used : nat).

Definition check (c : case) : bool :=
  match c with
  | CDistinct d k h dp calls orc cols out => check_distinct d k h dp calls orc cols out
  | CUnique d test cmp tol out => opt_rows_eqb (identify_unique d test cmp tol) out
  | CReplace d pts hist tol calls orc cols out =>
      match identify_unique d pts None tol with
      | None => match out with None => true | _ => false end
      | Some u1 =>
          match identify_unique d u1 (Some hist) tol with
          | None => match out with None => true | _ => false end
          | Some u2 =>
              let m := (zlen pts - zlen u2)%Z in
              match out, replace_duplicates d pts hist tol orc cols with
              | Some o, Some r =>
                  opt_calls_eqb (plan_calls d (distinct_plan d m hist default_dup_prob)) calls &&
                  rows_eqb (firstn (length u2) o) u2 &&
                  check_distinct d m hist default_dup_prob calls orc cols (Some (skipn (length u2) o)) &&
                  (length r =? length o)%nat
              | None, None => true
              | _, _ => false
              end
          end
      end
  | CRandom d n calls cols out =>
      opt_calls_eqb (calls_of n (quasi_requests d)) calls && rows_eqb (quasi_random n cols) out
  | CPrior d ps n calls cols out =>
      opt_calls_eqb (calls_of n (prior_requests d ps)) calls && rows_eqb (quasi_random n cols) out
  | CView d ps constrained used =>
      Bool.eqb used (match view_path ps constrained with UsePriors => true | UseQuasi => false end)
  | CSpeView ps constrained search init obs open formed used =>
      let s := match search with
               | 0%nat => spe_view_sampler ps constrained init obs open formed
               | 1%nat => spe_search_view_sampler ps constrained SearchInit init obs open formed
               | 2%nat => spe_search_view_sampler ps constrained SearchExploit init obs open formed
               | _ => spe_search_view_sampler ps constrained SearchResolve init obs open formed
               end in
      Nat.eqb used (match s with SPriors => 0 | SQuasi => 1 | SEstimator => 2 end)
  end.
