(* Executable model of the phase selectors and of the weight / epsilon tables (C14).  No proofs here.
     libsigopt/compute/misc/multimetric.py : identify_multimetric_phase, form_convex_combination_weights,
                                             form_epsilon_constraint_epsilon, form_multimetric_info_from_phase
     libsigopt/views/rest/search_next_points.py : identify_search_phase
     libsigopt/views/rest/spe_next_points.py : get_experiment_phase, get_solver_options
     libsigopt/views/view.py : View.form_multimetric_info
   Counts and budgets are Z, fractions are exact rationals; the decimal constants of the source are the exact
   rationals they denote (0.15 = 15/100, ...). *)
From Coq Require Import List QArith ZArith Bool Qround.
From LV Require Import Model.Pareto.
Import ListNotations.
Open Scope Q_scope.

Definition qz (z : Z) : Q := inject_Z z.

(* bounded_below_num_open_suggestions = max(num_open_suggestions, 1)
   adjusted_budget = max(observation_budget - failure_count, bounded_below_num_open_suggestions) *)
Definition adjusted_budget (budget fails opens : Z) : Z := Z.max (budget - fails) (Z.max opens 1).

(* ---------------------------------------------------------------- identify_multimetric_phase *)
Inductive mstage := MInit | MOptOne | MRandom | MSeq | MPolish | MEps | MCompletion.
Definition mstage_ix (s : mstage) : Z :=
  match s with MInit => 0 | MOptOne => 1 | MRandom => 2 | MSeq => 3 | MPolish => 4 | MEps => 5 | MCompletion => 6 end.

(* the labels the code returns (the module-level object() sentinels) *)
Inductive mlabel := LNotMM | LInit | LOpt0 | LOpt1 | LRandom | LSeq | LEps0 | LEps1 | LCompletion.

Definition INITIALIZE_FRAC : Q := 15#100.
Definition COMPLETED_FLOOR : Q := 1#10.
Definition OPTIMIZE_ONE_METRIC_FRAC : Q := 30#100.
Definition CONVEX_RANDOM_FRAC : Q := 45#100.
Definition CONVEX_SPREAD_FRAC : Q := 55#100.
Definition POLISH_ONE_METRIC_FRAC (thr : bool) : Q := if thr then CONVEX_SPREAD_FRAC else 65#100.
Definition EPSILON_CONSTRAINT_FRAC : Q := 95#100.

(* the if / elif chain, as a function of the two fractions *)
Definition mm_stage_of (thr : bool) (fs fc : Q) : mstage * option Q :=
  if Qle_bool fs INITIALIZE_FRAC || Qle_bool fc COMPLETED_FLOOR then (MInit, None)
  else if Qle_bool fs OPTIMIZE_ONE_METRIC_FRAC then (MOptOne, None)
  else if Qle_bool fs CONVEX_RANDOM_FRAC
       then (MRandom, Some ((fs - OPTIMIZE_ONE_METRIC_FRAC) / (CONVEX_RANDOM_FRAC - OPTIMIZE_ONE_METRIC_FRAC)))
  else if Qle_bool fs CONVEX_SPREAD_FRAC
       then (MSeq, Some ((fs - CONVEX_RANDOM_FRAC) / (CONVEX_SPREAD_FRAC - CONVEX_RANDOM_FRAC)))
  else if Qle_bool fs (POLISH_ONE_METRIC_FRAC thr) then (MPolish, None)
  else if Qle_bool fs EPSILON_CONSTRAINT_FRAC
       then (MEps, Some ((fs - POLISH_ONE_METRIC_FRAC thr) / (EPSILON_CONSTRAINT_FRAC - POLISH_ONE_METRIC_FRAC thr)))
  else (MCompletion, None).

Definition fraction_served (budget count fails opens : Z) : Q :=
  qz (count + opens) / qz (adjusted_budget budget fails opens).
Definition fraction_completed (budget count fails opens : Z) : Q :=
  qz count / qz (adjusted_budget budget fails opens).

Definition mm_stage (thr : bool) (budget count fails opens : Z) : mstage * option Q :=
  mm_stage_of thr (fraction_served budget count fails opens) (fraction_completed budget count fails opens).

(* `X_1 if observation_count % 2 else X_0` *)
Definition mm_label (s : mstage) (count : Z) : mlabel :=
  match s with
  | MInit => LInit
  | MOptOne | MPolish => if Z.odd count then LOpt1 else LOpt0
  | MRandom => LRandom
  | MSeq => LSeq
  | MEps => if Z.odd count then LEps1 else LEps0
  | MCompletion => LCompletion
  end.

Definition mm_phase (thr : bool) (budget count fails opens : Z) : mlabel * option Q :=
  let '(s, kw) := mm_stage thr budget count fails opens in (mm_label s count, kw).

(* ---------------------------------------------------------------- identify_search_phase *)
Inductive sphase := SInit | SExploit | SResolve.
Definition sphase_ix (p : sphase) : Z := match p with SInit => 0 | SExploit => 1 | SResolve => 2 end.
Definition search_phase (budget count opens fails : Z) : sphase :=
  let fs := fraction_served budget count fails opens in
  if Qle_bool fs (2#10) then SInit else if Qle_bool fs (4#10) then SExploit else SResolve.

(* ---------------------------------------------------------------- get_experiment_phase / get_solver_options (SPE) *)
Inductive pphase := PInit | PSko | PCompletion.
Definition pphase_ix (p : pphase) : Z := match p with PInit => 0 | PSko => 1 | PCompletion => 2 end.
Definition INITIALIZATION_PHASE_LIMIT : Q := 15#100.
Definition SKO_PHASE_LIMIT : Q := 75#100.
Definition MINIMUM_SUCCESS_THRESHOLD : Q := 1#10.
Definition TOP_GAMMA : Q := 10#100.
Definition BOTTOM_GAMMA : Q := 6#100.

Definition spe_phase_of (sp tp sprop : Q) : pphase :=
  if Qltb sp INITIALIZATION_PHASE_LIMIT
     && negb (Qltb (2 * INITIALIZATION_PHASE_LIMIT) tp && Qltb MINIMUM_SUCCESS_THRESHOLD sprop)
  then PInit
  else if Qltb sp SKO_PHASE_LIMIT then PSko else PCompletion.

Definition success_progress (budget count fails : Z) : Q := qz (count - fails) / qz budget.
Definition total_progress (budget count : Z) : Q := qz count / qz budget.
Definition success_proportion (count fails : Z) : Q := 1 - qz fails / qz (1 + count).

(* returns (phase, success_progress); the caller guarantees budget >= 1 and count >= 0 *)
Definition spe_phase (budget count fails : Z) : pphase * Q :=
  (spe_phase_of (success_progress budget count fails) (total_progress budget count) (success_proportion count fails),
   success_progress budget count fails).

(* SPENextPoints.view: how the request's budget reaches get_experiment_phase --
     budget = self.params["metrics_info"].observation_budget or self.domain.dim * SPE_PHANTOM_BUDGET_FACTOR
   Python's `or` yields its right operand whenever the left one is falsy: None (no budget in the request) AND an integer
   zero (a Python int as well as a NumPy integer).  `dim` is the number of parameters of the request's domain (not the
   one-hot dimension).  This derivation is what makes "budget >= 1" of spe_phase true for every request. *)
Definition SPE_PHANTOM_BUDGET_FACTOR : Z := 50.
Definition spe_view_budget (ob : option Z) (dim : Z) : Z :=
  match ob with
  | Some b => if (b =? 0)%Z then dim * SPE_PHANTOM_BUDGET_FACTOR else b
  | None => dim * SPE_PHANTOM_BUDGET_FACTOR
  end.
(* the (phase tag, progress) the view serves: count = len(points_sampled.points), fails = sum(points_sampled.failures).
   None = the division by a zero budget (ZeroDivisionError with Python ints; inf / nan with NumPy integers) *)
Definition spe_view_phase (ob : option Z) (dim count fails : Z) : option (pphase * Q) :=
  let b := spe_view_budget ob dim in
  if (b =? 0)%Z then None else Some (spe_phase b count fails).

(* (gamma, proposal_factor); `u` is the numpy.random.uniform(0.0, 0.5) draw *)
Definition spe_solver_options (p : pphase) (progress u : Q) : Q * Q :=
  match p with
  | PSko => let step := (progress - INITIALIZATION_PHASE_LIMIT) / (SKO_PHASE_LIMIT - INITIALIZATION_PHASE_LIMIT) in
            (TOP_GAMMA - step * (TOP_GAMMA - BOTTOM_GAMMA), 1)
  | _ => (BOTTOM_GAMMA, u)
  end.

(* ---------------------------------------------------------------- weight and epsilon tables *)
Definition BORDER_BUFFER : Q := 1#10.
(* int(x): truncation toward zero *)
Definition qtrunc (x : Q) : Z := if Qle_bool 0 x then Qfloor x else Qceiling x.
Definition in_unit (f : Q) : bool := Qle_bool 0 f && Qle_bool f 1.

(* numpy.linspace(0.1, 0.9, 101)[k] *)
Definition grid (k : nat) : Q := BORDER_BUFFER + ((1 - BORDER_BUFFER) - BORDER_BUFFER) * (qz (Z.of_nat k) / 100).
Definition grid_table : list Q := map grid (seq 0 101).

(* table[index] for a computed int index; a negative index (never produced, see Proofs) is an error here *)
Definition table_at (t : list Q) (i : Z) : option Q := if (i <? 0)%Z then None else nth_error t (Z.to_nat i).

(* draws of numpy.random.random() are taken from the head of `us`; an exhausted script is an error *)
Definition take_frac (f : Q) (us : list Q) : option Q :=
  if in_unit f then Some f else match us with u :: _ => Some u | [] => None end.

(* form_convex_combination_weights(phase, f); `halton` = generate_halton_points(101, [[0.1, 0.9]], skip=1)[:, 0] *)
Definition form_weights (random_spread : bool) (halton : list Q) (f : Q) (us : list Q) : option (Q * Q) :=
  match take_frac f us with
  | None => None
  | Some f' => match table_at (if random_spread then halton else grid_table) (qtrunc (100 * f')) with
               | None => None
               | Some w => Some (w, 1 - w)
               end
  end.

(* form_epsilon_constraint_epsilon(f) *)
Definition form_epsilon (f : Q) (us : list Q) : option Q :=
  match take_frac f us with
  | None => None
  | Some f' => table_at grid_table (qtrunc (100 * f'))
  end.

(* ---------------------------------------------------------------- form_multimetric_info_from_phase *)
Inductive minfo :=
| NotMM
| OptOne (om cm : nat)
| Convex (w0 w1 : Q)
| EpsC (om cm : nat) (eps : Q).

(* `pick` is the element random.choice returns (false: the first of the pair, true: the second);
   a missing "fraction_of_phase_completed" is the KeyError of the code: None *)
Definition info_from_phase (l : mlabel) (kw : option Q) (pick : bool) (us : list Q) (halton : list Q) : option minfo :=
  match l with
  | LNotMM => Some NotMM
  | LInit => Some (if pick then OptOne 1 0 else OptOne 0 1)
  | LOpt0 => Some (OptOne 0 1)
  | LOpt1 => Some (OptOne 1 0)
  | LRandom | LSeq =>
      match kw with
      | None => None
      | Some f => match form_weights (match l with LRandom => true | _ => false end) halton f us with
                  | None => None
                  | Some (w0, w1) => Some (Convex w0 w1)
                  end
      end
  | LEps0 | LEps1 =>
      match kw with
      | None => None
      | Some f => match form_epsilon f us with
                  | None => None
                  | Some e => Some (match l with LEps0 => EpsC 0 1 e | _ => EpsC 1 0 e end)
                  end
      end
  | LCompletion =>
      match us with
      | [] => None
      | u :: us' => match form_epsilon u us' with
                    | None => None
                    | Some e => Some (if pick then EpsC 1 0 e else EpsC 0 1 e)
                    end
      end
  end.

(* View.form_multimetric_info *)
Definition view_info (requires_pareto thr : bool) (budget count fails opens : Z)
                     (pick : bool) (us halton : list Q) : option minfo :=
  if negb requires_pareto then Some NotMM
  else let '(l, kw) := mm_phase thr budget count fails opens in info_from_phase l kw pick us halton.

(* ---------------------------------------------------------------- the request: MetricsInfo and the two point containers
   libsigopt/aux/adapter_info_containers.py : MetricsInfo.has_optimized_metric_thresholds
       if len(self.optimized_metrics_index) == 0: return False
       return any(self.user_specified_thresholds[i] is not None for i in self.optimized_metrics_index)
   `user_specified_thresholds` has one entry per metric COLUMN (None = no threshold); `optimized_metrics_index` lists the
   columns of the optimised metrics, in any order, among constraint and stored metrics.  `any` stops at the first hit;
   an index beyond the list is Python's IndexError: None. *)
Fixpoint any_threshold_at (thr : list (option Q)) (ix : list nat) : option bool :=
  match ix with
  | [] => Some false
  | i :: r => match nth_error thr i with
              | None => None
              | Some (Some _) => Some true
              | Some None => any_threshold_at thr r
              end
  end.
Definition has_optimized_metric_thresholds (thr : list (option Q)) (optimized : list nat) : option bool :=
  match optimized with [] => Some false | _ => any_threshold_at thr optimized end.

(* what View.form_multimetric_info reads from a request:
     metrics_info.requires_pareto_frontier_optimization, .observation_budget, .has_optimized_metric_thresholds,
     len(points_sampled.points), numpy.sum(points_sampled.failures) (one flag per observation),
     len(points_being_sampled.points) when the request has that key, else 0 *)
Record request := mkRequest {
  rq_pareto : bool;
  rq_budget : Z;
  rq_thresholds : list (option Q);
  rq_optimized : list nat;
  rq_failures : list bool;
  rq_open : option nat }.
Definition rq_count (r : request) : Z := Z.of_nat (length (rq_failures r)).
Definition rq_failure_count (r : request) : Z := Z.of_nat (count_true (rq_failures r)).
Definition rq_open_count (r : request) : Z := match rq_open r with Some k => Z.of_nat k | None => 0%Z end.

Definition request_phase (r : request) : option (mlabel * option Q) :=
  if negb (rq_pareto r) then Some (LNotMM, None) else
  match has_optimized_metric_thresholds (rq_thresholds r) (rq_optimized r) with
  | None => None
  | Some flag => Some (mm_phase flag (rq_budget r) (rq_count r) (rq_failure_count r) (rq_open_count r))
  end.
Definition request_info (r : request) (pick : bool) (us halton : list Q) : option minfo :=
  match request_phase r with
  | None => None
  | Some (l, kw) => info_from_phase l kw pick us halton
  end.

(* the documented flag: some OPTIMISED metric column carries a threshold *)
Definition optimized_threshold_b (thr : list (option Q)) (optimized : list nat) : bool :=
  existsb (fun i => match nth_error thr i with Some (Some _) => true | _ => false end) optimized.
Definition columns_in_range (thr : list (option Q)) (optimized : list nat) : bool :=
  forallb (fun i => Nat.ltb i (length thr)) optimized.

(* ---------------------------------------------------------------- decidable specifications (run on the
   implementation's own outputs by the correspondence) *)
Definition in_band (x : Q) : bool := Qle_bool BORDER_BUFFER x && Qle_bool x (1 - BORDER_BUFFER).
Definition halton_ok (t : list Q) : bool := Nat.eqb (length t) 101 && forallb in_band t.
Definition weights_ok_b (w0 w1 : Q) : bool := in_band w0 && in_band w1 && Qeq_bool (w0 + w1) 1.
Definition info_ok_b (i : minfo) : bool :=
  match i with
  | NotMM => true
  | OptOne om cm => (Nat.eqb om 0 && Nat.eqb cm 1) || (Nat.eqb om 1 && Nat.eqb cm 0)
  | Convex w0 w1 => weights_ok_b w0 w1
  | EpsC om cm e => ((Nat.eqb om 0 && Nat.eqb cm 1) || (Nat.eqb om 1 && Nat.eqb cm 0)) && in_band e
  end.
