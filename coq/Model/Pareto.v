(* Executable model of libsigopt/aux/multimetric.py and of the epsilon-constraint routines of
   libsigopt/compute/misc/multimetric.py (C13).  No proofs here. Values are exact rationals. *)
From Coq Require Import List QArith Bool Arith.
Import ListNotations.
Open Scope Q_scope.

Notation row := (list Q).
Definition Qltb (x y : Q) : bool := negb (Qle_bool y x).

Fixpoint all2 (f : Q -> Q -> bool) (a b : row) : bool :=
  match a, b with x :: a', y :: b' => f x y && all2 f a' b' | _, _ => true end.
Fixpoint any2 (f : Q -> Q -> bool) (a b : row) : bool :=
  match a, b with x :: a', y :: b' => f x y || any2 f a' b' | _, _ => false end.

(* numpy.logical_or(numpy.all(values[good] >= c, axis=1), numpy.any(values[good] > c, axis=1)), one row v *)
Definition keep (c v : row) : bool := all2 (fun vi ci => Qle_bool ci vi) v c || any2 (fun vi ci => Qltb ci vi) v c.
Definition dom (c v : row) : bool := negb (keep c v).

(* for i, c in enumerate(values): if good_ind[i]: good_ind[good_ind] = keep(c, values[good_ind]) *)
Definition step (vals : list row) (good : list bool) (i : nat) : list bool :=
  if nth i good false
  then map (fun gv => fst gv && negb (dom (nth i vals []) (snd gv))) (combine good vals)
  else good.
Definition pareto_mask (vals : list row) : list bool :=
  fold_left (step vals) (seq 0 (length vals)) (repeat true (length vals)).

Fixpoint select {A} (mask : list bool) (l : list A) : list A :=
  match mask, l with b :: m, x :: r => if b then x :: select m r else select m r | _, _ => [] end.

(* find_pareto_frontier_observations_for_maximization(values, observations) *)
Definition pareto_split {A} (vals : list row) (obs : list A) : list A * list A :=
  let g := pareto_mask vals in (select g obs, select (map negb g) obs).

(* ---------------------------------------------------------------- epsilon constraint (two metrics) *)
Definition col (k : nat) (vals : list row) : list Q := map (fun r => nth k r 0) vals.

(* numpy.argmin / nanargmin on finite data: index of the first minimum *)
Fixpoint argmin_from (best : Q) (bi i : nat) (l : list Q) : nat :=
  match l with
  | [] => bi
  | x :: r => if Qltb x best then argmin_from x i (S i) r else argmin_from best bi (S i) r
  end.
Definition argmin (l : list Q) : nat := match l with [] => O | x :: r => argmin_from x O 1%nat r end.

Definition Qminb (a b : Q) : Q := if Qle_bool a b then a else b.
Definition Qmaxb (a b : Q) : Q := if Qle_bool a b then b else a.
Definition convex (eps lo hi : Q) : Q := (1 - eps) * lo + eps * hi.

Definition at_ (vals : list row) (r c : nat) : Q := nth c (nth r vals []) 0.

Definition eps_no_bounds (eps : Q) (cm : nat) (vals : list row) : Q :=
  let a := at_ vals (argmin (col 0 vals)) cm in
  let b := at_ vals (argmin (col 1 vals)) cm in
  convex eps (Qminb a b) (Qmaxb a b).

(* insertion sort of rows by column 0: numpy.argsort(pareto_values[:, 0]); on a two-metric frontier two rows with
   the same column 0 are identical, so every sorting permutation yields this value matrix *)
Fixpoint insert_row (x : row) (l : list row) : list row :=
  match l with
  | [] => [x]
  | y :: r => if Qle_bool (nth 0 x 0) (nth 0 y 0) then x :: l else y :: insert_row x r
  end.
Definition sort_rows (l : list row) : list row := fold_right insert_row [] l.

Definition neg_rows (vals : list row) : list row := map (map Qopp) vals.
Definition sorted_pareto_min (vals : list row) : list row :=
  sort_rows (select (pareto_mask (neg_rows vals)) vals).

Definition in_bound (t : option Q) (x : Q) : bool := match t with None => true | Some t => Qltb x t end.
Definition out_bound (t : Q) (x : Q) : bool := Qltb t x.
Definition count_true (l : list bool) : nat := length (filter (fun b => b) l).

Definition eps_with_bounds (eps : Q) (cm : nat) (vals : list row) (t0 t1 : option Q) : Q :=
  let inb := map (fun r => in_bound t0 (nth 0 r 0) && in_bound t1 (nth 1 r 0)) vals in
  if Nat.ltb (count_true inb) 1 then eps_no_bounds eps cm vals else
  let sp := sorted_pareto_min vals in
  if Nat.ltb (length sp) 2 then eps_no_bounds eps cm vals else
  let first := nth cm (hd [] sp) 0 in
  let last_ := nth cm (last sp []) 0 in
  let minb := if Nat.eqb cm 0 then first else last_ in
  let maxb := if Nat.eqb cm 1 then first else last_ in
  let '(minb, maxb) :=
    match t0 with
    | None => (minb, maxb)
    | Some t => match filter (fun r => out_bound t (nth 0 r 0)) sp with
                | [] => (minb, maxb)
                | r :: _ => if Nat.eqb cm 0 then (minb, nth cm r 0) else (nth cm r 0, maxb)
                end
    end in
  let '(minb, maxb) :=
    match t1 with
    | None => (minb, maxb)
    | Some t => match filter (fun r => out_bound t (nth 1 r 0)) sp with
                | [] => (minb, maxb)
                | r :: rs => let l := last (r :: rs) [] in
                             if Nat.eqb cm 0 then (nth cm l 0, maxb) else (minb, nth cm l 0)
                end
    end in
  convex eps minb maxb.

Definition find_eps (eps : Q) (cm : nat) (vals : list row) (t0 t1 : option Q) : Q :=
  match t0, t1 with None, None => eps_no_bounds eps cm vals | _, _ => eps_with_bounds eps cm vals t0 t1 end.

(* _create_epsilon_constraint_failures.  `successful_points = values[~failures]`; when that matrix is empty (every
   observation a reported failure, or no observation) there is no frontier to place the threshold on and the routine
   returns numpy.zeros_like(failures): nothing is labelled by the threshold (the mask has one entry per row - NumPy
   refuses a boolean index of another length - so that array has the length of `vals`). *)
Definition no_success (vals : list row) (fails : list bool) : bool :=
  match select (map negb fails) vals with [] => true | _ => false end.
Definition eps_failures (eps : Q) (cm : nat) (vals : list row) (fails : list bool) : list bool :=
  let succ := select (map negb fails) vals in
  if no_success vals fails then map (fun _ => false) vals else
  let thr := eps_no_bounds eps cm succ in
  map (fun r => Qle_bool thr (nth cm r 0)) vals.

(* force_minimum_successful_points: clear the `diff` lowest-valued failures of the optimising metric.
   numpy.argsort(...)[:diff] on the failures = extracting the first minimum `diff` times (stable order on ties;
   numpy's sort is not stable, so the implementation is compared through force_min_spec_b below). *)
Fixpoint argmin_fail (v : list Q) (fails : list bool) (i : nat) (best : option (nat * Q)) : option (nat * Q) :=
  match v, fails with
  | x :: v', b :: f' =>
      argmin_fail v' f' (S i)
        (if b then match best with
                   | None => Some (i, x)
                   | Some (_, bx) => if Qltb x bx then Some (i, x) else best
                   end
         else best)
  | _, _ => best
  end.
Fixpoint clear (i : nat) (l : list bool) : list bool :=
  match l, i with
  | [], _ => []
  | _ :: r, O => false :: r
  | b :: r, S i' => b :: clear i' r
  end.
Fixpoint force_k (k : nat) (v : list Q) (fails : list bool) : list bool :=
  match k with
  | O => fails
  | S k' => match argmin_fail v fails 0 None with
            | None => fails
            | Some (i, _) => force_k k' v (clear i fails)
            end
  end.
Definition min_success : nat := 5.
Definition force_min (om : nat) (vals : list row) (fails : list bool) : list bool :=
  let nsucc := count_true (map negb fails) in
  if Nat.ltb nsucc min_success then force_k (min_success - nsucc) (col om vals) fails else fails.

(* filter_epsilon_contraint's labelling: epsilon failures merged with reported ones, then the minimum restored *)
Definition eps_labelling (eps : Q) (om cm : nat) (vals : list row) (fails : list bool) : list bool :=
  let ef := eps_failures eps cm vals fails in
  force_min om vals (map (fun p => orb (fst p) (snd p)) (combine ef fails)).

(* ---------------------------------------------------------------- decidable specifications used on the
   implementation's own outputs (postcondition evaluation inside Coq) *)
Fixpoint forall_ix {A} (f : nat -> A -> bool) (i : nat) (l : list A) : bool :=
  match l with [] => true | x :: r => f i x && forall_ix f (S i) r end.
Definition nondominated_b (vals : list row) (j : nat) : bool :=
  forallb (fun c => negb (dom c (nth j vals []))) vals.
Definition list_eqb {A} (eq : A -> A -> bool) := fix go (a b : list A) : bool :=
  match a, b with [] , [] => true | x :: a', y :: b' => eq x y && go a' b' | _, _ => false end.
(* the implementation's two index lists are exactly the non-dominated and the dominated indices, in order *)
Definition pareto_spec_b (vals : list row) (front dominated : list nat) : bool :=
  let ix := seq 0 (length vals) in
  list_eqb Nat.eqb front (filter (nondominated_b vals) ix) &&
  list_eqb Nat.eqb dominated (filter (fun j => negb (nondominated_b vals j)) ix).

(* a repaired mask is acceptable iff it only clears failures, reaches max(before, min(5, n)) successes and every
   cleared row is no larger (optimising metric) than every row left failed *)
Definition force_min_spec_b (om : nat) (vals : list row) (fails out : list bool) : bool :=
  let n := length fails in
  let before := count_true (map negb fails) in
  Nat.eqb (length out) n &&
  forallb (fun p => implb (negb (fst p)) (negb (snd p))) (combine fails out) &&
  Nat.eqb (count_true (map negb out)) (Nat.max before (Nat.min min_success n)) &&
  let v := col om vals in
  let flipped := select (map (fun p => andb (fst p) (negb (snd p))) (combine fails out)) v in
  let still := select out v in
  forallb (fun a => forallb (fun b => Qle_bool a b) still) flipped.
