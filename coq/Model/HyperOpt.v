(* Executable model for property C11 (hyperparameter fitting), no proofs here.

   Part A: the hyperparameter slot of GaussianProcessLogMarginalLikelihood (libsigopt/compute/log_likelihood.py:
           __init__, num_hyperparameters / problem_size, get_hyperparameters, set_hyperparameters,
           compute_log_likelihood as a function of the GaussianProcess the object holds).
   Part B: libsigopt/views/rest/gp_hyper_opt_multimetric.py: form_one_hot_hyperparameter_domain (the search box),
           GpHyperOptMultimetricView.view / should_skip_hyperopt / call_hyperopt_per_metric (per-metric loop, skip rule,
           packing of the result), together with CategoricalDomain.map_categorical_length_scales_to_one_hot and
           map_one_hot_length_scales_to_categorical (compute/domain.py) and the start vector handed to
           MultistartOptimizer.optimize.  The scaling of the metric values is Model.Midpoint (C12), the one-hot encoding
           of the observed points is Model.Decode (C09), the multistart loop is Model.Multistart (C07).

   Numbers are exact rationals.  numpy.exp / numpy.log are Section variables (oracles).  What SLSQP returns is an oracle
   (the `run` argument of Model.Multistart, or an arbitrary per-fit function `opt`). *)
From Coq Require Import List QArith ZArith Bool Arith Qabs.
From LV Require Import Model.Domain.
From LV Require Model.Decode Model.Midpoint Model.Optim Model.Multistart.
Import ListNotations.
Open Scope Q_scope.

(* ------------------------------------------------------------------------------------------ constants of the code *)
(* log_likelihood.DEFAULT_TIKHONOV_PARAMETER = 1.0e-10, as the double it is (7737125245533627 / 2^86): the value travels
   unchanged into the returned dictionary, so the correspondence compares it exactly *)
Definition DEFAULT_TIK : Q := 7737125245533627 # 77371252455336267181195264.
Definition MINVAR : Q := 1 # 10000000000.              (* aux.constant.MINIMUM_VALUE_VAR = 1.0e-10 *)
Definition ALPHA_LO : Q := 1 # 1000.                   (* ALPHA_LOWER_FACTOR = 0.001 *)
Definition ALPHA_HI : Q := 10.                         (* ALPHA_UPPER_FACTOR = 10 *)
Definition CAT_HI : Q := 101 # 100.                    (* CATEGORICAL_UPPER_BOUND = 1.01 *)
Definition LS_LO : Q := 1 # 1000.                      (* LENGTH_SCALE_LOWER_FACTOR = 0.001 *)
Definition LS_HI : Q := 1.                             (* LENGTH_SCALE_UPPER_FACTOR = 1 *)
Definition TIK_LO : Q := 1 # 10000.                    (* TIKHONOV_LOWER_FACTOR = 0.0001 *)
Definition TIK_HI : Q := 100.                          (* TIKHONOV_UPPER_FACTOR = 100 *)
Definition TASK_LO : Q := 43 # 100.                    (* TASK_LENGTH_LOWER_BOUND = 0.43 *)
Definition GRID_LO : Q := 1 # 4.                       (* QUANTIZED_LENGTH_SCALE_LOWER_FACTOR = 0.25 *)
Definition DLL : Q := 14 # 100.                        (* DISCRETE_UNIQUENESS_LENGTH_SCALE_MIN_BOUND[C4_RADIAL_MATERN] = 0.14 *)
Definition NUM_MULTISTARTS : nat := 10.                (* DEFAULT_HYPER_OPT_OPTIMIZER_INFO.num_multistarts *)
Definition LION : Q := 1.                              (* LION_LENGTH_SCALE = 1.0 *)

Definition Qmaxb (a b : Q) : Q := if Qle_bool a b then b else a.
Definition Qminb (a b : Q) : Q := if Qle_bool a b then a else b.
Definition pos_b (x : Q) : bool := Qltb 0 x.

Inductive err := LenError | InvalidHyper | EmptyData | BadIndex | BadShape | OptError | ScalingError.
Inductive result (A : Type) := Ok (a : A) | Err (e : err).
Arguments Ok {A} a.
Arguments Err {A} e.

(* =========================================================================================== Part A: the likelihood object *)
Section LogLik.
  Variable E L : Q -> Q.            (* numpy.exp and numpy.log, elementwise *)
  Variable D : Type.                (* historical data and mean_poly_indices: never changed by the two accessors *)

  Record ll := mkll {
    ll_dim : nat;                   (* self.gp.dim = historical_data.dim (task column included) *)
    ll_auto : bool;                 (* use_auto_noise *)
    ll_log : bool;                  (* log_domain *)
    ll_cov : list Q;                (* self.covariance.hyperparameters (linear); the GP holds the same covariance object *)
    ll_tik : option Q;              (* self.gp.tikhonov_param *)
    ll_data : D
  }.

  (* __init__: GaussianProcess(covariance, data, mean, DEFAULT_TIKHONOV_PARAMETER if use_auto_noise else None) *)
  Definition ll_init (dim : nat) (auto lg : bool) (cov : list Q) (d : D) : ll :=
    mkll dim auto lg cov (if auto then Some DEFAULT_TIK else None) d.

  (* num_hyperparameters = covariance.num_hyperparameters + (1 if use_auto_noise else 0), covariance.num_hyperparameters
     = dim + 1 for the radial kernels and for the multitask tensor kernel *)
  Definition problem_size (s : ll) : nat := (S (ll_dim s) + (if ll_auto s then 1 else 0))%nat.

  (* get_hyperparameters; None would be numpy.append(..., None), excluded by construction when use_auto_noise *)
  Definition ll_get (s : ll) : option (list Q) :=
    let lin := if ll_auto s then match ll_tik s with Some t => Some (ll_cov s ++ [t]) | None => None end
               else Some (ll_cov s) in
    match lin with Some hp => Some (if ll_log s then map L hp else hp) | None => None end.

  (* set_hyperparameters: length test, exp in log mode, covariance.hyperparameters = hp[:dim+1] (the covariance setter
     rejects non-positive entries, C03), tikhonov = hp[-1] when use_auto_noise, and a NEW GaussianProcess on the same data *)
  Definition ll_set (s : ll) (hp : list Q) : result ll :=
    if negb (Nat.eqb (length hp) (problem_size s)) then Err LenError
    else
      let lin := if ll_log s then map E hp else hp in
      let cov := firstn (S (ll_dim s)) lin in
      if negb (forallb pos_b cov) then Err InvalidHyper
      else Ok (mkll (ll_dim s) (ll_auto s) (ll_log s) cov (if ll_auto s then Some (last lin 0) else None) (ll_data s)).

  (* compute_log_likelihood reads only self.gp and self.scaling_factor; V stands for
     demeaned_y . K_inv_demeaned_y + 2 sum(log(diag(chol K))) of the GaussianProcess built from these constructor
     arguments (its meaning is Props/C11_loglik.v on Gen.GenGP) *)
  Variable V : list Q -> option Q -> D -> Q.
  Definition ll_value (scale : Q) (s : ll) : Q := - scale * V (ll_cov s) (ll_tik s) (ll_data s).

  Definition with_log (b : bool) (s : ll) : ll := mkll (ll_dim s) (ll_auto s) b (ll_cov s) (ll_tik s) (ll_data s).
End LogLik.
Arguments mkll {D}.
Arguments ll_dim {D}. Arguments ll_auto {D}. Arguments ll_log {D}. Arguments ll_cov {D}. Arguments ll_tik {D}.
Arguments ll_data {D}. Arguments ll_init {D}. Arguments problem_size {D}. Arguments ll_get L {D}. Arguments ll_set E {D}.
Arguments ll_value {D}. Arguments with_log {D}.

(* =========================================================================================== Part B: the endpoint *)

(* ------------------------------------------------------------------ length scales <-> one-hot vector (compute/domain.py) *)
Definition n_elements (c : component) : nat :=
  match c with Double _ _ => 2 | Int _ _ => 2 | Cat es => length es | Grid es => length es end.
Definition is_none {A} (o : option A) : bool := match o with None => true | Some _ => false end.
Definition oget (o : option Q) : Q := match o with Some q => q | None => 0 end.

(* map_categorical_length_scales_to_one_hot: zip(length_scales, components); a None inside an entry turns the whole entry
   into [1.0] * len(elements) *)
Fixpoint ls_to_one_hot (cs : list component) (ls : list (list (option Q))) : list Q :=
  match ls, cs with
  | l :: lr, c :: cr => (if existsb is_none l then repeat LION (n_elements c) else map oget l) ++ ls_to_one_hot cr lr
  | _, _ => []
  end.

(* map_one_hot_length_scales_to_categorical: positions oh_num .. oh_num + width - 1 of the vector per component; None =
   IndexError (vector too short).  Extra trailing entries (the task length) are ignored, as in the code. *)
Fixpoint take {A} (n : nat) (v : list A) : option (list A * list A) :=
  match n, v with
  | O, _ => Some ([], v)
  | S k, x :: r => match take k r with Some (a, b) => Some (x :: a, b) | None => None end
  | S _, [] => None
  end.
Fixpoint regroup (cs : list component) (v : list Q) : option (list (list Q)) :=
  match cs with
  | [] => Some []
  | c :: r =>
      match take (Decode.width c) v with
      | Some (a, b) => match regroup r b with Some g => Some (a :: g) | None => None end
      | None => None
      end
  end.

Record hp_dict := mkhp {
  h_alpha : Q;
  h_ls : list (list (option Q));     (* a request may hold None inside a categorical entry; a response never does *)
  h_task : option Q;
  h_tik : option Q
}.

(* form_one_hot_covariance_base: [alpha] + one_hot_length_scales + ([] if task_length is None else [task_length]) *)
Definition cov_vector (cs : list component) (h : hp_dict) : list Q :=
  h_alpha h :: ls_to_one_hot cs (h_ls h) ++ match h_task h with Some t => [t] | None => [] end.

(* log_likelihood_eval.current_point right after construction: the nugget slot holds DEFAULT_TIKHONOV_PARAMETER, NOT the
   supplied nugget *)
Definition start_vector (cs : list component) (h : hp_dict) : list Q :=
  cov_vector cs h ++ (if is_none (h_tik h) then [] else [DEFAULT_TIK]).

(* the tail of call_hyperopt_per_metric: alpha = pop(0); tikhonov = pop(-1) if use_auto_noise; length_scales = regroup;
   task_length = pop(-1) if task_cost_populated.  None = IndexError *)
Definition unpack (cs : list component) (multitask auto : bool) (v : list Q) : option hp_dict :=
  match v with
  | [] => None
  | alpha :: rest =>
      match (if auto then match rest with [] => None | _ => Some (removelast rest, Some (last rest 0)) end
             else Some (rest, None)) with
      | None => None
      | Some (rest', tik) =>
          match regroup cs rest' with
          | None => None
          | Some g =>
              match (if multitask then match rest' with [] => None | _ => Some (Some (last rest' 0)) end else Some None) with
              | None => None
              | Some task => Some (mkhp alpha (map (map (@Some Q)) g) task tik)
              end
          end
      end
  end.

(* ------------------------------------------------------------------ form_one_hot_hyperparameter_domain *)
Definition qsum (l : list Q) : Q := fold_left Qplus l 0.
Definition qlen (l : list Q) : Q := inject_Z (Z.of_nat (length l)).
(* numpy.var: mean(|x - mean(x)|^2); None = NaN (empty array) *)
Definition variance (l : list Q) : option Q :=
  match l with
  | [] => None
  | _ => let m := qsum l / qlen l in Some (qsum (map (fun x => (x - m) * (x - m)) l) / qlen l)
  end.
Definition sample_var (l : list Q) : Q := match variance l with None => MINVAR | Some v => Qmaxb v MINVAR end.

(* numpy.diff *)
Fixpoint diffs (l : list Q) : list Q :=
  match l with a :: ((b :: _) as r) => (b - a) :: diffs r | _ => [] end.
Definition min_list (l : list Q) : Q := match l with [] => 0 | x :: r => fold_left Qminb r x end.

Definition comp_box (dll : Q) (c : component) : list (Q * Q) :=
  match c with
  | Cat es => repeat (dll, CAT_HI) (length es)
  | Double lo hi => let w := hi - lo in [(LS_LO * w, LS_HI * w)]
  | Int lo hi => let w := inject_Z hi - inject_Z lo in [(Qmaxb dll (LS_LO * w), LS_HI * w)]
  | Grid es => let w := last es 0 - hd 0 es in           (* bounds[-1] - bounds[0]: the list order matters *)
               [(Qmaxb (GRID_LO * min_list (diffs es)) (LS_LO * w), LS_HI * w)]
  end.

Definition hp_box (cs : list component) (vals : list Q) (auto multitask : bool) (dll : Q) : list (Q * Q) :=
  let sv := sample_var vals in
  (ALPHA_LO * sv, ALPHA_HI * sv) :: flat_map (comp_box dll) cs
    ++ (if multitask then [(TASK_LO, CAT_HI)] else [])
    ++ (if auto then [(TIK_LO * sv, TIK_HI * sv)] else []).

(* the CategoricalDomain(...) built from the box asserts elements[0] < elements[1] for every entry *)
Definition box_ok_b (b : list (Q * Q)) : bool := forallb (fun lh => pos_b (fst lh) && Qltb (fst lh) (snd lh)) b.

(* one_hot_domain.check_point_acceptable of the hyperparameter domain (no constraints) *)
Definition in_boxb := Decode.in_boxb.

(* ------------------------------------------------------------------ the view *)
(* what call_hyperopt_per_metric builds for one metric (the correspondence introspects exactly these) *)
Record fit := mkfit {
  f_metric : nat;                 (* index into model_info.hyperparameters *)
  f_rows : list (list Q);         (* one_hot_historical_data.points_sampled *)
  f_vals : list Q;                (* .points_sampled_value *)
  f_vars : list Q;                (* .points_sampled_noise_variance *)
  f_auto : bool;                  (* use_auto_noise = supplied tikhonov is not None *)
  f_box : list (Q * Q);           (* the hyperparameter domain *)
  f_x0 : list Q                   (* selected_starts[0] *)
}.

(* numpy.ptp; None = ValueError on an empty array *)
Definition ptp (l : list Q) : option Q :=
  match l with [] => None | x :: r => Some (Midpoint.list_max x r - Midpoint.list_min x r) end.

Fixpoint set_nth {A} (k : nat) (x : A) (l : list A) : list A :=
  match k, l with
  | O, _ :: r => x :: r
  | S k', y :: r => y :: set_nth k' x r
  | _, [] => []
  end.

Notation job := (nat * list Q * list Q)%type.       (* metric index, its scaled values and variances at the successes *)

Section View.
  Variable cs : list component.
  Variable multitask : bool.                  (* task_cost_populated *)
  Variable rows : list (list Q).              (* one_hot_points_sampled_points[successful_indexes] *)
  Variable hps0 : list hp_dict.               (* params["model_info"].hyperparameters *)
  (* the multistart optimiser on the k-th constructed fit: the point it returns, or an exception *)
  Variable opt : nat -> fit -> result (list Q).

  Definition make_fit (index : nat) (v w : list Q) (h : hp_dict) : fit :=
    let auto := negb (is_none (h_tik h)) in
    mkfit index rows v w auto (hp_box cs v auto multitask DLL) (start_vector cs h).

  Fixpoint run_jobs (jobs : list job) (cur : list hp_dict) (trace : list fit) : result (list hp_dict * list fit) :=
    match jobs with
    | [] => Ok (cur, trace)
    | (index, v, w) :: r =>
        match ptp v with
        | None => Err EmptyData
        | Some d =>
            if Qle_bool d MINVAR then run_jobs r cur trace                      (* should_skip_hyperopt: continue *)
            else
              match nth_error hps0 index with
              | None => Err BadIndex
              | Some h =>
                  if negb (forallb pos_b (cov_vector cs h)) then Err InvalidHyper
                  else
                    let f := make_fit index v w h in
                    match opt (length trace) f with
                    | Err e => Err e
                    | Ok x =>
                        match unpack cs multitask (f_auto f) x with
                        | None => Err BadShape
                        | Some d => run_jobs r (set_nth index d cur) (trace ++ [f])
                        end
                    end
              end
        end
    end.
End View.

Fixpoint enumerate_from {A} (i : nat) (l : list A) : list (nat * A) :=
  match l with [] => [] | x :: r => (i, x) :: enumerate_from (S i) r end.

(* jobs of one metric family: values[successful, i], value_vars[successful, i] for i, index in enumerate(ix) *)
Definition jobs_of (succ : list bool) (ix : list nat) (o : Midpoint.view_out) : list job :=
  map (fun p => (snd p, Midpoint.select succ (Midpoint.column (fst p) (Midpoint.v_values o)),
                        Midpoint.select succ (Midpoint.column (fst p) (Midpoint.v_vars o))))
      (enumerate_from 0 ix).

Fixpoint map2 {A B C} (f : A -> B -> C) (a : list A) (b : list B) : list C :=
  match a, b with x :: a', y :: b' => f x y :: map2 f a' b' | _, _ => [] end.

(* one_hot_points_sampled_points: form_one_hot_points_with_tasks *)
Definition one_hot_rows (cs : list component) (points : list (list Q)) (tasks : option (list Q)) : list (list Q) :=
  let d := {| comps := cs; cons := [] |} in
  match tasks with
  | None => map (fun p => Decode.encode_with_task d p None) points
  | Some ts => map2 (fun p t => Decode.encode_with_task d p (Some t)) points ts
  end.

(* GpHyperOptMultimetricView(params).view()["hyperparameter_dict"], together with the list of constructed fits *)
Definition hyperopt_view (cs : list component) (points : list (list Q)) (tasks : option (list Q))
    (vals vars : list (list Q)) (fails : list bool) (objs : list Midpoint.objective) (opt_ix con_ix : list nat)
    (hps : list hp_dict) (opt : nat -> fit -> result (list Q)) : result (list hp_dict * list fit) :=
  let succ := map negb fails in
  let rows := Midpoint.select succ (one_hot_rows cs points tasks) in
  let nothr := repeat (@None Q) (length objs) in
  let pre ix := match ix with
                | [] => Some []
                | _ => match Midpoint.preprocess ix vals vars fails objs nothr with
                       | Some o => Some (jobs_of succ ix o) | None => None end
                end in
  match pre opt_ix, pre con_ix with
  | Some jo, Some jc => run_jobs cs (negb (is_none tasks)) rows hps opt (jo ++ jc) hps []
  | _, _ => Err ScalingError
  end.

(* the optimiser actually used: MultistartOptimizer(SLSQP, num_multistarts = 10).optimize(selected_starts = [x0]) over the
   box of the fit; `run k` is what the k-th fit's SLSQP runs leave behind, `gen k` its quasi-random starts *)
Definition multistart_opt (run : nat -> nat -> list Q -> Multistart.outcome) (gen : nat -> nat -> list (list Q))
    (k : nat) (f : fit) : result (list Q) :=
  match Multistart.ms_optimize (in_boxb (f_box f)) (run k) (gen k) NUM_MULTISTARTS (Some [f_x0 f]) with
  | Optim.Ok st => match Multistart.ms_best st with Some p => Ok p | None => Err OptError end
  | Optim.Err _ => Err OptError
  end.

(* ------------------------------------------------------------------ decidable specification of one returned dictionary *)
Fixpoint forall2b {A B} (f : A -> B -> bool) (a : list A) (b : list B) : bool :=
  match a, b with [], [] => true | x :: a', y :: b' => f x y && forall2b f a' b' | _, _ => false end.

(* one length scale per numeric parameter and per category, all present; nugget iff supplied; task length iff multitask *)
Definition structure_b (cs : list component) (multitask auto : bool) (d : hp_dict) : bool :=
  forall2b (fun c l => Nat.eqb (length l) (Decode.width c) && forallb (fun o => negb (is_none o)) l) cs (h_ls d)
  && Bool.eqb (negb (is_none (h_task d))) multitask && Bool.eqb (negb (is_none (h_tik d))) auto.

(* the vector a dictionary packs to: alpha, the length scales in order, task length, nugget *)
Definition pack (d : hp_dict) : list Q :=
  h_alpha d :: map oget (concat (h_ls d)) ++ match h_task d with Some t => [t] | None => [] end
             ++ match h_tik d with Some t => [t] | None => [] end.

Definition all_pos_b (d : hp_dict) : bool := forallb pos_b (pack d).
