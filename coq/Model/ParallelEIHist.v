(* The LIVE ExpectedParallelImprovement object (libsigopt/compute/expected_improvement.py) and the predictor it reads from: what the
   object keeps from its construction, what it asks its predictor again at every evaluation.  NO proofs in this file.

   __init__ stores: best_value = predictor.best_observed_value (read ONCE, in AcquisitionFunction.__init__), a copy of
   points_being_sampled, num_points_to_sample, the two iteration counts - and computes nothing else.  The predictor is held by
   reference: when its data are updated (gp.append_lie_data, gp.update_historical_data) the SAME object answers differently.
   _evaluate_at_point_list asks the predictor, at every call, for
     compute_covariance_of_points(set k ++ points_being_sampled)  for each candidate set  (factored by compute_cholesky_for_gp_sampling),
     compute_mean_of_points(all candidate points),  compute_mean_of_points(points_being_sampled)
   and num_points_being_sampled is len(points_being_sampled) of the attribute as it is then.

   A predictor is modelled by its answers: a table of means per point, a table of factors per union of points, its best observed
   value.  The Monte-Carlo loop itself is Model.ParallelEI. *)
From Coq Require Import List QArith Bool Arith.
From LV Require Import Model.ParallelEI.
Import ListNotations.
Open Scope Q_scope.

Notation point := (list Q).

Definition pt_eqb (a b : point) : bool :=
  (length a =? length b)%nat && forallb (fun p => Qeq_bool (fst p) (snd p)) (combine a b).
Fixpoint pts_eqb (a b : list point) : bool :=
  match a, b with [], [] => true | x :: a', y :: b' => pt_eqb x y && pts_eqb a' b' | _, _ => false end.

Record predictor := mkpred {
  p_best  : Q;                          (* best_observed_value *)
  p_means : list (point * Q);           (* compute_mean_of_points, point by point *)
  p_facs  : list (list point * mat)     (* the factor of compute_covariance_of_points(union), union by union *)
}.
Fixpoint mean_of (t : list (point * Q)) (x : point) : Q :=
  match t with [] => 0 | (y, m) :: r => if pt_eqb x y then m else mean_of r x end.
Fixpoint fac_of (t : list (list point * mat)) (u : list point) : mat :=
  match t with [] => [] | (v, L) :: r => if pts_eqb u v then L else fac_of r u end.

Record qobj := mkobj {
  o_q : nat;                  (* num_points_to_sample *)
  o_pending : list point;     (* points_being_sampled *)
  o_best : Q;                 (* best_value *)
  o_N : nat; o_B : nat        (* num_mc_iterations, num_mc_iterations_per_loop *)
}.

Definition construct (p : predictor) (q : nat) (pending : list point) (N B : nat) : qobj :=
  {| o_q := q; o_pending := pending; o_best := p_best p; o_N := N; o_B := B |}.

Inductive qop :=
| QPredictor (p : predictor)               (* the predictor's data changed: from now on it answers p *)
| QPending (pts : list point)              (* af.points_being_sampled = pts *)
| QEval (sets : list (list point)) (entry : option (option nat)) (stream : vec).
                                           (* None: _evaluate_at_point_list(sets); Some b: evaluate_at_point_list(sets, batch_size=b) *)

(* what ONE evaluation reads - from the predictor as it answers NOW, for the pending points held NOW *)
Definition csets_now (p : predictor) (o : qobj) (sets : list (list point)) : list cset :=
  map (fun s => (map (mean_of (p_means p)) s, fac_of (p_facs p) (s ++ o_pending o))) sets.
Definition mp_now (p : predictor) (o : qobj) : vec := map (mean_of (p_means p)) (o_pending o).

Definition eval (p : predictor) (o : qobj) (sets : list (list point)) (entry : option (option nat)) (stream : vec) : vec :=
  match entry with
  | None => qei (o_q o) (csets_now p o sets) (mp_now p o) (o_best o) (o_N o) (o_B o) stream
  | Some batch => qei_public batch (o_q o) (csets_now p o sets) (mp_now p o) (o_best o) (o_N o) (o_B o) stream
  end.

Definition with_pending (o : qobj) (pts : list point) : qobj :=
  {| o_q := o_q o; o_pending := pts; o_best := o_best o; o_N := o_N o; o_B := o_B o |}.

(* the predictor in force and the object after a sequence of operations *)
Fixpoint state_after (p : predictor) (o : qobj) (ops : list qop) : predictor * qobj :=
  match ops with
  | [] => (p, o)
  | QPredictor p' :: r => state_after p' o r
  | QPending pts :: r => state_after p (with_pending o pts) r
  | QEval _ _ _ :: r => state_after p o r
  end.

(* the results of the evaluations of a history, in order *)
Fixpoint run (p : predictor) (o : qobj) (ops : list qop) : list vec :=
  match ops with
  | [] => []
  | QPredictor p' :: r => run p' o r
  | QPending pts :: r => run p (with_pending o pts) r
  | QEval sets e st :: r => eval p o sets e st :: run p o r
  end.

(* the last predictor / pending set named in a history (defaults: those of the construction) *)
Fixpoint last_predictor (p : predictor) (ops : list qop) : predictor :=
  match ops with [] => p | QPredictor p' :: r => last_predictor p' r | _ :: r => last_predictor p r end.
Fixpoint last_pending (pts : list point) (ops : list qop) : list point :=
  match ops with [] => pts | QPending pts' :: r => last_pending pts' r | _ :: r => last_pending pts r end.
Fixpoint count_evals (ops : list qop) : nat :=
  match ops with [] => O | QEval _ _ _ :: r => S (count_evals r) | _ :: r => count_evals r end.
