(* Executable model of libsigopt/compute/domain.py: ContinuousDomain (halfspaces, acceptability, viable-point selection,
   restrict_points_using_constraints / restrict_points_to_domain, generate_random_points_near_point) and
   FixedIndicesOnContinuousDomain, and of the LP set-up and feasibility flag of aux/geometry_utils.find_interior_point
   (C08).  No proofs here.  Values are exact rationals; random draws and the Chebyshev centre are arguments. *)
From Coq Require Import List QArith Qabs Bool Arith.
Import ListNotations.
Open Scope Q_scope.

Notation point := (list Q).
Notation halfspace := (list Q * Q)%type.            (* (a, b) stands for  a . x <= b  *)

Definition Qltb (x y : Q) : bool := negb (Qle_bool y x).
Definition Qmaxb (a b : Q) : Q := if Qle_bool a b then b else a.
Definition Qminb (a b : Q) : Q := if Qle_bool a b then a else b.

Fixpoint dot (a x : point) : Q :=
  match a, x with ai :: a', xi :: x' => ai * xi + dot a' x' | _, _ => 0 end.

Fixpoint map2 {A B C} (f : A -> B -> C) (a : list A) (b : list B) : list C :=
  match a, b with x :: a', y :: b' => f x y :: map2 f a' b' | _, _ => [] end.

(* ---------------------------------------------------------------- the domain *)
(* bounds (lo, hi) per dimension; constraints in the library's input form (weights, rhs):  weights . x >= rhs *)
Record domain := Dom { bounds : list (Q * Q); cstrs : list (point * Q) }.

(* convert_func_list_to_halfspaces: [-w | rhs] rows, then -e_j x <= -lo_j rows, then e_j x <= hi_j rows *)
Definition cons_rows (d : domain) : list halfspace := map (fun c => (map Qopp (fst c), - snd c)) (cstrs d).
Fixpoint lower_rows (pre : nat) (bs : list (Q * Q)) : list halfspace :=
  match bs with
  | [] => []
  | b :: r => (repeat 0 pre ++ (-(1)) :: repeat 0 (length r), - fst b) :: lower_rows (S pre) r
  end.
Fixpoint upper_rows (pre : nat) (bs : list (Q * Q)) : list halfspace :=
  match bs with
  | [] => []
  | b :: r => (repeat 0 pre ++ 1 :: repeat 0 (length r), snd b) :: upper_rows (S pre) r
  end.
Definition halfspaces (d : domain) : list halfspace :=
  cons_rows d ++ lower_rows 0 (bounds d) ++ upper_rows 0 (bounds d).

Definition is_constrained (d : domain) : bool := match cstrs d with [] => false | _ => true end.

Definition sat_b (x : point) (h : halfspace) : bool := Qle_bool (dot (fst h) x) (snd h).
Definition sat_all_b (hs : list halfspace) (x : point) : bool := forallb (sat_b x) hs.
Fixpoint in_box_b (bs : list (Q * Q)) (x : point) : bool :=
  match bs, x with
  | [], [] => true
  | b :: bs', xi :: x' => Qle_bool (fst b) xi && Qle_bool xi (snd b) && in_box_b bs' x'
  | _, _ => false
  end.

(* check_point_acceptable = check_point_inside and check_point_satisfies_constraints (all halfspace rows) *)
Definition acceptable (d : domain) (x : point) : bool :=
  in_box_b (bounds d) x && (negb (is_constrained d) || sat_all_b (halfspaces d) x).

(* check_point_on_boundary(point, tol) of a constrained domain: some row is within tol of equality *)
Definition on_boundary (d : domain) (tol : Q) (x : point) : bool :=
  existsb (fun h => Qle_bool (Qabs (dot (fst h) x - snd h)) tol) (halfspaces d).

Definition safety_margin : Q := 1 # 100000000.      (* DEFAULT_SAFETY_MARGIN_FOR_CONSTRAINTS = 1e-8 *)
Definition push_fraction : Q := 1 # 100.           (* the literal 0.01 *)

(* viable-point selection of restrict_points_using_constraints; c is the stored Chebyshev centre *)
Definition select_viable (d : domain) (c : point) (vp : option point) : point :=
  match vp with
  | None => c
  | Some v =>
      if negb (acceptable d v) then c
      else if on_boundary d safety_margin v then map2 (fun vi ci => vi + (ci - vi) * push_fraction) v c
      else v
  end.

(* numpy.count_nonzero of a row; the rows with more than one non-zero weight are the ones restriction looks at *)
Definition nnz (a : point) : nat := length (filter (fun x => negb (Qeq_bool x 0)) a).
Definition no_bound_rows (hs : list halfspace) : list halfspace := filter (fun h => Nat.ltb 1 (nnz (fst h))) hs.

(* numpy.divide(slack, vmA, out=zeros, where=vmA != 0) for one row and one point *)
Definition multiplier (v p : point) (h : halfspace) : Q :=
  let an := dot (fst h) p in
  let slack := snd h - an in
  let den := dot (fst h) v - an in
  if Qeq_bool den 0 then 0 else slack / den.
Definition valid (m : Q) : bool := Qltb 0 m && Qltb m 1.
(* multipliers[~valid] = 0 *)
Definition masked (v p : point) (h : halfspace) : Q := let m := multiplier v p h in if valid m then m else 0.
(* numpy.max over the column; every masked entry is >= 0, so starting the fold from 0 gives the same value *)
Definition max_correction (hs : list halfspace) (v p : point) : Q := fold_right (fun h acc => Qmaxb (masked v p h) acc) 0 hs.
Definition needs_correction (hs : list halfspace) (v p : point) : bool := existsb (fun h => valid (multiplier v p h)) hs.

(* points *= eps ; points += (1 - eps) * viable *)
Definition combine_toward (eps : Q) (p v : point) : point := map2 (fun pi vi => pi * eps + (1 - eps) * vi) p v.

(* one (already clipped) point; a corrected point consumes one uniform draw unless on_constraint.
   The draws are numpy.random.random(k) with k the number of corrected points, handed out in index order; a missing
   draw reads as 0, a value inside the contract range [0,1), so no theorem below depends on the default. *)
Definition restrict_one (hs : list halfspace) (v : point) (on_constraint : bool) (p : point) (us : list Q) : point * list Q :=
  if needs_correction hs v p then
    let mc := max_correction hs v p in
    let '(u, us') := if on_constraint then (1, us) else match us with u :: r => (u, r) | [] => (0, []) end in
    (combine_toward ((1 - mc) * u) p v, us')
  else (p, us).

Fixpoint restrict_list (hs : list halfspace) (v : point) (on : bool) (ps : list point) (us : list Q) : list point * list Q :=
  match ps with
  | [] => ([], us)
  | p :: r => let '(q, us1) := restrict_one hs v on p us in
              let '(qs, us2) := restrict_list hs v on r us1 in (q :: qs, us2)
  end.

(* numpy.clip(points, lb, ub), one coordinate; same value as minimum(maximum(x, lo), hi) when lo <= hi *)
Definition clip1 (b : Q * Q) (x : Q) : Q := if Qltb x (fst b) then fst b else if Qltb (snd b) x then snd b else x.
Definition clip (bs : list (Q * Q)) (p : point) : point := map2 clip1 bs p.

(* restrict_points_to_domain(points, on_constraint, viable_point): returns the points and the unused draws *)
Definition restrict_points (d : domain) (c : point) (vp : option point) (on : bool) (us : list Q) (ps : list point)
  : list point * list Q :=
  let clipped := map (clip (bounds d)) ps in
  if is_constrained d
  then restrict_list (no_bound_rows (halfspaces d)) (select_viable d c vp) on clipped us
  else (clipped, us).

(* generate_random_points_near_point: None stands for the fall-back to generate_quasi_random_points_in_domain
   (the centre point is not acceptable); zs are the numpy.random.normal(0, std_dev, (n, dim)) rows *)
Definition widths (bs : list (Q * Q)) : point := map (fun b => snd b - fst b) bs.
Definition near_point (d : domain) (c : point) (pt : point) (on : bool) (zs : list point) (us : list Q)
  : option (list point * list Q) :=
  if acceptable d pt
  then Some (restrict_points d c (Some pt) on us
               (map (fun z => map2 Qplus pt (map2 Qmult z (widths (bounds d)))) zs))
  else None.

(* ---------------------------------------------------------------- FixedIndicesOnContinuousDomain *)
Fixpoint set_nth (j : nat) (val : Q) (p : point) : point :=
  match p, j with
  | [], _ => []
  | _ :: r, O => val :: r
  | x :: r, S j' => x :: set_nth j' val r
  end.
(* for index, value in fixed_indices.items(): points[:, index] = value *)
Definition fix_point (fixed : list (nat * Q)) (p : point) : point :=
  fold_left (fun q iv => set_nth (fst iv) (snd iv) q) fixed p.
(* _verify_fixed_indices: index < dim, lo <= value <= hi, and on a constrained domain the column of the index holds
   exactly two non-zeros (its two bound rows), i.e. no constraint mentions it *)
Definition column (j : nat) (hs : list halfspace) : point := map (fun h => nth j (fst h) 0) hs.
Definition fixed_ok (d : domain) (fixed : list (nat * Q)) : bool :=
  forallb (fun iv =>
    Nat.ltb (fst iv) (length (bounds d)) &&
    (let b := nth (fst iv) (bounds d) (0, 0) in Qle_bool (fst b) (snd iv) && Qle_bool (snd iv) (snd b)) &&
    (negb (is_constrained d) || Nat.eqb (nnz (column (fst iv) (halfspaces d))) 2)) fixed.
Definition fixed_restrict (d : domain) (fixed : list (nat * Q)) (c : point) (vp : option point) (on : bool) (us : list Q)
  (ps : list point) : list point :=
  map (fix_point fixed) (fst (restrict_points d c vp on us ps)).

(* ---------------------------------------------------------------- find_interior_point: LP data and flag *)
(* rows (a_i, b_i) of A x <= b  (A = halfspaces[:, :-1], b = -halfspaces[:, -1]); norms n_i = ||a_i|| supplied.
   LP:  minimise -r  subject to  a_i . x + n_i r <= b_i,  x free,  r >= 0 *)
Definition cheby_A_ub (hs : list halfspace) (norms : list Q) : list point := map2 (fun h n => fst h ++ [n]) hs norms.
Definition cheby_b_ub (hs : list halfspace) : list Q := map snd hs.
Definition cheby_c (dim : nat) : point := repeat 0 dim ++ [-(1)].
Definition lp_feasible_b (hs : list halfspace) (norms : list Q) (x : point) (r : Q) : bool :=
  Qle_bool 0 r && forallb (fun hn => Qle_bool (dot (fst (fst hn)) x + snd hn * r) (snd (fst hn))) (combine hs norms).
Definition min_radius : Q := 1 # 100000000.         (* MINIMUM_ACCEPTABLE_RADIUS = 1e-8 *)
(* feasible = res.success and not (res.status == 2 or radius < 1e-8) *)
Definition cheby_flag (success : bool) (status : Z) (radius : Q) : bool :=
  success && negb (Z.eqb status 2 || Qltb radius min_radius).
