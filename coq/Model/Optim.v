(* Executable model of libsigopt/compute/vectorized_optimizers.py (C07): VectorizedOptimizer.optimize /
   evaluate_and_monitor, DEOptimizer._optimize (best1bin / rand1bin), AdamOptimizer._optimize (bookkeeping with the
   per-iteration update vectors as an oracle; the moment formulas separately, with the square roots as an oracle),
   and of the box / fixed-index part of compute/domain.py restriction.  No proofs here.  Values are exact rationals; the
   acquisition function is partial (point -> option Q): None stands for NaN, a point where the function has no value -
   what the code's numpy.nanargmax skips. *)
From Coq Require Import List QArith Bool Arith Qabs.
Import ListNotations.
Open Scope Q_scope.

Notation point := (list Q).
Notation batch := (list (list Q)).

Inductive err := ValueError | IndexError | ShapeError | RuntimeError | NoBest.
Inductive result (A : Type) := Ok (a : A) | Err (e : err).
Arguments Ok {A} a.
Arguments Err {A} e.
Definition bind {A B} (r : result A) (f : A -> result B) : result B :=
  match r with Ok a => f a | Err e => Err e end.
Notation "x <- r ;; k" := (bind r (fun x => k)) (at level 61, r at next level, right associativity).

Definition Qltb (x y : Q) : bool := negb (Qle_bool y x).

Fixpoint map2 {A B C} (f : A -> B -> C) (a : list A) (b : list B) : list C :=
  match a, b with x :: a', y :: b' => f x y :: map2 f a' b' | _, _ => [] end.
Fixpoint map3 {A B C D} (f : A -> B -> C -> D) (a : list A) (b : list B) (c : list C) : list D :=
  match a, b, c with x :: a', y :: b', z :: c' => f x y z :: map3 f a' b' c' | _, _, _ => [] end.
Fixpoint mapi_from {A B} (f : nat -> A -> B) (i : nat) (l : list A) : list B :=
  match l with [] => [] | x :: r => f i x :: mapi_from f (S i) r end.

(* elementwise array arithmetic (results kept reduced so that vm_compute stays small; Qred q == q) *)
Definition vadd (a b : point) : point := map2 (fun x y => Qred (x + y)) a b.
Definition vsub (a b : point) : point := map2 (fun x y => Qred (x - y)) a b.
Definition vscale (c : Q) (a : point) : point := map (fun x => Qred (c * x)) a.
Fixpoint dot (a b : point) : Q := match a, b with x :: a', y :: b' => x * y + dot a' b' | _, _ => 0 end.

(* ------------------------------------------------------------------ domains: box, fixed coordinates, constraints *)
(* numpy.clip(x, lo, hi) = minimum(maximum(x, lo), hi) *)
Definition clip (lo hi x : Q) : Q :=
  let y := if Qle_bool lo x then x else lo in if Qle_bool y hi then y else hi.
Definition clip_point (lb ub p : point) : point := map3 clip lb ub p.

Fixpoint lookup (i : nat) (fixed : list (nat * Q)) : option Q :=
  match fixed with [] => None | (k, v) :: r => if Nat.eqb k i then Some v else lookup i r end.
(* FixedIndicesOnContinuousDomain._fix_points_according_to_fixed_indices, one row (dict keys are unique) *)
Definition fix_point (fixed : list (nat * Q)) (p : point) : point :=
  mapi_from (fun i x => match lookup i fixed with Some v => v | None => x end) 0 p.

(* ContinuousDomain.restrict_points_to_domain without constraints, wrapped by FixedIndicesOnContinuousDomain *)
Definition restrict_box (lb ub : point) (fixed : list (nat * Q)) (b : batch) : batch :=
  map (fun p => fix_point fixed (clip_point lb ub p)) b.

Definition in_box_b (lb ub p : point) : bool :=
  Nat.eqb (length p) (length lb) && Nat.eqb (length ub) (length lb) &&
  forallb (fun t => Qle_bool (fst (fst t)) (snd t) && Qle_bool (snd t) (snd (fst t))) (combine (combine lb ub) p).
Definition fixed_ok_b (fixed : list (nat * Q)) (p : point) : bool :=
  forallb (fun kv => Qeq_bool (nth (fst kv) p (snd kv + 1)) (snd kv)) fixed.
(* a constraint (w, rhs) means  w . x >= rhs ; on the running code it is read with the tolerance of DESIGN 7.0 *)
Definition cons_ok_b (tol : Q) (cons : list (point * Q)) (p : point) : bool :=
  forallb (fun c => Qle_bool (snd c - tol) (dot (fst c) p)) cons.
Definition in_dom_b (tol : Q) (lb ub : point) (fixed : list (nat * Q)) (cons : list (point * Q)) (p : point) : bool :=
  in_box_b lb ub p && fixed_ok_b fixed p && cons_ok_b tol cons p.

(* ------------------------------------------------------------------ monitoring state *)
Record state := mkst {
  best : option (point * Q);    (* _best_location, _best_value *)
  evals : list batch;           (* every batch handed to the acquisition function, in order *)
  rins : list batch             (* every batch handed to restrict_points_to_domain, in order *)
}.
Definition init : state := mkst None [] [].

Record output := mkout { o_state : state; o_start : batch; o_end : batch; o_vals : list (option Q) }.
Definition best_location (o : output) : option point := option_map fst (best (o_state o)).
Definition best_value (o : output) : option Q := option_map snd (best (o_state o)).

Record de_par := mkde {
  de_n : nat;        (* num_multistarts *)
  de_dim : nat;
  de_best1 : bool;   (* strategy == "best1bin" (false: "rand1bin") *)
  de_F : Q;          (* mutation *)
  de_CR : Q          (* crossover_probability *)
}.
Notation draws := (list (nat * nat * nat) * list (list Q))%type.

Section Opt.
  Variable af : point -> option Q.               (* deterministic acquisition function; None: the value there is NaN (undefined) *)
  Variable restrict : nat -> batch -> batch.     (* k-th call of domain.restrict_points_to_domain (it may draw) *)
  Variable gen : nat -> batch.                   (* domain.generate_quasi_random_points_in_domain(k) *)

  (* numpy.nanargmax: NaN entries are skipped, the first maximum of the others is taken; cur = what the scan holds so far
     (None while every entry seen was NaN) *)
  Fixpoint nanargmax_from (cur : option (point * Q)) (l : batch) : option (point * Q) :=
    match l with
    | [] => cur
    | x :: r =>
        match af x with
        | None => nanargmax_from cur r
        | Some v =>
            match cur with
            | None => nanargmax_from (Some (x, v)) r
            | Some (_, bv) => if Qltb bv v then nanargmax_from (Some (x, v)) r else nanargmax_from cur r
            end
        end
    end.

  (* VectorizedOptimizer.evaluate_and_monitor *)
  Definition monitor (s : state) (pts : batch) : result state :=
    match pts with
    | [] => Err ValueError    (* nanargmax of an empty sequence *)
    | _ :: _ =>
        match nanargmax_from None pts with
        | None => Err ValueError        (* nanargmax: "All-NaN slice encountered" *)
        | Some now =>
            let b := match best s with
                     | None => now
                     | Some (bp, bv) => if Qltb bv (snd now) then now else (bp, bv)
                     end in
            Ok (mkst (Some b) (evals s ++ [pts]) (rins s))
        end
    end.

  Definition do_restrict (s : state) (pts : batch) : state * batch :=
    (mkst (best s) (evals s) (rins s ++ [pts]), restrict (length (rins s)) pts).

  (* start-set assembly of VectorizedOptimizer.optimize *)
  Definition starting_points (n : nat) (selected : option batch) : batch :=
    match selected with
    | None => gen n
    | Some sel => if (n <=? length sel)%nat then sel else sel ++ gen (n - length sel)
    end.

  (* ---------------------------------------------------------------- differential evolution *)
  (* self.index_matrix[i, j] : row i lists 0..n-1 without i *)
  Definition imat (i j : nat) : nat := if (j <? i)%nat then j else S j.

  Definition mutant (P : de_par) (bl : point) (pop : batch) (i : nat) (sl : nat * nat * nat) : point :=
    let '(a, b, c) := sl in
    let g k := nth (imat i k) pop [] in
    if de_best1 P then vadd bl (vscale (de_F P) (vsub (g a) (g b)))
    else vadd (g a) (vscale (de_F P) (vsub (g b) (g c))).

  (* numpy.where(random < crossover_probability, mutants, points), one row *)
  Definition cross (CR : Q) (u m p : point) : point :=
    map3 (fun ui mi pi => if Qltb ui CR then mi else pi) u m p.

  Definition sel_ok (P : de_par) (sel : list (nat * nat * nat)) : bool :=
    Nat.eqb (length sel) (de_n P) &&
    forallb (fun t => let '(a, b, c) := t in
                      (a <? de_n P - 1)%nat && (b <? de_n P - 1)%nat && (c <? de_n P - 1)%nat) sel.
  Definition us_ok (P : de_par) (us : list (list Q)) : bool :=
    Nat.eqb (length us) (de_n P) && forallb (fun r => Nat.eqb (length r) (de_dim P)) us.

  (* the replacement rule: points[values >= self.best_value] = trials[...]  (NaN >= x is False) *)
  Definition replace (bv : Q) (pop r : batch) : batch :=
    map2 (fun p t => match af t with Some v => if Qle_bool bv v then t else p | None => p end) pop r.

  Definition de_step (P : de_par) (sp : state * batch) (d : draws) : result (state * batch) :=
    let '(s, pop) := sp in
    let '(sel, us) := d in
    if (de_n P <? 2)%nat then Err ValueError            (* randint(0, n - 1) with n - 1 <= 0 *)
    else if negb (sel_ok P sel) then Err IndexError     (* draws outside randint's contract *)
    else if negb (us_ok P us) then Err ShapeError
    else if negb (Nat.eqb (length pop) (de_n P)) then Err ValueError   (* numpy.where cannot broadcast *)
    else match best s with
         | None => Err NoBest
         | Some (bl, _) =>
             let mutants := mapi_from (mutant P bl pop) 0 sel in
             let trials := map3 (cross (de_CR P)) us mutants pop in
             let '(s1, r) := do_restrict s trials in
             s2 <- monitor s1 r ;;
             match best s2 with
             | None => Err NoBest
             | Some (_, bv) => Ok (s2, replace bv pop r)
             end
         end.

  Fixpoint de_loop (P : de_par) (ds : list draws) (sp : state * batch) : result (state * batch) :=
    match ds with
    | [] => Ok sp
    | d :: r => sp' <- de_step P sp d ;; de_loop P r sp'
    end.

  (* DEOptimizer.optimize(selected_starts) *)
  Definition de_optimize (P : de_par) (maxiter : nat) (selected : option batch) (ds : list draws) : result output :=
    let starting := starting_points (de_n P) selected in
    let '(s0, pop0) := do_restrict init starting in
    if (length ds <? maxiter)%nat then Err ShapeError else
    s1 <- monitor s0 pop0 ;;
    sp <- de_loop P (firstn maxiter ds) (s1, pop0) ;;
    s3 <- monitor (fst sp) (snd sp) ;;
    Ok (mkout s3 starting (snd sp) (map af (snd sp))).

  (* ---------------------------------------------------------------- Adam, bookkeeping *)
  Definition same_shape (a b : batch) : bool :=
    Nat.eqb (length a) (length b) && forallb (fun t => Nat.eqb (length (fst t)) (length (snd t))) (combine a b).

  Fixpoint adam_loop (ups : list batch) (sp : state * batch) : result (state * batch) :=
    match ups with
    | [] => Ok sp
    | u :: r =>
        let '(s, pts) := sp in
        s1 <- monitor s pts ;;
        if negb (same_shape pts u) then Err ShapeError else
        adam_loop r (do_restrict s1 (map2 vadd pts u))
    end.

  (* AdamOptimizer.optimize(selected_starts): range(1, maxiter) has maxiter - 1 iterations *)
  Definition adam_optimize (n maxiter : nat) (selected : option batch) (ups : list batch) : result output :=
    let starting := starting_points n selected in
    let '(s0, p0) := do_restrict init starting in
    if (length ups <? maxiter - 1)%nat then Err ShapeError else
    sp <- adam_loop (firstn (maxiter - 1) ups) (s0, p0) ;;
    s2 <- monitor (fst sp) (snd sp) ;;
    Ok (mkout s2 starting (snd sp) (map af (snd sp))).
End Opt.

(* ------------------------------------------------------------------ Adam, the moment formulas (one coordinate) *)
Fixpoint qpow (b : Q) (i : nat) : Q := match i with O => 1 | S k => b * qpow b k end.

Record adam_out := mkao { a_m : Q; a_v : Q; a_vhat : Q; a_upd : Q }.
(* one iteration i >= 1 of AdamOptimizer._optimize for one coordinate of one member; g is the AF gradient,
   s stands for numpy.sqrt(second_moment_unbiased) *)
Definition adam_coord (b1 b2 lr eps : Q) (i : nat) (m v g s : Q) : adam_out :=
  let ag := - g in
  let m' := b1 * m + (1 - b1) * ag in
  let v' := b2 * v + (1 - b2) * (ag * ag) in
  let mh := m' / (1 - qpow b1 i) in
  let vh := v' / (1 - qpow b2 i) in
  mkao m' v' vh (- lr * mh / (s + eps)).

Fixpoint adam_coord_run (b1 b2 lr eps : Q) (i : nat) (m v : Q) (gs ss : list Q) : list adam_out :=
  match gs, ss with
  | g :: gs', s :: ss' =>
      let o := adam_coord b1 b2 lr eps i m v g s in
      o :: adam_coord_run b1 b2 lr eps (S i) (a_m o) (a_v o) gs' ss'
  | _, _ => []
  end.
(* the first step written out: lr * g / (|g| + eps) *)
Definition adam_first (lr eps g : Q) : Q := lr * g / (Qabs g + eps).
