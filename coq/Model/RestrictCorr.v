(* Correspondence cases for C08: implementation outputs are compared with Model.Restrict / Model.Samplers and evaluated
   against the decidable specifications, inside Coq.  Coordinates are compared to a relative 1e-9 (the code divides and
   multiplies doubles); counts, flags, strata and "unchanged" are compared exactly. *)
From Coq Require Import List QArith Qabs Bool Arith ZArith.
From LV Require Import Model.Restrict Model.Samplers.
Import ListNotations.
Open Scope Q_scope.

Definition tol : Q := 1 # 1000000000.
Definition close (a b : Q) : bool := Qle_bool (Qabs (a - b)) (tol * Qmaxb 1 (Qabs b)).
Fixpoint list_eqb {A} (eq : A -> A -> bool) (a b : list A) : bool :=
  match a, b with [], [] => true | x :: a', y :: b' => eq x y && list_eqb eq a' b' | _, _ => false end.
Definition pt_close := list_eqb close.
Definition pts_close := list_eqb pt_close.
(* coordinates of a point of the box bs: the rounding of the double arithmetic is relative to the magnitudes of the operands, i.e. to the
   bounds of that coordinate (a coordinate ranging over +-1e9 that should be 0 comes out as 1e-8), so the comparison is scaled by them *)
Definition bscale (b : Q * Q) : Q := Qmaxb 1 (Qmaxb (Qabs (fst b)) (Qabs (snd b))).
Definition close_at (s a b : Q) : bool := Qle_bool (Qabs (a - b)) (tol * Qmaxb s (Qabs b)).
Fixpoint pt_close_box (bs : list (Q * Q)) (a b : point) : bool :=
  match bs, a, b with
  | [], [], [] => true
  | s :: bs', x :: a', y :: b' => close_at (bscale s) x y && pt_close_box bs' a' b'
  | _, _, _ => false
  end.
Definition pts_close_box (bs : list (Q * Q)) := list_eqb (pt_close_box bs).
Definition pt_eq := list_eqb Qeq_bool.
Definition pts_eq := list_eqb pt_eq.

(* the region, with the 1e-9 slack of DESIGN 7.0 on the running code *)
Definition sat_tol (x : point) (h : halfspace) : bool := Qle_bool (dot (fst h) x) (snd h + tol * Qmaxb 1 (Qabs (snd h))).
Fixpoint in_box_tol (bs : list (Q * Q)) (x : point) : bool :=
  match bs, x with
  | [], [] => true
  | b :: bs', xi :: x' => Qle_bool (fst b - tol * Qmaxb 1 (Qabs (fst b))) xi && Qle_bool xi (snd b + tol * Qmaxb 1 (Qabs (snd b))) && in_box_tol bs' x'
  | _, _ => false
  end.
Definition feasible_tol (d : domain) (x : point) : bool := in_box_tol (bounds d) x && forallb (sat_tol x) (cons_rows d).
Definition feasible_b (d : domain) (x : point) : bool := in_box_b (bounds d) x && sat_all_b (cons_rows d) x.

Definition all_unit (l : list Q) : bool := forallb (fun u => Qle_bool 0 u && Qle_bool u 1) l.

(* strata of the implementation's Latin-hypercube output, per dimension, computed from the box coordinates *)
Definition unit_coord (b : Q * Q) (x : Q) : Q := (x - fst b) / (snd b - fst b).
Definition strata_ok (bs : list (Q * Q)) (n : nat) (perms : list (list nat)) (out : list point) : bool :=
  forallb (fun j =>
    let b := nth j bs (0, 1) in
    Qeq_bool (fst b) (snd b) ||
    list_eqb Z.eqb (map (fun p => stratum n (unit_coord b (nth j p 0))) out) (map Z.of_nat (nth j perms [])))
    (seq 0 (length bs)).

(* candidate blocks of the rejection sampler: the scripted unit rows repeat a pattern cyclically *)
Fixpoint cyc_take (n : nat) (cur full : list point) : list point * list point :=
  match n with
  | O => ([], cur)
  | S n' => match cur with
            | [] => match full with
                    | [] => ([], [])
                    | x :: r => let '(l, c) := cyc_take n' r full in (x :: l, c)
                    end
            | x :: r => let '(l, c) := cyc_take n' r full in (x :: l, c)
            end
  end.
Fixpoint cyc_blocks (nb : nat) (size : nat) (cur full : list point) : list (list point) :=
  match nb with
  | O => []
  | S nb' => let '(blk, cur') := cyc_take size cur full in blk :: cyc_blocks nb' size cur' full
  end.

(* consecutive hit-and-run outputs x -> x' lie on one chord; the move is the model's step along d = x' - x with the
   scripted uniform u, or with 1 - u when the library's direction pointed the other way *)
Definition hr_tol : Q := 1 # 1000000.
Definition hr_close (a b : Q) : bool := Qle_bool (Qabs (a - b)) (hr_tol * Qmaxb 1 (Qabs b)).
Definition chord_ok (hs : list halfspace) (x x' : point) (u : Q) : bool :=
  let d := map2 Qminus x' x in
  if forallb (fun di => Qle_bool (Qabs di) hr_tol) d then true else
  match hr_step hs x d u, hr_step hs x d (1 - u) with
  | Some y1, Some y2 => list_eqb hr_close y1 x' || list_eqb hr_close y2 x'
  | _, _ => false
  end.
Fixpoint chords_ok (hs : list halfspace) (pts : list point) (us : list Q) : bool :=
  match pts, us with
  | x :: ((x' :: _) as rest), u :: us' => chord_ok hs x x' u && chords_ok hs rest us'
  | _, _ => true
  end.

(* same finite set of points, up to the tolerance (grid order is an artefact of numpy.meshgrid) *)
Definition same_set (a b : list point) : bool :=
  Nat.eqb (length a) (length b) && forallb (fun p => existsb (pt_close p) b) a && forallb (fun q => existsb (fun p => pt_close p q) a) b.

Inductive case :=
(* [Fixed]ContinuousDomain.restrict_points_to_domain *)
| CRestrict (d : domain) (c : point) (vp : option point) (on : bool) (us : list Q) (ps : list point)
            (fixed : list (nat * Q)) (out : list point) (used : nat)
(* [Fixed]ContinuousDomain.generate_random_points_near_point *)
| CNear (d : domain) (c : point) (pt : point) (on : bool) (zs : list point) (us : list Q) (fixed : list (nat * Q))
        (out : list point) (fellback : bool)
(* unit-cube samplers: uniform (scripted, exact) and Sobol / Halton (recorded qmcpy rows, tolerance) *)
| CCube (exact : bool) (bs : list (Q * Q)) (rows : list point) (out : list point)
| CLhs (bs : list (Q * Q)) (n : nat) (U : list point) (perms : list (list nat)) (out : list point)
(* generate_uniform_random_points_rejection_sampling through the real block size and budget *)
| CRej (d : domain) (num : nat) (nblocks : nat) (pattern : list point) (out : list point) (ok : bool)
| CHit (hs : list halfspace) (us : list Q) (out : list point)
| CGrid (bs : list (Q * Q)) (ppd : list nat) (out : list point)
(* any entry point: the returned points are in the region *)
| CSpec (d : domain) (fixed : list (nat * Q)) (out : list point)
(* find_interior_point with a scripted LP solver: LP data handed to the solver, returned centre / radius / flag *)
| CChebyLP (hs : list halfspace) (lp_c : point) (lp_A : list point) (lp_b : list Q) (success : bool) (status : Z)
           (sol : point) (center : option point) (radius : Q) (flag : bool)
(* find_interior_point with the real solver: a centre reported feasible satisfies the LP rows with its radius *)
| CChebyReal (hs : list halfspace) (center : point) (radius : Q) (flag : bool).

Definition fixed_in (fixed : list (nat * Q)) (p : point) : bool :=
  forallb (fun iv => Qeq_bool (nth (fst iv) p 0) (snd iv)) fixed.

Definition check (c : case) : bool :=
  match c with
  | CRestrict d c vp on us ps fixed out used =>
      let '(m, rest) := restrict_points d c vp on us ps in
      pts_close_box (bounds d) (map (fix_point fixed) m) out &&
      Nat.eqb (length us - length rest) used &&
      forallb (feasible_tol d) out && forallb (fixed_in fixed) out &&
      (* feasible inputs come back exactly *)
      match fixed with
      | [] => forallb (fun pq => negb (feasible_b d (fst pq)) || pt_eq (fst pq) (snd pq)) (combine ps out)
      | _ => true
      end
  | CNear d c pt on zs us fixed out fellback =>
      forallb (feasible_tol d) out && forallb (fixed_in fixed) out && Nat.eqb (length out) (length zs) &&
      match near_point d c pt on zs us with
      | None => fellback
      | Some (m, _) => negb fellback && pts_close_box (bounds d) (map (fix_point fixed) m) out
      end
  | CCube exact bs rows out =>
      forallb all_unit rows &&
      (if exact then pts_eq (cube_sampler bs rows) out && forallb (in_box_b bs) out
       else pts_close (cube_sampler bs rows) out && forallb (in_box_tol bs) out)
  | CLhs bs n U perms out =>
      pts_close (lhs_points bs n U perms) out && forallb (in_box_tol bs) out && strata_ok bs n perms out
  | CRej d num nblocks pattern out ok =>
      let blocks := map (cube_sampler (bounds d)) (cyc_blocks nblocks (100 * 100) [] pattern) in
      let '(m, mok) := rejection_sampling (halfspaces d) num 10000 1000000 blocks in
      Bool.eqb mok ok && pts_eq m out && forallb (feasible_b d) out
  | CHit hs us out => forallb (fun p => forallb (sat_tol p) hs) out && chords_ok hs out us
  | CGrid bs ppd out => same_set (grid_points ppd bs) out && forallb (in_box_b bs) out
  | CSpec d fixed out => forallb (feasible_tol d) out && forallb (fixed_in fixed) out
  | CChebyLP hs lp_c lp_A lp_b success status sol center radius flag =>
      let dim := match hs with [] => O | h :: _ => length (fst h) end in
      let norms := map (fun r => last r 0) lp_A in
      pt_eq lp_c (cheby_c dim) && pts_eq lp_A (cheby_A_ub hs norms) && pt_eq lp_b (cheby_b_ub hs) &&
      Nat.eqb (length lp_A) (length hs) &&
      forallb (fun hn => Qle_bool 0 (snd hn) &&
                         close (snd hn * snd hn) (fold_right (fun x acc => x * x + acc) 0 (fst (fst hn)))) (combine hs norms) &&
      (if success
       then Bool.eqb flag (cheby_flag true status (last sol 0)) && Qeq_bool radius (last sol 0) &&
            match center with Some cc => pt_eq cc (removelast sol) | None => false end
       else negb flag && Qeq_bool radius 0 && match center with None => true | Some _ => false end)
  | CChebyReal hs center radius flag =>
      negb flag ||
      (Qle_bool min_radius radius &&
       forallb (fun h => let s := snd h - dot (fst h) center + tol * Qmaxb 1 (Qabs (snd h)) in
                         Qle_bool 0 s &&
                         Qle_bool (radius * radius * fold_right (fun x acc => x * x + acc) 0 (fst h)) (s * s * (1 + tol))) hs)
  end.
