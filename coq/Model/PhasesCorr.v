(* Correspondence cases for C14: implementation outputs are checked against Model.Phases / Model.Filters and against the
   decidable specifications, inside Coq.  Labels, masks, indices and filtered arrays are compared exactly; quantities the
   code obtains by a floating-point division or from a non-dyadic decimal constant are compared within 1e-12. *)
From Coq Require Import List QArith ZArith Bool Arith Qabs.
From LV Require Import Model.Pareto Model.Phases Model.Filters.
Import ListNotations.
Open Scope Q_scope.

Definition tol : Q := 1 # 1000000000000.
Definition close (a b : Q) : bool := Qle_bool (Qabs (a - b)) tol.
Definition oclose (a b : option Q) : bool :=
  match a, b with Some x, Some y => close x y | None, None => true | _, _ => false end.

Definition mlabel_eqb (a b : mlabel) : bool :=
  match a, b with
  | LNotMM, LNotMM | LInit, LInit | LOpt0, LOpt0 | LOpt1, LOpt1 | LRandom, LRandom | LSeq, LSeq
  | LEps0, LEps0 | LEps1, LEps1 | LCompletion, LCompletion => true
  | _, _ => false
  end.
Definition sphase_eqb (a b : sphase) : bool :=
  match a, b with SInit, SInit | SExploit, SExploit | SResolve, SResolve => true | _, _ => false end.
Definition pphase_eqb (a b : pphase) : bool :=
  match a, b with PInit, PInit | PSko, PSko | PCompletion, PCompletion => true | _, _ => false end.

(* the band [0.1, 0.9] on doubles: the end points 0.1 and 0.9 are not representable, hence the tolerance *)
Definition in_band_tol (x : Q) : bool := Qle_bool (BORDER_BUFFER - tol) x && Qle_bool x (1 - BORDER_BUFFER + tol).
Definition halton_ok_tol (t : list Q) : bool := Nat.eqb (length t) 101 && forallb in_band_tol t.
Definition pair_ok (om cm : nat) : bool := (Nat.eqb om 0 && Nat.eqb cm 1) || (Nat.eqb om 1 && Nat.eqb cm 0).
Definition info_ok_tol (i : minfo) : bool :=
  match i with
  | NotMM => true
  | OptOne om cm => pair_ok om cm
  | Convex w0 w1 => in_band_tol w0 && in_band_tol w1 && close (w0 + w1) 1
  | EpsC om cm e => pair_ok om cm && in_band_tol e
  end.
Definition info_close (a b : minfo) : bool :=
  match a, b with
  | NotMM, NotMM => true
  | OptOne om cm, OptOne om' cm' => Nat.eqb om om' && Nat.eqb cm cm'
  | Convex w0 w1, Convex v0 v1 => close w0 v0 && close w1 v1
  | EpsC om cm e, EpsC om' cm' e' => Nat.eqb om om' && Nat.eqb cm cm' && close e e'
  | _, _ => false
  end.
Definition oinfo_close (a : option minfo) (b : minfo) : bool := match a with Some x => info_close x b | None => false end.

(* a table the model is allowed to read: when the implementation used the Halton sampler, its table is passed on *)
Definition table_member (t : list Q) (w : Q) : bool := existsb (Qeq_bool w) t.

Definition blist_eqb := list_eqb Bool.eqb.

Inductive case :=
| CMM (thr : bool) (b c f o : Z) (lbl : mlabel) (cf : option Q)
| CSearch (b c o f : Z) (out : sphase)
| CSpe (b c f : Z) (out : pphase) (progress : Q)
(* the real SPENextPoints(params).view() with the suggestion generation stubbed: `ob` = metrics_info.observation_budget
   (None, 0 as a Python int or a NumPy integer, or positive), `dim` = number of parameters of the request's domain,
   c / f = observations / failures of the request; ibudget = the budget the view handed to get_experiment_phase;
   out / progress = the phase tag and progress the view served *)
| CSpeView (ob : option Z) (dim c f ibudget : Z) (out : pphase) (progress : Q)
| CSolver (p : pphase) (progress u gamma pf : Q)
| CWeights (rs : bool) (halton : list Q) (f : Q) (us : list Q) (w0 w1 : Q)
| CEpsilon (f : Q) (us : list Q) (e : Q)
| CInfo (l : mlabel) (kw : option Q) (pick : bool) (us halton : list Q) (out : minfo)
| CInfoErr (l : mlabel) (pick : bool) (us halton : list Q)      (* the implementation raised KeyError *)
| CView (rp thr : bool) (b c f o : Z) (pick : bool) (us halton : list Q) (out : minfo)
(* the real MetricsInfo.has_optimized_metric_thresholds on thresholds per metric column and the optimised columns *)
| CFlag (thr : list (option Q)) (opt : list nat) (out : bool)
(* a real View built from a request whose metrics sit in any column order; `fails` = points_sampled.failures,
   `opens` = len(points_being_sampled.points) or None when the request has no such key *)
| CRequest (rp : bool) (b : Z) (thr : list (option Q)) (opt : list nat) (fails : list bool) (opens : option nat)
           (pick : bool) (us halton : list Q) (out : minfo)
| CFilterGP (info : minfo) (pts vals vars : list row) (fails : list bool) (lie : list Q) (out : fout) (ties : bool)
| CFilterSPE (info : minfo) (pts vals : list row) (fails : list bool) (lie : list Q)
             (opts : list row) (ovals : list Q) (ties : bool)
| CExceeds (vals : list row) (thr : list (option Q)) (out : list bool)
| CAugment (rp hc : bool) (obs : list bool) (af : list row) (t1 : list (option Q)) (pf : list row) (t2 : list (option Q))
           (out : list bool).

Definition uses_halton (l : mlabel) : bool := match l with LRandom => true | _ => false end.

Definition check (c : case) : bool :=
  match c with
  | CMM thr b c f o lbl cf =>
      let '(l, kw) := mm_phase thr b c f o in mlabel_eqb l lbl && oclose kw cf
  | CSearch b c o f out => sphase_eqb (search_phase b c o f) out
  | CSpe b c f out progress =>
      let '(p, pr) := spe_phase b c f in pphase_eqb p out && close pr progress
  | CSpeView ob dim c f ibudget out progress =>
      Z.eqb (spe_view_budget ob dim) ibudget && Z.leb 1 ibudget &&
      match spe_view_phase ob dim c f with
      | Some (p, pr) => pphase_eqb p out && close pr progress
      | None => false
      end
  | CSolver p progress u gamma pf =>
      let '(g, q) := spe_solver_options p progress u in close g gamma && close q pf
  | CWeights rs halton f us w0 w1 =>
      match form_weights rs halton f us with
      | Some (m0, m1) => close m0 w0 && close m1 w1 && (negb rs || (halton_ok_tol halton && Qeq_bool m0 w0))
      | None => false
      end && info_ok_tol (Convex w0 w1)
  | CEpsilon f us e =>
      match form_epsilon f us with Some m => close m e | None => false end && in_band_tol e
  | CInfo l kw pick us halton out =>
      oinfo_close (info_from_phase l kw pick us halton) out && info_ok_tol out
      && (negb (uses_halton l) || halton_ok_tol halton)
  | CInfoErr l pick us halton =>
      match info_from_phase l None pick us halton with None => true | Some _ => false end
  | CView rp thr b c f o pick us halton out =>
      oinfo_close (view_info rp thr b c f o pick us halton) out && info_ok_tol out
  | CFlag thr opt out =>
      columns_in_range thr opt &&
      match has_optimized_metric_thresholds thr opt with Some m => Bool.eqb m out | None => false end &&
      Bool.eqb out (optimized_threshold_b thr opt)
  | CRequest rp b thr opt fails opens pick us halton out =>
      let r := mkRequest rp b thr opt fails opens in
      columns_in_range thr opt &&
      oinfo_close (request_info r pick us halton) out && info_ok_tol out &&
      (* the documented wiring: the phase selector applied to "some optimised column carries a threshold" and the counts *)
      oinfo_close (view_info rp (optimized_threshold_b thr opt) b (rq_count r) (rq_failure_count r) (rq_open_count r)
                             pick us halton) out
  | CFilterGP info pts vals vars fails lie out ties =>
      let m := filter_gp info pts vals vars fails lie in
      fout_lengths_b out && arr_eqb (o_lie m) (o_lie out) &&
      (if ties
       then Nat.eqb (arr_len (o_vals out)) (arr_len (o_vals m)) &&
            match info with
            | EpsC om _ _ => forallb (fun v => existsb (Qeq_bool v) (col om vals)) (arr1 (o_vals out))
            | _ => false     (* only the epsilon mode depends on a sort *)
            end
       else fout_eqb m out)
  | CFilterSPE info pts vals fails lie opts ovals ties =>
      let '(mp, mv) := filter_spe info pts vals fails lie in
      Nat.eqb (length opts) (length ovals) && rows_eqb mp opts &&
      match info with
      | EpsC om cm eps =>
          (* the labelling implied by the output (the generator keeps the lie value distinct from every value) *)
          let lab := map (fun v => Qeq_bool v (nth om lie 0)) ovals in
          let merged := map (fun p : bool * bool => fst p || snd p) (combine (eps_failures eps cm vals fails) fails) in
          force_min_spec_b om vals merged lab &&
          qlist_eqb ovals (set_where lab (nth om lie 0) (col om vals)) &&
          (ties || qlist_eqb mv ovals)
      | _ => qlist_eqb mv ovals
      end
  | CExceeds vals thr out => blist_eqb (exceeds vals thr) out
  | CAugment rp hc obs af t1 pf t2 out => blist_eqb (augment rp hc obs af t1 pf t2) out
  end.
