(* Correspondence cases for C11: implementation outputs are checked against Model.HyperOpt and against the decidable
   specifications, inside Coq.  Vectors that are only passed through (start vectors, optimiser results, returned
   dictionaries, one-hot rows) are compared exactly; quantities that went through a division, numpy.var, 0.001 * width, or
   exp / log are compared to 1e-11 relative (1e-12 absolute for the scaled values, which lie in [-0.1, 0.1]). *)
From Coq Require Import List QArith ZArith Bool Arith Qabs.
From LV Require Import Model.Domain Model.HyperOpt.
From LV Require Model.Decode Model.Midpoint Model.Optim Model.Multistart.
Import ListNotations.
Open Scope Q_scope.

Definition RTOL : Q := 1 # 100000000000.
Definition ATOL : Q := 1 # 1000000000000.
Definition close_rel (a b : Q) : bool := Qle_bool (Qabs (a - b)) (RTOL * Qmaxb (Qabs a) (Qabs b)).
Definition close_abs (a b : Q) : bool := Qle_bool (Qabs (a - b)) (ATOL + RTOL * Qmaxb (Qabs a) (Qabs b)).

Definition qlist_eqb (a b : list Q) : bool := forall2b Qeq_bool a b.
Definition oq_eqb (a b : option Q) : bool :=
  match a, b with None, None => true | Some x, Some y => Qeq_bool x y | _, _ => false end.
Definition dict_eqb (a b : hp_dict) : bool :=
  Qeq_bool (h_alpha a) (h_alpha b) && forall2b (forall2b oq_eqb) (h_ls a) (h_ls b)
  && oq_eqb (h_task a) (h_task b) && oq_eqb (h_tik a) (h_tik b).
Definition box_close (a b : list (Q * Q)) : bool :=
  forall2b (fun x y => close_rel (fst x) (fst y) && close_rel (snd x) (snd y)) a b.

(* exp / log tables recorded by the harness: exact key lookup *)
Fixpoint lookup (t : list (Q * Q)) (x : Q) : Q :=
  match t with [] => 0 | (k, v) :: r => if Qeq_bool k x then v else lookup r x end.

Definition with_box (f : fit) (b : list (Q * Q)) : fit :=
  mkfit (f_metric f) (f_rows f) (f_vals f) (f_vars f) (f_auto f) b (f_x0 f).
Definition dfit : fit := mkfit 0 [] [] [] false [] [].
Definition doutcome : Multistart.outcome := Multistart.mkoc true false [] None.

Definition fit_match (m i : fit) : bool :=
  Nat.eqb (f_metric m) (f_metric i) && forall2b qlist_eqb (f_rows m) (f_rows i)
  && forall2b close_abs (f_vals m) (f_vals i) && forall2b close_rel (f_vars m) (f_vars i)
  && Bool.eqb (f_auto m) (f_auto i) && box_close (f_box m) (f_box i) && qlist_eqb (f_x0 m) (f_x0 i).

Inductive case :=
(* GaussianProcessLogMarginalLikelihood: construct with covariance hyperparameters cov0, read, set hp, read.
   status 0 = accepted, 1 = ValueError (length), 2 = HyperparameterInvalidError *)
| CSetGet (dim : nat) (auto lg : bool) (cov0 hp : list Q) (etab ltab : list (Q * Q))
    (get_before : list Q) (status : nat) (cov_after : list Q) (tik_after : option Q) (get_after : list Q)
(* form_one_hot_hyperparameter_domain *)
| CBox (cs : list component) (vals : list Q) (auto mt : bool) (dll : Q) (bounds : list (Q * Q))
(* map_categorical_length_scales_to_one_hot / map_one_hot_length_scales_to_categorical *)
| CLs (cs : list component) (ls : list (list (option Q))) (one_hot v : list Q) (regrouped : list (list Q))
(* GpHyperOptMultimetricView(params).view() with the SLSQP runs scripted *)
| CEndpoint (cs : list component) (points : list (list Q)) (tasks : option (list Q)) (vals vars : list (list Q))
    (fails : list bool) (objs : list Midpoint.objective) (opt_ix con_ix : list nat) (hps : list hp_dict)
    (scripts : list (list Multistart.outcome)) (gens : list (list (list Q)))
    (ifits : list fit) (iout : list hp_dict).

Definition check_setget dim auto lg cov0 hp etab ltab get_before status cov_after tik_after get_after : bool :=
  let E := lookup etab in
  let L := lookup ltab in
  let s0 := ll_init dim auto lg cov0 tt in
  match ll_get L s0 with
  | Some g0 => forall2b close_rel g0 get_before
  | None => false
  end &&
  match ll_set E s0 hp with
  | Err LenError => Nat.eqb status 1
  | Err _ => Nat.eqb status 2
  | Ok s1 =>
      Nat.eqb status 0 && forall2b close_rel (ll_cov s1) cov_after &&
      match ll_tik s1, tik_after with None, None => true | Some a, Some b => close_rel a b | _, _ => false end &&
      match ll_get L s1 with Some g1 => forall2b close_rel g1 get_after | None => false end &&
      forall2b close_abs get_after hp          (* the property itself: reading returns what was set *)
  end.

Definition check_endpoint cs points tasks vals vars fails objs opt_ix con_ix hps scripts gens ifits iout : bool :=
  let mt := negb (is_none tasks) in
  let run k j (_ : list Q) := nth j (nth k scripts []) doutcome in
  let gen k m := if Nat.eqb m 9 then nth k gens [] else [] in
  let opt k f := multistart_opt run gen k (with_box f (f_box (nth k ifits dfit))) in
  match hyperopt_view cs points tasks vals vars fails objs opt_ix con_ix hps opt with
  | Err _ => false
  | Ok (out, tr) =>
      forall2b fit_match tr ifits && forall2b dict_eqb out iout &&
      (* the specification, on the implementation's own output *)
      forallb (fun f =>
                 match nth_error iout (f_metric f) with
                 | None => false
                 | Some d => structure_b cs mt (f_auto f) d && all_pos_b d && box_ok_b (f_box f) &&
                             (in_boxb (f_box f) (pack d) || qlist_eqb (pack d) (f_x0 f))
                 end) ifits &&
      forallb (fun k => existsb (fun f => Nat.eqb (f_metric f) k) ifits ||
                        match nth_error iout k, nth_error hps k with Some a, Some b => dict_eqb a b | _, _ => false end)
              (seq 0 (length hps)) &&
      Nat.eqb (length iout) (length hps)
  end.

Definition check (c : case) : bool :=
  match c with
  | CSetGet dim auto lg cov0 hp etab ltab gb st ca ta ga => check_setget dim auto lg cov0 hp etab ltab gb st ca ta ga
  | CBox cs vals auto mt dll bounds => box_close (hp_box cs vals auto mt dll) bounds && box_ok_b bounds
  | CLs cs ls one_hot v regrouped =>
      qlist_eqb (ls_to_one_hot cs ls) one_hot &&
      match regroup cs v with Some g => forall2b qlist_eqb g regrouped | None => false end
  | CEndpoint cs points tasks vals vars fails objs opt_ix con_ix hps scripts gens ifits iout =>
      check_endpoint cs points tasks vals vars fails objs opt_ix con_ix hps scripts gens ifits iout
  end.
