(* Executable model of the distinct / random sampling routines of libsigopt/compute/domain.py (C10):
   _analyze_discrete_elements, remove_points_outside_domain, generate_distinct_random_points with its two inner index
   maps, find_indexes_of_unique_points / identify_unique_points, replace_duplicate_points,
   _generate_quasi_random_1d_points_in_domain, generate_quasi_random_points_in_domain (unconstrained branch),
   _generate_random_1d_points_according_to_prior, generate_random_points_according_to_priors, and the prior dispatch of
   the random / SPE / SPE-search views.  No proofs here.  Values are exact rationals; randomness is an explicit oracle. *)
From Coq Require Import List QArith ZArith Bool Arith.
Import ListNotations.
Open Scope Q_scope.

Notation point := (list Q).

(* a domain component; `elements` of an int / double component are its two bounds *)
Inductive comp :=
| CDouble (lo hi : Q)
| CInt (lo hi : Z)
| CCat (es : list Z)
| CGrid (es : list Q).
Notation domain := (list comp).

Definition Qltb (x y : Q) : bool := negb (Qle_bool y x).
Fixpoint peqb (a b : point) : bool :=
  match a, b with [], [] => true | x :: a', y :: b' => Qeq_bool x y && peqb a' b' | _, _ => false end.
Definition memQ (x : Q) (l : list Q) : bool := existsb (Qeq_bool x) l.
Definition memZ (x : Z) (l : list Z) : bool := existsb (Z.eqb x) l.
Definition memP (p : point) (l : list point) : bool := existsb (peqb p) l.
Definition zlen {A} (l : list A) : Z := Z.of_nat (length l).

(* list(range(lo, hi + 1)) *)
Definition zrange (lo hi : Z) : list Z := map (fun i => (lo + Z.of_nat i)%Z) (seq 0 (Z.to_nat (hi + 1 - lo))).

Definition is_discrete1 (c : comp) : bool := match c with CDouble _ _ => false | _ => true end.
Definition is_discrete (d : domain) : bool := forallb is_discrete1 d.

(* discrete_elements.append(...) *)
Definition elements (c : comp) : list Q :=
  match c with
  | CDouble _ _ => []
  | CInt lo hi => map inject_Z (zrange lo hi)
  | CCat es => map inject_Z es
  | CGrid es => es
  end.

(* ------------------------------------------------------------------ remove_points_outside_domain *)
Definition inside1 (c : comp) (x : Q) : bool :=
  match c with
  | CDouble lo hi => Qle_bool lo x && Qle_bool x hi
  | CInt lo hi => Qle_bool (inject_Z lo) x && Qle_bool x (inject_Z hi)      (* range test only, as in the code *)
  | CCat es => memQ x (map inject_Z es)                                     (* numpy.isin *)
  | CGrid es => memQ x es
  end.
Fixpoint inside (d : domain) (p : point) : bool :=
  match d, p with
  | [], [] => true
  | c :: d', x :: p' => inside1 c x && inside d' p'
  | _, _ => false
  end.
Definition remove_outside (d : domain) (h : list point) : list point := filter (inside d) h.

(* numpy.unique(excluded_points, axis=0): one representative per distinct row (only the count and the set are used) *)
Definition dedup_rows (h : list point) : list point :=
  fold_right (fun p acc => if memP p acc then acc else p :: acc) [] h.

(* ------------------------------------------------------------------ _analyze_discrete_elements *)
Definition max_search : Z := 100000.
Fixpoint total_from (acc : Z) (lens : list Z) : option Z :=
  match lens with
  | [] => Some acc
  | l :: r => let a := (acc * l)%Z in if (max_search <=? a)%Z then None else total_from a r
  end.
Inductive analysis :=
| ALarge                     (* (None, True): generate randomly *)
| AError (total : Z)         (* ValueError: more points requested than remain *)
| AShortcut (total : Z)      (* (total, True): k + already <= duplicate_prob * total *)
| AEnum (total : Z).         (* (total, False) *)
Definition analyze (lens : list Z) (k already : Z) (dp : Q) : analysis :=
  match total_from 1 lens with
  | None => ALarge
  | Some t =>
      if (t <? k)%Z then AError t
      else if (t <? k + already)%Z then AError t
      else if Qle_bool (inject_Z (k + already)) (dp * inject_Z t) then AShortcut t
      else AEnum t
  end.

(* ------------------------------------------------------------------ the two inner index maps *)
(* map_index_to_discrete_point: pt.append(discrete_elements[k][index % b]); index = (index - index % b) / b *)
Fixpoint index_to_point (els : list (list Q)) (index : Z) : point :=
  match els with
  | [] => []
  | e :: r => let b := zlen e in
              nth (Z.to_nat (index mod b)) e 0 :: index_to_point r ((index - index mod b) / b)
  end.
(* numpy.nonzero([p == e for e in element])[0][0]; None = IndexError *)
Fixpoint find_pos (x : Q) (l : list Q) (i : Z) : option Z :=
  match l with
  | [] => None
  | e :: r => if Qeq_bool x e then Some i else find_pos x r (i + 1)%Z
  end.
(* map_discrete_point_to_index: index += position * base_factor; base_factor *= len(element) *)
Fixpoint point_to_index (els : list (list Q)) (p : point) : option Z :=
  match els, p with
  | e :: r, x :: p' =>
      match find_pos x e 0, point_to_index r p' with
      | Some i, Some j => Some (i + zlen e * j)%Z
      | _, _ => None
      end
  | _, _ => Some 0%Z
  end.
Fixpoint all_some {A} (l : list (option A)) : option (list A) :=
  match l with
  | [] => Some []
  | None :: _ => None
  | Some x :: r => match all_some r with Some r' => Some (x :: r') | None => None end
  end.

(* ------------------------------------------------------------------ generate_distinct_random_points *)
Inductive plan :=
| PEmpty                                            (* numpy.empty((0, dim)) *)
| PRandom (n : Z)                                   (* generate_quasi_random_points_in_domain(n) *)
| PChoice (avail : list Z) (n : Z)                  (* numpy.random.choice(tuple(available), n, replace=False) *)
| PAll (avail : list Z) (total extra : Z)           (* every available index, then randint(0, total + 1, extra) *)
| PIndexError.                                      (* an excluded row is not a configuration *)

Definition enumerate (els : list (list Q)) (excl : list point) (total n : Z) : plan :=
  match all_some (map (point_to_index els) excl) with
  | None => PIndexError
  | Some ex =>
      let avail := filter (fun i => negb (memZ i ex)) (zrange 0 (total - 1)) in
      if (n <? zlen avail)%Z then PChoice avail n else PAll avail total (n - zlen avail)
  end.

Definition distinct_plan (d : domain) (k : Z) (h : list point) (dp : Q) : plan :=
  if (k =? 0)%Z then PEmpty else
  if negb (is_discrete d) then PRandom k else
  let excl := dedup_rows (remove_outside d h) in
  let els := map elements d in
  match analyze (map zlen els) k (zlen excl) dp with
  | ALarge => PRandom k
  | AShortcut _ => PRandom k
  | AEnum t => enumerate els excl t k
  | AError t => let k' := (t - zlen excl)%Z in if (k' <=? 0)%Z then PEmpty else enumerate els excl t k'
  end.

(* ------------------------------------------------------------------ per-component random draws *)
Inductive request :=
| RChoice (a : list Q)                 (* numpy.random.choice(a, replace=True, size=n) *)
| RRandint (lo hi : Z)                 (* numpy.random.randint(lo, hi, n): lo <= value < hi *)
| RUniform (lo hi : Q)                 (* numpy.random.uniform(lo, hi, n) *)
| RTruncnorm (a b loc scale : Q)       (* scipy.stats.truncnorm.rvs(a, b, loc, scale, size=n) *)
| RBeta (a b loc scale : Q)            (* scipy.stats.beta.rvs(a, b, loc, scale, size=n) *)
| RInvalid.                            (* a prior on a non-double parameter: rejected when the domain is built *)

(* _generate_quasi_random_1d_points_in_domain *)
Definition request1 (c : comp) : request :=
  match c with
  | CCat es => RChoice (map inject_Z es)
  | CGrid es => RChoice es
  | CInt lo hi => RRandint lo (hi + 1)
  | CDouble lo hi => RUniform lo hi
  end.

(* result[:, d] = column d; the oracle supplies one column of n values per component *)
Definition rows_of (n : nat) (cols : list (list Q)) : list point :=
  map (fun i => map (fun col => nth i col 0) cols) (seq 0 n).
(* generate_quasi_random_points_in_domain, unconstrained branch *)
Definition quasi_requests (d : domain) : list request := map request1 d.
Definition quasi_random (n : Z) (cols : list (list Q)) : list point := rows_of (Z.to_nat n) cols.

Inductive prior := NoPrior | Normal (mean scale : Q) | Beta (shape_a shape_b : Q).
(* _generate_random_1d_points_according_to_prior *)
Definition request_prior (c : comp) (p : prior) : request :=
  match p, c with
  | NoPrior, _ => request1 c
  | Normal m s, CDouble lo hi => RTruncnorm ((lo - m) / s) ((hi - m) / s) m s
  | Beta a b, CDouble lo hi => RBeta a b lo (hi - lo)
  | _, _ => RInvalid
  end.
Fixpoint prior_requests (d : domain) (ps : list prior) : list request :=
  match d, ps with c :: d', p :: ps' => request_prior c p :: prior_requests d' ps' | _, _ => [] end.

(* the three views: `if self.domain.priors and not constrained: priors else: quasi-random` *)
Inductive path := UsePriors | UseQuasi.
Definition view_path {A} (priors : list A) (constrained : bool) : path :=
  match priors with [] => UseQuasi | _ :: _ => if constrained then UseQuasi else UsePriors end.
Definition view_requests (d : domain) (ps : list prior) (constrained : bool) : option (list request) :=
  match view_path ps constrained with
  | UsePriors => Some (prior_requests d ps)
  | UseQuasi => if constrained then None (* one-hot sampler, not modelled here *) else Some (quasi_requests d)
  end.

(* ---- which sampler produces the suggestions of a whole SPE request (views/rest/spe_next_points.py: SPENextPoints.view,
        create_spe_suggestions).  The view hands out RANDOM suggestions on three routes - the initialisation phase; many open
        suggestions (`observation_count <= 1.7 * open_suggestion_count`); too little data for the Parzen estimator (the handler of
        SPEInsufficientDataError) - and all three end in create_random_suggestions, i.e. in view_path.  The phase (C14's selector) and
        whether the estimator could be formed (C16's split condition) are inputs. *)
Inductive sampler := SPriors | SQuasi | SEstimator.
Definition random_sampler {A} (priors : list A) (constrained : bool) : sampler :=
  match view_path priors constrained with UsePriors => SPriors | UseQuasi => SQuasi end.
Definition SPE_OPEN_SUGGESTION_RATIO_BOUND : Q := 17 # 10.
Definition sample_randomly (obs open : Z) : bool := Qle_bool (inject_Z obs) (SPE_OPEN_SUGGESTION_RATIO_BOUND * inject_Z open).
Definition spe_view_sampler {A} (priors : list A) (constrained init_phase : bool) (obs open : Z) (estimator_formed : bool) : sampler :=
  if init_phase then random_sampler priors constrained                                    (* view(): phase == INITIALIZATION_PHASE *)
  else if sample_randomly obs open || negb estimator_formed then random_sampler priors constrained
  else SEstimator.
(* views/rest/spe_search_next_points.py: SPESearchNextPoints.view - initilization_sequence, the exploitation phase (a fresh
   SPENextPoints request on one of the constraint metrics), the explore / resolve phase (the search estimator is sampled) *)
Inductive search_phase := SearchInit | SearchExploit | SearchResolve.
Definition spe_search_view_sampler {A} (priors : list A) (constrained : bool) (ph : search_phase) (init_phase : bool) (obs open : Z)
  (estimator_formed : bool) : sampler :=
  match ph with
  | SearchInit => random_sampler priors constrained
  | SearchExploit => spe_view_sampler priors constrained init_phase obs open estimator_formed
  | SearchResolve => SEstimator
  end.

(* the points generate_distinct_random_points returns: orc = what choice / randint returned, cols = the quasi-random
   columns (used only on the PRandom branch) *)
Definition distinct_points (d : domain) (k : Z) (h : list point) (dp : Q) (orc : list Z) (cols : list (list Q))
  : option (list point) :=
  let els := map elements d in
  match distinct_plan d k h dp with
  | PEmpty => Some []
  | PRandom n => Some (quasi_random n cols)
  | PChoice _ _ => Some (map (index_to_point els) orc)
  | PAll avail _ _ => Some (map (index_to_point els) (avail ++ orc))
  | PIndexError => None
  end.

(* ------------------------------------------------------------------ identify_unique_points *)
Fixpoint qmax (l : list Q) (m : Q) : Q := match l with [] => m | x :: r => qmax r (if Qle_bool m x then x else m) end.
Fixpoint qmin (l : list Q) (m : Q) : Q := match l with [] => m | x :: r => qmin r (if Qle_bool x m then x else m) end.
(* scaling_vector *)
Definition scale1 (c : comp) : Q :=
  match c with
  | CCat es => inject_Z (zlen es)
  | CGrid es => match es with [] => 0 | x :: r => qmax r x - qmin r x end
  | CInt lo hi => inject_Z (hi - lo)
  | CDouble lo hi => hi - lo
  end.
(* map_categorical_points_to_enumeration, one coordinate; None = KeyError *)
Definition enum1 (c : comp) (x : Q) : option Q :=
  match c with
  | CCat es => match find_pos x (map inject_Z es) 0 with Some i => Some (inject_Z i) | None => None end
  | _ => Some x
  end.
Fixpoint enum_point (d : domain) (p : point) : option point :=
  match d, p with
  | c :: d', x :: p' =>
      match enum1 c x, enum_point d' p' with Some y, Some r => Some (y :: r) | _, _ => None end
  | _, _ => Some []
  end.
(* squared standardised Euclidean distance: sum (u - v)^2 / V *)
Fixpoint sdist2 (V u v : list Q) : Q :=
  match V, u, v with
  | s :: V', x :: u', y :: v' => (x - y) * (x - y) / s + sdist2 V' u' v'
  | _, _, _ => 0
  end.
(* cdist(...) > tolerance * sqrt(n_dim), decided on squares *)
Definition far (V : list Q) (tol : Q) (u v : point) : bool :=
  if Qltb tol 0 then true else Qltb (tol * tol * inject_Z (zlen V)) (sdist2 V u v).
(* compare_points is None: column j against the rows before it (lower triangle and diagonal are inf) *)
Fixpoint unique_self (V : list Q) (tol : Q) (earlier : list point) (pts : list point) : list bool :=
  match pts with
  | [] => []
  | p :: r => forallb (fun e => far V tol e p) earlier :: unique_self V tol (earlier ++ [p]) r
  end.
Definition unique_vs (V : list Q) (tol : Q) (cmp pts : list point) : list bool :=
  map (fun p => forallb (fun c => far V tol c p) cmp) pts.
Fixpoint select {A} (mask : list bool) (l : list A) : list A :=
  match mask, l with b :: m, x :: r => if b then x :: select m r else select m r | _, _ => [] end.

Definition identify_unique (d : domain) (test : list point) (cmp : option (list point)) (tol : Q) : option (list point) :=
  let V := map scale1 d in
  match all_some (map (enum_point d) test) with
  | None => None
  | Some pts =>
      match cmp with
      | None => Some (select (unique_self V tol [] pts) test)
      | Some c => match all_some (map (enum_point d) c) with
                  | None => None
                  | Some cs => Some (select (unique_vs V tol cs pts) test)
                  end
      end
  end.

(* duplicate_prob=1e-3: the double nearest to 0.001 *)
Definition default_dup_prob : Q := 1152921504606847 # 1152921504606846976.

(* replace_duplicate_points *)
Definition replace_duplicates (d : domain) (pts hist : list point) (tol : Q) (orc : list Z) (cols : list (list Q))
  : option (list point) :=
  match identify_unique d pts None tol with
  | None => None
  | Some u1 =>
      match identify_unique d u1 (Some hist) tol with
      | None => None
      | Some u2 =>
          match distinct_points d (zlen pts - zlen u2) hist default_dup_prob orc cols with
          | None => None
          | Some fill => Some (u2 ++ fill)
          end
      end
  end.

(* ------------------------------------------------------------------ decidable specifications, evaluated on the
   implementation's own outputs *)
Definition in_comp_b (c : comp) (x : Q) : bool :=
  match c with
  | CInt lo hi => memQ x (map inject_Z (zrange lo hi))
  | _ => inside1 c x
  end.
Fixpoint in_domain_b (d : domain) (p : point) : bool :=
  match d, p with
  | [], [] => true
  | c :: d', x :: p' => in_comp_b c x && in_domain_b d' p'
  | _, _ => false
  end.
(* cartesian enumeration of a discrete domain, independent of the index maps *)
Fixpoint configs (d : domain) : list point :=
  match d with
  | [] => [[]]
  | c :: d' => let rest := configs d' in flat_map (fun x => map (cons x) rest) (elements c)
  end.
Definition unobserved (d : domain) (h : list point) : list point := filter (fun c => negb (memP c h)) (configs d).
Fixpoint nodup_b (l : list point) : bool :=
  match l with [] => true | p :: r => negb (memP p r) && nodup_b r end.
Definition distinct_spec_b (d : domain) (k : Z) (h out : list point) : bool :=
  (zlen out =? Z.min k (zlen (unobserved d h)))%Z && nodup_b out && forallb (in_domain_b d) out &&
  forallb (fun p => negb (memP p h)) out.
