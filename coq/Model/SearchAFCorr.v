(* Correspondence cases for C19: implementation outputs are compared with Model.SearchAF inside Coq.
   Tolerances are arguments of the cases: 0 on inputs for which double arithmetic is exact (dyadic coordinates,
   power-of-two widths, square one-hot dimension), a stated small rational where the code divides by a non-dyadic width,
   uses a non-square one-hot dimension (irrational target) or multiplies by the non-dyadic schedule constants. *)
From Coq Require Import List QArith Bool Arith Qabs.
From LV Require Import Model.SearchAF.
Import ListNotations.
Open Scope Q_scope.

Definition Qclose (tol a b : Q) : bool := Qle_bool (Qabs (a - b)) tol.
Fixpoint all2 {A B} (f : A -> B -> bool) (la : list A) (lb : list B) : bool :=
  match la, lb with [], [] => true | a :: la', b :: lb' => f a b && all2 f la' lb' | _, _ => false end.
Definition pt_close (tol : Q) : point -> point -> bool := all2 (Qclose tol).
Definition pts_close (tol : Q) : list point -> list point -> bool := all2 (pt_close tol).
Definition pt_eqb : point -> point -> bool := all2 Qeq_bool.
Definition in01 (v : Q) : bool := Qle_bool 0 v && Qle_bool v 1.

(* the scripted failure model: a table point -> value, default elsewhere *)
Definition lookup (tbl : list (point * Q)) (dflt : Q) (p : point) : Q :=
  match find (fun pv => pt_eqb (fst pv) p) tbl with Some pv => snd pv | None => dflt end.

Definition add_all (d : domain) (t : Q) (s0 : st) (adds : list (list point)) : option st :=
  fold_left (fun os a => match os with None => None | Some s => add_repulsors d t s a end) adds (Some s0).

(* a point whose squared distance to some repulsor is within `fuzz` (strictly) of the radius is not compared;
   fuzz = 0 compares everything, the boundary included *)
Definition on_edge (fuzz : Q) (s : st) (sp : point) : bool :=
  existsb (fun r => Qltb (Qabs (dist2 r sp - dpar s)) fuzz) (reps s).
Definition vals_ok (fuzz vtol : Q) (s : st) (sps : list point) (model impl : list Q) : bool :=
  all2 (fun sp mo => on_edge fuzz s sp || Qclose vtol (fst mo) (snd mo)) sps (combine model impl)
  && Nat.eqb (length model) (length impl).

Definition is_none {A} (o : option A) : bool := match o with None => true | Some _ => false end.

Inductive case :=
(* convert_one_hot_to_search_hypercube_points *)
| CSearch (d : domain) (t rtol : Q) (pts out : list point)
(* map_non_categorical_points_to_unit_hypercube, then ..._from_unit_hypercube on its output *)
| CUnit (bs : list (Q * Q)) (rtol : Q) (pts out_to out_back : list point)
(* compute_distance_matrix_squared between the search images of two points *)
| CDist (d : domain) (t tol : Q) (p q : point) (out : Q)
(* ProbabilityOfImprovementSearch: constructor, add_normalized_repulsor_point calls, evaluate with and without a batch size *)
| CEval (d : domain) (t dp fuzz vtol rtol : Q) (r0 : option (list point)) (adds : list (list point))
        (pts : list point) (tbl : list (point * Q)) (bs : option nat) (out_b out_n : list Q) (reps_out : list point)
(* search_strategy_optimization with a scripted optimiser *)
| CLoop (d : domain) (t dp0 rtol : Q) (r0 : list point) (draws : list nat) (picks : list point)
        (tr_reps : list (list point)) (tr_dps : list Q) (prev_vals : list Q)
        (ret : list point) (init_reps fin_reps : list point) (fin_dp : Q)
(* get_distance_parameter with a scripted numpy.random.choice *)
| CDp (n draw : nat) (out : Q)
(* next_points_probability_improvement's repulsor seeding, as the constructor call it makes *)
| CView (d : domain) (t rtol : Q) (sampled pending : list point) (draw : nat) (reps_out : list point) (dp_out : Q)
(* ProductOfListOfProbabilisticFailures on real failure models: per point, the factors and the product returned *)
| CProd (rows : list (list Q * Q)) (tol : Q)
(* malformed inputs: did the implementation raise? *)
| CErrEval (d : domain) (t : Q) (pts : list point) (bs : option nat) (raised : bool)
| CErrAdd (d : domain) (t : Q) (pts : list point) (raised : bool).

Definition check (c : case) : bool :=
  match c with
  | CSearch d t rtol pts out => pts_close rtol (map (to_search d t) pts) out
  | CUnit bs rtol pts out_to out_back =>
      pts_close rtol (map (to_unit bs) pts) out_to && pts_close rtol (map (from_unit bs) out_to) out_back
      && pts_close rtol out_back pts
  | CDist d t tol p q out =>
      let sp := to_search d t p in let sq := to_search d t q in
      Qclose tol (dist2 sp sq) out && Qclose 0 (dist2 sp sq) (sqdist sp sq)
      && (if list_eq_dec Nat.eq_dec (cat_choice d p) (cat_choice d q) then true else Qle_bool (2 * (t * t) - tol) out)
  | CEval d t dp fuzz vtol rtol r0 adds pts tbl bs out_b out_n reps_out =>
      match pi_search_init d t dp r0 with
      | None => false
      | Some s0 =>
          match add_all d t s0 adds with
          | None => false
          | Some s =>
              let fm := lookup tbl (1 # 2) in
              let sps := map (to_search d t) pts in
              pts_close rtol (reps s) reps_out &&
              match evaluate bs d t s fm pts, evaluate None d t s fm pts with
              | Some mb, Some mn =>
                  vals_ok fuzz vtol s sps mb out_b && vals_ok fuzz vtol s sps mn out_n
                  && forallb in01 out_b && forallb in01 out_n
              | _, _ => false
              end
          end
      end
  | CLoop d t dp0 rtol r0 draws picks tr_reps tr_dps prev_vals ret init_reps fin_reps fin_dp =>
      match pi_search_init d t dp0 (Some r0) with
      | None => false
      | Some s0 =>
          let opt := fun s : st => nth (length (reps s) - length (reps s0)) picks [] in
          match search_opt d t opt s0 draws with
          | None => false
          | Some (mpicks, s_after, tr) =>
              all2 pt_eqb mpicks ret
              && all2 (pts_close rtol) (map (fun sp => reps (fst sp)) tr) tr_reps
              && all2 (Qclose (1 # 1000000000000)) (map (fun sp => dpar (fst sp)) tr) tr_dps
              && pts_close rtol (reps s_after) fin_reps && all2 pt_eqb init_reps fin_reps
              && Qeq_bool (dpar s_after) fin_dp
              && forallb (fun v => Qeq_bool v 0) prev_vals
          end
      end
  | CDp n draw out => Qclose (1 # 1000000000000) (get_dp n draw) out && Qltb 0 out
  | CView d t rtol sampled pending draw reps_out dp_out =>
      match view_init d t sampled pending draw with
      | None => false
      | Some s => pts_close rtol (reps s) reps_out && Qclose (1 # 1000000000000) (dpar s) dp_out
      end
  | CProd rows tol =>
      forallb (fun r => Qclose tol (prodQ (fst r)) (snd r) && in01 (snd r) && forallb in01 (fst r)) rows
  | CErrEval d t pts bs raised =>
      Bool.eqb (is_none (evaluate bs d t (mkst [] 1) (fun _ => 1 # 2) pts)) raised
  | CErrAdd d t pts raised => Bool.eqb (is_none (add_repulsors d t (mkst [] 1) pts)) raised
  end.
