(* Executable Gallina reference of what the search endpoint hands to its acquisition function as the failure model (C19):
   libsigopt/views/rest/search_next_points.py SearchNextPoints.view / next_points_probability_improvement and
   libsigopt/views/view.py View.__init__ (filter_points_sampled, _preprocess_constraint_metrics),
   GPView.form_probabilistic_failures_model -> _form_list_of_probabilistic_failures_for_constraint_metrics ->
   _form_gp_for_probabilistic_failures(i, for_af_values=False) -> form_single_gaussian_process.

   "The search acquisition value equals the modelled probability of satisfying all metric constraints": the modelled probability is
   the product, over the constraint metrics of the request, of one CDF model per metric.  WHICH numbers each of those models is
   built from - which raw column, whose objective / threshold / hyperparameters - is discrete bookkeeping over two index-selecting
   sites (filter_points_sampled slices values[:, constraint_metrics_index]; _preprocess_constraint_metrics picks objectives and
   thresholds by the same list; model i then reads hyperparameters[constraint_metrics_index[i]]), and is modelled here.
   Nothing is re-modelled: the request and model descriptions, the encoding and the per-model construction are Model/Wiring.v
   (C06), the metric scaling is Model/Midpoint.v (C12).  No proofs here.  None = the endpoint raises. *)
From Coq Require Import List QArith ZArith Bool Arith.
From LV Require Import Model.Domain Model.Decode Model.Midpoint Model.Wiring.
Import ListNotations.
Open Scope Q_scope.

Definition sv_shape_ok (r : request) : bool :=
  let n := length (q_points r) in
  Nat.eqb (length (q_values r)) n && Nat.eqb (length (q_vars r)) n && Nat.eqb (length (q_fails r)) n.

(* SearchNextPoints.view: "Search must have constraint metrics", "Search does not support optimization metrics"; the search
   acquisition function works in the one-hot domain without a task column (no task options).  The request is not a
   Pareto-frontier request (multimetric_info = NOT_MULTIMETRIC), so the failure model is the list over the constraint metrics. *)
Definition search_view_pfs (r : request) : option (list pf_desc) :=
  if negb (sv_shape_ok r) || has_tasks r || q_pareto r then None else
  match q_opt_ix r, q_con_ix r with
  | [], _ :: _ =>
      match encode_rows (q_dom r) false (q_points r) [], encode_rows (q_dom r) false (q_pending r) [] with
      | Some pts, Some pend => con_pfs r pts pend
      | _, _ => None
      end
  | _, _ => None
  end.
