(* Correspondence cases for C01: the implementation's outputs are compared with Model.EndpointTail and checked against
   the decidable specification of a response (resp_okb, proved equivalent to resp_ok), inside Coq. *)
From Coq Require Import List QArith ZArith Bool Arith Qabs.
From LV Require Import Model.Domain Model.Decode Model.EndpointTail.
Import ListNotations.
Open Scope Q_scope.

Definition plist_eqb (a b : list point) : bool := forall2b peqb a b.
Definition memPb (p : point) (l : list point) : bool := existsb (peqb p) l.
(* same rows up to order (set iteration order of the available indexes is not part of the property) *)
Definition same_rows (a b : list point) : bool :=
  Nat.eqb (length a) (length b) && forallb (fun p => memPb p b) a && forallb (fun p => memPb p a) b.
Definition opt_eqb {A} (f : A -> A -> bool) (a b : option A) : bool :=
  match a, b with Some x, Some y => f x y | None, None => true | _, _ => false end.
Definition qlist_close (tol : Q) (a b : list Q) : bool := forall2b (fun x y => Qle_bool (Qabs (x - y)) tol) a b.
Definition relaxed_okb (d : domain) (x : row) : bool := in_boxb (one_hot_box d) x && sat_cons (comps d) (dbl_cons d) x.

Inductive case :=
(* convert_from_one_hot with the linear acquisition function x |-> coef . x; out = None when the code raised *)
| CConv (d : domain) (parallel : bool) (coef : list Q) (xs : list row) (o : dorc) (nopt : nat) (out : option (list point))
(* replace_duplicate_points(points, history, 0.01); kept = number of leading rows that must agree in order *)
| CReplace (d : domain) (pts hist : list point) (orc : list Z) (q : qorc) (out : option (list point))
(* the whole GP tail (convert + replace + task snapping) on a stubbed optimiser *)
| CGpTail (d : domain) (opts : list Q) (parallel : bool) (coef : list Q) (xs : list row) (hist : list point) (hist_oh : list row)
          (o : gporc) (pts : list point) (costs : option (list Q))
(* SPENextPoints.draw_samples with scripted test points, EI values and uniforms *)
| CDraw (n : nat) (batches : list (list (row * Q * Q))) (pad : list row) (ix : list nat) (out : list row) (rej : Z)
(* snap_continuous_tasks_to_discrete_options *)
| CSnap (costs opts out : list Q)
(* select_random_task_by_softmax: the probabilities passed to numpy.random.choice, the exponentials exp(-c) as doubles *)
| CSoftmax (exps ps : list Q)
(* a response of an endpoint (stubbed or real), checked against the specification *)
| CResp (d : domain) (opts : list Q) (n : nat) (pts : list point) (costs : option (list Q))
| CRespNoCost (d : domain) (n : nat) (pts : list point) (costs : option (list Q)).

Definition nopt_ix (o : nopt) : nat := match o with NNone => 0 | NInt => 1 | NCat => 2 | NBoth => 3 end.

Definition check (c : case) : bool :=
  match c with
  | CConv d parallel coef xs o k out =>
      Nat.eqb (nopt_ix (conv_choice d parallel)) k &&
      opt_eqb plist_eqb (convert_from_one_hot d parallel (dot coef) o xs) out &&
      (negb (forallb (relaxed_okb d) xs) || match out with Some ps => forallb (admissibleb d) ps | None => true end)
  | CReplace d pts hist orc q out =>
      opt_eqb same_rows (replace_dups d pts hist uniq_tol orc q) out &&
      match kept_of d pts hist uniq_tol, out with
      | Some u2, Some ps => plist_eqb u2 (firstn (length u2) ps)
      | None, None => true
      | _, _ => false
      end
  | CGpTail d opts parallel coef xs hist hist_oh o pts costs =>
      match gp_tail d opts parallel (dot coef) xs hist hist_oh o with
      | Some r => plist_eqb (r_points r) pts && opt_eqb (forall2b Qeq_bool) (r_costs r) costs &&
                  resp_okb d opts (length xs) {| r_points := pts; r_costs := costs |}
      | None => false
      end
  | CDraw n batches pad ix out rej =>
      let '(s, r) := draw_samples n SPE_BATCH_SIZE SPE_REJECTION_SAMPLES_LIMIT batches pad ix in
      forall2b peqb s out && (r =? rej)%Z
  | CSnap costs opts out => forall2b Qeq_bool (snap_tasks costs opts) out && forallb (fun c => memQb c opts) out
  | CSoftmax exps ps => qlist_close (1 # 1000000000000) (softmax exps) ps
  | CResp d opts n pts costs => resp_okb d opts n {| r_points := pts; r_costs := costs |}
  | CRespNoCost d n pts costs => resp_nocost_okb d n {| r_points := pts; r_costs := costs |}
  end.
