(* Correspondence cases for the Monte-Carlo parallel expected improvement (C05, qEI): the output of the REAL
   ExpectedParallelImprovement._evaluate_at_point_list / evaluate_at_point_list, run on a stub predictor with prescribed dyadic
   means and covariances, a prescribed dyadic factor per covariance and scripted dyadic normal draws, is compared inside Coq with
   Model.ParallelEI and with the reading of the theorems (mean improvement of the sample minimum), evaluated on the
   implementation's own output. *)
From Coq Require Import List QArith Qabs Bool Arith.
From LV Require Import Model.ParallelEI.
Import ListNotations.
Open Scope Q_scope.

Record case := mkcase {
  c_q      : nat;                  (* num_points_to_sample *)
  c_sets   : list cset;            (* per candidate set: prescribed means of its points, prescribed factor rows *)
  c_mp     : vec;                  (* prescribed means of the pending points *)
  c_best   : Q;
  c_N      : nat;                  (* num_mc_iterations *)
  c_B      : nat;                  (* num_mc_iterations_per_loop *)
  c_entry  : option (option nat);  (* None: _evaluate_at_point_list directly; Some b: evaluate_at_point_list(batch_size=b) *)
  c_stream : vec;                  (* what the scripted numpy.random.normal hands out, flat (longer than needed) *)
  c_blocks : list (nat * nat);     (* the size= arguments numpy.random.normal was called with, in order *)
  c_out    : vec                   (* the estimates the implementation returned *)
}.

Fixpoint pow2b (fuel n : nat) : bool :=
  match fuel with O => false | S f => if (n =? 1)%nat then true else if Nat.even n then pow2b f (Nat.div2 n) else false end.

(* equality of one estimate: exact when the number of executed draws is a power of two (the final division is then exact in
   double arithmetic, everything before it always is); otherwise the returned double is the correctly rounded quotient of two
   exactly computed doubles: |out - v| <= 2^-53 |v| *)
Definition est_eqb (e : nat) (out v : Q) : bool :=
  if pow2b e e then Qeq_bool out v
  else Qle_bool (Qabs (out - v)) (Qabs v * (1 # 9007199254740992)).

Fixpoint vec_eqb (e : nat) (a b : vec) : bool :=
  match a, b with
  | [], [] => true
  | x :: a', y :: b' => est_eqb e x y && vec_eqb e a' b'
  | _, _ => false
  end.

Definition blocks_eqb (a b : list (nat * nat)) : bool :=
  (length a =? length b)%nat && forallb (fun p => (fst (fst p) =? fst (snd p))%nat && (snd (fst p) =? snd (snd p))%nat) (combine a b).

Definition check (c : case) : bool :=
  let q := c_q c in let sets := c_sets c in let mp := c_mp c in let best := c_best c in
  let N := c_N c in let B := c_B c in let stream := c_stream c in
  let cs := (q + length mp)%nat in
  let n := length sets in
  let e := n_exec N B in
  let b := Nat.min B N in
  let per_call := (passes N b N 0)%nat in
  let bs := match c_entry c with
            | None => n
            | Some None => n
            | Some (Some b0) => if (b0 =? 0)%nat then n else b0
            end in
  let calls := ((n + bs - 1) / bs)%nat in
  let model := match c_entry c with
               | None => qei q sets mp best N B stream
               | Some batch => qei_public batch q sets mp best N B stream
               end in
  (* the reading of the theorems on the implementation's output: set k is the mean, over the draws of ITS call, of the
     improvement of the minimum of the sample m - L z; estimates are non-negative *)
  let reading := map (fun k => set_estimate cs (nth k sets ([], [])) mp best
                                 (executed_draws N B cs (skipn ((k / bs) * (e * cs)) stream))) (seq 0 n) in
  vec_eqb e (c_out c) model
  && vec_eqb e (c_out c) reading
  && forallb (fun x => Qle_bool 0 x) (c_out c)
  && blocks_eqb (c_blocks c) (repeat (b, cs) (calls * per_call)).
