(* C05: batched evaluation of an acquisition function and the incumbent ("best value") each acquisition function uses.
   Executable model, no proofs.  acquisition_function.py: evaluate_at_point_list; expected_improvement.py constructors. *)
From Coq Require Import List QArith Bool Arith.
From LV Require Import Model.Pareto.
Import ListNotations.
Open Scope Q_scope.

(* while current_index < n: result[indices] = f(points[indices]); current_index += len(indices)   (fuel = n is enough) *)
Fixpoint batched {A B} (f : list A -> list B) (bs : nat) (fuel : nat) (pts : list A) : list B :=
  match fuel with
  | O => []
  | S fuel' => match pts with
               | [] => []
               | _ => f (firstn bs pts) ++ batched f bs fuel' (skipn bs pts)
               end
  end.
(* batch_size = batch_size or len(points); None when the asserted batch_size > 0 fails *)
Definition evaluate_at_point_list {A B} (f : list A -> list B) (batch : option nat) (pts : list A) : option (list B) :=
  let bs := match batch with Some b => if Nat.eqb b 0 then length pts else b | None => length pts end in
  if Nat.eqb bs 0 then None else Some (batched f bs (length pts) pts).   (* assert batch_size > 0: an empty list with no explicit batch size is rejected *)

(* plain EI: best observed value = value at the first minimum *)
Definition incumbent_plain (vals : list Q) : nat * Q := let i := argmin vals in (i, nth i vals 0).
(* augmented EI: index = first minimum of mean + q * sd (q = norm.ppf(0.75), an oracle constant), value = mean there *)
Definition incumbent_aei (q : Q) (means sds : list Q) : nat * Q :=
  let i := argmin (map (fun p => fst p + q * snd p) (combine means sds)) in (i, nth i means 0).
(* EI with failures: best value among observations with success probability > 1/2, else the plain incumbent *)
Definition incumbent_failures (vals probs : list Q) : option nat * Q :=
  let ok := map (fun p => Qltb (1#2) p) probs in
  let acc := select ok (combine (seq 0 (length vals)) vals) in
  match acc with
  | [] => (None, snd (incumbent_plain vals))
  | _ => let j := argmin (map snd acc) in (Some (fst (nth j acc (O, 0))), snd (nth j acc (O, 0)))
  end.

Inductive case :=
| CBatch (vals : list Z) (batch : option nat) (out : option (list Z)) (calls : list nat)
| CPlain (vals : list Q) (idx : nat) (v : Q)
| CAei (qn : Q) (means sds : list Q) (idx : nat) (v : Q)
| CFail (vals probs : list Q) (v : Q).
Definition zlist_eqb := list_eqb Z.eqb.
(* the recorded acquisition function doubles each point's integer tag; calls = sizes of the batches it received *)
Definition check (c : case) : bool :=
  match c with
  | CBatch vals b out calls =>
      let f := map (fun z => (2 * z)%Z) in
      match evaluate_at_point_list f b vals, out with
      | Some r, Some o => zlist_eqb r o && zlist_eqb o (f vals) &&
                          Nat.eqb (fold_right Nat.add O calls) (length vals)
      | None, None => true
      | _, _ => false
      end
  | CPlain vals i v => let '(j, w) := incumbent_plain vals in Nat.eqb i j && Qeq_bool v w
  | CAei q means sds i v => let '(j, w) := incumbent_aei q means sds in Nat.eqb i j && Qeq_bool v w
  | CFail vals probs v => Qeq_bool v (snd (incumbent_failures vals probs))
  end.
