(* Executable model of libsigopt/compute/sigopt_parzen_estimator.py (constructor split, densities, ratio, lies),
   of SPENextPoints.form_one_hot_covariance (views/rest/spe_next_points.py) and of
   SPESearchNextPoints.form_sigopt_parzen_estimator_for_search (views/rest/spe_search_next_points.py)  (C16).
   No proofs here.  Values are exact rationals; a NaN / inf float is `None`. *)
From Coq Require Import List QArith ZArith Bool Arith.
Import ListNotations.
Open Scope Q_scope.

Notation point := (list Q).
Notation obs := (list Q * Q)%type.            (* one observation: (one-hot point, value) *)

Inductive result (A : Type) : Type :=
| Ok (a : A)
| ErrInsufficientData.                        (* SPEInsufficientDataError *)
Arguments Ok {A} a.
Arguments ErrInsufficientData {A}.

Definition Qltb (x y : Q) : bool := negb (Qle_bool y x).

(* Python int() of a finite float: truncation toward zero *)
Definition trunc (q : Q) : Z := Z.quot (Qnum q) (Zpos (Qden q)).

Definition SPE_MINIMUM_LOWER_POINT_TOTAL : Z := 3.
Definition SPE_MINIMUM_UNFORGOTTEN_POINT_TOTAL : Z := 10.
Definition SPE_MINIMUM_LOWER_DENSITY_VALUE : Q := 1 # 10000000000.

(* ------------------------------------------------------------------ form_model: sizes and errors *)
(* num_points - int(forget_factor * num_points) *)
Definition unforgotten (forget : Q) (n : nat) : Z :=
  (Z.of_nat n - trunc (forget * inject_Z (Z.of_nat n)))%Z.
(* max(int(num_points * gamma), SPE_MINIMUM_LOWER_POINT_TOTAL) *)
Definition lower_size (gamma : Q) (m : Z) : Z :=
  Z.max (trunc (inject_Z m * gamma)) SPE_MINIMUM_LOWER_POINT_TOTAL.

(* (number of unforgotten points, size of the lower set) or the insufficient-data error *)
Definition split_sizes (gamma forget : Q) (n : nat) : result (nat * nat) :=
  let m := unforgotten forget n in
  if (m <? SPE_MINIMUM_UNFORGOTTEN_POINT_TOTAL)%Z then ErrInsufficientData else
  let s := lower_size gamma m in
  if (m - 1 <? s)%Z then ErrInsufficientData else Ok (Z.to_nat m, Z.to_nat s).

(* data = points[indexes, :]  with indexes = numpy.argsort(values): the permutation is an oracle argument
   (NumPy's default sort is not stable); its contract is `sorting_perm_b` below *)
Definition take_perm {A} (d : A) (l : list A) (perm : list nat) : list A := map (fun i => nth i l d) perm.

Definition kept_obs (m : nat) (pts : list point) (vals : list Q) : list obs :=
  combine (firstn m pts) (firstn m vals).

Definition form_model (gamma forget : Q) (pts : list point) (vals : list Q) (perm : list nat)
  : result (list obs * list obs) :=
  match split_sizes gamma forget (length pts) with
  | ErrInsufficientData => ErrInsufficientData
  | Ok (m, s) =>
      let data := take_perm ([], 0) (kept_obs m pts vals) perm in
      Ok (firstn s data, skipn s data)
  end.

(* contract of numpy.argsort, decidable form: a permutation of 0..m-1 under which the values are non-decreasing *)
Definition is_perm_b (perm : list nat) (m : nat) : bool :=
  Nat.eqb (length perm) m && forallb (fun i => existsb (Nat.eqb i) perm) (seq 0 m).
Fixpoint sorted_b (l : list Q) : bool :=
  match l with
  | x :: ((y :: _) as r) => Qle_bool x y && sorted_b r
  | _ => true
  end.
Definition sorting_perm_b (vals : list Q) (perm : list nat) : bool :=
  is_perm_b perm (length vals) && sorted_b (take_perm 0 vals perm).

(* ------------------------------------------------------------------ densities, ratio, lies *)
Definition qsum (l : list Q) : Q := fold_right Qplus 0 l.
Definition qlen {A} (l : list A) : Q := inject_Z (Z.of_nat (length l)).
(* numpy.mean(kernel_matrix, axis=1) for one evaluation point; NaN on an empty point set *)
Definition qmean (l : list Q) : option Q :=
  match l with [] => None | _ => Some (qsum l / qlen l) end.

(* krow = [k(x, p) for p in the point set]: the kernel values are inputs (proved valid under C03) *)
Definition greater_density (krow : list Q) : option Q := qmean krow.
Definition lower_density (krow : list Q) : option Q :=
  match qmean krow with Some d => Some (d + SPE_MINIMUM_LOWER_DENSITY_VALUE) | None => None end.

(* 1 / (gamma + gpdf / lpdf * (1 - gamma));  a zero divisor gives inf/NaN in NumPy: None *)
Definition ratio (gamma l g : Q) : option Q :=
  if Qeq_bool l 0 then None else
  let den := gamma + g / l * (1 - gamma) in
  if Qeq_bool den 0 then None else Some (1 / den).

(* evaluate_expected_improvement at one point: (lpdf, gpdf, ei) *)
Definition expected_improvement (gamma : Q) (klow kgre : list Q) : option (Q * Q * Q) :=
  match lower_density klow, greater_density kgre with
  | Some l, Some g => match ratio gamma l g with Some r => Some (l, g, r) | None => None end
  | _, _ => None
  end.

(* append_lies(lies, lower): numpy.concatenate((points, lies)) - the kernel row at x gains k(x, lie) at the end *)
Definition append_lie_entries (krow lies : list Q) : list Q := krow ++ lies.

(* ------------------------------------------------------------------ form_one_hot_covariance *)
Definition STD_EPSILON_HACK : Q := 1 # 100000000.
(* (factor * sqrt((std + eps) / 2)) ** 2 in exact arithmetic; std = None for NaN (empty point set) *)
Definition bandwidth_sq (factor : Q) (std : option Q) : option Q :=
  match std with Some s => Some (factor * factor * ((s + STD_EPSILON_HACK) / 2)) | None => None end.

(* hyperparameters = [1.0] + [bandwidth**2 if one_hot_ind in numerical_ind else cat_length_scale ...] *)
Fixpoint hyper_tail (numerical : list nat) (cat_ls : option Q) (i : nat) (bw2 : list (option Q)) : list (option Q) :=
  match bw2 with
  | [] => []
  | b :: r => (if existsb (Nat.eqb i) numerical then b else cat_ls) :: hyper_tail numerical cat_ls (S i) r
  end.
Definition raw_hyperparameters (numerical : list nat) (cat_ls : option Q) (bw2 : list (option Q)) : list (option Q) :=
  Some 1 :: hyper_tail numerical cat_ls 0 bw2.

(* RadialCovariance.check_hyperparameters_are_valid: no NaN, no inf, all > 0 *)
Definition valid_hyper1 (x : option Q) : bool := match x with Some q => Qltb 0 q | None => false end.
Definition valid_hyper (h : list (option Q)) : bool := forallb valid_hyper1 h.
(* try: covariance_class(hyperparameters) except HyperparameterInvalidError: covariance_class([1.0, ...]) *)
Definition choose_hyper (h : list (option Q)) : list (option Q) :=
  if valid_hyper h then h else map (fun _ => Some 1) h.
Definition one_hot_covariance (numerical : list nat) (cat_ls : option Q) (factor : Q) (stds : list (option Q))
  : list (option Q) :=
  choose_hyper (raw_hyperparameters numerical cat_ls (map (bandwidth_sq factor) stds)).

(* population variance of a column (numpy.std ** 2), used to tie the logged std to the point set *)
Definition variance (col : list Q) : Q :=
  let mu := qsum col / qlen col in qsum (map (fun x => (x - mu) * (x - mu)) col) / qlen col.
Definition column (k : nat) (pts : list point) : list Q := map (fun p => nth k p 0) pts.

(* ------------------------------------------------------------------ search variant *)
(* identify_scaled_values_exceeding_scaled_upper_thresholds: a NaN threshold (None) is ignored *)
Fixpoint within (thr : list (option Q)) (row : list Q) : bool :=
  match thr, row with
  | t :: thr', v :: row' => (match t with Some t => Qltb v t | None => true end) && within thr' row'
  | _, _ => true
  end.
Definition violations (thr : list (option Q)) (rows : list (list Q)) : list bool :=
  map (fun r => negb (within thr r)) rows.

Fixpoint select {A} (mask : list bool) (l : list A) : list A :=
  match mask, l with b :: m, x :: r => if b then x :: select m r else select m r | _, _ => [] end.
Definition count_true (l : list bool) : nat := length (filter (fun b => b) l).

(* the HACK block: when some observation violates a threshold AND more observations satisfy the thresholds than the space
   has dimensions, lower := satisfiers, greater := violators, gamma := sum(violations) / len(violations); otherwise - too few
   satisfiers, or no violator at all (the forced split would leave an empty greater set and gamma = 0) - the constructor's
   split is kept.
     if sum(metric_constraints_violations) > 0 and observation_count - sum(metric_constraints_violations) > dim: *)
Definition search_forced (dim n nv : nat) : bool := Nat.ltb 0 nv && Nat.ltb dim (n - nv).
Definition search_split {A} (dim : nat) (pts : list A) (viol : list bool) (dflt : list A * list A * Q)
  : list A * list A * Q :=
  let n := length pts in
  let nv := count_true viol in
  if search_forced dim n nv
  then (select (map negb viol) pts, select viol pts, inject_Z (Z.of_nat nv) / inject_Z (Z.of_nat (length viol)))
  else dflt.

(* form_sigopt_parzen_estimator_for_search: constructor with gamma0 (= the double 0.2), forget 0, then the block above *)
Definition search_model (gamma0 : Q) (dim : nat) (pts : list point) (vals : list Q) (perm : list nat)
  (thr : list (option Q)) (pf : list (list Q)) : result (list point * list point * Q) :=
  match form_model gamma0 0 pts vals perm with
  | ErrInsufficientData => ErrInsufficientData
  | Ok (lo, gr) => Ok (search_split dim pts (violations thr pf) (map fst lo, map fst gr, gamma0))
  end.

(* ------------------------------------------------------------------ decidable specification of a split, evaluated
   on the implementation's own output (point rows only, as the estimator stores them).  With t the s-th smallest
   kept value: every observation below t is in lower, every one above t is in greater, those equal to t are shared
   out, sizes are s and m - s.  Stated on multisets of points (rows compared with Qeq). *)
Fixpoint row_eqb (a b : point) : bool :=
  match a, b with [], [] => true | x :: a', y :: b' => Qeq_bool x y && row_eqb a' b' | _, _ => false end.
Fixpoint remove1 (x : point) (l : list point) : option (list point) :=
  match l with
  | [] => None
  | y :: r => if row_eqb x y then Some r else match remove1 x r with Some r' => Some (y :: r') | None => None end
  end.
(* l minus the sub-multiset sub (None when sub is not contained in l) *)
Fixpoint msub (l sub : list point) : option (list point) :=
  match sub with
  | [] => Some l
  | x :: r => match remove1 x l with Some l' => msub l' r | None => None end
  end.
Definition mset_eqb (a b : list point) : bool :=
  Nat.eqb (length a) (length b) && match msub a b with Some _ => true | None => false end.

Fixpoint insert_q (x : Q) (l : list Q) : list Q :=
  match l with [] => [x] | y :: r => if Qle_bool x y then x :: l else y :: insert_q x r end.
Definition sort_q (l : list Q) : list Q := fold_right insert_q [] l.

Definition split_spec_b (gamma forget : Q) (pts : list point) (vals : list Q) (lower greater : list point) : bool :=
  match split_sizes gamma forget (length pts) with
  | ErrInsufficientData => false
  | Ok (m, s) =>
      let o := kept_obs m pts vals in
      let t := nth (s - 1) (sort_q (map snd o)) 0 in
      let below := map fst (filter (fun p => Qltb (snd p) t) o) in
      let equal := map fst (filter (fun p => Qeq_bool (snd p) t) o) in
      Nat.eqb (length lower) s && Nat.eqb (length greater) (m - s) &&
      mset_eqb (lower ++ greater) (map fst o) &&
      match msub lower below with
      | Some rest => match msub equal rest with Some _ => true | None => false end
      | None => false
      end
  end.
