(* Correspondence cases for the search view's failure model (C19).  For a generated raw request the harness builds the REAL
   SearchNextPoints(params), runs next_points_probability_improvement() with the optimisation replaced by a recorder, and reads
   the members of the failure model of the acquisition function the view built back (introspection, as C06 does for the EI endpoint):
   class, threshold, and of each member's Gaussian process the historical data, kernel class, hyperparameter vector, nugget and
   mean polynomial.  [check] compares that with Model.SearchView.search_view_pfs inside Coq with C06's comparison (labels, points
   and hyperparameters exactly; numbers that went through the midpoint scaling to 1e-12 relative). *)
From Coq Require Import List QArith ZArith Bool Arith.
From LV Require Import Model.Domain Model.Decode Model.Midpoint Model.Wiring Model.WiringCorr Model.SearchView.
Import ListNotations.
Open Scope Q_scope.

Inductive svcase :=
| SVRaised (r : request)                          (* the view raised *)
| SVObs (r : request) (pfs : list obs_pf).        (* members of af.failure_model.list_of_probabilistic_failures, in order *)

Definition svcheck (c : svcase) : bool :=
  match c with
  | SVRaised r => match search_view_pfs r with None => true | Some _ => false end
  | SVObs r o => match search_view_pfs r with None => false | Some d => all2b pf_match d o end
  end.
