(* Correspondence cases for C13: implementation outputs are checked against the model and against the decidable
   specifications, inside Coq. *)
From Coq Require Import List QArith Bool Arith.
From LV Require Import Model.Pareto Model.Phases Model.Filters.
Import ListNotations.
Open Scope Q_scope.

Inductive case :=
| CPareto (vals : list (list Q)) (front dominated : list nat)
(* _find_sorted_pareto_frontier_values_minimization on a two-metric value matrix *)
| CSortedFront (vals out : list (list Q))
| CEps (eps : Q) (cm : nat) (vals : list (list Q)) (t0 t1 : option Q) (out : Q)
| CEpsFail (eps : Q) (cm : nat) (vals : list (list Q)) (fails out : list bool)
| CForce (om : nat) (vals : list (list Q)) (fails out : list bool) (ties : bool)
| CLabel (eps : Q) (om cm : nat) (vals : list (list Q)) (fails out : list bool) (ties : bool)
(* the consumers of the labelling, epsilon-constraint method: filter_multimetric_points_sampled (GP path; `kept` = the
   row numbers of the input rows the implementation handed on) and filter_multimetric_points_sampled_spe (Parzen path) *)
| CWrapGP (eps : Q) (om cm : nat) (pts vals vars : list (list Q)) (fails : list bool) (lie : list Q)
          (o : fout) (kept : list nat) (ties : bool)
| CWrapSPE (eps : Q) (om cm : nat) (pts vals : list (list Q)) (fails : list bool) (lie : list Q)
           (op : list (list Q)) (ov : list Q) (ties : bool).

Definition blist_eqb := list_eqb Bool.eqb.
Definition nlist_eqb := list_eqb Nat.eqb.

Definition check (c : case) : bool :=
  match c with
  | CPareto vals f d =>
      let '(mf, md) := pareto_split vals (seq 0 (length vals)) in
      nlist_eqb mf f && nlist_eqb md d && pareto_spec_b vals f d
  | CSortedFront vals out =>
      (* on a two-metric frontier rows with the same first metric are identical, so the sorted matrix is unique *)
      list_eqb (list_eqb Qeq_bool) (sorted_pareto_min vals) out &&
      Nat.eqb (length out) (length (filter (nondominated_b (neg_rows vals)) (seq 0 (length vals))))
  | CEps eps cm vals t0 t1 out => Qeq_bool (find_eps eps cm vals t0 t1) out
  | CEpsFail eps cm vals fails out => blist_eqb (eps_failures eps cm vals fails) out
  | CForce om vals fails out ties =>
      force_min_spec_b om vals fails out && (ties || blist_eqb (force_min om vals fails) out)
  | CLabel eps om cm vals fails out ties =>
      let merged := map (fun p => orb (fst p) (snd p)) (combine (eps_failures eps cm vals fails) fails) in
      force_min_spec_b om vals merged out && (ties || blist_eqb (eps_labelling eps om cm vals fails) out)
  | CWrapGP eps om cm pts vals vars fails lie o kept ties =>
      let m := filter_gp (EpsC om cm eps) pts vals vars fails lie in
      let n := length vals in
      let keepm := map (fun j => existsb (Nat.eqb j) kept) (seq 0 n) in
      (* the guaranteed minimum on the implementation's own output *)
      Nat.leb (Nat.min min_success n) (length (o_pts o)) && fout_lengths_b o &&
      (* the output is the selection of the input rows `kept`, in order, and that selection is an admissible repair
         of the epsilon failures (reported failures are not merged on this path) *)
      fout_eqb o {| o_pts := select keepm pts; o_vals := A1 (select keepm (col om vals));
                    o_vars := A1 (select keepm (col om vars)); o_lie := Sc (nth om lie 0) |} &&
      force_min_spec_b om vals (eps_failures eps cm vals fails) (map negb keepm) &&
      (ties || fout_eqb m o)
  | CWrapSPE eps om cm pts vals fails lie op ov ties =>
      let '(mp, mv) := filter_spe (EpsC om cm eps) pts vals fails lie in
      let n := length vals in
      let own := col om vals in
      let l := nth om lie 0 in
      let merged := map (fun p => orb (fst p) (snd p)) (combine (eps_failures eps cm vals fails) fails) in
      let lost := map (fun p : Q * Q => negb (Qeq_bool (fst p) (snd p))) (combine own ov) in
      list_eqb (list_eqb Qeq_bool) op pts && list_eqb (list_eqb Qeq_bool) mp op && Nat.eqb (length ov) n &&
      (* the guaranteed minimum on the implementation's own output: rows that still carry their own value *)
      Nat.leb (Nat.min min_success n) (own_count own ov) &&
      forallb (fun p : Q * Q => Qeq_bool (fst p) (snd p) || Qeq_bool (snd p) l) (combine own ov) &&
      forallb (fun p : bool * bool => implb (fst p) (snd p)) (combine lost merged) &&
      (* when the lie value differs from every observed value the labelling can be read off the output *)
      (if forallb (fun v => negb (Qeq_bool v l)) own
       then Nat.leb (Nat.min min_success n) (not_lie_count l ov) &&
            force_min_spec_b om vals merged (map (fun v => Qeq_bool v l) ov)
       else true) &&
      (ties || list_eqb Qeq_bool mv ov)
  end.
