(* Correspondence cases for C13: implementation outputs are checked against the model and against the decidable
   specifications, inside Coq. *)
From Coq Require Import List QArith Bool Arith.
From LV Require Import Model.Pareto.
Import ListNotations.
Open Scope Q_scope.

Inductive case :=
| CPareto (vals : list (list Q)) (front dominated : list nat)
| CEps (eps : Q) (cm : nat) (vals : list (list Q)) (t0 t1 : option Q) (out : Q)
| CEpsFail (eps : Q) (cm : nat) (vals : list (list Q)) (fails out : list bool)
| CForce (om : nat) (vals : list (list Q)) (fails out : list bool) (ties : bool)
| CLabel (eps : Q) (om cm : nat) (vals : list (list Q)) (fails out : list bool) (ties : bool).

Definition blist_eqb := list_eqb Bool.eqb.
Definition nlist_eqb := list_eqb Nat.eqb.

Definition check (c : case) : bool :=
  match c with
  | CPareto vals f d =>
      let '(mf, md) := pareto_split vals (seq 0 (length vals)) in
      nlist_eqb mf f && nlist_eqb md d && pareto_spec_b vals f d
  | CEps eps cm vals t0 t1 out => Qeq_bool (find_eps eps cm vals t0 t1) out
  | CEpsFail eps cm vals fails out => blist_eqb (eps_failures eps cm vals fails) out
  | CForce om vals fails out ties =>
      force_min_spec_b om vals fails out && (ties || blist_eqb (force_min om vals fails) out)
  | CLabel eps om cm vals fails out ties =>
      let merged := map (fun p => orb (fst p) (snd p)) (combine (eps_failures eps cm vals fails) fails) in
      force_min_spec_b om vals merged out && (ties || blist_eqb (eps_labelling eps om cm vals fails) out)
  end.
