(* Executable model of the pending-point ("lie") bookkeeping of libsigopt (C15).  No proofs here.
   (i)   HistoricalData / GaussianProcess.append_lie_data and accessors   compute/gaussian_process.py, compute/misc/data_containers.py
   (ii)  GaussianProcessSum with its three memoised caches                compute/gaussian_process_sum.py
   (iii) SigOptParzenEstimator append_lies / clear_lies / stash_lies / recover_lies   compute/sigopt_parzen_estimator.py
   (iv)  constant_liar_acquisition_function_optimization as a fold with a stub optimiser   compute/acquisition_function_optimization.py
   (v)   search_strategy_optimization as a fold with a stub optimiser     views/rest/search_next_points.py, compute/search.py
   (vi)  how the suggestion endpoints feed the request's pending points   views/view.py, views/rest/{gp,spe,search}_next_points*.py
   (vii) the Parzen constant liar on an estimator that already holds lies, and the endpoint sequence around it   views/rest/spe_next_points.py
   Values are exact rationals (every finite double is one).  Mutation is state passing. *)
From Coq Require Import List QArith Bool Arith.
Import ListNotations.
Open Scope Q_scope.

Notation point := (list Q).
Inductive err := AssertionError | ValueError | IndexError.
Inductive lie_method := LieMin | LieMax | LieMean.

(* DEFAULT_CONSTANT_LIAR_LIE_NOISE_VARIANCE = 1e-12: the double that literal denotes, 4951760157141521 / 2^92 *)
Definition lie_noise : Q := 4951760157141521 # 4951760157141521099596496896.

(* numpy.max / numpy.min of a non-empty vector (a fold keeping the running extremum) *)
Definition Qmaxb (a b : Q) : Q := if Qle_bool a b then b else a.
Definition Qminb (a b : Q) : Q := if Qle_bool b a then b else a.
Definition qmax (x : Q) (l : list Q) : Q := fold_left Qmaxb l x.
Definition qmin (x : Q) (l : list Q) : Q := fold_left Qminb l x.
Definition qsum (l : list Q) : Q := fold_left Qplus l 0.

(* GaussianProcess.append_lie_data: constant_liar_min lies with the MAXIMUM observed value (the model minimises), ... *)
Definition lie_value (m : lie_method) (vals : list Q) : option Q :=
  match vals with
  | [] => None                                  (* numpy.max of an empty vector raises ValueError *)
  | x :: r => Some match m with
                   | LieMin => qmax x r
                   | LieMax => qmin x r
                   | LieMean => qsum vals / inject_Z (Z.of_nat (length vals))
                   end
  end.

(* numpy.argmin: index of the first minimum *)
Fixpoint argmin_from (best : Q) (bi i : nat) (l : list Q) : nat :=
  match l with
  | [] => bi
  | x :: r => if Qle_bool best x then argmin_from best bi (S i) r else argmin_from x i (S i) r
  end.
Definition argmin (l : list Q) : nat := match l with [] => O | x :: r => argmin_from x O 1%nat r end.

(* ------------------------------------------------------------------------------------------------ (i) one GP *)
Record hist := mkHist { h_dim : nat; h_pts : list point; h_vals : list Q; h_noise : list Q }.
(* g_best is GaussianProcess._best_index (memoised argmin, cleared by update_historical_data) *)
Record gp := mkGp { g_hist : hist; g_best : option nat }.

(* HistoricalData.append_historical_data: returns at once on an empty block, asserts the column count, then appends *)
Definition append_historical_data (h : hist) (locs : list point) (vs ns : list Q) : hist + err :=
  match locs with
  | [] => inl h
  | _ => if forallb (fun p => Nat.eqb (length p) (h_dim h)) locs
         then inl (mkHist (h_dim h) (h_pts h ++ locs) (h_vals h ++ vs) (h_noise h ++ ns))
         else inr AssertionError
  end.

(* GaussianProcess.append_lie_data followed by update_historical_data (which clears _best_index and refactorises);
   a failed assertion happens before anything is written *)
Definition gp_append (g : gp) (locs : list point) (m : lie_method) : gp * option err :=
  match lie_value m (h_vals (g_hist g)) with
  | None => (g, Some ValueError)
  | Some v =>
      match append_historical_data (g_hist g) locs (repeat v (length locs)) (repeat lie_noise (length locs)) with
      | inr e => (g, Some e)
      | inl h' => (mkGp h' None, None)
      end
  end.

Inductive out :=
| ONone | ONat (n : nat) | OPts (p : list point) | OVec (v : list Q) | OVal (q : Q) | OErr (e : err)
| OStash (lo gr : list point).

Inductive gop := GAppend (locs : list point) (m : lie_method) | GNum | GPts | GVals | GNoise | GBest | GPredict.

Definition read_at (v : list Q) (i : nat) : out := match nth_error v i with Some x => OVal x | None => OErr IndexError end.

Definition gp_step (g : gp) (o : gop) : gp * out :=
  let h := g_hist g in
  match o with
  | GAppend locs m => let '(g', e) := gp_append g locs m in (g', match e with None => ONone | Some e => OErr e end)
  | GNum => (g, ONat (length (h_pts h)))
  | GPts => (g, OPts (h_pts h))
  | GVals => (g, OVec (h_vals h))
  | GNoise => (g, OVec (h_noise h))
  | GBest =>                                        (* best_observed_value = points_sampled_value[best_index] *)
      let i := match g_best g with Some i => i | None => argmin (h_vals h) end in
      (mkGp h (Some i), read_at (h_vals h) i)
  | GPredict => (g, ONone)                          (* compute_mean_and_variance_of_points: reads only *)
  end.

Definition run {St Op Out} (step : St -> Op -> St * Out) (s : St) (ops : list Op) : St := fold_left (fun st o => fst (step st o)) ops s.
(* the trace of outputs, one per op *)
Fixpoint trace {St Op Out} (step : St -> Op -> St * Out) (s : St) (ops : list Op) : list Out :=
  match ops with [] => [] | o :: r => let '(s', x) := step s o in x :: trace step s' r end.

(* ------------------------------------------------------------------------------------------------ (ii) sum of GPs *)
Record gpsum := mkSum { s_comps : list gp; s_weights : list Q;
                        c_vals : option (list Q); c_noise : option (list Q); c_best : option nat }.

Definition zipadd (a b : list Q) : list Q := map (fun p => fst p + snd p) (combine a b).
Definition s_num (s : gpsum) : nat := match s_comps s with g :: _ => length (h_pts (g_hist g)) | [] => O end.
(* _compute_points_sampled_value_sum: zeros(num_sampled), then acc = acc + w * gp.points_sampled_value *)
Definition wsum (n : nat) (ws : list Q) (cols : list (list Q)) : list Q :=
  fold_left (fun acc wc => zipadd acc (map (Qmult (fst wc)) (snd wc))) (combine ws cols) (repeat 0 n).
Definition fresh_vals (s : gpsum) : list Q := wsum (s_num s) (s_weights s) (map (fun g => h_vals (g_hist g)) (s_comps s)).
Definition fresh_noise (s : gpsum) : list Q :=
  wsum (s_num s) (map (fun w => w * w) (s_weights s)) (map (fun g => h_noise (g_hist g)) (s_comps s)).

(* for gp in self.gaussian_process_list: gp.append_lie_data(...) -- stops at the first failure *)
Fixpoint append_all (gs : list gp) (locs : list point) (m : lie_method) : list gp * option err :=
  match gs with
  | [] => ([], None)
  | g :: r => match gp_append g locs m with
              | (g', None) => let '(r', e) := append_all r locs m in (g' :: r', e)
              | (g', Some e) => (g' :: r, Some e)
              end
  end.

Inductive sop := SAppend (locs : list point) (m : lie_method) | SNum | SPts | SVals | SNoise | SBest | SPredict.

Definition s_read_vals (s : gpsum) : gpsum * list Q :=
  match c_vals s with
  | Some v => (s, v)
  | None => let v := fresh_vals s in (mkSum (s_comps s) (s_weights s) (Some v) (c_noise s) (c_best s), v)
  end.

(* [reset]: whether append_lie_data clears the three memoised fields (true = the code after commit 1aeae01) *)
Definition s_step (reset : bool) (s : gpsum) (o : sop) : gpsum * out :=
  match o with
  | SAppend locs m =>
      let '(gs, e) := append_all (s_comps s) locs m in
      match e with
      | Some e => (mkSum gs (s_weights s) (c_vals s) (c_noise s) (c_best s), OErr e)
      | None => (if reset then mkSum gs (s_weights s) None None None
                 else mkSum gs (s_weights s) (c_vals s) (c_noise s) (c_best s), ONone)
      end
  | SNum => (s, ONat (s_num s))
  | SPts => (s, OPts (match s_comps s with g :: _ => h_pts (g_hist g) | [] => [] end))
  | SVals => let '(s', v) := s_read_vals s in (s', OVec v)
  | SNoise =>
      match c_noise s with
      | Some v => (s, OVec v)
      | None => let v := fresh_noise s in (mkSum (s_comps s) (s_weights s) (c_vals s) (Some v) (c_best s), OVec v)
      end
  | SBest =>                                   (* self.points_sampled_value[self.best_index], left to right *)
      let '(s1, v) := s_read_vals s in
      let i := match c_best s1 with Some i => i | None => argmin v end in
      (mkSum (s_comps s1) (s_weights s1) (c_vals s1) (c_noise s1) (Some i), read_at v i)
  | SPredict => (s, ONone)
  end.

(* ------------------------------------------------------------------------------------------------ (iii) Parzen estimator *)
Record pz := mkPz { p_dim : nat; p_lower : list point; p_greater : list point;
                    p_lower_lies : list point; p_greater_lies : list point }.

Inductive pop :=
| PAppend (lies : list point) (lower : bool) | PClear | PStash | PRecover (lo gr : list point).

Definition drop_last {A} (k : nat) (l : list A) : list A := firstn (length l - k) l.   (* l[:-k], k >= 1 *)
Definition rows_ok (d : nat) (l : list point) : bool := forallb (fun p => Nat.eqb (length p) d) l.

(* append_lies: the lie list is extended first; numpy.concatenate then raises ValueError on a column mismatch *)
Definition pz_append (s : pz) (lies : list point) (lower : bool) : pz * option err :=
  match lies with
  | [] => (s, None)
  | _ =>
      let ok := rows_ok (p_dim s) lies in
      if lower
      then (mkPz (p_dim s) (if ok then p_lower s ++ lies else p_lower s) (p_greater s) (p_lower_lies s ++ lies) (p_greater_lies s),
            if ok then None else Some ValueError)
      else (mkPz (p_dim s) (p_lower s) (if ok then p_greater s ++ lies else p_greater s) (p_lower_lies s) (p_greater_lies s ++ lies),
            if ok then None else Some ValueError)
  end.
Definition pz_clear (s : pz) : pz :=
  mkPz (p_dim s)
       (match p_lower_lies s with [] => p_lower s | l => drop_last (length l) (p_lower s) end)
       (match p_greater_lies s with [] => p_greater s | l => drop_last (length l) (p_greater s) end) [] [].
Definition pz_recover (s : pz) (lo gr : list point) : pz * option err :=
  let s0 := pz_clear s in
  match pz_append s0 lo true with
  | (s1, Some e) => (s1, Some e)
  | (s1, None) => pz_append s1 gr false
  end.
Definition oerr (e : option err) : out := match e with None => ONone | Some e => OErr e end.
Definition pz_step (s : pz) (o : pop) : pz * out :=
  match o with
  | PAppend lies lower => let '(s', e) := pz_append s lies lower in (s', oerr e)
  | PClear => (pz_clear s, ONone)
  | PStash => (s, OStash (p_lower_lies s) (p_greater_lies s))
  | PRecover lo gr => let '(s', e) := pz_recover s lo gr in (s', oerr e)
  end.

(* ------------------------------------------------------------------------------------------------ (iv) constant liar
   af = deepcopy(acquisition_function); for _ in range(n): p = optimise(af); af.append_lie_locations([p]); picks.append(p).
   The optimiser is a function of the state of the copied acquisition function (its predictor). *)
Section ConstantLiar.
  Context {St : Type}.
  Variable append1 : St -> point -> St.   (* af.append_lie_locations(atleast_2d(p)) on the copy *)
  Variable pick : St -> point.            (* vectorized_acquisition_optimization on the copy's current state *)
  Fixpoint cl_loop (n : nat) (s : St) : list point * list St :=   (* picks, and the state each pick was optimised against *)
    match n with
    | O => ([], [])
    | S n' => let p := pick s in let '(ps, ss) := cl_loop n' (append1 s p) in (p :: ps, s :: ss)
    end.
End ConstantLiar.
Definition gp_append1 (g : gp) (p : point) : gp := fst (gp_append g [p] LieMin).
Definition sum_append1 (s : gpsum) (p : point) : gpsum := fst (s_step true s (SAppend [p] LieMin)).

(* ------------------------------------------------------------------------------------------------ (v) search
   repulsors and distance value are saved, every pick is added (mapped to the search cube) as a repulsor and a new
   distance value is drawn; both are restored before returning. *)
Record search_af := mkSearch { repulsors : list point; dist_par : Q }.
Section Search.
  Variable to_cube : point -> point.               (* convert_one_hot_to_search_hypercube_points, one row *)
  Variable pick : search_af -> point.              (* DEOptimizer(...).optimize(...) on the acquisition function as it is now *)
  Fixpoint search_iter (draws : list Q) (n : nat) (a : search_af) : list point * list search_af * search_af :=
    match n with
    | O => ([], [], a)
    | S n' =>
        let p := pick a in
        let d := match draws with d :: _ => d | [] => dist_par a end in
        let '(ps, ss, fin) := search_iter (tl draws) n' (mkSearch (repulsors a ++ [to_cube p]) d) in
        (p :: ps, a :: ss, fin)
    end.
  (* returns picks, the acquisition-function state seen by each optimisation, and the state left to the caller *)
  Definition search_loop (draws : list Q) (n : nat) (a : search_af) : list point * list search_af * search_af :=
    let '(ps, ss, _) := search_iter draws n a in (ps, ss, mkSearch (repulsors a) (dist_par a)).
End Search.
(* map_non_categorical_points_to_unit_hypercube for a domain without categoricals *)
Definition unit_cube (lo hi : list Q) (p : point) : point :=
  map (fun t => (fst t - fst (snd t)) / (snd (snd t) - fst (snd t))) (combine p (combine lo hi)).

(* ------------------------------------------------------------------------------------------------ (vi) endpoints
   What each suggestion endpoint hands to its model, given the one-hot pending points of the request. *)
Inductive parallelism := ConstantLiar | QEI.
Record gp_feed := mkFeed { f_hist : hist; f_pending_set : list point; f_use_qei : bool }.
(* GPView.form_single_gaussian_process + GpNextPointsCategorical.view, for a GP of the acquisition function's predictor (the single
   GP, or each component of the sum of GPs).  [lie] is the lie value the view hands to form_single_gaussian_process (the scaled
   worst non-failed value of the metric over the whole request).
   - constant liar: form_single_gaussian_process appends the pending points with THAT lie value and the lie noise;
   - qEI with parallel EI usable (pending points, no tasks): the data stay as built, the pending points are the pending set of
     parallel EI;
   - qEI requested but parallel EI unusable (pending points, multitask): view() calls
     acquisition_function.append_lie_locations(pending) -> predictor.append_lie_data(pending, constant_liar_min) before the
     optimiser runs, i.e. gp_append with LieMin: the lie value is the maximum of THE MODEL'S OWN data at that moment (after the
     multimetric filter has dropped rows, so it can be smaller than [lie], which is not used here), with the lie noise; the
     dimension assertion fires before anything is written;
   - qEI without pending points: nothing to feed. *)
Definition feed_gp (par : parallelism) (multitask : bool) (h : hist) (pending : list point) (lie : Q) : gp_feed + err :=
  match par with
  | ConstantLiar =>
      match append_historical_data h pending (repeat lie (length pending)) (repeat lie_noise (length pending)) with
      | inl h' => inl (mkFeed h' [] false)
      | inr e => inr e
      end
  | QEI =>
      let requested := negb (Nat.eqb (length pending) 0) in          (* num_being_sampled > 0 and parallelism == PARALLEL_QEI *)
      let use_qei := requested && negb multitask in                  (* ... and not self.task_cost_populated *)
      if use_qei then inl (mkFeed h pending true)
      else if requested then
        match gp_append (mkGp h None) pending LieMin with
        | (g, None) => inl (mkFeed (g_hist g) [] false)
        | (_, Some e) => inr e
        end
      else inl (mkFeed h [] false)
  end.
(* The GPs under the failure model (constraint metrics, epsilon-constraint thresholds) only go through
   form_single_gaussian_process: lies (with the view's lie value of that metric) under constant liar; under qEI they stay as built -
   parallel EI with failures samples them at its pending set, and in the multitask fall-back append_lie_locations reaches the
   predictor only (ExpectedImprovementWithFailures inherits it from ExpectedImprovement), exactly as for the picks inside the
   constant-liar loop. *)
Definition feed_failure_gp (par : parallelism) (h : hist) (pending : list point) (lie : Q) : hist + err :=
  match par with
  | ConstantLiar => append_historical_data h pending (repeat lie (length pending)) (repeat lie_noise (length pending))
  | QEI => inl h
  end.
(* SPENextPoints.view: sigopt_parzen_estimator.append_lies(list(pending)) -- into the greater set *)
Definition feed_parzen (s : pz) (pending : list point) : pz * option err := pz_append s pending false.
(* SearchNextPoints.next_points_probability_improvement: repulsors = sampled ++ pending, mapped to the search cube *)
Definition feed_search (to_cube : point -> point) (sampled pending : list point) (d : Q) : search_af :=
  mkSearch (map to_cube (sampled ++ pending)) d.

(* ------------------------------------------------------------------------------------------------ (vii) Parzen constant liar
   SPENextPoints.suggest_next_points_constant_liar(pe, n, domain, num_multistarts) on a LIVE estimator - one that may already
   hold lies (the request's pending points, appended by create_spe_suggestions before draw_samples calls this routine):
       lie_data = pe.stash_lies()
       n times:  p = optimise(pe);  pe.append_lies([p])          (greater set: lower defaults to False)
       pe.recover_lies(lie_data)
   The optimiser is an arbitrary function of the estimator as it is at that moment.  Returns the picks, the estimator state
   each optimisation ran against, and the state the caller gets back. *)
Definition pz_append1 (s : pz) (p : point) : pz := fst (pz_append s [p] false).
Definition pz_constant_liar (pick : pz -> point) (n : nat) (s : pz) : list point * list pz * pz :=
  let lo := p_lower_lies s in
  let gr := p_greater_lies s in                                    (* stash_lies: deep copies of the two lie lists *)
  let '(ps, ss) := cl_loop pz_append1 pick n s in
  (ps, ss, fst (pz_recover (fold_left pz_append1 ps s) lo gr)).

(* SPENextPoints.create_spe_suggestions from the formed estimator on, then the head of draw_samples:
       pe.append_lies(list(pending))
       max_location = suggest_next_points_constant_liar(pe, 1, ...)[0]
       max_value = pe.evaluate_expected_improvement(max_location); the rejection sampler evaluates EI on pe over and over
   Returns (max_location, the estimator the optimiser saw, the estimator every later expected-improvement evaluation runs on). *)
Definition spe_sampling (pick : pz -> point) (s : pz) (pending : list point) : (point * pz * pz) + err :=
  match feed_parzen s pending with
  | (s1, None) => let '(ps, ss, s2) := pz_constant_liar pick 1 s1 in inl (hd [] ps, hd s1 ss, s2)
  | (_, Some e) => inr e
  end.

(* ------------------------------------------------------------------------------------------------ decidable helpers *)
Definition list_eqb {A} (eq : A -> A -> bool) := fix go (a b : list A) : bool :=
  match a, b with [], [] => true | x :: a', y :: b' => eq x y && go a' b' | _, _ => false end.
Definition vec_eqb := list_eqb Qeq_bool.
Definition pts_eqb := list_eqb vec_eqb.
