(* C03: hyperparameter validation and read-back of RadialCovariance and MultitaskTensorCovariance. No proofs here. *)
From Coq Require Import List QArith Bool.
Import ListNotations.
Open Scope Q_scope.

Inductive xreal := Fin (q : Q) | PInf | NInf | NaN.

(* check_hyperparameters_are_valid: any NaN, any inf, any <= 0  ->  HyperparameterInvalidError *)
Definition entry_ok (h : xreal) : bool := match h with Fin q => negb (Qle_bool q 0) | _ => false end.
Definition valid (hp : list xreal) : bool := forallb entry_ok hp.

Record radial := { r_alpha : xreal; r_ls : list xreal }.
(* set_hyperparameters: None = HyperparameterInvalidError *)
Definition radial_set (hp : list xreal) : option radial :=
  match hp with
  | a :: ls => if valid hp then Some {| r_alpha := a; r_ls := ls |} else None
  | [] => Some {| r_alpha := NaN; r_ls := [] |}   (* excluded by the callers: hyperparameters are non-empty *)
  end.
Definition radial_get (k : radial) : list xreal := r_alpha k :: r_ls k.

(* MultitaskTensorCovariance: [alpha, l_1..l_d, l_task]; physical = [1, l_1..l_d], task = [1, l_task];
   alpha is validated by the tensor kernel itself, the length scales by the component kernels *)
Record multitask := { m_alpha : xreal; m_phys : radial; m_task : radial }.
Definition one : xreal := Fin 1.
Definition multitask_set (hp : list xreal) : option multitask :=
  match hp with
  | a :: rest =>
      let ls := removelast rest in
      let lt := last rest NaN in
      if entry_ok a then
        match radial_set (one :: ls), radial_set [one; lt] with
        | Some p, Some t => Some {| m_alpha := a; m_phys := p; m_task := t |}
        | _, _ => None
        end
      else None
  | [] => None
  end.
Definition multitask_get (k : multitask) : list xreal :=
  m_alpha k :: r_ls (m_phys k) ++ [last (radial_get (m_task k)) NaN].

Definition xeqb (a b : xreal) : bool :=
  match a, b with
  | Fin p, Fin q => Qeq_bool p q | PInf, PInf => true | NInf, NInf => true | NaN, NaN => true | _, _ => false
  end.
Fixpoint xlist_eqb (a b : list xreal) : bool :=
  match a, b with [], [] => true | x :: a', y :: b' => xeqb x y && xlist_eqb a' b' | _, _ => false end.

(* correspondence cases *)
Inductive case :=
| CRadial (hp : list xreal) (accepted : bool) (readback : list xreal)
| CMulti (hp : list xreal) (accepted : bool) (readback : list xreal).
Definition check (c : case) : bool :=
  match c with
  | CRadial hp acc rb =>
      match radial_set hp with
      | Some k => acc && xlist_eqb (radial_get k) rb && xlist_eqb rb hp
      | None => negb acc
      end
  | CMulti hp acc rb =>
      match multitask_set hp with
      | Some k => acc && xlist_eqb (multitask_get k) rb && xlist_eqb rb hp
      | None => negb acc
      end
  end.
