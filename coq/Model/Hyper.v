(* C03: hyperparameter validation and read-back of RadialCovariance and MultitaskTensorCovariance. No proofs here. *)
From Coq Require Import List QArith Bool Arith.
Import ListNotations.
Open Scope Q_scope.

Inductive xreal := Fin (q : Q) | PInf | NInf | NaN.

(* check_hyperparameters_are_valid: any NaN, any inf, any <= 0  ->  HyperparameterInvalidError *)
Definition entry_ok (h : xreal) : bool := match h with Fin q => negb (Qle_bool q 0) | _ => false end.
Definition valid (hp : list xreal) : bool := forallb entry_ok hp.

(* The state of a RadialCovariance object, field by field: the getter reads _hyperparameters, the kernel computes with
   process_variance and _length_scales (three assignments of set_hyperparameters) *)
Record radial := { r_hp : list xreal;      (* _hyperparameters : what `hyperparameters` reads back *)
                   r_alpha : xreal;        (* process_variance : what covariance / build_kernel_matrix multiply with *)
                   r_ls : list xreal }.    (* _length_scales   : what the distances are scaled by *)
(* set_hyperparameters on a new object (the constructor): None = HyperparameterInvalidError
     self._hyperparameters = self.check_hyperparameters_are_valid(hyperparameters)      <- raises before anything is assigned
     self.process_variance = self._hyperparameters[0];  self._length_scales = numpy.copy(self._hyperparameters[1:]) *)
Definition radial_set (hp : list xreal) : option radial :=
  match hp with
  | a :: ls => if valid hp then Some {| r_hp := hp; r_alpha := a; r_ls := ls |} else None
  | [] => Some {| r_hp := []; r_alpha := NaN; r_ls := [] |}   (* excluded by the callers: hyperparameters are non-empty *)
  end.
Definition radial_get (k : radial) : list xreal := r_hp k.

(* MultitaskTensorCovariance: [alpha, l_1..l_d, l_task]; physical = [1, l_1..l_d], task = [1, l_task];
   alpha is validated by the tensor kernel itself, the length scales by the component kernels *)
Record multitask := { m_alpha : xreal; m_phys : radial; m_task : radial }.
Definition one : xreal := Fin 1.
Definition multitask_set (hp : list xreal) : option multitask :=
  match hp with
  | a :: rest =>
      let ls := removelast rest in
      let lt := last rest NaN in
      if entry_ok a then
        match radial_set (one :: ls), radial_set [one; lt] with
        | Some p, Some t => Some {| m_alpha := a; m_phys := p; m_task := t |}
        | _, _ => None
        end
      else None
  | [] => None
  end.
(* get_hyperparameters: [process_variance] ++ physical_covariance.hyperparameters[1:] ++ [task_covariance.hyperparameters[-1]] *)
Definition multitask_get (k : multitask) : list xreal :=
  m_alpha k :: tl (radial_get (m_phys k)) ++ [last (radial_get (m_task k)) NaN].

Definition xeqb (a b : xreal) : bool :=
  match a, b with
  | Fin p, Fin q => Qeq_bool p q | PInf, PInf => true | NInf, NInf => true | NaN, NaN => true | _, _ => false
  end.
Fixpoint xlist_eqb (a b : list xreal) : bool :=
  match a, b with [], [] => true | x :: a', y :: b' => xeqb x y && xlist_eqb a' b' | _, _ => false end.

(* ---------------------------------------------------------------------------------------------------------------------------
   LIVE OBJECTS: `k.hyperparameters = hp` on an object that already exists.  The statement is the same code as above; what differs is
   that a raise leaves the OLD object behind, with whatever had been assigned before the raise.
   Result: the object afterwards, and whether the assignment returned normally (false = HyperparameterInvalidError). *)
Definition radial_assign (k : radial) (hp : list xreal) : radial * bool :=
  match radial_set hp with
  | Some k' => (k', true)
  | None => (k, false)             (* check_hyperparameters_are_valid raised: no field was assigned *)
  end.

(* MultitaskTensorCovariance.set_hyperparameters, statement by statement (since the repair 65c6caf):
     if not (isfinite(hp[0]) and hp[0] > 0): raise                         -> nothing assigned
     process_variance = hp[0]                                              (a local)
     physical_covariance = physical_covariance_class([1, l_1..l_d])        (a local; may raise: nothing assigned)
     task_covariance = task_covariance_class([1, l_task])                  (a local; may raise: nothing assigned)
     self.process_variance, self.physical_covariance, self.task_covariance = the three locals
   i.e. the object becomes what the constructor would build from hp, or stays what it was *)
Definition multitask_assign (k : multitask) (hp : list xreal) : multitask * bool :=
  match multitask_set hp with
  | Some k' => (k', true)
  | None => (k, false)
  end.

(* what can be seen of a live kernel object *)
Inductive hop :=
| HSet (hp : list xreal)      (* k.hyperparameters = hp, HyperparameterInvalidError caught *)
| HGet                        (* k.hyperparameters *)
| HProbe.                     (* use the kernel: k(x, x), and all entry points against a kernel freshly built from what is read back *)
Inductive hout :=
| OSet (accepted : bool)
| OGet (hp : list xreal)
| OProbe (kxx : xreal) (coherent : bool).

(* a radial kernel computes as the kernel of the hyperparameters it reads back, and these are admissible *)
Definition radial_coherent (k : radial) : bool :=
  xlist_eqb (radial_get k) (r_alpha k :: r_ls k) && valid (radial_get k).
Definition multitask_coherent (k : multitask) : bool :=
  entry_ok (m_alpha k) && radial_coherent (m_phys k) && radial_coherent (m_task k)
  && xeqb (r_alpha (m_phys k)) one && xeqb (r_alpha (m_task k)) one && (length (r_ls (m_task k)) =? 1)%nat.

Definition radial_step (k : radial) (o : hop) : radial * hout :=
  match o with
  | HSet hp => let '(k', ok) := radial_assign k hp in (k', OSet ok)
  | HGet => (k, OGet (radial_get k))
  | HProbe => (k, OProbe (r_alpha k) (radial_coherent k))       (* k(x,x) = process_variance * phi(0) = process_variance *)
  end.
Definition multitask_step (k : multitask) (o : hop) : multitask * hout :=
  match o with
  | HSet hp => let '(k', ok) := multitask_assign k hp in (k', OSet ok)
  | HGet => (k, OGet (multitask_get k))
  | HProbe => (k, OProbe (m_alpha k) (multitask_coherent k))    (* the component kernels carry process variance 1 *)
  end.

Fixpoint run {S} (step : S -> hop -> S * hout) (k : S) (ops : list hop) : S * list hout :=
  match ops with
  | [] => (k, [])
  | o :: r => let '(k1, out) := step k o in let '(k2, outs) := run step k1 r in (k2, out :: outs)
  end.

(* the last vector a sequence of assignments ACCEPTED (hp0: what the object was constructed with) *)
Fixpoint last_accepted (hp0 : list xreal) (ops : list hop) : list xreal :=
  match ops with
  | [] => hp0
  | HSet hp :: r => last_accepted (if valid hp then hp else hp0) r
  | _ :: r => last_accepted hp0 r
  end.

Definition hout_eqb (a b : hout) : bool :=
  match a, b with
  | OSet x, OSet y => Bool.eqb x y
  | OGet x, OGet y => xlist_eqb x y
  | OProbe x c, OProbe y d => xeqb x y && Bool.eqb c d
  | _, _ => false
  end.
Fixpoint houts_eqb (a b : list hout) : bool :=
  match a, b with [], [] => true | x :: a', y :: b' => hout_eqb x y && houts_eqb a' b' | _, _ => false end.

(* the specification evaluated on the implementation's OWN outputs (no model involved): every probe is coherent; a read-back after an
   accepted assignment is the vector assigned; a read-back after a rejected assignment is the previous read-back (strict = true; strict =
   false leaves it open: not used any more since the tensor kernel's setter was repaired) *)
Fixpoint spec_outs (strict : bool) (cur : list xreal) (ops : list hop) (outs : list hout) : bool :=
  match ops, outs with
  | [], [] => true
  | HSet hp :: r, OSet ok :: s =>
      Bool.eqb ok (valid hp) && spec_outs strict (if ok then hp else if strict then cur else []) r s
  | HGet :: r, OGet v :: s =>
      valid v && (match cur with [] => true | _ => xlist_eqb v cur end) && spec_outs strict v r s
  | HProbe :: r, OProbe kxx coh :: s =>
      coh && (match cur with a :: _ => xeqb kxx a | [] => true end) && spec_outs strict cur r s
  | _, _ => false
  end.

(* correspondence cases *)
Inductive case :=
| CRadial (hp : list xreal) (accepted : bool) (readback : list xreal)
| CMulti (hp : list xreal) (accepted : bool) (readback : list xreal)
(* a live object: constructed with hp0 (admissible), then the operations ops; outs = what the implementation showed *)
| CLiveRadial (hp0 : list xreal) (ops : list hop) (outs : list hout)
| CLiveMulti (hp0 : list xreal) (ops : list hop) (outs : list hout).
Definition check (c : case) : bool :=
  match c with
  | CRadial hp acc rb =>
      match radial_set hp with
      | Some k => acc && xlist_eqb (radial_get k) rb && xlist_eqb rb hp
      | None => negb acc
      end
  | CMulti hp acc rb =>
      match multitask_set hp with
      | Some k => acc && xlist_eqb (multitask_get k) rb && xlist_eqb rb hp
      | None => negb acc
      end
  | CLiveRadial hp0 ops outs =>
      match radial_set hp0 with
      | Some k => houts_eqb (snd (run radial_step k ops)) outs && spec_outs true hp0 ops outs
      | None => false
      end
  | CLiveMulti hp0 ops outs =>
      match multitask_set hp0 with
      | Some k => houts_eqb (snd (run multitask_step k ops)) outs && spec_outs true hp0 ops outs
      | None => false
      end
  end.
