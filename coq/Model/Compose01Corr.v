(* Correspondence cases for the glue of Model/Compose01.v (C01 composed with C07 / C08): the real
   CategoricalDomain.one_hot_domain, ContinuousDomain.generate_quasi_random_points_in_domain,
   vectorized_acquisition_optimization, constant_liar_acquisition_function_optimization,
   qei_acquisition_function_optimization and CategoricalDomain.generate_quasi_random_points_in_domain are run with a scripted
   acquisition function and scripted draws; their outputs are compared with the glue model (exactly, on dyadic inputs) and
   the decidable specification (C07's in_dom_b on the representation derived from the domain, hence relaxed_ok) is
   evaluated on the implementation's own output, inside Coq. *)
From Coq Require Import List QArith ZArith Bool Arith Qabs Qround.
From LV Require Import Model.Domain Model.Decode Model.EndpointTail Model.Compose01.
From LV Require Model.OptimCorr.
Import ListNotations.
Open Scope Q_scope.

Module OC := LV.Model.OptimCorr.

Definition row_eqb (a b : row) : bool := forall2b Qeq_bool a b.
Definition rows_eqb (a b : list row) : bool := forall2b row_eqb a b.
Definition opt_rows_eqb (a b : option (list row)) : bool :=
  match a, b with Some x, Some y => rows_eqb x y | None, None => true | _, _ => false end.
Definition bounds_eqb (a b : list (Q * Q)) : bool :=
  forall2b (fun x y => Qeq_bool (fst x) (fst y) && Qeq_bool (snd x) (snd y)) a b.
Definition cons_eqb (a b : list (row * Q)) : bool :=
  forall2b (fun x y => row_eqb (fst x) (fst y) && Qeq_bool (snd x) (snd y)) a b.

(* the scripted acquisition function: C07's recorded quadratic of the point y snapped to a power-of-two grid (undefined, NaN,
   on the half-spaces af_und), minus (number of lies) * (lw . y) *)
Definition afl_of (f : OC.afspec) (lw : row) (lies : list row) (x : row) : option Q :=
  match OC.af_eval f x with
  | Some v => Some (Qred (v - inject_Z (Z.of_nat (length lies)) * dot lw (map (OC.snap1 (OC.af_snap f)) x)))
  | None => None            (* undefined (NaN) on the half-spaces af_und f, whatever the lies *)
  end.

(* first-order form of the draws of one call of vectorized_acquisition_optimization: quasi-random generation = the first k
   points of the cyclically repeated pool; the restrictions of the generated cases never draw (unconstrained domains) *)
Record vorc_l := { l_pool : list row; l_ds : list (list (nat * nat * nat) * list (list Q)); l_zs : list row;
                   l_fallback : list row; l_choice : list nat; l_ups : list (list row) }.
Definition to_vorc (l : vorc_l) : vorc :=
  {| v_gen_es := OC.cyc (l_pool l); v_gen_gd := OC.cyc (l_pool l); v_us_es := fun _ => []; v_us_gd := fun _ => [];
     v_ds := l_ds l; v_zs := l_zs l; v_us_near := []; v_fallback := l_fallback l; v_choice := l_choice l; v_ups := l_ups l |}.

(* what the implementation raised: the assertion on the number of gradient starts / a shape assertion, or ValueError
   (numpy.nanargmax on a batch without any defined value, numpy.argmax of an empty array) *)
Inductive eobs := ENone | EAssert | EValue.
Definition err_class (e : serr) : eobs :=
  match e with SAssert => EAssert | SValue => EValue | SOpt OP.ValueError => EValue | _ => ENone end.
Definition eobs_eqb (a b : eobs) : bool :=
  match a, b with EAssert, EAssert | EValue, EValue => true | _, _ => false end.
Definition sres_rows {A} (eqb : A -> A -> bool) (r : sres A) (out : option A) (e : eobs) : bool :=
  match r, out with SOk a, Some b => eqb a b | SErr x, None => eobs_eqb (err_class x) e | _, _ => false end.
(* the specification on the implementation's own output: C07's domain test on the derived representation *)
Definition spec_pt (tol : Q) (d : domain) (fixed : list (nat * Q)) (p : row) : bool :=
  OP.in_dom_b tol (oh_lb d) (oh_ub d) fixed (oh_cons d) p.
Definition tol_cons : Q := 1 # 1000000000.

Inductive ccase :=
(* CategoricalDomain(...).one_hot_domain: bounds, one-hot constraint list, unconstrained indices *)
| KDom (d : domain) (bounds : list (Q * Q)) (cs : list (row * Q)) (uncon : list nat)
(* one_hot_domain.generate_quasi_random_points_in_domain(n) *)
| KSample (d : domain) (c : row) (n : nat) (o : samp_orc) (out : option (list row))
(* vectorized_acquisition_optimization on DE / Adam optimisers built by the harness *)
| KVec (d : domain) (fixed : list (nat * Q)) (f : OC.afspec) (best_obs : row) (P : vpar) (pretest : list row) (l : vorc_l)
       (out : option row) (e : eobs)
(* constant_liar_acquisition_function_optimization *)
| KCl (d : domain) (fixed : list (nat * Q)) (f : OC.afspec) (lw : row) (best_obs : row) (P : vpar) (pretest : list row) (n : nat)
      (ls : list vorc_l) (out : option (list row)) (e : eobs)
(* qei_acquisition_function_optimization, one point *)
| KQei (d : domain) (f : OC.afspec) (Pde : OP.de_par) (maxiter : nat) (pool : list row)
       (ds : list (list (nat * nat * nat) * list (list Q))) (out : option (list row)) (e : eobs)
(* runs on constrained domains (the constrained restriction divides: not exact in doubles): the specification only *)
| KSpec (d : domain) (fixed : list (nat * Q)) (pts : list row)
(* CategoricalDomain.generate_quasi_random_points_in_domain(n) on a constrained domain: one-hot sampler + decode *)
| KQuasi (d : domain) (c : row) (n : Z) (so : samp_orc) (dec : dorc) (out : option (list point))
(* the two CONSTRAINED branches of one_hot_domain.generate_quasi_random_points_in_domain(n), seen at the call they make into
   aux/samplers.py (hit-and-run when force_hitandrun_sampling is set, rejection sampling with hit-and-run padding otherwise): the
   half-space rows, the start point and the box HANDED to the sampler, what the sampler returned (raw), the uniform values drawn for
   the unconstrained columns (forced branch) and what the entry point returns.  The samplers themselves are C08's models
   (Model/Samplers.v: rejection_with_padding / hitandrun on the half-spaces they are handed); the glue of oh_sample is that they are
   handed R.halfspaces (oh_dom d) - constraint rows AND both bound rows of every coordinate - and the stored centre, and that only the
   columns of uncon_idx are overwritten *)
| KSampleCall (d : domain) (c : row) (forced : bool) (handed : list R.halfspace) (x0 : row) (box : list (Q * Q))
              (raw : list row) (vals : list row) (out : list row)
(* SPENextPoints.draw_samples: the test points proposed in each while-iteration (near the used lower points, or the uniform
   sampler for a lower point outside the domain), cut to batch_size *)
| KSpeBatches (d : domain) (c : row) (bsz : nat) (lower : list row) (iters : list (list nearorc)) (tests : list (list row)).

Definition nat_list_eqb (a b : list nat) : bool := forall2b Nat.eqb a b.
Definition pts_eqb (a b : list point) : bool := forall2b peqb a b.

Definition ccheck (k : ccase) : bool :=
  match k with
  | KDom d bounds cs uncon =>
      bounds_eqb (R.bounds (oh_dom d)) bounds && cons_eqb (R.cstrs (oh_dom d)) cs && nat_list_eqb (uncon_idx d) uncon &&
      bounds_eqb (combine (oh_lb d) (oh_ub d)) bounds
  | KSample d c n o out =>
      opt_rows_eqb (oh_sample d c n o) out &&
      match out with Some rows => forallb (spec_pt 0 d []) rows && Nat.eqb (length rows) n | None => true end
  | KVec d fixed f best_obs P pretest l out e =>
      sres_rows row_eqb (vec_acq_opt d fixed [] (OC.af_eval f) best_obs P pretest (to_vorc l)) out e &&
      match out with Some p => spec_pt 0 d fixed p | None => true end
  | KCl d fixed f lw best_obs P pretest n ls out e =>
      sres_rows rows_eqb (cl_stage d fixed [] (afl_of f lw) (fun _ => best_obs) P pretest n (map to_vorc ls)) out e &&
      match out with Some ps => forallb (spec_pt 0 d fixed) ps && Nat.eqb (length ps) n | None => true end
  | KQei d f Pde maxiter pool ds out e =>
      sres_rows rows_eqb (qei_stage d [] [] (OC.af_eval f) Pde maxiter (OC.cyc pool) (fun _ => []) ds) out e &&
      match out with Some ps => forallb (spec_pt 0 d []) ps | None => true end
  | KSpec d fixed pts => forallb (spec_pt tol_cons d fixed) pts
  | KQuasi d c n so dec out =>
      match mk_qorc d c n so [] dec with
      | Some q => match quasi_points d n q, out with
                  | Some ps, Some o => pts_eqb ps o && forallb (admissibleb d) o
                  | None, None => true
                  | _, _ => false
                  end
      | None => match out with None => true | Some _ => false end
      end
  | KSampleCall d c forced handed x0 box raw vals out =>
      let D := oh_dom d in
      forall2b (fun a b => row_eqb (fst a) (fst b) && Qeq_bool (snd a) (snd b)) (R.halfspaces D) handed && row_eqb c x0 &&
      (if forced
       then bounds_eqb (map (fun j => nth j (one_hot_box d) (0, 0)) (uncon_idx d)) box &&
            rows_eqb (R.map2 (fun p v => R.fix_point (combine (uncon_idx d) v) p) raw vals) out
       else bounds_eqb (one_hot_box d) box && rows_eqb raw out) &&
      forallb (spec_pt tol_cons d []) out
  | KSpeBatches d c bsz lower iters tests =>
      match spe_batches_n d c bsz lower (map (fun os => (os, repeat 0 bsz, repeat 0 bsz)) iters) with
      | Some bs => forall2b rows_eqb (map (map (fun t : row * Q * Q => fst (fst t))) bs) tests &&
                   forallb (forallb (spec_pt 0 d [])) tests
      | None => false
      end
  end.
