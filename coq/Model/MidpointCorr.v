(* Correspondence cases for C12: the implementation's outputs are compared with Model.Midpoint and with the decidable
   specifications, inside Coq.  Flags, signs, midpoints (exact on the dyadic inputs used), lie min/max and every ordering
   are compared exactly; quantities that went through a division by a non-dyadic number or through the constants
   0.1 / 1e-10 / 1e-6 are compared to 1e-12 relative. *)
From Coq Require Import List QArith Qabs Bool Arith.
From LV Require Import Model.Midpoint.
Import ListNotations.
Open Scope Q_scope.

Definition TOL : Q := 1 # 1000000000000.
(* |a - b| <= 1e-12 * (|b| + extra); b is the model's (exact) value *)
Definition close_x (extra a b : Q) : bool := Qle_bool (Qabs (a - b)) (TOL * (Qabs b + extra)).
Definition close : Q -> Q -> bool := close_x 0.
Definition oclose (a b : option Q) : bool :=
  match a, b with None, None => true | Some x, Some y => close x y | _, _ => false end.

Fixpoint all2b {A B} (f : A -> B -> bool) (a : list A) (b : list B) : bool :=
  match a, b with [], [] => true | x :: a', y :: b' => f x y && all2b f a' b' | _, _ => false end.

Definition branch_eqb (a b : branch) : bool :=
  match a, b with BSkip, BSkip | BRegular, BRegular | BDegenBig, BDegenBig | BDegenSmall, BDegenSmall => true | _, _ => false end.

(* the scaled non-failed values lie in [-0.1, 0.1] and reach both ends (to 1e-12) *)
Definition span_spec_b (scaled_nonfail : list Q) : bool :=
  forallb (fun y => Qle_bool (-(1 # 10) - TOL) y && Qle_bool y ((1 # 10) + TOL)) scaled_nonfail &&
  existsb (fun y => close y (-(1 # 10))) scaled_nonfail && existsb (fun y => close y (1 # 10)) scaled_nonfail.

Definition var_floor_b (l : list Q) : bool := forallb (fun y => Qle_bool (MIN_VALUE_VAR * (1 - TOL)) y) l.

(* per-metric laws on the implementation's own outputs *)
Definition laws_b (i : info) (o : objective) (vals : list Q) (fails : list bool) (rel relvar : list Q) (lmin : Q) : bool :=
  order_spec_b o vals rel && var_floor_b relvar &&
  (match i_nonfail i with [] => close lmin DEFAULT_LIE | nf => lie_spec_b o nf lmin end) &&
  (match i_branch i with BRegular => span_spec_b (select (map negb fails) rel) | _ => true end).

Definition lie_ok (i : info) (m : lie_method) (exact : bool) (x : Q) : bool :=
  match lie_value i m with
  | Some q => if exact && negb (match i_nonfail i with [] => true | _ => false end) then Qeq_bool x q else close x q
  | None => false
  end.

Definition transpose (m : nat) (rows : list (list Q)) : list (list Q) := map (fun k => column k rows) (seq 0 m).
Definition width_ok (m : nat) (rows : list (list Q)) : bool := forallb (fun r => Nat.eqb (length r) m) rows.

Inductive case :=
| CSingle (expect : branch) (vals : list Q) (fails : list bool) (o : objective) (vars ys : list Q)
    (skip : bool) (neg : Q) (mid scale : option Q)
    (rel undo_rel relvar undo_ys undovar : list Q) (lmin lmax lmean : Q)
| CMulti (m : nat) (vals : list (list Q)) (fails : list bool) (objs : option (list objective)) (vars : list (list Q))
    (skip : bool) (neg mid scale : list Q)
    (rel undo_rel relvar undovar : list (list Q)) (lmin lmax lmean : list Q)
| CView (ix : list nat) (vals vars : list (list Q)) (fails : list bool) (objs : list objective) (thr : list (option Q))
    (o_values : list (list Q)) (o_lie : list Q) (o_vars : list (list Q)) (o_thr : list (option Q)).

Definition check_single (i : info) (vals : list Q) (fails : list bool) (o : objective) (vars ys : list Q)
    (rel undo_rel relvar undo_ys undovar : list Q) (lmin lmax lmean : Q) : bool :=
  let ex := Qabs (i_mid i) in
  all2b (fun v y => close y (rel_value i v)) vals rel &&
  all2b (fun v u => close_x ex u v) vals undo_rel &&
  all2b (fun w y => close y (rel_var i w)) vars relvar &&
  all2b (fun y u => match undo_value i y with Some q => close_x ex u q | None => false end) ys undo_ys &&
  all2b (fun w u => match undo_var i w with Some q => close u q | None => false end) vars undovar &&
  lie_ok i LieMin true lmin && lie_ok i LieMax true lmax && lie_ok i LieMean false lmean &&
  laws_b i o vals fails rel relvar lmin.

Definition check (c : case) : bool :=
  match c with
  | CSingle expect vals fails o vars ys skip neg mid scale rel undo_rel relvar undo_ys undovar lmin lmax lmean =>
      match smmi vals fails o with
      | None => false
      | Some i =>
          branch_eqb expect (i_branch i) && Bool.eqb skip (i_skip i) && Qeq_bool neg (i_negate i) &&
          (match i_skip i, mid, scale with
           | true, None, None => true
           | false, Some md, Some s => Qeq_bool md (i_mid i) && close s (i_scale i)
           | _, _, _ => false
           end) &&
          check_single i vals fails o vars ys rel undo_rel relvar undo_ys undovar lmin lmax lmean
      end
  | CMulti m vals fails objs vars skip neg mid scale rel undo_rel relvar undovar lmin lmax lmean =>
      match mmi m vals fails objs with
      | None => false
      | Some infos =>
          width_ok m vals && width_ok m vars && width_ok m rel && width_ok m undo_rel && width_ok m relvar && width_ok m undovar &&
          Bool.eqb skip (m_skip infos) && all2b (fun i x => Qeq_bool x (i_negate i)) infos neg &&
          (if m_skip infos then (match mid, scale with [], [] => true | _, _ => false end)
           else all2b (fun i x => Qeq_bool x (i_mid i)) infos mid && all2b (fun i x => close x (i_scale i)) infos scale) &&
          (* every metric k, on its column *)
          forallb (fun k =>
            let i := nth k infos (mkinfo true BSkip 1 0 1 []) in
            Bool.eqb (i_skip i) (m_skip infos) &&
            check_single i (column k vals) fails (obj_at objs k) (column k vars) []
              (column k rel) (column k undo_rel) (column k relvar) []
              (column k undovar) (nth k lmin 0) (nth k lmax 0) (nth k lmean 0))
            (seq 0 m) &&
          (* the array methods are the per-metric maps, row by row *)
          all2b (fun r y => all2b close y (rel_row infos r)) vals rel &&
          Nat.eqb (length lmin) m && Nat.eqb (length lmax) m && Nat.eqb (length lmean) m
      end
  | CView ix vals vars fails objs thr o_values o_lie o_vars o_thr =>
      match preprocess ix vals vars fails objs thr with
      | None => false
      | Some out =>
          let m := length ix in
          all2b (fun a b => all2b close a b) o_values (v_values out) &&
          all2b close o_lie (v_lie out) &&
          all2b (fun a b => all2b close a b) o_vars (v_vars out) &&
          all2b oclose o_thr (v_thresholds out) &&
          (* laws on the implementation's outputs: failed rows hold the lie; every entry <= the lie; per metric the order
             law on the non-failed rows; thresholds compare like the raw values *)
          all2b (fun (f : bool) r => if f then all2b Qeq_bool r o_lie else all2b Qle_bool r o_lie) fails o_values &&
          forallb var_floor_b o_vars &&
          forallb (fun j =>
            let c := nth j ix O in
            let o := nth c objs NoObjective in
            let raw := select (map negb fails) (column c vals) in
            let sc := select (map negb fails) (column j o_values) in
            order_spec_b o raw sc &&
            match nth c thr None, nth j o_thr None with
            | None, None => true
            | Some t, Some st => all2b (fun v y => Bool.eqb (better_b o v t) (Qltb y st)) raw sc
            | _, _ => false
            end) (seq 0 m)
      end
  end.
