(* Correspondence cases for C18: the implementation's outputs are compared with Model.KCenter and are also fed to the
   decidable specifications, inside Coq. *)
From Coq Require Import List QArith Bool Arith.
From LV Require Import Model.KCenter.
Import ListNotations.
Open Scope Q_scope.

Inductive case :=
(* k_center_clustering(points, first, k); out = None when the implementation raised AssertionError *)
| CKC (pts : list (list Q)) (first k : nat) (out : option (list nat * list nat))
(* MultisolutionBestAssignments(params).view()["best_indices"]; tgt = numpy.sqrt(one_hot_dim) as the harness saw it *)
| CView (cs : list comp) (tgt : Q) (points : list (list Q)) (vals : list Q) (fails : list bool)
        (maximize : bool) (k : nat) (out : option (list nat)).

Fixpoint nlist_eqb (a b : list nat) : bool :=
  match a, b with [], [] => true | x :: a', y :: b' => Nat.eqb x y && nlist_eqb a' b' | _, _ => false end.

Definition Z_of_nat_Q (n : nat) : Q := inject_Z (Z.of_nat n).

Definition check (c : case) : bool :=
  match c with
  | CKC pts first k out =>
      match k_center pts first k, out with
      | None, None => true
      | Some (mc, mp), Some (c, p) =>
          nlist_eqb mc c && nlist_eqb mp p && centres_spec_b pts first k c && partition_spec_b pts c p
      | _, _ => false
      end
  | CView cs tgt points vals fails maximize k out =>
      (* the harness only uses domains whose relaxed dimension is a perfect square when categoricals are present *)
      (negb (has_categoricals cs) || Qeq_bool (tgt * tgt) (Z_of_nat_Q (one_hot_dim cs))) &&
      match view cs tgt points vals fails maximize k, out with
      | None, None => true
      | Some m, Some o =>
          nlist_eqb m o &&
          (* the values the view compares: scaled values, +inf for the failed observations *)
          let mv := masked_values (scaled_values maximize vals fails) fails in
          endpoint_spec_b mv (length points) k o &&
          match all_some (map (to_one_hot cs) points) with
          | None => false
          | Some ohs =>
              match k_center (map (search_point cs tgt) ohs) (vargmin mv) k with
              | None => false
              | Some (_, part) =>
                  best_spec_b mv part k o &&
                  (* with at least one success: the strict reading, stated on the RAW values, on the implementation's output *)
                  (negb (existsb negb fails) || strict_spec_b maximize vals fails part k o)
              end
          end
      | _, _ => false
      end
  end.
