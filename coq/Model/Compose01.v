(* Glue model for the composition C01 x C07 x C08: the STAGE in front of the endpoint tails of Model/EndpointTail.v,
   written over the existing models only (nothing is re-modelled):

     Model/Restrict.v  (C08)  restrict_points / fixed_restrict / near_point of the relaxed one-hot search domain
     Model/Samplers.v  (C08)  the one-hot sampler ContinuousDomain.generate_quasi_random_points_in_domain
     Model/Optim.v     (C07)  de_optimize / adam_optimize

   Code covered here (the glue itself):
     compute/domain.py                 CategoricalDomain.__init__: form_one_hot_domain + _form_one_hot_constraint_list +
                                       one_hot_domain.set_constraint_list  (oh_dom);  ContinuousDomain.
                                       generate_quasi_random_points_in_domain, the four branches  (oh_sample);
                                       FixedIndicesOnContinuousDomain (restrict / near point wrappers)
     compute/acquisition_function_optimization.py
                                       vectorized_acquisition_optimization (vec_acq_opt),
                                       constant_liar_acquisition_function_optimization (cl_loop),
                                       qei_acquisition_function_optimization (qei_stage)
     views/rest/gp_next_points_categorical.py
                                       form_af_optimization_domain (the a-priori task as a fixed last coordinate),
                                       view(): optimiser stage -> convert_one_hot_points_to_distinct_categorical_points
     views/rest/random_search_next_points.py, spe_next_points.py (create_random_suggestions, draw_samples' proposals:
                                       generate_random_points_near_point around the lower points, uniform padding)
   No proofs here.  The acquisition function is an arbitrary PARTIAL function (None = NaN, as in Model/Optim.v) of the lies appended
   so far; a batch without any defined value makes numpy.nanargmax raise ValueError: an error value of the stage, like the
   assertion branches.  Every random draw is an oracle argument. *)
From Coq Require Import List QArith ZArith Bool Arith Qround Qabs.
From LV Require Import Model.Domain Model.Decode Model.EndpointTail.
From LV Require Model.Restrict Model.Samplers Model.Optim Model.Distinct.
Import ListNotations.
Open Scope Q_scope.

Module R := LV.Model.Restrict.
Module SA := LV.Model.Samplers.
Module OP := LV.Model.Optim.

(* ------------------------------------------------------------------ 1. the relaxed search domain in C08's / C07's types *)
(* _form_one_hot_constraint_list: EVERY constraint (double- and int-typed) goes to the one-hot ContinuousDomain, with its
   weights spread over the relaxed coordinates *)
Definition oh_cons (d : domain) : list (row * Q) := map (fun k => (oh_weights (comps d) (weights k), rhs k)) (cons d).
Definition oh_dom (d : domain) : R.domain := R.Dom (one_hot_box d) (oh_cons d).
Definition oh_dim (d : domain) : nat := length (one_hot_box d).
(* C07's representation (Model/Optim.v in_dom_b): lower / upper bound lists, fixed coordinates, constraint list *)
Definition oh_lb (d : domain) : row := map fst (one_hot_box d).
Definition oh_ub (d : domain) : row := map snd (one_hot_box d).
(* form_af_optimization_domain: fixed_indices = {dim_with_task - 1: task_chosen_a_priori} on the domain with the task column *)
Definition task_fixed (d : domain) (t : Q) : list (nat * Q) := [(oh_dim d, t)].
(* the property's precondition on constraints (C08's quantifier, DESIGN 11.5): two or more non-zero weights *)
Definition cons_two (d : domain) : Prop :=
  forall k, In k (cons d) -> (2 <= R.nnz (oh_weights (comps d) (weights k)))%nat.
Definition cons_twob (d : domain) : bool :=
  forallb (fun k => Nat.leb 2 (R.nnz (oh_weights (comps d) (weights k)))) (cons d).

(* ------------------------------------------------------------------ 2. restriction / perturbation on the search domain *)
(* (FixedIndicesOn)ContinuousDomain.restrict_points_to_domain(points): k-th call, its uniforms us k *)
Definition oh_restrict (d : domain) (fixed : list (nat * Q)) (c : row) (us : nat -> list Q) (k : nat) (b : list row) : list row :=
  R.fixed_restrict (oh_dom d) fixed c None false (us k) b.
(* (FixedIndicesOn)ContinuousDomain.generate_random_points_near_point(num, point, std): normal rows zs, uniforms us;
   fallback = what generate_quasi_random_points_in_domain(num) returned when the point is not acceptable *)
Definition oh_near (d : domain) (fixed : list (nat * Q)) (c : row) (pt : row) (zs : list row) (us : list Q)
  (fallback : list row) : list row :=
  match R.near_point (oh_dom d) c pt false zs us with
  | Some (out, _) => map (R.fix_point fixed) out
  | None => map (R.fix_point fixed) fallback
  end.

(* ------------------------------------------------------------------ 3. the one-hot sampler
   ContinuousDomain.generate_quasi_random_points_in_domain(n) on the one-hot domain; which branch runs is decided by the
   domain (constrained or not), its sampler option and its force_hitandrun_sampling flag: the oracle's constructor *)
Inductive samp_orc :=
| SLhs (U : list row) (perms : list (list nat))          (* unconstrained, latin_hypercube (the default) *)
| SUnit (rows : list row)                                (* unconstrained, uniform / sobol / halton: the unit rows *)
| SRej (blocks : list (list row)) (draws : list (row * Q * nat))   (* constrained: rejection (unit rows per block), hit-and-run padding *)
| SHit (draws : list (row * Q * nat)) (urows : list row). (* constrained, force_hitandrun_sampling; unit rows for the unconstrained columns *)
Definition REJECTION_SAMPLING_BLOCK_SIZE : Z := 10000.
Definition DEFAULT_REJECTION_SAMPLING_TRIALS : Z := 1000000.
(* one_hot_unconstrained_indices: the columns no constraint mentions (count_nonzero(halfspaces[:, i]) == 2: exactly the two
   bound rows, which always carry -1 / +1) *)
Definition uncon_idx (d : domain) : list nat :=
  filter (fun j => forallb (fun c => Qeq_bool (nth j (fst c) 0) 0) (oh_cons d)) (seq 0 (oh_dim d)).
(* points[:, idx] = generate_uniform_random_points(n, bounds[idx]), one row: u has one unit value per index of idx *)
Definition overwrite_uncon (d : domain) (p u : row) : row :=
  let idx := uncon_idx d in
  R.fix_point (combine idx (SA.cube_transform (map (fun j => nth j (one_hot_box d) (0, 0)) idx) u)) p.
Definition oh_sample (d : domain) (c : row) (n : nat) (o : samp_orc) : option (list row) :=
  let D := oh_dom d in
  let bs := one_hot_box d in
  if R.is_constrained D then
    match o with
    | SRej blocks draws =>
        option_map fst (SA.rejection_with_padding (R.halfspaces D) (length bs) n REJECTION_SAMPLING_BLOCK_SIZE
                          DEFAULT_REJECTION_SAMPLING_TRIALS (map (SA.cube_sampler bs) blocks) c draws)
    | SHit draws urows =>
        option_map (fun pts => R.map2 (overwrite_uncon d) pts urows) (SA.hitandrun (R.halfspaces D) (length bs) n c draws)
    | _ => None
    end
  else
    match o with
    | SLhs U perms => Some (SA.lhs_points bs n U perms)
    | SUnit rows => if Nat.eqb (length rows) n then Some (SA.cube_sampler bs rows) else None
    | _ => None
    end.

(* ------------------------------------------------------------------ 4. the optimiser stage of the GP endpoint *)
Inductive serr := SOpt (e : OP.err) | SAssert | SValue | SScript.
Inductive sres (A : Type) := SOk (a : A) | SErr (e : serr).
Arguments SOk {A} a.
Arguments SErr {A} e.
Definition lift {A} (r : OP.result A) : sres A := match r with OP.Ok a => SOk a | OP.Err e => SErr (SOpt e) end.
Definition sbind {A B} (r : sres A) (f : A -> sres B) : sres B := match r with SOk a => f a | SErr e => SErr e end.

(* numpy.argmax over acquisition values that may be NaN (None): NaN propagates through numpy's maximum, so the index of the FIRST
   NaN is returned when there is one; otherwise the first maximum.  (The optimisers themselves use numpy.nanargmax: C07's monitor.) *)
Fixpoint first_none {A} (l : list (option A)) (i : nat) : option nat :=
  match l with [] => None | None :: _ => Some i | Some _ :: r => first_none r (S i) end.
Definition argmax_nan (l : list (option Q)) : nat :=
  match first_none l 0 with
  | Some i => i
  | None => argmax (map (fun o => match o with Some v => v | None => 0 end) l)
  end.

(* the random draws of ONE call of vectorized_acquisition_optimization *)
Record vorc := {
  v_gen_es : nat -> list row;       (* domain.generate_quasi_random_points_in_domain(k), asked by the DE optimiser *)
  v_gen_gd : nat -> list row;       (* ... asked by the Adam optimiser (only when fewer starts than multistarts) *)
  v_us_es : nat -> list Q;          (* uniforms of the k-th restriction made by the DE optimiser *)
  v_us_gd : nat -> list Q;          (* uniforms of the k-th restriction made by the Adam optimiser *)
  v_ds : list (list (nat * nat * nat) * list (list Q));   (* per DE generation: randint selections, crossover uniforms *)
  v_zs : list row;                  (* numpy.random.normal rows of generate_random_points_near_point *)
  v_us_near : list Q;               (* uniforms of its restriction *)
  v_fallback : list row;            (* its quasi-random fall-back (best ES point not acceptable) *)
  v_choice : list nat;              (* numpy.random.choice(num_multistarts, num_random_samples, replace=False) *)
  v_ups : list (list row)           (* Adam's per-iteration update vectors (C07: the formula is GenAdam) *)
}.
Record vpar := {
  p_de : OP.de_par;                 (* num_multistarts, dim, strategy, mutation, crossover of the ES optimiser *)
  p_es_maxiter : nat;
  p_gd_n : nat;                     (* num_multistarts of the gradient optimiser *)
  p_gd_maxiter : nat
}.

(* vectorized_acquisition_optimization(es_af_optimizer, gd_af_optimizer, pretest_locations) *)
Definition vec_acq_opt (d : domain) (fixed : list (nat * Q)) (c : row) (af : row -> option Q) (best_obs : row) (P : vpar)
  (pretest : list row) (o : vorc) : sres row :=
  match pretest with
  | [] => SErr SValue                                   (* numpy.argmax of an empty sequence *)
  | _ :: _ =>
      let best_af_location := nth (argmax_nan (map af pretest)) pretest [] in
      sbind (lift (OP.de_optimize af (oh_restrict d fixed c (v_us_es o)) (v_gen_es o) (p_de P) (p_es_maxiter P)
                     (Some [best_af_location; best_obs]) (v_ds o))) (fun o_es =>
      match OP.best_location o_es with
      | None => SErr (SOpt OP.NoBest)
      | Some best_es =>
          let near := oh_near d fixed c best_es (v_zs o) (v_us_near o) (v_fallback o) in
          let random_es := map (fun i => nth i (OP.o_end o_es) []) (v_choice o) in
          let gd_starts := near ++ random_es in
          if Nat.leb (length gd_starts) (p_gd_n P) then
            sbind (lift (OP.adam_optimize af (oh_restrict d fixed c (v_us_gd o)) (v_gen_gd o) (p_gd_n P) (p_gd_maxiter P)
                           (Some gd_starts) (v_ups o))) (fun o_gd =>
            match OP.best_location o_gd with Some p => SOk p | None => SErr (SOpt OP.NoBest) end)
          else SErr SAssert                             (* assert len(gd_starting_points) <= gd_af_optimizer.num_multistarts *)
      end)
  end.

(* constant_liar_acquisition_function_optimization: afl lies = the acquisition function after append_lie_locations of the
   points found so far (a deep copy: the caller's function, afl [], is untouched); best lies = its best_location *)
Fixpoint cl_loop (d : domain) (fixed : list (nat * Q)) (c : row) (afl : list row -> row -> option Q) (best : list row -> row)
  (P : vpar) (pretest : list row) (lies : list row) (os : list vorc) : sres (list row) :=
  match os with
  | [] => SOk []
  | o :: os' =>
      sbind (vec_acq_opt d fixed c (afl lies) (best lies) P pretest o) (fun p =>
      if Nat.eqb (length p) (oh_dim d) then                  (* assert next_point.shape == (af.dim,) *)
        sbind (cl_loop d fixed c afl best P pretest (lies ++ [p]) os') (fun rest => SOk (p :: rest))
      else SErr SAssert)
  end.
(* the loop runs num_to_sample times: one oracle record per iteration *)
Definition cl_stage (d : domain) (fixed : list (nat * Q)) (c : row) (afl : list row -> row -> option Q) (best : list row -> row)
  (P : vpar) (pretest : list row) (n : nat) (os : list vorc) : sres (list row) :=
  if Nat.eqb (length os) n then cl_loop d fixed c afl best P pretest [] os else SErr SScript.

(* qei_acquisition_function_optimization with one point to sample (views/view.py asserts "capping number of qEI
   suggestions to 1"): DE from quasi-random starts only, its best location reshaped to (1, dim_with_task) *)
Definition qei_stage (d : domain) (fixed : list (nat * Q)) (c : row) (af : row -> option Q) (Pde : OP.de_par) (maxiter : nat)
  (gen : nat -> list row) (us : nat -> list Q) (ds : list (list (nat * nat * nat) * list (list Q))) : sres (list row) :=
  sbind (lift (OP.de_optimize af (oh_restrict d fixed c us) gen Pde maxiter None ds)) (fun o =>
  match OP.best_location o with
  | Some p => if Nat.eqb (length p) (oh_dim d) then SOk [p] else SErr SValue      (* numpy.reshape *)
  | None => SErr (SOpt OP.NoBest)
  end).

(* views/rest/search_next_points.py search_strategy_optimization: per suggestion, DE (100 multistarts, 200 iterations) from
   the best pretest location on the one-hot domain; afl lies = the probability-of-improvement search function after the
   points found so far were added as repulsors and the distance parameter was re-drawn *)
Record sorc := { so_gen : nat -> list row; so_us : nat -> list Q; so_ds : list (list (nat * nat * nat) * list (list Q)) }.
Fixpoint search_loop (d : domain) (c : row) (afl : list row -> row -> option Q) (Pde : OP.de_par) (maxiter : nat) (pretest : list row)
  (lies : list row) (os : list sorc) : sres (list row) :=
  match os with
  | [] => SOk []
  | o :: os' =>
      match pretest with
      | [] => SErr SValue
      | _ :: _ =>
          let best_af_location := nth (argmax_nan (map (afl lies) pretest)) pretest [] in
          sbind (lift (OP.de_optimize (afl lies) (oh_restrict d [] c (so_us o)) (so_gen o) Pde maxiter
                         (Some [best_af_location]) (so_ds o))) (fun o_de =>
          match OP.best_location o_de with
          | None => SErr (SOpt OP.NoBest)
          | Some p =>
              if Nat.eqb (length p) (oh_dim d) then          (* assert next_point.shape == (acquisition_function.dim,) *)
                sbind (search_loop d c afl Pde maxiter pretest (lies ++ [p]) os') (fun rest => SOk (p :: rest))
              else SErr SAssert
          end)
      end
  end.

(* ------------------------------------------------------------------ 5. the sampler plugged into the tails' oracles *)
(* CategoricalDomain.generate_quasi_random_points_in_domain(n): the constrained branch asks the one-hot sampler for n rows *)
Definition mk_qorc (d : domain) (c : row) (n : Z) (so : samp_orc) (cols : list (list Q)) (dec : dorc) : option qorc :=
  if is_constrained d
  then option_map (fun rows => {| q_cols := cols; q_rows := rows; q_dec := dec |}) (oh_sample d c (Z.to_nat n) so)
  else Some {| q_cols := cols; q_rows := []; q_dec := dec |}.

(* RandomSearchNextPoints.view / create_random_suggestions / initilization_sequence, end to end *)
Definition random_endpoint (d : domain) (opts : list Q) (ps : list DS.prior) (n : Z) (pcols : list (list Q)) (c : row)
  (so : samp_orc) (cols : list (list Q)) (dec : dorc) (draws : list Q) : option response :=
  obind (mk_qorc d c n so cols dec) (fun q => random_tail d opts ps n pcols q draws).

(* the number of fresh points replace_duplicate_points asks generate_distinct_random_points for *)
Definition fill_k (D : domain) (pts hist : list point) : Z :=
  match kept_of D pts hist uniq_tol with Some u2 => (DS.zlen pts - DS.zlen u2)%Z | None => 0%Z end.

(* ------------------------------------------------------------------ 6. the GP endpoint, end to end *)
Record gp_fill := { f_so : samp_orc; f_cols : list (list Q); f_dec : dorc; f_choice : list Z }.
Inductive gp_mode :=
| GCl (P : vpar) (pretest : list row) (os : list vorc)        (* constant liar (also: qEI without pending points) *)
| GQei (Pde : OP.de_par) (maxiter : nat) (gen : nat -> list row) (us : nat -> list Q)
       (ds : list (list (nat * nat * nat) * list (list Q)))   (* parallel EI with pending points, one suggestion *)
| GSearch (Pde : OP.de_par) (maxiter : nat) (pretest : list row) (os : list sorc).   (* the search endpoint's own optimisation *)
Definition gp_stage (D : domain) (fixed : list (nat * Q)) (c : row) (afl : list row -> row -> option Q) (best : list row -> row)
  (n : nat) (m : gp_mode) : sres (list row) :=
  match m with
  | GCl P pretest os => cl_stage D fixed c afl best P pretest n os
  | GQei Pde maxiter gen us ds => if Nat.eqb n 1 then qei_stage D fixed c (afl []) Pde maxiter gen us ds else SErr SAssert
  | GSearch Pde maxiter pretest os =>
      match fixed with
      | [] => if Nat.eqb (length os) n then search_loop D c afl Pde maxiter pretest [] os else SErr SScript
      | _ :: _ => SErr SScript                              (* the search endpoint has no task column *)
      end
  end.
Definition is_qei (m : gp_mode) : bool := match m with GQei _ _ _ _ _ => true | _ => false end.

(* GpNextPointsCategorical.view without task options.  afl is the (partial) acquisition function the optimisers see; aft is the
   same function as the discrete neighbour search of convert_from_one_hot sees it: Model/EndpointTail.v models that search (Python's
   max over the neighbours' values) for a total function only, so it is a separate, arbitrary argument *)
Definition gp_endpoint (d : domain) (c : row) (afl : list row -> row -> option Q) (aft : row -> Q) (best : list row -> row) (n : nat) (m : gp_mode)
  (hist : list point) (dec : dorc) (f : gp_fill) : option response :=
  match gp_stage d [] c afl best n m with
  | SErr _ => None
  | SOk xs =>
      obind (convert_from_one_hot d (is_qei m) aft dec xs) (fun pts =>
      obind (mk_qorc d c (fill_k d pts hist) (f_so f) (f_cols f) (f_dec f)) (fun q =>
      gp_view d [] (is_qei m) aft xs hist []
        {| g_dec := dec; g_hdec := dec; g_choice := f_choice f; g_q := q |}))
  end.
(* ... with task options: the search domain carries the task column, fixed at the task drawn a priori; ct is the interior
   point of that domain *)
Definition gp_endpoint_mt (d : domain) (opts : list Q) (t : Q) (ct : row) (afl : list row -> row -> option Q) (aft : row -> Q) (best : list row -> row)
  (n : nat) (P : vpar) (pretest : list row) (os : list vorc)
  (hist_oh : list row) (dec hdec : dorc) (f : gp_fill) : option response :=
  let dt := with_task d opts in
  match cl_stage dt (task_fixed d t) ct afl best P pretest n os with
  | SErr _ => None
  | SOk xs =>
      obind (convert_from_one_hot dt false aft dec xs) (fun pts =>
      obind (decode_b dt hdec hist_oh) (fun aug =>
      obind (mk_qorc dt ct (fill_k dt pts aug) (f_so f) (f_cols f) (f_dec f)) (fun q =>
      gp_view d opts false aft xs [] hist_oh
        {| g_dec := dec; g_hdec := hdec; g_choice := f_choice f; g_q := q |})))
  end.

(* SearchNextPoints.view: the expected-improvement phases are the GP endpoint; in the explore / resolve phase, with
   probability 0.8, the probability-of-improvement search is optimised instead, converted with the neighbour search,
   de-duplicated against the history (the same funnel, no task costs: gp_endpoint in mode GSearch) *)
Definition search_endpoint (d : domain) (c : row) (ph : sphase) (u : Q) (afl : list row -> row -> option Q) (aft : row -> Q) (best : list row -> row)
  (n : nat) (m : gp_mode) (afl_pi : list row -> row -> option Q) (aft_pi : row -> Q) (Pde : OP.de_par) (maxiter : nat) (pretest : list row) (sos : list sorc)
  (hist : list point) (dec : dorc) (f : gp_fill) : option response :=
  match ph with
  | SResolve =>
      if Qltb u RESOLVE_PHASE_PROB then gp_endpoint d c afl_pi aft_pi best n (GSearch Pde maxiter pretest sos) hist dec f
      else gp_endpoint d c afl aft best n m hist dec f
  | _ => gp_endpoint d c afl aft best n m hist dec f
  end.

(* ------------------------------------------------------------------ 7. the Parzen-estimator endpoint *)
(* suggest_next_points_constant_liar: whatever SLSQP / L-BFGS-B multistart returned (an arbitrary list of rows) is
   re-restricted with one_hot_domain.restrict_points_to_domain; draw_samples uses the first row only to scale the
   expected improvement *)
Definition spe_max_location (d : domain) (c : row) (scipy_out : list row) (us : list Q) : list row :=
  fst (R.restrict_points (oh_dom d) c None false us scipy_out).
(* one proposal batch of draw_samples: per used lower point, generate_random_points_near_point(batch_size // k + 1, point,
   0.06) on the uniform copy of the one-hot domain (near point, or the uniform sampler when the lower point is not
   acceptable), concatenated and cut to batch_size *)
Record nearorc := { n_zs : list row; n_us : list Q; n_so : samp_orc }.
Definition near_or_sample (d : domain) (c : row) (m : nat) (pt : row) (o : nearorc) : option (list row) :=
  match R.near_point (oh_dom d) c pt false (n_zs o) (n_us o) with
  | Some (out, _) => Some out
  | None => oh_sample d c m (n_so o)
  end.
Fixpoint proposals (d : domain) (c : row) (m : nat) (lower : list row) (os : list nearorc) : option (list row) :=
  match lower, os with
  | [], _ => Some []
  | pt :: lower', o :: os' =>
      match near_or_sample d c m pt o, proposals d c m lower' os' with
      | Some a, Some b => Some (a ++ b)
      | _, _ => None
      end
  | _ :: _, [] => None
  end.
Definition spe_batch (d : domain) (c : row) (bsz : nat) (lower : list row) (os : list nearorc) (eis us : list Q)
  : option (list (row * Q * Q)) :=
  let k := length lower in
  match proposals d c (bsz / k + 1) lower os with
  | Some pts => Some (combine (combine (firstn bsz pts) eis) us)
  | None => None
  end.
(* per while-iteration: the near-point oracles, the scaled EI values of the test points, the uniforms test_probs *)
Record speglue := { sg_lower : list row; sg_iters : list (list nearorc * list Q * list Q); sg_pad : samp_orc;
                    sg_ix : list nat; sg_dec : dorc; sg_pcols : list (list Q); sg_rso : samp_orc; sg_rcols : list (list Q);
                    sg_rdec : dorc; sg_draws : list Q }.
Definition spe_batches_n (d : domain) (c : row) (bsz : nat) (lower : list row) (iters : list (list nearorc * list Q * list Q))
  : option (list (list (row * Q * Q))) :=
  all_some (map (fun it => spe_batch d c bsz lower (fst (fst it)) (snd (fst it)) (snd it)) iters).
Definition spe_batches (d : domain) (c : row) (g : speglue) : option (list (list (row * Q * Q))) :=
  spe_batches_n d c (Z.to_nat SPE_BATCH_SIZE) (sg_lower g) (sg_iters g).
Definition spe_endpoint (d : domain) (opts : list Q) (ps : list DS.prior) (path : spe_path) (n : Z) (c : row) (g : speglue)
  : option response :=
  match path with
  | SPERandom => random_endpoint d opts ps n (sg_pcols g) c (sg_rso g) (sg_rcols g) (sg_rdec g) (sg_draws g)
  | SPEDraw =>
      obind (spe_batches d c g) (fun batches =>
      let s := fst (spe_loop (Z.to_nat n) SPE_BATCH_SIZE SPE_REJECTION_SAMPLES_LIMIT batches [] 0%Z) in
      obind (if Nat.ltb (length s) (Z.to_nat n) then oh_sample d c (Z.to_nat n - length s) (sg_pad g) else Some []) (fun pad =>
      spe_tail d opts ps SPEDraw n
        {| s_batches := batches; s_pad := pad; s_ix := sg_ix g; s_dec := sg_dec g; s_pcols := sg_pcols g;
           s_q := {| q_cols := []; q_rows := []; q_dec := sg_dec g |}; s_draws := sg_draws g |}))
  end.

(* SPESearchNextPoints.view: initialisation = random suggestions, exploitation = the Parzen endpoint, explore / resolve =
   draw_samples + decode; no task costs *)
Definition spe_search_endpoint (d : domain) (ps : list DS.prior) (ph : sphase) (path : spe_path) (n : Z) (c : row) (g : speglue)
  : option response :=
  spe_endpoint d [] ps (match ph with SInit => SPERandom | SExploit => path | SResolve => SPEDraw end) n c g.
