(* Executable model of a LIVE ContinuousDomain object over a history of operations (C08).  No proofs here.
   libsigopt/compute/domain.py: ContinuousDomain.__init__, set_constraint_list (what it stores: _constraint_list, _halfspaces,
   _one_hot_unconstrained_indices by _infer_unconstrained_indices_from_halfspace, _cheby_center; the feasibility assertion comes
   AFTER the stores), the attribute force_hitandrun_sampling, and the entry points that READ the stored fields:
   check_point_acceptable, restrict_points_to_domain, generate_random_points_near_point, one_hot_unconstrained_indices,
   FixedIndicesOnContinuousDomain._verify_fixed_indices, and the two constrained branches of
   generate_quasi_random_points_in_domain (which half-space system, start point and bounds they HAND to the samplers of
   aux/samplers.py, what they do with the result, what they write to the flag).
   Mutation is state passing.  The entry points are the functions of Model/Restrict.v written over the STORED fields (not
   recomputed from the constraint list); Proofs/DomainHist.v shows that after every history the two coincide.
   The LP result of find_interior_point (centre, feasible) and the result of a sampler call are oracle arguments of the operation
   (their contracts are C08's sampler / Chebyshev theorems). *)
From Coq Require Import List QArith Qabs Bool Arith.
From LV Require Import Model.Restrict Model.Samplers.
Import ListNotations.
Open Scope Q_scope.

Record dstate := mkD {
  s_bounds : list (Q * Q);          (* domain_bounds *)
  s_cons : list (point * Q);        (* _constraint_list: (weights, rhs) *)
  s_hs : list halfspace;            (* _halfspaces, [] for None *)
  s_uncon : list nat;               (* _one_hot_unconstrained_indices *)
  s_centre : point;                 (* _cheby_center, [] for None *)
  s_force : bool                    (* force_hitandrun_sampling *)
}.

Definition s_dim (s : dstate) : nat := length (s_bounds s).
(* ContinuousDomain(domain_bounds) *)
Definition dfresh (bs : list (Q * Q)) : dstate := mkD bs [] [] (seq 0 (length bs)) [] false.
(* is_constrained = bool(self._constraint_list) *)
Definition s_constrained (s : dstate) : bool := match s_cons s with [] => false | _ => true end.

(* _infer_unconstrained_indices_from_halfspace: [i for i in range(dim) if count_nonzero(halfspaces[:, i]) == 2] *)
Definition infer_uncon (dim : nat) (hs : list halfspace) : list nat :=
  filter (fun j => Nat.eqb (nnz (column j hs)) 2) (seq 0 dim).

(* the entry points over the stored fields *)
Definition acceptable_st (s : dstate) (x : point) : bool :=
  in_box_b (s_bounds s) x && (negb (s_constrained s) || sat_all_b (s_hs s) x).
Definition on_boundary_st (s : dstate) (tol : Q) (x : point) : bool :=
  existsb (fun h => Qle_bool (Qabs (dot (fst h) x - snd h)) tol) (s_hs s).
Definition select_viable_st (s : dstate) (vp : option point) : point :=
  match vp with
  | None => s_centre s
  | Some v =>
      if negb (acceptable_st s v) then s_centre s
      else if on_boundary_st s safety_margin v then map2 (fun vi ci => vi + (ci - vi) * push_fraction) v (s_centre s)
      else v
  end.
Definition restrict_points_st (s : dstate) (vp : option point) (on : bool) (us : list Q) (ps : list point)
  : list point * list Q :=
  let clipped := map (clip (s_bounds s)) ps in
  if s_constrained s
  then restrict_list (no_bound_rows (s_hs s)) (select_viable_st s vp) on clipped us
  else (clipped, us).
Definition near_point_st (s : dstate) (pt : point) (on : bool) (zs : list point) (us : list Q)
  : option (list point * list Q) :=
  if acceptable_st s pt
  then Some (restrict_points_st s (Some pt) on us
               (map (fun z => map2 Qplus pt (map2 Qmult z (widths (s_bounds s)))) zs))
  else None.
(* FixedIndicesOnContinuousDomain._verify_fixed_indices: 0 <= index < dim, lo <= value <= hi, and on a constrained domain
   `index in one_hot_unconstrained_indices` - the STORED list *)
Definition fixed_ok_st (s : dstate) (fixed : list (nat * Q)) : bool :=
  forallb (fun iv =>
    Nat.ltb (fst iv) (s_dim s) &&
    (let b := nth (fst iv) (s_bounds s) (0, 0) in Qle_bool (fst b) (snd iv) && Qle_bool (snd iv) (snd b)) &&
    (negb (s_constrained s) || existsb (Nat.eqb (fst iv)) (s_uncon s))) fixed.
(* points[:, one_hot_unconstrained_indices] = generate_uniform_random_points(n, bounds[indices]): one row; `vals` is the row of
   values that call returned (one per stored index) *)
Definition overwrite_st (s : dstate) (p vals : point) : point := fix_point (combine (s_uncon s) vals) p.
Definition sub_bounds (s : dstate) : list (Q * Q) := map (fun j => nth j (s_bounds s) (0, 0)) (s_uncon s).

Inductive dop :=
(* set_constraint_list(L) where L holds `cs` at the time of the call - whether L is a new list or the very list object handed
   over before and edited in place since; centre / feasible: what find_interior_point answers for the new half-spaces *)
| DSet (cs : list (point * Q)) (centre : point) (feasible : bool)
| DForce (b : bool)                                                    (* domain.force_hitandrun_sampling = b *)
| DRestrict (vp : option point) (on : bool) (us : list Q) (ps : list point)   (* restrict_points_to_domain *)
| DNear (pt : point) (on : bool) (zs : list point) (us : list Q)      (* generate_random_points_near_point, acceptable centre *)
| DAccept (x : point)                                                  (* check_point_acceptable *)
| DUncon                                                               (* one_hot_unconstrained_indices *)
| DFixOk (fixed : list (nat * Q))                                      (* does FixedIndicesOnContinuousDomain accept these? *)
(* generate_quasi_random_points_in_domain(n) on a constrained domain: raw / ok = what the sampler it calls returned (hit-and-run, or
   rejection with hit-and-run padding and its success flag), vals = the uniform rows for the unconstrained columns (forced branch) *)
| DSample (n : nat) (raw : list point) (ok : bool) (vals : list point).

Inductive dout :=
| ONone
| OErr                                                  (* AssertionError of set_constraint_list (after the stores) *)
| OPts (ps : list point) (used : nat)                   (* restricted points, number of uniform draws consumed *)
| ONear (r : option (list point))                       (* None: the centre point is not acceptable (quasi-random fall-back) *)
| OBool (b : bool)
| OIdx (l : list nat)
(* forced: hit-and-run branch?; the half-space system, start point and box handed to the sampler; the points returned *)
| OSample (forced : bool) (handed : list halfspace) (x0 : point) (box : list (Q * Q)) (out : list point).

Definition is_query (o : dop) : bool :=
  match o with DSet _ _ _ | DForce _ | DSample _ _ _ _ => false | _ => true end.

Definition dstep (s : dstate) (o : dop) : dstate * dout :=
  match o with
  | DSet cs centre feasible =>
      match cs with
      | [] => (mkD (s_bounds s) [] [] (seq 0 (s_dim s)) [] (s_force s), ONone)
      | _ => let hs := halfspaces (Dom (s_bounds s) cs) in
             (mkD (s_bounds s) cs hs (infer_uncon (s_dim s) hs) centre (s_force s), if feasible then ONone else OErr)
      end
  | DForce b => (mkD (s_bounds s) (s_cons s) (s_hs s) (s_uncon s) (s_centre s) b, ONone)
  | DRestrict vp on us ps =>
      let '(m, rest) := restrict_points_st s vp on us ps in (s, OPts m (length us - length rest))
  | DNear pt on zs us => (s, ONear (option_map fst (near_point_st s pt on zs us)))
  | DAccept x => (s, OBool (acceptable_st s x))
  | DUncon => (s, OIdx (s_uncon s))
  | DFixOk fixed => (s, OBool (fixed_ok_st s fixed))
  | DSample n raw ok vals =>
      if s_constrained s then
        if s_force s
        then (s, OSample true (s_hs s) (s_centre s) (sub_bounds s) (map2 (overwrite_st s) raw vals))
        else (mkD (s_bounds s) (s_cons s) (s_hs s) (s_uncon s) (s_centre s) (negb ok),
              OSample false (s_hs s) (s_centre s) (s_bounds s) raw)
      else (s, ONone)          (* unconstrained domains take the unit-cube samplers (Model/Samplers.v): not part of this machine *)
  end.

Fixpoint drun (s : dstate) (ops : list dop) : dstate :=
  match ops with [] => s | o :: r => drun (fst (dstep s o)) r end.
Fixpoint dtrace (s : dstate) (ops : list dop) : list dout :=
  match ops with [] => [] | o :: r => let '(s', out) := dstep s o in out :: dtrace s' r end.

(* What a FRESHLY BUILT domain answers: the pure functions of Model/Restrict.v on the box, the constraint list and the centre *)
Definition dom_of (s : dstate) : domain := Dom (s_bounds s) (s_cons s).
Definition stored_hs (bs : list (Q * Q)) (cs : list (point * Q)) : list halfspace :=
  match cs with [] => [] | _ => halfspaces (Dom bs cs) end.
Definition stored_uncon (bs : list (Q * Q)) (cs : list (point * Q)) : list nat :=
  match cs with [] => seq 0 (length bs) | _ => infer_uncon (length bs) (halfspaces (Dom bs cs)) end.
(* the columns no constraint mentions *)
Definition free_columns (bs : list (Q * Q)) (cs : list (point * Q)) : list nat :=
  filter (fun j => forallb (fun c => Qeq_bool (nth j (fst c) 0) 0) cs) (seq 0 (length bs)).
Definition fresh_out (d : domain) (c : point) (o : dop) : dout :=
  match o with
  | DRestrict vp on us ps => let '(m, rest) := restrict_points d c vp on us ps in OPts m (length us - length rest)
  | DNear pt on zs us => ONear (option_map fst (near_point d c pt on zs us))
  | DAccept x => OBool (acceptable d x)
  | DUncon => OIdx (free_columns (bounds d) (cstrs d))
  | DFixOk fixed => OBool (fixed_ok d fixed)
  | _ => ONone
  end.
(* the constraint list the latest set_constraint_list of a history handed over (`cur` when there was none) *)
Fixpoint latest_cons (cur : list (point * Q)) (ops : list dop) : list (point * Q) :=
  match ops with
  | [] => cur
  | DSet cs _ _ :: r => latest_cons cs r
  | _ :: r => latest_cons cur r
  end.
