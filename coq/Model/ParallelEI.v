(* Executable model of the Monte-Carlo parallel expected improvement ("qEI"),
     libsigopt/compute/expected_improvement.py : ExpectedParallelImprovement._evaluate_at_point_list
   and of the public AcquisitionFunction.evaluate_at_point_list driving it batch by batch.  NO proofs in this file.

   One vectorised call evaluates n = num_to_evaluate candidate SETS of q = num_points_to_sample points each, together with the
   p = num_points_being_sampled pending points.  What enters from outside (predictor, factorisation, generator):
     sets   : for each candidate set k, in the order of the call, the pair
                (means of its q points [what compute_mean_of_points answers for them],
                 L_k, rows of the factor that compute_cholesky_for_gp_sampling returns for the covariance of set k ++ pending; C17: L L' = cov)
     mp     : the means of the pending points
     best   : self.best_value
     N, B   : num_mc_iterations, num_mc_iterations_per_loop
     stream : the standard normal draws, flat, in the order numpy.random.normal hands them out (each block of shape
              (block, q+p) row-major: one row = one draw z); the SAME rows are used for all the candidate sets of the call.
   The model follows the array program statement by statement: the (q+p, q+p, n) factor tensor, the flat mean vector reshaped to
   (n, q) and transposed, tensordot over axis 1 of both operands, the two slice updates, amax over axis 0, fmax with 0, the sum
   over axis 1, the while loop over blocks (which may execute more than N draws) and the final division. *)
From Coq Require Import List QArith Bool Arith.
Import ListNotations.
Open Scope Q_scope.

Notation vec := (list Q).
Notation mat := (list (list Q)).
Notation cset := (list Q * list (list Q))%type.   (* one candidate set: (means of its points, factor rows) *)

Definition qmax (a b : Q) : Q := if Qle_bool a b then b else a.
Definition qmin (a b : Q) : Q := if Qle_bool a b then a else b.
Definition sumQ (l : vec) : Q := fold_right Qplus 0 l.
Definition entry (M : mat) (r c : nat) : Q := nth c (nth r M []) 0.
Definition ofnat (n : nat) : Q := inject_Z (Z.of_nat n).

(* numpy.amax / amin over a non-empty axis (numpy raises on an empty one; the theorems carry the guard 0 < q + p) *)
Fixpoint amax (l : vec) : Q :=
  match l with [] => 0 | x :: r => match r with [] => x | _ => qmax x (amax r) end end.
Fixpoint amin (l : vec) : Q :=
  match l with [] => 0 | x :: r => match r with [] => x | _ => qmin x (amin r) end end.

Fixpoint map2 {A B C} (f : A -> B -> C) (a : list A) (b : list B) : list C :=
  match a, b with x :: a', y :: b' => f x y :: map2 f a' b' | _, _ => [] end.

(* numpy.reshape(v, (r, w)) : r rows of w successive entries;  M.T of an (r, w) matrix : w rows *)
Fixpoint rows (w r : nat) (v : vec) : mat :=
  match r with O => [] | S r' => firstn w v :: rows w r' (skipn w v) end.
Definition transpose (w : nat) (M : mat) : mat := map (fun j => map (fun row => nth j row 0) M) (seq 0 w).

(* chol_cov_tensor[:, :, k] = L_k    —  T[j][l][k] *)
Definition chol_tensor (c : nat) (sets : list cset) : list mat :=
  map (fun j => map (fun l => map (fun s => entry (snd s) j l) sets) (seq 0 c)) (seq 0 c).

(* compute_mean_of_points(numpy.concatenate(points_to_evaluate, axis=0)) : the means of all points, set after set;
   mean_to_evaluate = numpy.reshape(., (num_to_evaluate, num_to_sample)).T   —  [j][k] *)
Definition mean_flat (sets : list cset) : vec := concat (map fst sets).
Definition mean_to_evaluate (q : nat) (sets : list cset) : mat := transpose q (rows q (length sets) (mean_flat sets)).

(* numpy.tensordot(T, normals, axes=([1], [1])) : out[j][k][i] = sum_l T[j][l][k] * normals[i][l] *)
Definition tensordot (c n : nat) (T : list mat) (normals : mat) : list mat :=
  map (fun Tj => map (fun k => map (fun z => sumQ (map (fun l => entry Tj l k * nth l z 0) (seq 0 c))) normals) (seq 0 n)) T.

(* posterior_predictions[:q, :, :] += best - mean_to_evaluate[:, :, None] *)
Definition add_first (q : nat) (pp : list mat) (best : Q) (mte : mat) : list mat :=
  map2 (fun ppj mj => map2 (fun ppjk mjk => map (fun x => x + (best - mjk)) ppjk) ppj mj) (firstn q pp) mte ++ skipn q pp.

(* posterior_predictions[-p:, :, :] += best - mean_being_sampled[:, None, None] *)
Definition add_last (p : nat) (pp : list mat) (best : Q) (mbs : vec) : list mat :=
  let h := (length pp - p)%nat in
  firstn h pp ++ map2 (fun ppj m => map (map (fun x => x + (best - m))) ppj) (skipn h pp) mbs.

(* numpy.amax(posterior_predictions, axis=0)  —  [k][i] *)
Definition amax0 (n b : nat) (pp : list mat) : mat :=
  map (fun k => map (fun i => amax (map (fun ppj => entry ppj k i) pp)) (seq 0 b)) (seq 0 n).

(* one pass of the while body: numpy.sum(numpy.fmax(0.0, numpy.amax(posterior_predictions, axis=0)), axis=1) *)
Definition block_contribution (q : nat) (sets : list cset) (mp : vec) (best : Q) (normals : mat) : vec :=
  let c := (q + length mp)%nat in
  let n := length sets in
  let pp0 := tensordot c n (chol_tensor c sets) normals in
  let pp1 := add_first q pp0 best (mean_to_evaluate q sets) in
  let pp2 := if (length mp =? 0)%nat then pp1 else add_last (length mp) pp1 best mp in
  map (fun row => sumQ (map (qmax 0) row)) (amax0 n (length normals) pp2).

(* while num_mc_iterations_executed < self.num_mc_iterations: ...  (fuel N suffices: every pass executes b >= 1 draws) *)
Fixpoint mc_loop (contrib : mat -> vec) (N b c : nat) (fuel executed : nat) (stream : vec) (result : vec) : vec * nat :=
  match fuel with
  | O => (result, executed)
  | S fuel' =>
      if (executed <? N)%nat then
        let normals := rows c b (firstn (b * c) stream) in        (* numpy.random.normal(size=(b, c)) *)
        mc_loop contrib N b c fuel' (executed + b) (skipn (b * c) stream) (map2 Qplus result (contrib normals))
      else (result, executed)
  end.

(* ExpectedParallelImprovement._evaluate_at_point_list : one estimate per candidate set of the call *)
Definition qei (q : nat) (sets : list cset) (mp : vec) (best : Q) (N B : nat) (stream : vec) : vec :=
  let c := (q + length mp)%nat in
  let b := Nat.min B N in
  let '(result, executed) := mc_loop (block_contribution q sets mp best) N b c N 0 stream (repeat 0 (length sets)) in
  map (fun r => r / ofnat executed) result.

(* number of passes of the loop and of draws it executes (a multiple of the block size, possibly more than N) *)
Fixpoint passes (N b : nat) (fuel executed : nat) : nat :=
  match fuel with O => O | S fuel' => if (executed <? N)%nat then S (passes N b fuel' (executed + b)) else O end.
Definition n_exec (N B : nat) : nat := let b := Nat.min B N in (passes N b N 0 * b)%nat.

(* the draws z one call executes: the first n_exec rows of q+p entries of the stream (the block structure does not matter) *)
Definition executed_draws (N B c : nat) (stream : vec) : mat := rows c (n_exec N B) stream.

(* AcquisitionFunction.evaluate_at_point_list(points, batch_size) for this class, num_to_evaluate >= 1: successive calls of
   _evaluate_at_point_list on slices of bs sets, each call drawing fresh normals (the stream moves on) *)
Fixpoint qei_batched (fuel bs q : nat) (sets : list cset) (mp : vec) (best : Q) (N B : nat) (stream : vec) : vec :=
  match fuel with
  | O => []
  | S fuel' =>
      match sets with
      | [] => []
      | _ => qei q (firstn bs sets) mp best N B stream
             ++ qei_batched fuel' bs q (skipn bs sets) mp best N B (skipn (n_exec N B * (q + length mp)) stream)
      end
  end.
Definition qei_public (batch : option nat) (q : nat) (sets : list cset) (mp : vec) (best : Q) (N B : nat) (stream : vec) : vec :=
  let bs := match batch with Some b0 => if (b0 =? 0)%nat then length sets else b0 | None => length sets end in
  qei_batched (length sets) bs q sets mp best N B stream.

(* ---- the reading of one estimate (used in the statements) ---- *)
(* (L z)_j = sum_l L[j][l] z[l];   y = m - L z : the posterior sample at the q+p points (the code adds L z to best - m: its
   draw is -z, equally distributed);   improvement of the sample over best = max(0, best - min_j y_j) *)
Definition Lz (c : nat) (L : mat) (z : vec) (j : nat) : Q := sumQ (map (fun l => entry L j l * nth l z 0) (seq 0 c)).
Definition sample (c : nat) (m : vec) (L : mat) (z : vec) : vec := map (fun j => nth j m 0 - Lz c L z j) (seq 0 c).
Definition improvement (best : Q) (y : vec) : Q := qmax 0 (best - amin y).
Definition mean_list (l : vec) : Q := sumQ l / ofnat (length l).
Definition set_estimate (c : nat) (s : cset) (mp : vec) (best : Q) (zs : mat) : Q :=
  mean_list (map (fun z => improvement best (sample c (fst s ++ mp) (snd s) z)) zs).
