(* Correspondence cases for C20, evaluated inside Coq.
   CVal : one call of libsigopt.aux.validate_schema.validate(value, schema).  `res` is None when it returned, and
          otherwise the ValidationError jsonschema raised (mapped field by field to `verr`), its absolute path, and what
          validate raised.  Part (i): `conforms` agrees with jsonschema's accept / reject.  Part (ii): the raised record
          satisfies wf_verr, points at the sub-value it names, and process_error of the model yields the observed error
          class and exposed attributes (message: non-emptiness only).
          A draft-3 `required` record names the parent object as its instance and ends its path with the MISSING key: the
          instance is then looked up at the path without its last element (inst_path).
          Draft-3 schemas (generated over keywords that mean the same in draft 3 and in the model's draft) are printed with
          SRequired3 for the boolean `required` flags of their `properties`.
   CProc: process_error called directly on a hand-built (possibly malformed) ValidationError.
   pmo : the oracle table of patternProperties matching, one row (sorted patterns, key, re.search("|".join(patterns in
         the schema's order), key) is not None) per pattern list of the schema / of a raised record and per object key
         of the value; rows for single patterns [p] serve the keyword patternProperties itself. *)
From Coq Require Import List ZArith NArith QArith Bool Arith.
From LV Require Import Model.Schema.
Import ListNotations.

Inductive obs :=
| OSigopt (ne : bool)
| OMissingKey (k : option json) (ne : bool)
| OInvalidType (value : json) (expected : str) (ne : bool)
| OInvalidValue (ne : bool)
| OInvalidKey (k : option str) (ne : bool)
| ORaw (x : raw)
| OLacksAttr          (* an object of one of the library's error classes WITHOUT an attribute its class promises (missing_json_key,
                         value / expected_type, invalid_key): matches no outcome of the model, whose errors always carry them *)
| OOtherExc.

Definition raw_eqb (a b : raw) : bool :=
  match a, b with RTypeError, RTypeError | RKeyError, RKeyError | RIndexError, RIndexError => true | _, _ => false end.

(* Python None and a JSON null key are the same observable *)
Definition key_match (m o : option json) : bool :=
  match m, o with
  | None, None | Some JNull, None => true
  | Some a, Some b => json_eqb a b
  | _, _ => false
  end.
Definition ostr_eqb (a b : option str) : bool :=
  match a, b with None, None => true | Some x, Some y => str_eqb x y | _, _ => false end.

Definition obs_match (o : outcome) (ob : obs) : bool :=
  match o, ob with
  | Lib (ESigopt m), OSigopt ne => ne && msg_nonempty m
  | Lib (EMissingKey k m), OMissingKey k' ne => key_match k k' && ne && msg_nonempty m
  | Lib (EInvalidType v t m), OInvalidType v' ex ne =>
      json_eqb v v' && match py_str_type t with Some s => str_eqb s ex | None => false end && ne && msg_nonempty m
  | Lib (EInvalidValue m), OInvalidValue ne => ne && msg_nonempty m
  | Lib (EInvalidKey k m), OInvalidKey k' ne => ostr_eqb k k' && ne && msg_nonempty m
  | Raw x, ORaw y => raw_eqb x y
  | _, _ => false
  end.

Definition rx_of (tbl : list (N * str * bool)) (rx : N) (s : str) : bool :=
  existsb (fun t => match t with (r, s', b) => N.eqb r rx && str_eqb s s' && b end) tbl.

Fixpoint strs_eqb (a b : list str) : bool :=
  match a, b with
  | [], [] => true
  | x :: a', y :: b' => str_eqb x y && strs_eqb a' b'
  | _, _ => false
  end.
Definition pm_of (tbl : list (list str * str * bool)) (pats : list str) (k : str) : bool :=
  existsb (fun t => match t with (ps, k', b) => strs_eqb ps pats && str_eqb k k' && b end) tbl.

Inductive case :=
| CVal (v : json) (s : schema) (rxo : list (N * str * bool)) (pmo : list (list str * str * bool))
       (res : option (verr * list pathpart * obs))
| CProc (e : verr) (pmo : list (list str * str * bool)) (o : obs).

Definition is_lib (o : outcome) : bool := match o with Lib _ => true | Raw _ => false end.

(* where the instance of a record sits in the validated value: at the record's absolute path - except for a draft-3
   `required` record (boolean validator value), whose path ends with the key that is missing from the instance *)
Definition inst_path (e : verr) (abspath : list pathpart) : list pathpart :=
  match v_kind e, v_value e with
  | VRequired, JBool _ => removelast abspath
  | _, _ => abspath
  end.

(* ... and the absolute path of such a record ends with the same missing key as its relative path *)
Definition last_key_ok (e : verr) (abspath : list pathpart) : bool :=
  match v_kind e, v_value e with
  | VRequired, JBool _ =>
      match last_part abspath, last_part (v_path e) with
      | Some (PKey a), Some (PKey b) => str_eqb a b
      | _, _ => false
      end
  | _, _ => true
  end.

Definition check (c : case) : bool :=
  match c with
  | CVal v s rxo pmo None => conforms (rx_of rxo) (pm_of pmo) s v
  | CVal v s rxo pmo (Some (e, abspath, o)) =>
      negb (conforms (rx_of rxo) (pm_of pmo) s v) &&
      wf_verr (pm_of pmo) e &&
      (* jsonschema reports a `false` sub-schema (validator None, kind VOther) with an empty path: no path check there *)
      match v_kind e with
      | VOther => true
      | _ => match json_at v (inst_path e abspath) with Some x => json_eqb x (v_inst e) | None => false end &&
             last_key_ok e abspath
      end &&
      is_lib (process_error e) &&
      obs_match (process_error e) o
  | CProc e pmo o => obs_match (process_error e) o && implb (wf_verr (pm_of pmo) e) (is_lib (process_error e))
  end.

(* which branch of the model a case exercises (for the measured distribution) *)
Definition kind_code (e : verr) : nat :=
  match v_kind e with
  | VAdditional => 0 | VType => 1 | VMaxProps => 2 | VMinProps => 3 | VRequired => 4 | VMinimum => 5 | VMaximum => 6
  | VMinLength => 7 | VMaxLength => 8 | VMinItems => 9 | VMaxItems => 10 | VEnum => 11 | VPattern => 12 | VExMin => 13
  | VOneOf => 14 | VAnyOf => 15 | VOther => 16
  end.
