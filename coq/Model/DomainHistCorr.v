(* Correspondence cases for C08 over histories: one case is a box and a list of operations on ONE live ContinuousDomain object,
   each with what the implementation answered; the model machine of Model/DomainHist.v is run alongside and every answer is
   compared (coordinates of restricted points to a relative 1e-9 - the code divides doubles -, everything else exactly) and
   judged by the region of the constraints set last.  Evaluated inside Coq. *)
From Coq Require Import List QArith Qabs Bool Arith ZArith.
From LV Require Import Model.Restrict Model.Samplers Model.RestrictCorr Model.DomainHist.
Import ListNotations.
Open Scope Q_scope.

Inductive obs :=
| BNone
| BErr                                                   (* set_constraint_list raised AssertionError *)
| BPts (out : list point) (used : nat)
| BNear (out : list point) (fellback : bool)
| BBool (b : bool)
| BIdx (l : list nat)
(* the sampler call the entry point made: hit-and-run (forced) or rejection with padding; the half-space rows (A_i, b_i), the start
   point and the box (forced: the box of the overwritten columns) it handed over; the points it returned; the flag afterwards *)
| BSample (forced : bool) (handed : list halfspace) (x0 : point) (box : list (Q * Q)) (out : list point) (force_after : bool).

Inductive case := CHist (bs : list (Q * Q)) (ops : list (dop * obs)).

Definition hs_eq (a b : list halfspace) : bool :=
  list_eqb (fun x y => pt_eq (fst x) (fst y) && Qeq_bool (snd x) (snd y)) a b.
Definition box_eq (a b : list (Q * Q)) : bool :=
  list_eqb (fun x y => Qeq_bool (fst x) (fst y) && Qeq_bool (snd x) (snd y)) a b.

(* one answer of the implementation against the model's answer, in the state BEFORE the operation (s) and after it (s') *)
Definition agree (s s' : dstate) (m : dout) (b : obs) : bool :=
  let d := dom_of s in
  match m, b with
  | ONone, BNone => true
  | OErr, BErr => true
  | OPts pts used, BPts out used' => pts_close_box (s_bounds s) pts out && Nat.eqb used used' && forallb (feasible_tol d) out
  | ONear None, BNear out fellback => fellback && forallb (feasible_tol d) out
  | ONear (Some pts), BNear out fellback => negb fellback && pts_close_box (s_bounds s) pts out && forallb (feasible_tol d) out
  | OBool x, BBool y => Bool.eqb x y
  | OIdx l, BIdx l' => list_eqb Nat.eqb l l'
  | OSample f hs x0 box out, BSample f' hs' x0' box' out' fa =>
      Bool.eqb f f' && hs_eq hs hs' && pt_eq x0 x0' && box_eq box box' && pts_eq out out' &&
      forallb (feasible_tol d) out' && Bool.eqb (s_force s') fa
  | _, _ => false
  end.

Fixpoint hist_ok (s : dstate) (ops : list (dop * obs)) : bool :=
  match ops with
  | [] => true
  | (o, b) :: r => let '(s', m) := dstep s o in agree s s' m b && hist_ok s' r
  end.

Definition check (c : case) : bool := match c with CHist bs ops => hist_ok (dfresh bs) ops end.
