(* Shared vocabulary of the mixed-type domain (C09, C01, C10): components, constraints, points, admissibility and its
   decidable form, and the well-formedness test mirroring CategoricalDomain._verify_domain_components
   (libsigopt/compute/domain.py).  Types and statements as fixed in DESIGN.md Appendix A.  No proofs here
   (the equivalence admissibleb <-> Admissible is Proofs/Domain.v). *)
From Coq Require Import List QArith ZArith Bool SetoidList Qround.
Import ListNotations.
Open Scope Q_scope.

Inductive component :=
| Double (lo hi : Q) | Int (lo hi : Z) | Cat (elems : list Z) | Grid (elems : list Q).
Inductive ctype := CDouble | CInt.
Record constraint := { weights : list Q; rhs : Q; cty : ctype }.      (* weights . x >= rhs *)
Record domain := { comps : list component; cons : list constraint }.
Definition point := list Q.
Definition peq : point -> point -> Prop := Forall2 Qeq.     (* points are compared up to Qeq, never by Leibniz equality *)
Fixpoint peqb (a b : point) : bool :=
  match a, b with [], [] => true | x :: a', y :: b' => Qeq_bool x y && peqb a' b' | _, _ => false end.

Definition in_component (c : component) (x : Q) : Prop :=
  match c with
  | Double lo hi => lo <= x /\ x <= hi
  | Int lo hi => exists z : Z, x == inject_Z z /\ (lo <= z <= hi)%Z
  | Cat es => exists z, In z es /\ x == inject_Z z
  | Grid es => exists e, In e es /\ x == e
  end.
Fixpoint dot (a b : list Q) : Q := match a, b with x :: a', y :: b' => x * y + dot a' b' | _, _ => 0 end.
Definition Admissible (d : domain) (p : point) : Prop :=
  Forall2 in_component (comps d) p /\ Forall (fun c => rhs c <= dot (weights c) p) (cons d).

(* ------------------------------------------------------------------ decidable forms *)
Definition Qltb (x y : Q) : bool := negb (Qle_bool y x).
Definition is_intb (x : Q) : bool := Qeq_bool x (inject_Z (Qfloor x)).
Definition in_componentb (c : component) (x : Q) : bool :=
  match c with
  | Double lo hi => Qle_bool lo x && Qle_bool x hi
  | Int lo hi => is_intb x && (lo <=? Qfloor x)%Z && (Qfloor x <=? hi)%Z
  | Cat es => existsb (fun z => Qeq_bool x (inject_Z z)) es
  | Grid es => existsb (fun e => Qeq_bool x e) es
  end.
Fixpoint forall2b {A B} (f : A -> B -> bool) (a : list A) (b : list B) : bool :=
  match a, b with [], [] => true | x :: a', y :: b' => f x y && forall2b f a' b' | _, _ => false end.
Definition admissibleb (d : domain) (p : point) : bool :=
  forall2b in_componentb (comps d) p && forallb (fun c => Qle_bool (rhs c) (dot (weights c) p)) (cons d).

(* ------------------------------------------------------------------ _verify_domain_components *)
Fixpoint nodupb {A} (eqb : A -> A -> bool) (l : list A) : bool :=
  match l with [] => true | x :: r => negb (existsb (eqb x) r) && nodupb eqb r end.
Definition wf_component (c : component) : bool :=
  match c with
  | Double lo hi => Qltb lo hi
  | Int lo hi => (lo <? hi)%Z
  | Cat es => Nat.ltb 1 (length es) && nodupb Z.eqb es
  | Grid es => Nat.ltb 1 (length es) && nodupb Qeq_bool es
  end.
(* a non-zero weight may only sit on a component of the constraint's own type (so it is zero on categorical / grid) *)
Definition weight_ok (t : ctype) (w : Q) (c : component) : bool :=
  Qeq_bool w 0 ||
  match t, c with CDouble, Double _ _ => true | CInt, Int _ _ => true | _, _ => false end.
Definition wf_constraint (cs : list component) (k : constraint) : bool :=
  Nat.eqb (length (weights k)) (length cs) && forall2b (weight_ok (cty k)) (weights k) cs.
Definition wf_domain (d : domain) : bool :=
  forallb wf_component (comps d) && forallb (wf_constraint (comps d)) (cons d).
