(* Correspondence cases for C16: the implementation's outputs are compared with Model.ParzenSplit and with the
   decidable specifications, inside Coq.  No proofs here (soundness of the split check: Proofs/ParzenSplit.v). *)
From Coq Require Import List QArith ZArith Bool Arith Qabs.
From LV Require Import Model.ParzenSplit Model.ParzenHist.
From LV Require Model.Lies.
Import ListNotations.
Open Scope Q_scope.

Inductive outcome :=
| OErr                                              (* SPEInsufficientDataError *)
| OOk (lower greater : list point).                 (* estimator.lower_points / greater_points, row by row *)

Inductive case :=
(* SigOptParzenEstimator(...): perm = what numpy.argsort returned inside form_model (logged), if it was called *)
| CSplit (gamma forget : Q) (pts : list point) (vals : list Q) (perm : option (list nat)) (out : outcome)
(* evaluate_expected_improvement at one point: kernel rows from the real covariances; impl = (lpdf, gpdf, ei),
   None when any of them is NaN/inf *)
| CDens (alpha_l alpha_g gamma : Q) (klow kgre : list Q) (impl : option (Q * Q * Q))
(* append_lies([p], lower) then the density at p: kernel row at p before / after, density before / after; ktol bounds
   the rounding error of the library's kernel evaluation at this point (it expands |x-z|^2 = |x|^2 + |z|^2 - 2 x.z, so
   k(p,p) comes out as alpha (1 - O(ulp |p/l|^2)) rather than alpha) *)
| CLie (lower : bool) (alpha ktol : Q) (krow krow_after : list Q) (before after : Q)
(* form_one_hot_covariance: raw = arguments of the first covariance_class(...) call, final = hyperparameters of the
   returned covariance *)
| CBand (numerical : list nat) (cat_ls factor : Q) (dim : nat) (pts : list point) (raw final : list (option Q))
(* form_sigopt_parzen_estimator_for_search: out = (lower_points, greater_points, gamma) or None on the error; the threshold
   split is compared when the model forces it (some violator and satisfiers > dim), the constructor's split with gamma0 otherwise *)
| CSearch (gamma0 : Q) (dim : nat) (pts : list point) (vals : list Q) (perm : option (list nat))
          (thr : list (option Q)) (pf : list (list Q)) (out : option (list point * list point * Q))
(* a history on ONE live estimator object whose two covariances evaluate the rational kernel ParzenHist.rkern:
   init = the object after construction (sets, no lies, gamma, hyperparameters), ops = the operations applied in order,
   outs = what each returned, snaps = lower_points / greater_points / lower_lies / greater_lies / gamma / hyperparameters
   read off the object after each operation *)
| CHist (init : est) (ops : list hop) (outs : list hout) (snaps : list est).

Fixpoint rows_eqb (a b : list point) : bool :=
  match a, b with [], [] => true | x :: a', y :: b' => row_eqb x y && rows_eqb a' b' | _, _ => false end.

Definition TOL : Q := 1 # 1000000000000.            (* 1e-12, relative to max(1, |model|) *)
Definition Qmaxb (a b : Q) : Q := if Qle_bool a b then b else a.
Definition close (model impl : Q) : bool := Qle_bool (Qabs (model - impl)) (TOL * Qmaxb 1 (Qabs model)).
Definition is_err {A} (r : result A) : bool := match r with ErrInsufficientData => true | Ok _ => false end.

Definition split_case_ok (gamma forget : Q) (pts : list point) (vals : list Q) (perm : option (list nat))
  (out : outcome) : bool :=
  match out with
  | OErr => is_err (split_sizes gamma forget (length pts))
  | OOk lo gr =>
      split_spec_b gamma forget pts vals lo gr &&
      match perm with
      | None => true
      | Some p =>
          match form_model gamma forget pts vals p with
          | Ok (mlo, mgr) =>
              sorting_perm_b (firstn (Z.to_nat (unforgotten forget (length pts))) vals) p &&
              rows_eqb (map fst mlo) lo && rows_eqb (map fst mgr) gr
          | ErrInsufficientData => false
          end
      end
  end.

(* 0 <= k <= alpha up to one rounding of the product alpha * (1 + r + r^2/3) * exp(-r) *)
Definition entries_ok (alpha : Q) (k : list Q) : bool :=
  forallb (fun x => Qle_bool 0 x && Qle_bool x (alpha * (1 + TOL))) k.

Fixpoint hyper_eqb (a b : list (option Q)) : bool :=
  match a, b with
  | [], [] => true
  | Some x :: a', Some y :: b' => Qeq_bool x y && hyper_eqb a' b'
  | None :: a', None :: b' => hyper_eqb a' b'
  | _, _ => false
  end.

(* raw hyperparameter i (0-based one-hot index) against the point set *)
Definition raw_entry_ok (numerical : list nat) (cat_ls factor : Q) (pts : list point) (i : nat) (r : option Q) : bool :=
  if existsb (Nat.eqb i) numerical then
    match pts, r with
    | [], None => true                               (* numpy.std of an empty set is NaN *)
    | [], Some _ => false
    | _, None => false
    | _, Some b =>
        let s := 2 * b / (factor * factor) - STD_EPSILON_HACK in   (* the std the bandwidth was computed from *)
        let v := variance (column i pts) in
        Qle_bool (- TOL) s && Qle_bool (Qabs (s * s - v)) (TOL * Qmaxb 1 v)
    end
  else match r with Some c => Qeq_bool c cat_ls | None => false end.
Fixpoint raw_tail_ok (numerical : list nat) (cat_ls factor : Q) (pts : list point) (i : nat) (raw : list (option Q)) : bool :=
  match raw with
  | [] => true
  | r :: rest => raw_entry_ok numerical cat_ls factor pts i r && raw_tail_ok numerical cat_ls factor pts (S i) rest
  end.

(* ---- histories on a live estimator (Model/ParzenHist.v) ---- *)
Definition pz_eqb (a b : Lies.pz) : bool :=
  Nat.eqb (Lies.p_dim a) (Lies.p_dim b) && rows_eqb (Lies.p_lower a) (Lies.p_lower b) &&
  rows_eqb (Lies.p_greater a) (Lies.p_greater b) && rows_eqb (Lies.p_lower_lies a) (Lies.p_lower_lies b) &&
  rows_eqb (Lies.p_greater_lies a) (Lies.p_greater_lies b).
Definition est_eqb (a b : est) : bool :=
  pz_eqb (e_pz a) (e_pz b) && Qeq_bool (e_gamma a) (e_gamma b) && row_eqb (e_hl a) (e_hl b) && row_eqb (e_hg a) (e_hg b).
Definition lie_out_eqb (a b : Lies.out) : bool :=
  match a, b with
  | Lies.ONone, Lies.ONone => true
  | Lies.OErr Lies.ValueError, Lies.OErr Lies.ValueError => true
  | Lies.OStash a1 b1, Lies.OStash a2 b2 => rows_eqb a1 a2 && rows_eqb b1 b2
  | _, _ => false
  end.
Fixpoint all2 {A B} (f : A -> B -> bool) (a : list A) (b : list B) : bool :=
  match a, b with [] , [] => true | x :: a', y :: b' => f x y && all2 f a' b' | _, _ => false end.
Definition oclose (m i : option Q) : bool :=
  match m, i with Some x, Some y => close x y | None, None => true | _, _ => false end.
Definition ei_close (m i : option (Q * Q * Q)) : bool :=
  match m, i with
  | Some (l, g, r), Some (il, ig, ir) => close l il && close g ig && close r ir
  | None, None => true
  | _, _ => false
  end.
(* model output against the implementation's: exact for the bookkeeping, 1e-12 for densities and ratios *)
Definition hout_close (m i : hout) : bool :=
  match m, i with
  | HNone, HNone | HErr, HErr => true
  | HLieOut a, HLieOut b => lie_out_eqb a b
  | HEI a, HEI b => all2 ei_close a b
  | HDens a, HDens b => all2 oclose a b
  | HVal a, HVal b => oclose a b
  | _, _ => false
  end.
(* the property on the implementation's own numbers, for the gamma the object holds when it is asked *)
Definition ei_spec_b (gamma : Q) (i : option (Q * Q * Q)) : bool :=
  match i with
  | None => true
  | Some (il, ig, ir) =>
      Qle_bool SPE_MINIMUM_LOWER_DENSITY_VALUE il && Qle_bool 0 ig &&
      (negb (Qltb 0 gamma && Qltb gamma 1) ||
       (Qltb 0 ir && Qle_bool ir ((1 / gamma) * (1 + TOL)) && close (1 / (gamma + (1 - gamma) * (ig / il))) ir))
  end.
Definition hout_spec_b (s : est) (o : hop) (i : hout) : bool :=
  match o, i with
  | HEval _, HEI v => forallb (ei_spec_b (e_gamma s)) v
  | HLowerDens _, HDens v =>
      forallb (fun d => match d with Some x => Qle_bool SPE_MINIMUM_LOWER_DENSITY_VALUE x | None => true end) v
  | HGreaterDens _, HDens v => forallb (fun d => match d with Some x => Qle_bool 0 x | None => true end) v
  | HObjective _, HVal (Some r) =>
      negb (Qltb 0 (e_gamma s) && Qltb (e_gamma s) 1) || (Qltb 0 r && Qle_bool r ((1 / e_gamma s) * (1 + TOL)))
  | _, _ => true
  end.
(* states before each op: init :: states after, cut to the number of ops *)
Definition hist_ok (init : est) (ops : list hop) (outs : list hout) (snaps : list est) : bool :=
  all2 hout_close (htrace rkern init ops) outs &&
  all2 est_eqb (hstates rkern init ops) snaps &&
  all2 (fun so i => hout_spec_b (fst so) (snd so) i) (combine (init :: hstates rkern init ops) ops) outs.

Definition check (c : case) : bool :=
  match c with
  | CSplit gamma forget pts vals perm out => split_case_ok gamma forget pts vals perm out
  | CDens alpha_l alpha_g gamma klow kgre impl =>
      entries_ok alpha_l klow && entries_ok alpha_g kgre &&
      match expected_improvement gamma klow kgre, impl with
      | Some (l, g, r), Some (il, ig, ir) =>
          close l il && close g ig && close r ir &&
          (* the property on the implementation's own numbers *)
          Qle_bool SPE_MINIMUM_LOWER_DENSITY_VALUE il && Qle_bool 0 ig && Qltb 0 ir &&
          Qle_bool ir ((1 / gamma) * (1 + TOL)) &&
          close (1 / (gamma + (1 - gamma) * (ig / il))) ir
      | None, None => true
      | _, _ => false
      end
  | CLie lower alpha ktol krow krow_after before after =>
      entries_ok alpha krow && entries_ok alpha krow_after &&
      Nat.eqb (length krow_after) (S (length krow)) &&
      (* the old entries are unchanged and the new one is k(p,p) = alpha up to the kernel's rounding *)
      forallb (fun p => close (fst p) (snd p)) (combine krow krow_after) &&
      Qle_bool (Qabs (last krow_after 0 - alpha)) ktol &&
      let dens k := if lower then lower_density k else greater_density k in
      match dens krow, dens krow_after, dens (append_lie_entries krow [alpha]) with
      | Some b, Some a, Some a' =>
          close b before && close a after &&                       (* densities are the kernel means of the real rows *)
          Qle_bool (Qabs (a' - after)) (ktol + TOL * Qmaxb 1 (Qabs a')) &&    (* and the model's density with the lie *)
          Qle_bool before (after + ktol + TOL * Qmaxb 1 (Qabs after))         (* the lie did not lower the density *)
      | _, _, _ => false
      end
  | CBand numerical cat_ls factor dim pts raw final =>
      hyper_eqb (choose_hyper raw) final && valid_hyper final && Nat.eqb (length final) (S dim) &&
      match raw with
      | Some one :: tail => Qeq_bool one 1 && Nat.eqb (length tail) dim && raw_tail_ok numerical cat_ls factor pts 0 tail
      | _ => false
      end
  | CSearch gamma0 dim pts vals perm thr pf out =>
      match out with
      | None => is_err (split_sizes gamma0 0 (length pts))
      | Some (lo, gr, g) =>
          negb (is_err (split_sizes gamma0 0 (length pts))) &&
          let viol := violations thr pf in
          if search_forced dim (length pts) (count_true viol) then
            let '(mlo, mgr, mg) := search_split dim pts viol ([], [], 0) in
            rows_eqb mlo lo && rows_eqb mgr gr && close mg g
          else split_case_ok gamma0 0 pts vals perm (OOk lo gr) && Qeq_bool g gamma0
      end
  | CHist init ops outs snaps => hist_ok init ops outs snaps
  end.
