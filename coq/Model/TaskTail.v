(* C09 - the task-cost clause on the multitask tail of the GP suggestion endpoint
   (views/rest/gp_next_points_categorical.py: GpNextPointsCategorical._convert_one_hot_points_for_multitask).

   "a continuous task cost is snapped to the nearest task option" is a statement about EVERY row the endpoint returns:
   the proposals that survive the duplicate test AND the rows drawn afresh for the rejected ones, whose task coordinate is a raw
   uniform draw of the task dimension.  The tail itself is Model.EndpointTail.gp_tail (convert, decode the history with the task
   domain, replace_duplicate_points, snap the last column); nothing is re-modelled here.  This file only names the intermediate
   value the clause talks about - the rows in the domain with the task dimension, after de-duplication and padding, before their
   last column is split off and snapped - and the decidable form of the clause.  No proofs here. *)
From Coq Require Import List QArith ZArith Bool Arith Qabs.
From LV Require Import Model.Domain Model.Decode Model.EndpointTail.
Import ListNotations.
Open Scope Q_scope.

(* the augmented rows (parameters ++ [raw task coordinate]) of the multitask tail: kept proposals first, then the replacements *)
Definition task_tail_rows (d : domain) (opts : list Q) (af : row -> Q) (xs : list row) (hist_oh : list row) (o : gporc)
  : option (list point) :=
  let dt := with_task d opts in
  obind (convert_from_one_hot dt false af (g_dec o) xs) (fun pts =>
  obind (decode_b dt (g_hdec o) hist_oh) (fun aug =>
  replace_dups dt pts aug uniq_tol (g_choice o) (g_q o))).

(* decidable form of "cost c is a nearest task option of the raw coordinate x" *)
Definition nearest_option_b (opts : list Q) (x c : Q) : bool :=
  existsb (Qeq_bool c) opts && forallb (fun e => Qle_bool (Qabs (x - c)) (Qabs (x - e))) opts.
(* the clause on a whole answer: one cost per returned row, each a nearest option of that row's raw task coordinate *)
Definition task_costs_okb (opts : list Q) (rows : list point) (costs : list Q) : bool :=
  Nat.eqb (length rows) (length costs) && forall2b (fun p c => nearest_option_b opts (last p 0) c) rows costs.
