(* Correspondence cases for C09: the implementation's outputs are compared with Model.Decode and evaluated against the
   decidable specifications, inside Coq (vm_compute). *)
From Coq Require Import List QArith ZArith Bool Arith Qround Qabs.
From LV Require Import Model.Domain Model.Decode.
From LV Require Model.EndpointTail.   (* with_task: _form_domain_with_task_dimension; gp_tail: the multitask tail of the GP endpoint *)
From LV Require Model.TaskTail.       (* the rows of the multitask tail before the task column is split off; the task-cost clause, decidable *)
Import ListNotations.
Open Scope Q_scope.

Definition list_eqb {A} (eq : A -> A -> bool) := fix go (a b : list A) : bool :=
  match a, b with [], [] => true | x :: a', y :: b' => eq x y && go a' b' | _, _ => false end.
Definition rows_eqb : list row -> list row -> bool := list_eqb peqb.
Definition count_row (r : row) (l : list row) : nat := length (filter (peqb r) l).
(* equality as multisets of rows (order of numpy.meshgrid / set iteration is not part of the property) *)
Definition rows_mseqb (a b : list row) : bool :=
  Nat.eqb (length a) (length b) && forallb (fun r => Nat.eqb (count_row r a) (count_row r b)) (a ++ b).
Definition optq_eqb (a b : option Q) : bool :=
  match a, b with None, None => true | Some x, Some y => Qeq_bool x y | _, _ => false end.
Definition map_eqb : list (nat * nat * list (nat * Z)) -> list (nat * nat * list (nat * Z)) -> bool :=
  list_eqb (fun a b => Nat.eqb (fst (fst a)) (fst (fst b)) && Nat.eqb (snd (fst a)) (snd (fst b)) &&
                       list_eqb (fun u v => Nat.eqb (fst u) (fst v) && Z.eqb (snd u) (snd v)) (snd a) (snd b)).

(* ------------------------------------------------------------------ decidable specifications *)
Definition nearest_spec_b (x : Q) (es : list Q) (out : Q) : bool :=
  existsb (Qeq_bool out) es && forallb (fun e => Qle_bool (Qabs (x - out)) (Qabs (x - e))) es.
Definition is_unit_at_max (vals blk : row) : bool :=
  existsb (fun k => rows_eqb [blk] [unit_vec (length vals) k] && forallb (fun v => Qle_bool v (nth k vals 0)) vals)
          (seq 0 (length vals)).
(* what a snapped relaxed point must look like, coordinate by coordinate *)
Fixpoint snap_spec_b (cs : list component) (x out : row) : bool :=
  match cs with
  | [] => peqb x out
  | Cat es :: r =>
      let n := length es in
      is_unit_at_max (firstn n x) (firstn n out) && Nat.leb n (length x) && snap_spec_b r (skipn n x) (skipn n out)
  | c :: r =>
      match x, out with
      | v :: t, o :: t' =>
          match c with
          | Int _ _ => is_intb o && Qle_bool (Qabs (v - o)) (1#2)
          | Grid es => nearest_spec_b v es o
          | _ => Qeq_bool v o
          end && snap_spec_b r t t'
      | _, _ => false
      end
  end.
Fixpoint integral_on (mask : list bool) (x : row) : bool :=
  match mask, x with
  | true :: m, v :: t => is_intb v && integral_on m t
  | false :: m, _ :: t => integral_on m t
  | _, _ => true
  end.
Definition int_feasible_b (d : domain) (x : row) : bool := integral_on (int_mask d) x && sat_cons (comps d) (int_cons d) x.
Definition relaxed_ok (d : domain) (x : row) : bool := in_boxb (one_hot_box d) x && sat_cons (comps d) (dbl_cons d) x.

Fixpoint cat_blocks (cs : list component) (x : row) : list (row * list Z) :=
  match cs with
  | [] => []
  | Cat es :: r => (firstn (length es) x, es) :: cat_blocks r (skipn (length es) x)
  | _ :: r => cat_blocks r (tl x)
  end.

(* one logged call of numpy.random.choice(categories, p=...): the uniform the harness drew, p as passed by the code, the
   member returned, and whether the uniform sits within 1e-9 of a boundary of the cumulative p *)
Record draw := { d_u : Q; d_p : list Q; d_chosen : Z; d_near : bool }.
Definition tol12 : Q := 1 # (10 ^ 12).
Definition draw_ok (T : option Q) (blk : row * list Z) (dr : draw) : bool :=
  let mp := rel_probs pow_int T (fst blk) in
  forall2b (fun a b => Qle_bool (Qabs (a - b)) tol12) (d_p dr) mp &&
  (d_near dr || match draw_ix (d_u dr) 0 mp 0 with
                | Some i => match nth_error (snd blk) i with Some c => Z.eqb c (d_chosen dr) | None => false end
                | None => false
                end).

Inductive case :=
| CBox (d : domain) (box : list (Q * Q)) (m : list (nat * nat * list (nat * Z)))
| CEncode (d : domain) (p : point) (task : option Q) (out : row)
| CEncodeErr (d : domain) (p : point)
(* form_one_hot_points_with_tasks on one point with its task cost, then the task domain of form_augmented_domain: its relaxed box, its three
   rounding functions applied to the encoded row, and the task cost of the rounded row snapped to the options *)
| CEncodeTask (d : domain) (opts : list Q) (p : point) (c : Q) (out : row) (box : list (Q * Q)) (rounded : row) (snapped : Q)
| CRound (which : nat) (d : domain) (xs out : list row)
| CDecode (d : domain) (T : option Q) (xs : list row) (rnds : list (list (list bool))) (perms : list (list nat))
          (draws : list (list draw)) (out : list row)
| CDecodeErr (d : domain) (x : row)
| CIntNbrs (d : domain) (rnd : list (list bool)) (x : row) (out : list row)
| CFeasNbrs (d : domain) (rnd : list (list bool)) (x : row) (out : list row)
| CSnapFeas (d : domain) (xs : list row) (perms : list (list nat)) (out : list row)
| CLsTo (d : domain) (ls : list (list (option Q))) (out : list (option Q))
| CLsBack (d : domain) (l : list Q) (out : list (list Q))
| CTask (costs options out : list Q)
| CNbrInt (d : domain) (x : row) (out : list row)
| CNbrCat (d : domain) (xs out : list row)
(* GpNextPointsCategorical.convert_one_hot_points_to_distinct_categorical_points on a multitask request (_convert_one_hot_points_for_multitask):
   proposals xs (relaxed rows with their task coordinate), the linear acquisition function x |-> coef . x, the relaxed history rows with
   their task column, every draw scripted (categories of the two decodes, the per-component columns of the replacement draws);
   pts / costs = what the code returned *)
| CTaskTail (d : domain) (opts coef : list Q) (xs hist_oh : list row) (o : EndpointTail.gporc) (pts : list point) (costs : list Q).

Definition check (c : case) : bool :=
  match c with
  | CBox d box m =>
      list_eqb (fun a b => Qeq_bool (fst a) (fst b) && Qeq_bool (snd a) (snd b)) (one_hot_box d) box &&
      map_eqb (oh_map (comps d) 0) m && Nat.eqb (length box) (one_hot_dim (comps d)) && wf_domain d
  | CEncode d p task out =>
      peqb (encode_with_task d p task) out && encode_ok (comps d) p &&
      (* round trip, whenever the point is a valid configuration *)
      implb (admissibleb d p)
            (match decode_det d (encode d p) with Some q => peqb q p | None => false end &&
             in_boxb (one_hot_box d) (encode d p))
  | CEncodeErr d p => has_cat (comps d) && negb (encode_ok (comps d) p)
  | CEncodeTask d opts p c out box rounded snapped =>
      let dt := EndpointTail.with_task d opts in
      peqb (encode_with_task d p (Some c)) out &&
      list_eqb (fun a b => Qeq_bool (fst a) (fst b) && Qeq_bool (snd a) (snd b)) (one_hot_box dt) box &&
      peqb (snap_det dt out) rounded &&
      Qeq_bool (nearest (last rounded 0) opts) snapped &&
      (* the statement of C09_task_roundtrip on the implementation's own outputs: a valid point, a cost that is one of the options *)
      implb (admissibleb d p && existsb (Qeq_bool c) opts)
            (in_boxb box out && peqb rounded out && Qeq_bool snapped c &&
             match collapse dt rounded with Some q => peqb q (p ++ [c]) | None => false end)
  | CRound which d xs out =>
      let cs := comps d in
      match which with
      | 0%nat => rows_eqb (round_ints d xs) out
      | 1%nat => rows_eqb (round_grids d xs) out
      | 2%nat => rows_eqb (round_cats d xs) out
      | _ => rows_eqb (map (snap_det d) xs) out && forall2b (snap_spec_b cs) xs out
      end
  | CDecode d T xs rnds perms draws out =>
      let xs' := if is_int_constrained d then snap_feasible d rnds perms xs else xs in
      (if negb (has_cat (comps d) || has_grid (comps d)) then rows_eqb (round_ints d xs') out
       else forall2b (fun xo drs =>
                        match decode_with d (map d_chosen drs) (fst xo) with
                        | Some q => peqb q (snd xo)
                        | None => false
                        end && forall2b (draw_ok T) (cat_blocks (comps d) (fst xo)) drs)
                     (combine xs' out) draws && Nat.eqb (length xs') (length out)) &&
      implb (forallb (relaxed_ok d) xs) (forallb (admissibleb d) out)
  | CDecodeErr d x => match decode_with d (repeat 0%Z (length (comps d))) x with None => true | Some _ => false end
  | CIntNbrs d rnd x out => rows_mseqb (int_neighbors d rnd x) out
  | CFeasNbrs d rnd x out => rows_mseqb (feasible_neighbors d rnd x) out && forallb (int_feasible_b d) out
  | CSnapFeas d xs perms out => rows_eqb (snap_feasible d [] perms xs) out && forallb (int_feasible_b d) out
  | CLsTo d ls out => list_eqb optq_eqb (ls_to_one_hot (comps d) ls) out
  | CLsBack d l out => list_eqb peqb (ls_to_categorical (comps d) l) out
  | CTask costs options out =>
      peqb (snap_tasks costs options) out && forall2b (fun c o => nearest_spec_b c options o) costs out
  (* the order in which the lattice is listed is not part of the property: compared as multisets *)
  | CNbrInt d x out => rows_mseqb (neighboring_int_points d x) out
  | CNbrCat d xs out => rows_mseqb (neighboring_cat_points d xs) out
  (* the code's answer is the model's (EndpointTail.gp_tail), and the clause of C09_task_tail_costs_snapped evaluated on the code's own
     costs: each is a nearest option of the raw task coordinate of the row it is returned with (kept proposal or replacement) *)
  | CTaskTail d opts coef xs hist_oh o pts costs =>
      match TaskTail.task_tail_rows d opts (dot coef) xs hist_oh o, EndpointTail.gp_tail d opts false (dot coef) xs [] hist_oh o with
      | Some out, Some r =>
          rows_eqb (EndpointTail.r_points r) pts && rows_eqb (map (@removelast Q) out) pts &&
          match EndpointTail.r_costs r with Some cs => peqb cs costs | None => false end &&
          TaskTail.task_costs_okb opts out costs
      | _, _ => false
      end
  end.
