(* Correspondence for Model.ScipyCons: the harness calls the real get_constraints_for_scipy() of a constrained domain and
   evaluates every fun and jac at a dyadic point; the doubles it saw are compared with the model.  (1 + 1e-8) * rhs is not
   exact in binary floating point: a value may differ from the rational by a few ulps of |w.x| + |rhs|. *)
From Coq Require Import List QArith Qabs Bool.
From LV Require Import Model.Restrict Model.ScipyCons.
Import ListNotations.
Open Scope Q_scope.

Record case := mkcase { c_dom : domain; c_x : point; c_funs : list Q; c_jacs : list point }.

Definition ulp_tol : Q := 1 # 1000000000000000.      (* 1e-15 relative to the magnitudes involved *)
Definition mag (w : point) (r : Q) (x : point) : Q := dot (map Qabs w) (map Qabs x) + Qabs r + 1.
Fixpoint funs_close (cs : list (point * Q)) (x : point) (vs : list Q) : bool :=
  match cs, vs with
  | [], [] => true
  | c :: cs', v :: vs' => Qle_bool (Qabs (v - scipy_fun (fst c) (snd c) x)) (ulp_tol * mag (fst c) (snd c) x) && funs_close cs' x vs'
  | _, _ => false
  end.
Fixpoint peqb (a b : point) : bool :=
  match a, b with [], [] => true | x :: a', y :: b' => Qeq_bool x y && peqb a' b' | _, _ => false end.
Fixpoint jacs_eq (a b : list point) : bool :=
  match a, b with [], [] => true | x :: a', y :: b' => peqb x y && jacs_eq a' b' | _, _ => false end.

Definition check (c : case) : bool :=
  funs_close (scipy_constraints (c_dom c)) (c_x c) (c_funs c) && jacs_eq (scipy_jacs (c_dom c) (c_x c)) (c_jacs c).
