(* Executable model of the constraint functions handed to SciPy's SLSQP (C07, clause "a constrained SLSQP run started
   inside the domain ends inside it"): libsigopt/compute/domain.py form_constraint_fun_and_jac and
   ContinuousDomain.get_constraints_for_scipy.  Each user constraint  w . x >= rhs  becomes the SciPy inequality
   fun(x) >= 0  with  fun(x) = w . x - (1 + MARGIN * sign(rhs)) * rhs  and  jac(x) = w.   No proofs here. *)
From Coq Require Import List QArith Qabs Bool.
From LV Require Import Model.Restrict.
Import ListNotations.
Open Scope Q_scope.

Definition sgn (r : Q) : Q := if Qltb 0 r then 1 else if Qltb r 0 then -(1) else 0.      (* numpy.sign *)
Definition scipy_rhs (r : Q) : Q := (1 + safety_margin * sgn r) * r.
Definition scipy_fun (w : point) (r : Q) (x : point) : Q := dot w x - scipy_rhs r.
Definition scipy_jac (w : point) (x : point) : point := w.

(* get_constraints_for_scipy: one ("ineq", fun, jac) per user constraint, in order; [] for an unconstrained domain *)
Definition scipy_constraints (d : domain) : list (point * Q) := cstrs d.
Definition scipy_funs (d : domain) (x : point) : list Q := map (fun c => scipy_fun (fst c) (snd c) x) (scipy_constraints d).
Definition scipy_jacs (d : domain) (x : point) : list point := map (fun c => scipy_jac (fst c) x) (scipy_constraints d).

(* what SLSQP is asked to maintain, with its absolute feasibility error delta >= 0 *)
Definition scipy_feasible_b (delta : Q) (d : domain) (x : point) : bool := forallb (fun v => Qle_bool (- delta) v) (scipy_funs d x).
(* the user constraints themselves, with slack *)
Definition cons_slack_b (slack : Q) (d : domain) (x : point) : bool := forallb (fun c => Qle_bool (snd c + slack) (dot (fst c) x)) (cstrs d).
