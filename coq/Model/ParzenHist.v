(* Executable model of a LIVE SigOptParzenEstimator object over a history of operations (C16).  No proofs here.
   libsigopt/compute/sigopt_parzen_estimator.py: append_lies / clear_lies / stash_lies / recover_lies (the bookkeeping is
   the state machine of Model/Lies.v, re-used as it is), update_covariances, the attributes the search view assigns directly
   (views/rest/spe_search_next_points.py, form_sigopt_parzen_estimator_for_search: gamma, lower_points, greater_points),
   hyperparameters assigned on the estimator's own covariance objects, and the four evaluation entry points
   evaluate_expected_improvement / evaluate_lower_density / evaluate_greater_density / compute_objective_function.
   Mutation is state passing.  The kernel is a Section variable: k_h(x, z) for hyperparameters h = [alpha; l_1; ..; l_d]
   (its validity is C03; the theorems state what they need of it). *)
From Coq Require Import List QArith Bool Arith.
From LV Require Import Model.ParzenSplit.
From LV Require Model.Lies.
Import ListNotations.
Open Scope Q_scope.

(* everything an evaluation may depend on: the two point sets and the outstanding lies (e_pz), gamma, the two kernels *)
Record est := mkEst { e_pz : Lies.pz; e_gamma : Q; e_hl : list Q; e_hg : list Q }.
Definition e_lower (s : est) : list point := Lies.p_lower (e_pz s).
Definition e_greater (s : est) : list point := Lies.p_greater (e_pz s).
Definition e_dim (s : est) : nat := Lies.p_dim (e_pz s).

Inductive hop :=
| HLie (o : Lies.pop)                       (* append_lies / clear_lies / stash_lies / recover_lies *)
| HCov (hl hg : list Q)                     (* update_covariances(C(hl), C(hg)) *)
| HCovSet (lower : bool) (h : list Q)       (* spe.lower_covariance.hyperparameters = h   (greater_covariance for false) *)
| HGamma (g : Q)                            (* spe.gamma = g *)
| HLower (pts : list point)                 (* spe.lower_points = pts *)
| HGreater (pts : list point)               (* spe.greater_points = pts *)
| HEval (xs : list point)                   (* evaluate_expected_improvement(xs) *)
| HLowerDens (xs : list point)              (* evaluate_lower_density(xs) *)
| HGreaterDens (xs : list point)            (* evaluate_greater_density(xs) *)
| HObjective (x : point).                   (* spe.current_point = x; compute_objective_function() *)

Inductive hout :=
| HNone
| HErr                                      (* AssertionError of update_covariances; nothing is written *)
| HLieOut (o : Lies.out)
| HEI (v : list (option (Q * Q * Q)))       (* per evaluation point (lpdf, gpdf, ei); None when one of them is NaN / inf *)
| HDens (v : list (option Q))
| HVal (v : option Q).

Definition is_eval (o : hop) : bool :=
  match o with HEval _ | HLowerDens _ | HGreaterDens _ | HObjective _ => true | _ => false end.

Section Kernel.
  Variable kern : list Q -> point -> point -> Q.

  (* one row of covariance.build_kernel_matrix(points, xs): the kernel values of evaluation point x against the set *)
  Definition krow (h : list Q) (pts : list point) (x : point) : list Q := map (kern h x) pts.

  (* What a FRESHLY BUILT estimator with these sets, kernels and gamma answers (pure functions of Model/ParzenSplit.v) *)
  Definition fresh_lower (hl : list Q) (lower : list point) (x : point) : option Q := lower_density (krow hl lower x).
  Definition fresh_greater (hg : list Q) (greater : list point) (x : point) : option Q := greater_density (krow hg greater x).
  Definition fresh_ei (gamma : Q) (hl hg : list Q) (lower greater : list point) (x : point) : option (Q * Q * Q) :=
    expected_improvement gamma (krow hl lower x) (krow hg greater x).
  Definition fresh_out (gamma : Q) (hl hg : list Q) (lower greater : list point) (o : hop) : hout :=
    match o with
    | HEval xs => HEI (map (fresh_ei gamma hl hg lower greater) xs)
    | HLowerDens xs => HDens (map (fresh_lower hl lower) xs)
    | HGreaterDens xs => HDens (map (fresh_greater hg greater) xs)
    | HObjective x => HVal (match fresh_ei gamma hl hg lower greater x with Some (_, _, r) => Some r | None => None end)
    | _ => HNone
    end.

  Definition with_pz (s : est) (z : Lies.pz) : est := mkEst z (e_gamma s) (e_hl s) (e_hg s).

  Definition hstep (s : est) (o : hop) : est * hout :=
    let z := e_pz s in
    match o with
    | HLie p => let '(z', r) := Lies.pz_step z p in (with_pz s z', HLieOut r)
    | HCov hl hg =>            (* assert greater_covariance.dim == lower_covariance.dim == self.dim, then both are stored *)
        if Nat.eqb (length hl) (S (Lies.p_dim z)) && Nat.eqb (length hg) (S (Lies.p_dim z))
        then (mkEst z (e_gamma s) hl hg, HNone) else (s, HErr)
    | HCovSet lower h => (if lower then mkEst z (e_gamma s) h (e_hg s) else mkEst z (e_gamma s) (e_hl s) h, HNone)
    | HGamma g => (mkEst z g (e_hl s) (e_hg s), HNone)
    | HLower pts =>
        (with_pz s (Lies.mkPz (Lies.p_dim z) pts (Lies.p_greater z) (Lies.p_lower_lies z) (Lies.p_greater_lies z)), HNone)
    | HGreater pts =>
        (with_pz s (Lies.mkPz (Lies.p_dim z) (Lies.p_lower z) pts (Lies.p_lower_lies z) (Lies.p_greater_lies z)), HNone)
    | HEval _ | HLowerDens _ | HGreaterDens _ | HObjective _ =>
        (s, fresh_out (e_gamma s) (e_hl s) (e_hg s) (e_lower s) (e_greater s) o)
    end.

  Definition hrun (s : est) (ops : list hop) : est := Lies.run hstep s ops.
  Definition htrace (s : est) (ops : list hop) : list hout := Lies.trace hstep s ops.
  (* the states the object goes through, one per op (after the op) *)
  Fixpoint hstates (s : est) (ops : list hop) : list est :=
    match ops with [] => [] | o :: r => let s' := fst (hstep s o) in s' :: hstates s' r end.
End Kernel.

(* the history with its evaluations erased: only the operations that change the estimator *)
Definition mutations (ops : list hop) : list hop := filter (fun o => negb (is_eval o)) ops.
(* the lie operations of a history *)
Definition lie_ops (ops : list hop) : list Lies.pop :=
  flat_map (fun o => match o with HLie p => [p] | _ => [] end) ops.
Definition assigns_sets (o : hop) : bool := match o with HLower _ | HGreater _ => true | _ => false end.

(* A rational radial kernel for the in-Coq correspondence (the harness plugs the same function into the library's
   RadialCovariance): alpha / (1 + sum_k ((x_k - z_k) / l_k)^2).  Symmetric, 0 < k <= alpha = k(x, x). *)
Fixpoint dist2 (ls : list Q) (x z : point) : Q :=
  match ls, x, z with
  | l :: ls', a :: x', b :: z' => ((a - b) / l) * ((a - b) / l) + dist2 ls' x' z'
  | _, _, _ => 0
  end.
Definition rkern (h : list Q) (x z : point) : Q :=
  match h with alpha :: ls => alpha / (1 + dist2 ls x z) | [] => 0 end.
