(* Correspondence cases for HISTORIES on one live ExpectedParallelImprovement object (C05): the real class on a stub predictor whose
   answers are swapped between evaluations (as after gp.update_historical_data) and whose points_being_sampled are re-assigned; every
   evaluation's output is compared inside Coq with Model.ParallelEIHist and with the reading "mean improvement of the sample minimum
   for the means / factors the predictor answers NOW and the pending points held NOW". *)
From Coq Require Import List QArith Qabs Bool Arith.
From LV Require Import Model.ParallelEI Model.ParallelEICorr Model.ParallelEIHist.
Import ListNotations.
Open Scope Q_scope.

Record hcase := mkhcase {
  h_q : nat; h_N : nat; h_B : nat;
  h_pred0 : predictor;              (* the predictor at construction *)
  h_pending0 : list point;          (* points_being_sampled handed to the constructor *)
  h_ops : list qop;
  h_outs : list (vec * list (nat * nat))   (* per evaluation: the estimates and the size= arguments of numpy.random.normal *)
}.

Fixpoint evals_ok (q N B : nat) (p : predictor) (o : qobj) (ops : list qop) (outs : list (vec * list (nat * nat))) : bool :=
  match ops, outs with
  | [], [] => true
  | QPredictor p' :: r, _ => evals_ok q N B p' o r outs
  | QPending pts :: r, _ => evals_ok q N B p (with_pending o pts) r outs
  | QEval sets entry stream :: r, (out, blocks) :: outs' =>
      let cs := (q + length (o_pending o))%nat in
      let n := length sets in
      let e := n_exec N B in
      let b := Nat.min B N in
      let per_call := passes N b N 0 in
      let bs := match entry with None => n | Some None => n | Some (Some b0) => if (b0 =? 0)%nat then n else b0 end in
      let calls := ((n + bs - 1) / bs)%nat in
      let csets := csets_now p o sets in
      let reading := map (fun k => set_estimate cs (nth k csets ([], [])) (mp_now p o) (o_best o)
                                     (executed_draws N B cs (skipn ((k / bs) * (e * cs)) stream))) (seq 0 n) in
      vec_eqb e out (eval p o sets entry stream)
      && vec_eqb e out reading
      && forallb (fun x => Qle_bool 0 x) out
      && blocks_eqb blocks (repeat (b, cs) (calls * per_call))
      && evals_ok q N B p o r outs'
  | _, _ => false
  end.

Definition hcheck (c : hcase) : bool :=
  evals_ok (h_q c) (h_N c) (h_B c) (h_pred0 c) (construct (h_pred0 c) (h_q c) (h_pending0 c) (h_N c) (h_B c)) (h_ops c) (h_outs c).
