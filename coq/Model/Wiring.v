(* Executable Gallina reference of the documented pipeline of the expected-improvement endpoint, up to the numeric
   model (C06):   libsigopt/views/view.py (View.__init__ and the GPView methods), libsigopt/views/rest/gp_ei_categorical.py.
   From the raw request to a *model description*: for each Gaussian process to be built - which raw metric column and
   whose hyperparameters, the one-hot points (with task column), the scaled values with failures and constant-liar
   pending points replaced by the worst-value lie, the noise vector, kernel class and hyperparameter vector, nugget,
   mean polynomial - and which acquisition function applies, with which failure models and thresholds, which pending
   set, whether the value is divided by the task cost, the evaluation batch size and the encoded query points.

   Nothing is re-modelled here that another property already models: metric scaling is Model/Midpoint.v (C12), the
   one-hot encoding and the length-scale layout are Model/Decode.v (C09), the multimetric data filter is
   Model/Filters.v (C14), the epsilon thresholds are Model/Pareto.v (C13), the phase description is Model/Phases.v
   (C14), the lie noise constant is Model/Lies.v (C15).  No proofs here.  `None` = the endpoint raises. *)
From Coq Require Import List QArith ZArith Qabs Bool Arith.
From LV Require Model.Lies.
From LV Require Import Model.Domain Model.Decode Model.Midpoint Model.Pareto Model.Phases Model.Filters.
Import ListNotations.
Open Scope Q_scope.

(* ------------------------------------------------------------------------------------------ the raw request *)
(* one entry of model_info.hyperparameters: alpha, per-parameter length scales (None = default), task_length, tikhonov *)
Record hyper := mkhyper { hp_alpha : Q; hp_ls : list (list (option Q)); hp_task : option Q; hp_tik : option Q }.
Inductive parallelism := ConstantLiar | QEI.
Inductive mean_type := MeanZero | MeanConstant | MeanLinear | MeanCustom.

Record request := mkreq {
  q_dom : domain;
  q_points : list point; q_values : list (list Q); q_vars : list (list Q); q_fails : list bool;
  q_costs : list Q;                         (* points_sampled.task_costs (ignored when there are no task options) *)
  q_objs : list objective; q_opt_ix : list nat; q_con_ix : list nat; q_thr : list (option Q);
  q_pareto : bool;                          (* requires_pareto_frontier_optimization *)
  q_hypers : list hyper;
  q_pending : list point; q_pending_costs : list Q;
  q_eval : list point; q_eval_costs : list Q;
  q_par : parallelism;
  q_tasks : list Q;                         (* task_options *)
  q_mean : mean_type; q_poly : option (list (list Z));
  q_max_af : Z;                             (* max_simultaneous_af_points *)
  q_info : minfo                            (* the multimetric phase description the view drew (Model/Phases.v) *)
}.

(* ------------------------------------------------------------------------------------------ the description *)
Inductive kernel := KC4 | KC4xSE.           (* C4RadialMatern | MultitaskTensorCovariance(C4RadialMatern, SquareExponential) *)
Record gp_desc := mkgp {
  g_metric : nat;                           (* raw column = index into model_info.hyperparameters *)
  g_pts : list row; g_vals : list Q; g_noise : list Q;
  g_kernel : kernel; g_hyp : list Q; g_tik : option Q; g_mean : list (list Z) }.
Inductive pf_kind := PfLogistic | PfCdf.    (* ProbabilisticFailures | ProbabilisticFailuresCDF *)
Record pf_desc := mkpf { p_kind : pf_kind; p_thr : Q; p_gp : gp_desc }.
Inductive af_kind := AfEI | AfAEI | AfEIF | AfQEI | AfQEIF.
Record af_desc := mkaf {
  a_kind : af_kind;
  a_gps : list gp_desc; a_weights : list Q; (* weights = [] : a single GP; otherwise GaussianProcessSum *)
  a_pfs : list pf_desc;
  a_pending : list row;                     (* points_being_sampled of the parallel forms *)
  a_cost : bool;                            (* wrapped in MultitaskAcquisitionFunction: value / task cost *)
  a_batch : Z; a_eval : list row;
  a_best : option Q }.                      (* the incumbent, where it is a function of the data alone (plain and parallel EI) *)

(* ------------------------------------------------------------------------------------------ constants *)
Definition AEI_THRESHOLD : Q := 1 # 10000000.                 (* views/view.py AUGMENTED_EI_THRESHOLD = 1e-7 *)
Definition MAX_QEI_POINTS : Z := 100.                         (* DEFAULT_MAX_SIMULTANEOUS_QEI_POINTS *)

(* ------------------------------------------------------------------------------------------ encoding *)
Definition has_tasks (r : request) : bool := negb (Nat.eqb (length (q_tasks r)) 0).
Definition dim_with_task (r : request) : nat := (one_hot_dim (comps (q_dom r)) + (if has_tasks r then 1 else 0))%nat.

(* form_one_hot_points_with_tasks: one row per point; the `assert ... in component["elements"]` of the encoder *)
Fixpoint encode_rows (d : domain) (tasks : bool) (pts : list point) (costs : list Q) : option (list row) :=
  match pts with
  | [] => Some []
  | p :: ps =>
      if negb (Nat.eqb (length p) (length (comps d)) && encode_ok (comps d) p) then None else
      if tasks then
        match costs with
        | c :: cs => option_map (Datatypes.cons (encode_with_task d p (Some c))) (encode_rows d tasks ps cs)
        | [] => None
        end
      else option_map (Datatypes.cons (encode_with_task d p None)) (encode_rows d tasks ps costs)
  end.

(* ------------------------------------------------------------------------------------------ one Gaussian process *)
(* GPView.form_one_hot_covariance_base: [alpha] + one-hot length scales + ([] if task_length is None else [task_length]) *)
Definition hyper_vec (cs : list component) (h : hyper) : option (list Q) :=
  sequence ([Some (hp_alpha h)] ++ ls_to_one_hot cs (hp_ls h) ++ match hp_task h with None => [] | Some t => [Some t] end).

(* validate_polynomial_indices *)
Definition poly_indices (mt : mean_type) (poly : option (list (list Z))) (dim : nat) : option (list (list Z)) :=
  match mt with
  | MeanConstant => Some [repeat 0%Z dim]
  | MeanLinear =>
      Some (repeat 0%Z dim :: map (fun k => map (fun j => if Nat.eqb j k then 1%Z else 0%Z) (seq 0 dim)) (seq 0 dim))
  | _ => match poly with
         | None | Some [] => Some []
         | Some rows => if forallb (fun row => Nat.eqb (length row) dim) rows then Some rows else None
         end
  end.

(* GPView.form_single_gaussian_process for hyperparameter_dict = hyperparameters[metric] *)
Definition single_gp (r : request) (pend pts : list row) (vals noise : list Q) (lie : Q) (metric : nat) : option gp_desc :=
  match nth_error (q_hypers r) metric with
  | None => None
  | Some h =>
      match hyper_vec (comps (q_dom r)) h, poly_indices (q_mean r) (q_poly r) (dim_with_task r) with
      | Some hv, Some pi =>
          let cl := match q_par r with ConstantLiar => true | QEI => false end in
          let pts' := if cl then pts ++ pend else pts in
          let vals' := if cl then vals ++ repeat lie (length pend) else vals in
          let noise' := if cl then noise ++ repeat Lies.lie_noise (length pend) else noise in
          if Nat.eqb (length hv) (S (dim_with_task r)) && forallb (fun x => Qltb 0 x) hv
             && negb (Nat.eqb (length pts') 0) && Nat.leb (length pi) (length pts')
             && forallb (fun p => Nat.eqb (length p) (dim_with_task r)) pts'
          then Some (mkgp metric pts' vals' noise' (if has_tasks r then KC4xSE else KC4) hv (hp_tik h) pi)
          else None
      | _, _ => None
      end
  end.

(* ------------------------------------------------------------------------------------------ metric preprocessing *)
Definition opt_of (r : request) : option view_out :=
  match q_opt_ix r with
  | [] => None                                        (* "must have optimization metrics" *)
  | ix => preprocess ix (q_values r) (q_vars r) (q_fails r) (q_objs r) (q_thr r)
  end.
Definition con_of (r : request) : option view_out :=
  preprocess (q_con_ix r) (q_values r) (q_vars r) (q_fails r) (q_objs r) (q_thr r).

Definition arr2 (a : arr) : list row := match a with A2 l => l | _ => [] end.

(* GPView.form_gaussian_process_for_acquisition_function: the GPs and the weights ([] = not a sum) *)
Definition opt_metric (i : minfo) : nat := match i with OptOne om _ | EpsC om _ _ => om | _ => O end.
Definition main_gps (r : request) (o : view_out) (pts pend : list row) : option (list gp_desc * list Q) :=
  let fo := filter_gp (q_info r) pts (v_values o) (v_vars o) (q_fails r) (v_lie o) in
  match q_info r with
  | Convex w0 w1 =>
      match sequence (map (fun i => single_gp r pend (o_pts fo) (col i (arr2 (o_vals fo))) (col i (arr2 (o_vars fo)))
                                              (nth i (arr1 (o_lie fo)) 0) (nth i (q_opt_ix r) O))
                          (seq 0 (length (q_opt_ix r)))) with
      | Some gs => Some (gs, [w0; w1])
      | None => None
      end
  | i =>
      match single_gp r pend (o_pts fo) (arr1 (o_vals fo)) (arr1 (o_vars fo)) (arr0 (o_lie fo))
                      (nth (opt_metric i) (q_opt_ix r) O) with
      | Some g => Some ([g], [])
      | None => None
      end
  end.

(* GPView._form_gp_for_probabilistic_failures: all rows, column j of the preprocessed block, hyperparameters of ix[j] *)
Definition gp_for_pf (r : request) (src : view_out) (ix : list nat) (pts pend : list row) (j : nat) : option gp_desc :=
  single_gp r pend pts (col j (v_values src)) (col j (v_vars src)) (nth j (v_lie src) 0) (nth j ix O).

(* the epsilon threshold of the failure model: find_epsilon_constraint_value on ALL rows with the scaled user thresholds;
   the thresholds reach it as a float array, a missing one is NaN: every comparison with it is false, which sends the
   routine to its no-bounds arm unless both thresholds are present *)
Definition both_thresholds (thr : list (option Q)) : option (Q * Q) :=
  match thr with [Some a; Some b] => Some (a, b) | _ => None end.
Definition eps_threshold_view (eps : Q) (cm : nat) (vals : list row) (thr : list (option Q)) : Q :=
  match both_thresholds thr with
  | Some (a, b) => eps_with_bounds eps cm vals (Some a) (Some b)
  | None => eps_no_bounds eps cm vals
  end.

(* GPView._form_probabilistic_failures_for_pareto_frontier_optimization *)
Definition eps_pfs (r : request) (o : view_out) (pts pend : list row) : option (list pf_desc) :=
  match q_info r with
  | EpsC om cm eps =>
      let both := both_thresholds (v_thresholds o) in
      let cthr := eps_threshold_view eps cm (v_values o) (v_thresholds o) in
      let t0 := if Nat.eqb cm 0 then Some cthr else option_map fst both in
      let t1 := if Nat.eqb cm 0 then option_map snd both else Some cthr in
      let mk (j : nat) (t : option Q) :=
        match t with
        | None => Some []
        | Some t => option_map (fun g => [mkpf PfLogistic t g]) (gp_for_pf r o (q_opt_ix r) pts pend j)
        end in
      match mk 0%nat t0, mk 1%nat t1 with Some a, Some b => Some (a ++ b) | _, _ => None end
  | _ => Some []
  end.

(* GPView._form_list_of_probabilistic_failures_for_constraint_metrics (threshold NaN: the assert of the failure class) *)
Definition con_pfs (r : request) (pts pend : list row) : option (list pf_desc) :=
  match q_con_ix r with
  | [] => Some []
  | ix =>
      match con_of r with
      | None => None
      | Some c =>
          sequence (map (fun i => match nth i (v_thresholds c) None with
                                  | None => None
                                  | Some t => option_map (mkpf PfCdf t) (gp_for_pf r c ix pts pend i)
                                  end) (seq 0 (length ix)))
      end
  end.

(* ------------------------------------------------------------------------------------------ the predictor's data *)
Fixpoint wsum (f : Q -> Q) (n : nat) (ws : list Q) (cols : list (list Q)) : list Q :=
  match ws, cols with
  | w :: ws', c :: cols' => map2 Qplus (map (Qmult (f w)) c) (wsum f n ws' cols')
  | _, _ => repeat 0 n
  end.
Definition pred_len (gs : list gp_desc) : nat := match gs with g :: _ => length (g_vals g) | [] => O end.
(* points_sampled_value / points_sampled_noise_variance of the GP or of the GaussianProcessSum *)
Definition pred_vals (gs : list gp_desc) (ws : list Q) : list Q :=
  match ws with
  | [] => match gs with g :: _ => g_vals g | [] => [] end
  | _ => wsum (fun w => w) (pred_len gs) ws (map g_vals gs)
  end.
Definition pred_noise (gs : list gp_desc) (ws : list Q) : list Q :=
  match ws with
  | [] => match gs with g :: _ => g_noise g | [] => [] end
  | _ => wsum (fun w => w * w) (pred_len gs) ws (map g_noise gs)
  end.
Definition mean_q (l : list Q) : Q := list_sum l / inject_Z (Z.of_nat (length l)).
Definition min_q (l : list Q) : option Q := match l with [] => None | x :: t => Some (Midpoint.list_min x t) end.

(* ------------------------------------------------------------------------------------------ the endpoint *)
Definition shape_ok (r : request) : bool :=
  let n := length (q_points r) in
  Nat.eqb (length (q_values r)) n && Nat.eqb (length (q_vars r)) n && Nat.eqb (length (q_fails r)) n &&
  negb (Nat.eqb (length (q_eval r)) 0).
(* what View.form_multimetric_info can produce for this request (the drawn parameters themselves are C14's subject) *)
Definition info_ok (r : request) : bool :=
  match q_info r with
  | NotMM => negb (q_pareto r)
  | i => q_pareto r && Nat.eqb (length (q_opt_ix r)) 2 &&
         match i with
         | OptOne om cm => Nat.eqb (om + cm) 1
         | EpsC om cm eps => Nat.eqb (om + cm) 1 && Qltb 0 eps && Qltb eps 1 && existsb negb (q_fails r)
         | _ => true
         end
  end.

Definition use_qei (r : request) (pend : list row) : bool :=
  match q_par r with QEI => negb (Nat.eqb (length pend) 0) | ConstantLiar => false end.

(* GPView.form_acquisition_function + get_relevant_expected_improvement *)
Definition choose_af (use_q has_pf : bool) (noise : list Q) : af_kind :=
  if use_q then (if has_pf then AfQEIF else AfQEI)
  else if has_pf then AfEIF
  else if Qltb AEI_THRESHOLD (mean_q noise) then AfAEI else AfEI.

(* GpEiCategoricalView.view *)
Definition wire (r : request) : option af_desc :=
  if negb (shape_ok r && info_ok r) then None else
  match opt_of r,
        encode_rows (q_dom r) (has_tasks r) (q_points r) (q_costs r),
        encode_rows (q_dom r) (has_tasks r) (q_pending r) (q_pending_costs r),
        encode_rows (q_dom r) (has_tasks r) (q_eval r) (q_eval_costs r) with
  | Some o, Some pts, Some pend, Some ev =>
      match main_gps r o pts pend, eps_pfs r o pts pend, con_pfs r pts pend with
      | Some (gs, ws), Some pf1, Some pf2 =>
          let pfs := pf1 ++ pf2 in
          let use_q := use_qei r pend in
          let kind := choose_af use_q (negb (Nat.eqb (length pfs) 0)) (pred_noise gs ws) in
          let batch := if use_q then Z.min (q_max_af r) MAX_QEI_POINTS else q_max_af r in
          if (batch <? 0)%Z then None else
          Some (mkaf kind gs ws pfs (if use_q then pend else []) (has_tasks r) batch ev
                     (match kind with AfEI | AfQEI => min_q (pred_vals gs ws) | _ => None end))
      | _, _, _ => None
      end
  | _, _, _, _ => None
  end.

(* MultitaskAcquisitionFunction: the value of the underlying acquisition function divided by the task cost, which is
   the last coordinate of the encoded query point *)
Definition finalize (d : af_desc) (af_values : list Q) : list Q :=
  if a_cost d then map2 (fun v p => v / last p 1) af_values (a_eval d) else af_values.

Definition all_gps (d : af_desc) : list gp_desc := a_gps d ++ map p_gp (a_pfs d).
