(* Correspondence cases for C06.  For a generated raw request the harness runs GpEiCategoricalView(params).view(), spies
   on the evaluator the endpoint really used and reads the constructed objects back (introspection): every Gaussian
   process (historical data, kernel class, hyperparameter vector, nugget, mean polynomial), the acquisition-function
   class, the failure models with their thresholds, the pending set of the parallel form, the incumbent, the encoded
   query points, the batch size, the values of the acquisition function before the cost division and the response.
   [check] compares all of that with Model.Wiring.wire inside Coq: labels, index choices, points and hyperparameters
   exactly; numbers that went through the midpoint scaling to 1e-12 relative; and evaluates the decidable
   specifications (response shape, one-hot query points decode back to the raw query points) on the outputs. *)
From Coq Require Import List QArith ZArith Qabs Bool Arith.
From LV Require Import Model.Domain Model.Decode Model.Midpoint Model.Pareto Model.Phases Model.Filters Model.Wiring.
Import ListNotations.
Open Scope Q_scope.

Definition TOL : Q := 1 # 1000000000000.
(* |a - b| <= 1e-12 * (|b| + extra); b is the reference value *)
Definition close_x (extra a b : Q) : bool := Qle_bool (Qabs (a - b)) (TOL * (Qabs b + extra)).
Definition close : Q -> Q -> bool := close_x (1 # 1000).     (* scaled values and thresholds live in [-0.1, 0.1] *)
Definition close_rel : Q -> Q -> bool := close_x 0.          (* noise variances (down to 1e-12) *)
(* responses: an expected improvement can be a subnormal double (1.5e-323 is three units in the last place): dividing it by a task cost rounds with a
   relative error of tens of per cent.  Below 1e-290 the comparison is absolute (quick tier, seed 303: response 1.5e-323 against 1.1e-323 / 0.75). *)
Definition TINY : Q := 1 # (10 ^ 290).
Definition close_resp (a b : Q) : bool := close_rel a b || Qle_bool (Qabs (a - b)) TINY.

Fixpoint all2b {A B} (f : A -> B -> bool) (a : list A) (b : list B) : bool :=
  match a, b with [], [] => true | x :: a', y :: b' => f x y && all2b f a' b' | _, _ => false end.
Definition qlist_eq := all2b Qeq_bool.
Definition rows_eq := all2b qlist_eq.
Definition zrows_eq := all2b (all2b Z.eqb).
Definition oq_eq (a b : option Q) : bool :=
  match a, b with None, None => true | Some x, Some y => Qeq_bool x y | _, _ => false end.

(* what the harness read back from one GaussianProcess object *)
Record obs_gp := mkogp {
  og_pts : list row; og_vals : list Q; og_noise : list Q;
  og_kernel : list nat;            (* covariance_type codes: 0 c4_radial_matern, 1 square_exponential, 2 c2, 3 c0, 9 other;
                                      one entry = plain kernel, two = multitask tensor (physical, task) *)
  og_hyp : list Q; og_tik : option Q; og_mean : list (list Z) }.
Record obs_pf := mkopf { op_kind : nat; op_thr : Q; op_gp : obs_gp }.      (* 0 logistic, 1 CDF *)
Record obs := mkobs {
  ob_af : nat;                     (* 0 EI, 1 augmented EI, 2 EI with failures, 3 parallel EI, 4 parallel EI with failures *)
  ob_wrapped : bool;               (* MultitaskAcquisitionFunction around it *)
  ob_gps : list obs_gp; ob_weights : list Q;
  ob_pfs : list obs_pf;
  ob_pending : list row;           (* points_being_sampled of the parallel forms, [] otherwise *)
  ob_eval : list row; ob_batch : Z;
  ob_best : option Q;
  ob_raw : list Q;                 (* underlying evaluator on the recorded points *)
  ob_resp : list Q }.

Inductive case :=
| CRaised (r : request)            (* the endpoint raised *)
| CObs (r : request) (o : obs).

Definition kernel_code (k : kernel) : list nat := match k with KC4 => [0%nat] | KC4xSE => [0%nat; 1%nat] end.
Definition af_code (k : af_kind) : nat :=
  match k with AfEI => 0 | AfAEI => 1 | AfEIF => 2 | AfQEI => 3 | AfQEIF => 4 end%nat.
Definition pf_code (k : pf_kind) : nat := match k with PfLogistic => 0 | PfCdf => 1 end%nat.

Definition gp_match (g : gp_desc) (o : obs_gp) : bool :=
  rows_eq (og_pts o) (g_pts g) && all2b close (og_vals o) (g_vals g) && all2b close_rel (og_noise o) (g_noise g) &&
  all2b Nat.eqb (og_kernel o) (kernel_code (g_kernel g)) && qlist_eq (og_hyp o) (g_hyp g) && oq_eq (og_tik o) (g_tik g) &&
  zrows_eq (og_mean o) (g_mean g).
Definition pf_match (p : pf_desc) (o : obs_pf) : bool :=
  Nat.eqb (op_kind o) (pf_code (p_kind p)) && close (op_thr o) (p_thr p) && gp_match (p_gp p) (op_gp o).

(* the implementation's one-hot query point, read with C09's deterministic decoder, is the raw query point *)
Definition decodes_to (d : domain) (x : row) (p : point) : bool :=
  match decode_det d (firstn (one_hot_dim (comps d)) x) with Some q => peqb q p | None => false end.

(* one finite non-negative number per query point (non-finite numbers cannot be printed as Q literals: the harness reports
   them before a case is written) *)
Definition resp_spec_b (r : request) (resp : list Q) : bool :=
  Nat.eqb (length resp) (length (q_eval r)) && forallb (Qle_bool 0) resp.

(* a mean noise within 1e-9 relative of the augmented-EI threshold is decided by float rounding: class not compared *)
Definition near_aei (d : af_desc) : bool :=
  match a_kind d with
  | AfEI | AfAEI => Qle_bool (Qabs (mean_q (pred_noise (a_gps d) (a_weights d)) - AEI_THRESHOLD)) (AEI_THRESHOLD * (1 # 1000000000))
  | _ => false
  end.

(* (i) numpy.argsort is not stable: when the minimum-success repair of the epsilon-constraint data filter has to choose among
   equal optimising values (typically several failed rows, which all hold the lie), which rows it restores is unspecified;
   (ii) or a scaled value sits on the threshold of the filter;
   then only the model-independent part of the main Gaussian process is compared (C13 treats the same tie the same way) *)
Fixpoint has_dup (l : list Q) : bool :=
  match l with [] => false | x :: t => existsb (Qeq_bool x) t || has_dup t end.
Fixpoint insert_q (x : Q) (l : list Q) : list Q :=
  match l with [] => [x] | y :: t => if Qle_bool x y then x :: l else y :: insert_q x t end.
Definition sort_q (l : list Q) : list Q := fold_right insert_q [] l.
Definition eps_tie (r : request) : bool :=
  match q_info r, opt_of r with
  | EpsC om cm eps, Some v =>
      let lab := eps_failures eps cm (v_values v) (q_fails r) in
      (let ns := Pareto.count_true (map negb lab) in
       let sorted := sort_q (Pareto.select lab (col om (v_values v))) in
       let k := (min_success - ns)%nat in
       (* the cut of argsort(...)[:k] falls between two equal values *)
       Nat.ltb ns min_success && Nat.ltb k (length sorted) && Qeq_bool (nth (k - 1) sorted 0) (nth k sorted 0)) ||
      (* a scaled value within 1e-9 of the data filter's threshold: float rounding decides on which side it falls *)
      (let thr := eps_no_bounds eps cm (Pareto.select (map negb (q_fails r)) (v_values v)) in
       existsb (fun y => Qle_bool (Qabs (y - thr)) (1 # 1000000000)) (col cm (v_values v)))
  | _, _ => false
  end.
Definition gp_match_weak (g : gp_desc) (o : obs_gp) : bool :=
  Nat.eqb (length (og_pts o)) (length (g_pts g)) && Nat.eqb (length (og_vals o)) (length (g_vals g)) &&
  Nat.eqb (length (og_noise o)) (length (g_noise g)) &&
  all2b Nat.eqb (og_kernel o) (kernel_code (g_kernel g)) && qlist_eq (og_hyp o) (g_hyp g) && oq_eq (og_tik o) (g_tik g) &&
  zrows_eq (og_mean o) (g_mean g).

Definition desc_match (r : request) (d : af_desc) (o : obs) : bool :=
  (near_aei d || Nat.eqb (ob_af o) (af_code (a_kind d))) &&
  Bool.eqb (ob_wrapped o) (a_cost d) &&
  all2b (if eps_tie r then gp_match_weak else gp_match) (a_gps d) (ob_gps o) && qlist_eq (ob_weights o) (a_weights d) &&
  all2b pf_match (a_pfs d) (ob_pfs o) &&
  rows_eq (ob_pending o) (a_pending d) &&
  rows_eq (ob_eval o) (a_eval d) && Z.eqb (ob_batch o) (a_batch d) &&
  match a_best d, ob_best o with Some b, Some b' => close b' b | None, _ => true | Some _, None => false end &&
  all2b close_resp (ob_resp o) (finalize d (ob_raw o)) &&
  resp_spec_b r (ob_resp o) &&
  all2b (decodes_to (q_dom r)) (ob_eval o) (q_eval r).

Definition check (c : case) : bool :=
  match c with
  | CRaised r => match wire r with None => true | Some _ => false end
  | CObs r o => match wire r with None => false | Some d => desc_match r d o end
  end.

(* which branch of the reference a case exercises (measured by the harness for the evidence) *)
Definition branch_code (c : case) : nat :=
  match c with
  | CRaised _ => 99%nat
  | CObs r _ => match wire r with None => 98%nat | Some d => af_code (a_kind d) end
  end.

(* cases compared at full strength (false = the weak comparison of the main Gaussian process was used); counted by the harness *)
Definition full_strength (c : case) : bool := match c with CRaised _ => true | CObs r _ => negb (eps_tie r) end.
