(* Executable model of libsigopt/compute/misc/data_containers.py (MetricMidpointInfo, SingleMetricMidpointInfo,
   MultiMetricMidpointInfo) and of their use in libsigopt/views/view.py (_preprocess_optimization_metrics,
   _preprocess_constraint_metrics) -- property C12.  No proofs here.  Values are exact rationals; every division of the
   code is the guarded [Qdiv_safe], so that "never NaN / inf" is the theorem "the result is not None". *)
From Coq Require Import List QArith Qabs Bool Arith.
Import ListNotations.
Open Scope Q_scope.

(* ------------------------------------------------------------------------------------------ constants of the code *)
Definition SCALE_FACTOR : Q := 1 # 10.                    (* MIDPOINT_NORMALIZATION_SCALE_FACTOR = 0.1 *)
Definition MIN_HALF_WIDTH : Q := 1 # 100000000.           (* MINIMUM_METRIC_HALF_WIDTH = 1.0e-8 *)
Definition MIN_VALUE_VAR : Q := 1 # 10000000000.          (* aux.constant.MINIMUM_VALUE_VAR = 1.0e-10 *)
Definition SKIP_VALUE_VAR : Q := 1 # 1000000.             (* literal 1e-6 in relative_objective_variance, skip mode *)
Definition DEFAULT_LIE : Q := (-123456789) # 10000000000. (* DEFAULT_CONSTANT_LIAR_VALUE = -0.0123456789 *)

(* ------------------------------------------------------------------------------------------ small helpers *)
Definition Qltb (x y : Q) : bool := negb (Qle_bool y x).
Definition Qminb (a b : Q) : Q := if Qle_bool a b then a else b.
Definition Qmaxb (a b : Q) : Q := if Qle_bool a b then b else a.
Definition Qdiv_safe (a b : Q) : option Q := if Qeq_bool b 0 then None else Some (a / b).

(* values[mask] *)
Fixpoint select {A} (mask : list bool) (l : list A) : list A :=
  match mask, l with b :: m, x :: r => if b then x :: select m r else select m r | _, _ => [] end.

(* numpy.min / numpy.max of a non-empty array x :: r *)
Definition list_min (x : Q) (r : list Q) : Q := fold_left Qminb r x.
Definition list_max (x : Q) (r : list Q) : Q := fold_left Qmaxb r x.
Definition list_sum (l : list Q) : Q := fold_left Qplus l 0.

Inductive objective := Minimize | Maximize | NoObjective.
(* get_negate_from_objective: 1 if objective == "minimize" else -1 *)
Definition negate_of (o : objective) : Q := match o with Minimize => 1 | _ => -1 end.

(* which arm of SingleMetricMidpointInfo.__init__ was executed *)
Inductive branch := BSkip | BRegular | BDegenBig | BDegenSmall.

Record info := mkinfo {
  i_skip : bool;          (* self.skip  (force_skip; midpoint is never None) *)
  i_branch : branch;
  i_negate : Q;
  i_mid : Q;              (* meaningless when the branch is BSkip (the code holds an empty array there) *)
  i_scale : Q;            (* idem *)
  i_nonfail : list Q      (* self.non_fail_values *)
}.

(* SingleMetricMidpointInfo.__init__(values, failures, objective) *)
Definition smmi (vals : list Q) (fails : list bool) (o : objective) : option info :=
  let nf := select (map negb fails) vals in
  let ng := negate_of o in
  match nf with
  | [] => Some (mkinfo true BSkip ng 0 1 nf)
  | x :: r =>
      let mn := list_min x r in
      let mx := list_max x r in
      if Qltb ((mx - mn) * (1 # 2)) MIN_HALF_WIDTH then
        if Qltb 1 (Qminb (Qabs mx) (Qabs mn)) then
          match Qdiv_safe 1 (Qmaxb (Qabs mn) (Qabs mx)) with
          | Some s => Some (mkinfo false BDegenBig ng mn s nf)
          | None => None
          end
        else Some (mkinfo false BDegenSmall ng 0 1 nf)
      else
        match Qdiv_safe (2 * SCALE_FACTOR) (mx - mn) with
        | Some s => Some (mkinfo false BRegular ng ((mx + mn) * (1 # 2)) s nf)
        | None => None
        end
  end.

(* MetricMidpointInfo.relative_objective_value, one entry *)
Definition rel_value (i : info) (v : Q) : Q :=
  if i_skip i then i_negate i * v else i_negate i * i_scale i * (v - i_mid i).

(* MetricMidpointInfo.relative_objective_variance, one entry (numpy.fmax on finite data = max) *)
Definition rel_var (i : info) (w : Q) : Q :=
  if i_skip i then Qmaxb w SKIP_VALUE_VAR else Qmaxb (w * (i_scale i * i_scale i)) MIN_VALUE_VAR.

(* MetricMidpointInfo.undo_scaling, one entry *)
Definition undo_value (i : info) (y : Q) : option Q :=
  if i_skip i then Some (i_negate i * y)
  else match Qdiv_safe (i_negate i * y) (i_scale i) with Some q => Some (q + i_mid i) | None => None end.

(* MetricMidpointInfo.undo_scaling_variances, one entry *)
Definition undo_var (i : info) (w : Q) : option Q :=
  if i_skip i then Some w else Qdiv_safe w (i_scale i * i_scale i).

Inductive lie_method := LieMin | LieMax | LieMean.

(* SingleMetricMidpointInfo.compute_lie_value *)
Definition lie_value (i : info) (m : lie_method) : option Q :=
  match i_nonfail i with
  | [] => Some DEFAULT_LIE
  | x :: r =>
      let maximizing := Qeq_bool (i_negate i) (-1) in
      match m with
      | LieMin => Some (if maximizing then list_min x r else list_max x r)
      | LieMax => Some (if maximizing then list_max x r else list_min x r)
      | LieMean => Qdiv_safe (list_sum (x :: r)) (inject_Z (Z.of_nat (length (x :: r))))
      end
  end.

(* ------------------------------------------------------------------------------------------ several metrics *)
Fixpoint sequence {A} (l : list (option A)) : option (list A) :=
  match l with
  | [] => Some []
  | None :: _ => None
  | Some x :: r => match sequence r with Some r' => Some (x :: r') | None => None end
  end.

Definition column (k : nat) (vals : list (list Q)) : list Q := map (fun r => nth k r 0) vals.
Definition set_skip (b : bool) (i : info) : info :=
  mkinfo (i_skip i || b) (i_branch i) (i_negate i) (i_mid i) (i_scale i) (i_nonfail i).

(* MultiMetricMidpointInfo.__init__(values, failures, objectives); m = values.shape[1];
   objectives = None (or an empty list) gives objective None to every metric.  The result is the tuple of
   per-metric infos after the force_skip synchronisation; self.skip is [m_skip]. *)
Definition obj_at (objs : option (list objective)) (k : nat) : objective :=
  match objs with Some (o :: os) => nth k (o :: os) NoObjective | _ => NoObjective end.
Definition mmi (m : nat) (vals : list (list Q)) (fails : list bool) (objs : option (list objective))
  : option (list info) :=
  match sequence (map (fun k => smmi (column k vals) fails (obj_at objs k)) (seq 0 m)) with
  | None => None
  | Some infos => let any := existsb i_skip infos in Some (map (set_skip any) infos)
  end.
Definition m_skip (infos : list info) : bool := existsb i_skip infos.

Fixpoint map2 {A B C} (f : A -> B -> C) (a : list A) (b : list B) : list C :=
  match a, b with x :: a', y :: b' => f x y :: map2 f a' b' | _, _ => [] end.

(* the array methods on one row of a 2-D array (broadcast along the metric axis) *)
Definition rel_row (infos : list info) (r : list Q) : list Q := map2 rel_value infos r.
Definition rel_var_row (infos : list info) (r : list Q) : list Q := map2 rel_var infos r.
Definition undo_row (infos : list info) (r : list Q) : option (list Q) := sequence (map2 undo_value infos r).
Definition undo_var_row (infos : list info) (r : list Q) : option (list Q) := sequence (map2 undo_var infos r).
Definition lie_row (infos : list info) (m : lie_method) : option (list Q) :=
  sequence (map (fun i => lie_value i m) infos).

(* ------------------------------------------------------------------------------------------ the view *)
Record view_out := mkview {
  v_values : list (list Q);          (* points_sampled_for_af_values / _pf_values *)
  v_lie : list Q;                    (* scaled_optimized_lie_values / scaled_constraint_lie_values *)
  v_vars : list (list Q);            (* points_sampled_for_af_value_vars / _pf_value_vars *)
  v_thresholds : list (option Q)     (* optimized_metrics_thresholds / constraint_thresholds; None = NaN = no threshold *)
}.

Definition pick {A} (d : A) (ix : list nat) (l : list A) : list A := map (fun k => nth k l d) ix.

(* View._preprocess_optimization_metrics / _preprocess_constraint_metrics with metric index list [ix]
   (values[:, ix], objectives[ix], thresholds[ix]); objectives in a request are always strings *)
Definition preprocess (ix : list nat) (vals vars : list (list Q)) (fails : list bool) (objs : list objective)
  (thr : list (option Q)) : option view_out :=
  let vals' := map (pick 0 ix) vals in
  let vars' := map (pick 0 ix) vars in
  let objs' := pick NoObjective ix objs in
  let thr' := pick None ix thr in
  match mmi (length ix) vals' fails (Some objs') with
  | None => None
  | Some infos =>
      match lie_row infos LieMin with
      | None => None
      | Some lie =>
          let slie := rel_row infos lie in
          Some (mkview
                  (map2 (fun (f : bool) r => if f then slie else rel_row infos r) fails vals')
                  slie
                  (map (rel_var_row infos) vars')
                  (map2 (fun i t => option_map (rel_value i) t) infos thr'))
      end
  end.

(* ------------------------------------------------------------------------------------------ what a failed row stores *)
(* the history in which the entry STORED with every failed observation (a value, or a whole row of values) is replaced by the
   corresponding entry of `junk` - an observation reported as failed still carries some number: a placeholder, a sentinel such as
   1e30, whatever the client sent; non-failed entries are kept; where `junk` runs out the stored entry stays.  Used to state that
   the normalisation never reads those numbers. *)
Fixpoint overwrite_failed {A} (fails : list bool) (vals junk : list A) : list A :=
  match fails, vals with
  | f :: fs, v :: vs => (if f then hd v junk else v) :: overwrite_failed fs vs (tl junk)
  | _, _ => vals
  end.

(* ------------------------------------------------------------------------------------------ decidable specifications,
   evaluated on the implementation's own outputs *)
Definition better_b (o : objective) (a b : Q) : bool := match o with Minimize => Qltb a b | _ => Qltb b a end.

(* order law on (value, scaled value) pairs: a better than b  <->  scaled a < scaled b *)
Definition order_spec_b (o : objective) (vals scaled : list Q) : bool :=
  let ps := combine vals scaled in
  forallb (fun p => forallb (fun q => Bool.eqb (better_b o (fst p) (fst q)) (Qltb (snd p) (snd q))) ps) ps.

(* the lie is one of the non-failed values and no non-failed value is worse *)
Definition lie_spec_b (o : objective) (nonfail : list Q) (l : Q) : bool :=
  existsb (fun v => Qeq_bool v l) nonfail && forallb (fun v => negb (better_b o l v)) nonfail.
