(* The LIVE GaussianProcessLogMarginalLikelihood object (libsigopt/compute/log_likelihood.py), linear parameterisation, radial kernel:
   what `ll.hyperparameters = hp` does to it statement by statement, including what has been assigned when an exception leaves the
   setter, and which GaussianProcess `compute_log_likelihood` reads.  NO proofs in this file.

     def set_hyperparameters(self, hyperparameters):
       if len(hyperparameters) != self.problem_size: raise ValueError                       -> nothing assigned
       self.covariance.hyperparameters = hp[: self.gp.dim + 1]                                -> HyperparameterInvalidError: nothing assigned (C03, radial)
       tikhonov_param = hp[-1] if self.use_auto_noise else None
       self.gp = GaussianProcess(self.covariance, self.historical_data, self.mean_poly_indices, tikhonov_param)
                                                                                              -> LinAlgError (cho_factor): the COVARIANCE is already updated,
                                                                                                 self.gp is still the GP of the previous fit
   The object holds its HistoricalData by reference: observations appended to the container are seen by the NEXT GaussianProcess that is
   built, not by the one the object holds.  get_hyperparameters reads covariance.hyperparameters (and self.gp.tikhonov_param);
   compute_log_likelihood reads only self.gp. *)
From Coq Require Import List QArith Bool Arith.
Import ListNotations.
Open Scope Q_scope.

(* what a GaussianProcess was BUILT from: its factorisation, weights and mean fit are functions of exactly these *)
Record gpsnap := mksnap { g_cov : list Q; g_tik : option Q; g_n : nat }.

Record lobj := mklobj {
  l_dim : nat;            (* gp.dim *)
  l_auto : bool;          (* use_auto_noise *)
  l_cov : list Q;         (* self.covariance.hyperparameters *)
  l_n : nat;              (* observations in the live HistoricalData *)
  l_gp : gpsnap           (* what self.gp was built from *)
}.

(* __init__ : GaussianProcess(covariance, data, mean, DEFAULT_TIKHONOV_PARAMETER if use_auto_noise else None) *)
Definition l_init (dim : nat) (auto : bool) (cov0 : list Q) (tik0 : option Q) (n : nat) : lobj :=
  mklobj dim auto cov0 n (mksnap cov0 tik0 n).

Inductive lres := RNormal | RLen | RInvalid | RLinAlg.

Definition lpos_b (x : Q) : bool := negb (Qle_bool x 0).
Definition problem_size (o : lobj) : nat := (S (l_dim o) + (if l_auto o then 1 else 0))%nat.

(* chol_ok: whether LAPACK factors the kernel matrix of (this vector, the observations held now) - an outcome of external code *)
Definition l_set (o : lobj) (hp : list Q) (chol_ok : bool) : lobj * lres :=
  if negb (length hp =? problem_size o)%nat then (o, RLen)
  else
    let cov := firstn (S (l_dim o)) hp in
    if negb (forallb lpos_b cov) then (o, RInvalid)
    else
      let o1 := mklobj (l_dim o) (l_auto o) cov (l_n o) (l_gp o) in
      if chol_ok then (mklobj (l_dim o) (l_auto o) cov (l_n o) (mksnap cov (if l_auto o then Some (last hp 0) else None) (l_n o)), RNormal)
      else (o1, RLinAlg).

Definition l_get (o : lobj) : list Q :=
  l_cov o ++ (if l_auto o then match g_tik (l_gp o) with Some t => [t] | None => [] end else []).

Inductive lop :=
| LSet (hp : list Q) (chol_ok : bool)
| LAppend (k : nat)                      (* ll.historical_data.append_historical_data(k observations) *)
| LGet
| LValue.                                (* compute_log_likelihood(): a function of what self.gp was built from (and of the scaling factor) *)
Inductive mout := MSet (r : lres) | MGet (hp : list Q) | MValue (s : gpsnap).

Definition l_step (o : lobj) (op : lop) : lobj * mout :=
  match op with
  | LSet hp ok => let '(o', r) := l_set o hp ok in (o', MSet r)
  | LAppend k => (mklobj (l_dim o) (l_auto o) (l_cov o) (l_n o + k) (l_gp o), MSet RNormal)
  | LGet => (o, MGet (l_get o))
  | LValue => (o, MValue (l_gp o))
  end.

Fixpoint l_run (o : lobj) (ops : list lop) : lobj * list mout :=
  match ops with
  | [] => (o, [])
  | op :: r => let '(o1, out) := l_step o op in let '(o2, outs) := l_run o1 r in (o2, out :: outs)
  end.

(* the object has fitted the model it reports on the data it holds *)
Definition fitted (o : lobj) : Prop := g_cov (l_gp o) = l_cov o /\ g_n (l_gp o) = l_n o.

(* ---- correspondence cases: what the running object showed ---- *)
Inductive iout :=
| ISet (r : lres)
| IGet (hp : list Q)
| IValue (reproduced_by : list gpsnap).   (* the (vector, nugget, number of observations) among those seen so far for which a FRESHLY built object returns the live value *)

Definition qlist_eqb (a b : list Q) : bool := (length a =? length b)%nat && forallb (fun p => Qeq_bool (fst p) (snd p)) (combine a b).
Definition oq_eqb (a b : option Q) : bool := match a, b with None, None => true | Some x, Some y => Qeq_bool x y | _, _ => false end.
Definition snap_eqb (a b : gpsnap) : bool := qlist_eqb (g_cov a) (g_cov b) && oq_eqb (g_tik a) (g_tik b) && (g_n a =? g_n b)%nat.
Definition lres_eqb (a b : lres) : bool :=
  match a, b with RNormal, RNormal | RLen, RLen | RInvalid, RInvalid | RLinAlg, RLinAlg => true | _, _ => false end.
Definition out_ok (m : mout) (i : iout) : bool :=
  match m, i with
  | MSet a, ISet b => lres_eqb a b
  | MGet a, IGet b => qlist_eqb a b
  | MValue s, IValue l => existsb (snap_eqb s) l
  | _, _ => false
  end.
Fixpoint outs_ok (m : list mout) (i : list iout) : bool :=
  match m, i with [], [] => true | x :: m', y :: i' => out_ok x y && outs_ok m' i' | _, _ => false end.

Record lcase := mklcase { lc_dim : nat; lc_auto : bool; lc_cov0 : list Q; lc_tik0 : option Q; lc_n : nat; lc_ops : list lop; lc_outs : list iout }.
Definition lcheck (c : lcase) : bool :=
  outs_ok (snd (l_run (l_init (lc_dim c) (lc_auto c) (lc_cov0 c) (lc_tik0 c) (lc_n c)) (lc_ops c))) (lc_outs c).
