(* Executable model of the one-hot encoding / decoding / snapping code of CategoricalDomain
   (libsigopt/compute/domain.py) and of the lattice-neighbour and task-snapping helpers of
   libsigopt/views/rest/gp_next_points_categorical.py and views/view.py (C09).  No proofs here.

   A relaxed ("one-hot") point is a list Q laid out exactly as form_one_hot_domain lays it out: one coordinate per
   double / int / quantized component, len(elements) coordinates per categorical component, in component order.  The
   functions below walk the component list and the relaxed point together; the running offset they keep implicitly is
   the `oh_num` counter of form_one_hot_domain, which oh_map makes explicit (and the correspondence compares it with
   the implementation's one_hot_to_categorical_mapping). *)
From Coq Require Import List QArith ZArith Bool Arith Qround Qabs.
From LV Require Import Model.Domain.
Import ListNotations.
Open Scope Q_scope.

Notation row := (list Q).

(* ------------------------------------------------------------------ numpy primitives *)
(* numpy.round / Python round: half to even *)
Definition round_half_even (x : Q) : Z :=
  let f := Qfloor x in
  let r := x - inject_Z f in
  match Qcompare r (1#2) with
  | Lt => f
  | Gt => (f + 1)%Z
  | Eq => if Z.even f then f else (f + 1)%Z
  end.
Definition Qminb (a b : Q) : Q := if Qle_bool a b then a else b.
Definition Qmaxb (a b : Q) : Q := if Qle_bool a b then b else a.
Definition list_min (l : list Q) : Q := match l with [] => 0 | x :: r => fold_left Qminb r x end.
Definition list_max (l : list Q) : Q := match l with [] => 0 | x :: r => fold_left Qmaxb r x end.

(* elems[numpy.argmin(numpy.abs(x - elems))]: the first element at minimal distance *)
Fixpoint nearest_from (x best : Q) (l : list Q) : Q :=
  match l with
  | [] => best
  | e :: r => if Qltb (Qabs (x - e)) (Qabs (x - best)) then nearest_from x e r else nearest_from x best r
  end.
Definition nearest (x : Q) (es : list Q) : Q := match es with [] => x | e :: r => nearest_from x e r end.

(* numpy.argmax: index of the first maximum *)
Fixpoint argmax_from (best : Q) (bi i : nat) (l : list Q) : nat :=
  match l with
  | [] => bi
  | v :: r => if Qltb best v then argmax_from v i (S i) r else argmax_from best bi (S i) r
  end.
Definition argmax (l : list Q) : nat := match l with [] => O | v :: r => argmax_from v O 1%nat r end.
Definition unit_vec (n k : nat) : row := map (fun i => if Nat.eqb i k then 1 else 0) (seq 0 n).

(* ------------------------------------------------------------------ form_one_hot_domain *)
Definition width (c : component) : nat := match c with Cat es => length es | _ => 1%nat end.
Definition one_hot_dim (cs : list component) : nat := fold_right (fun c n => (width c + n)%nat) O cs.
Definition box_of (c : component) : list (Q * Q) :=
  match c with
  | Double lo hi => [(lo, hi)]
  | Int lo hi => [(inject_Z lo, inject_Z hi)]
  | Grid es => [(list_min es, list_max es)]
  | Cat es => repeat (0, 1) (length es)
  end.
Definition one_hot_box (d : domain) : list (Q * Q) := flat_map box_of (comps d).
(* the index map: (var_type tag 0 double / 1 int / 2 categorical / 3 quantized, input_ind, input_ind_value_map) *)
Fixpoint oh_map (cs : list component) (oh_num : nat) : list (nat * nat * list (nat * Z)) :=
  match cs with
  | [] => []
  | Double _ _ :: r => (0%nat, oh_num, []) :: oh_map r (S oh_num)
  | Int _ _ :: r => (1%nat, oh_num, []) :: oh_map r (S oh_num)
  | Grid _ :: r => (3%nat, oh_num, []) :: oh_map r (S oh_num)
  | Cat es :: r => (2%nat, oh_num, combine (seq oh_num (length es)) es) :: oh_map r (oh_num + length es)
  end.
Definition in_box (b : list (Q * Q)) (x : row) : Prop := Forall2 (fun lh v => fst lh <= v /\ v <= snd lh) b x.
Definition in_boxb (b : list (Q * Q)) (x : row) : bool := forall2b (fun lh v => Qle_bool (fst lh) v && Qle_bool v (snd lh)) b x.

Definition is_cat (c : component) : bool := match c with Cat _ => true | _ => false end.
Definition is_grid (c : component) : bool := match c with Grid _ => true | _ => false end.
Definition is_int (c : component) : bool := match c with Int _ _ => true | _ => false end.
Definition has_cat (cs : list component) : bool := existsb is_cat cs.
Definition has_grid (cs : list component) : bool := existsb is_grid cs.

(* ------------------------------------------------------------------ map_categorical_point_to_one_hot *)
Fixpoint enc (cs : list component) (p : point) : row :=
  match cs, p with
  | Cat es :: r, v :: t => map (fun e => if Qeq_bool v (inject_Z e) then 1 else 0) es ++ enc r t
  | _ :: r, v :: t => v :: enc r t
  | _, _ => []
  end.
Definition encode (d : domain) (p : point) : row := if has_cat (comps d) then enc (comps d) p else p.
(* the `assert this_cat_ind_value in component["elements"]` of the encoder *)
Fixpoint encode_ok (cs : list component) (p : point) : bool :=
  match cs, p with
  | Cat es :: r, v :: t => existsb (fun e => Qeq_bool v (inject_Z e)) es && encode_ok r t
  | _ :: r, _ :: t => encode_ok r t
  | _, _ => true
  end.
(* views/view.py form_one_hot_points_with_tasks, one row *)
Definition encode_with_task (d : domain) (p : point) (task : option Q) : row :=
  match task with None => encode d p | Some c => encode d p ++ [c] end.

(* ------------------------------------------------------------------ the three deterministic rounding functions
   (extra trailing coordinates, e.g. a task cost column, are left untouched, as the column updates of the code do) *)
Fixpoint round_int_row (cs : list component) (x : row) : row :=
  match cs with
  | [] => x
  | Int _ _ :: r => match x with v :: t => inject_Z (round_half_even v) :: round_int_row r t | [] => [] end
  | Cat es :: r => firstn (length es) x ++ round_int_row r (skipn (length es) x)
  | _ :: r => match x with v :: t => v :: round_int_row r t | [] => [] end
  end.
Fixpoint round_grid_row (cs : list component) (x : row) : row :=
  match cs with
  | [] => x
  | Grid es :: r => match x with v :: t => nearest v es :: round_grid_row r t | [] => [] end
  | Cat es :: r => firstn (length es) x ++ round_grid_row r (skipn (length es) x)
  | _ :: r => match x with v :: t => v :: round_grid_row r t | [] => [] end
  end.
Fixpoint round_cat_row (cs : list component) (x : row) : row :=
  match cs with
  | [] => x
  | Cat es :: r => unit_vec (length es) (argmax (firstn (length es) x)) ++ round_cat_row r (skipn (length es) x)
  | _ :: r => match x with v :: t => v :: round_cat_row r t | [] => [] end
  end.
Definition round_ints (d : domain) (xs : list row) : list row := map (round_int_row (comps d)) xs.
Definition round_grids (d : domain) (xs : list row) : list row := map (round_grid_row (comps d)) xs.
Definition round_cats (d : domain) (xs : list row) : list row := map (round_cat_row (comps d)) xs.
Definition snap_det (d : domain) (x : row) : row :=
  round_grid_row (comps d) (round_cat_row (comps d) (round_int_row (comps d) x)).

(* ------------------------------------------------------------------ the decode map_one_hot_points_to_categorical,
   one row, generic in how a category is chosen from a block of relaxed values *)
Fixpoint decode_gen {O : Type} (choose : O -> row -> list Z -> option Z) (cs : list component) (os : list O) (x : row)
  : option point :=
  match cs with
  | [] => match x with [] => Some [] | _ => None end            (* assert len(one_hot_point) == one_hot_dim *)
  | Cat es :: r =>
      if Nat.ltb (length x) (length es) then None else
      match os with
      | [] => None
      | o :: os' =>
          match choose o (firstn (length es) x) es with
          | None => None
          | Some c => option_map (Datatypes.cons (inject_Z c)) (decode_gen choose r os' (skipn (length es) x))
          end
      end
  | c :: r =>
      match x with
      | [] => None
      | v :: t =>
          let out := match c with
                     | Int _ _ => inject_Z (round_half_even v)
                     | Grid es => nearest v es
                     | _ => v
                     end in
          option_map (Datatypes.cons out) (decode_gen choose r os t)
      end
  end.

(* the chosen category itself is the oracle (what numpy.random.choice returned); its contract: a member *)
Definition choose_given (c : Z) (_ : row) (es : list Z) : option Z := if existsb (Z.eqb c) es then Some c else None.
Definition decode_with (d : domain) (chosen : list Z) (x : row) : option point := decode_gen choose_given (comps d) chosen x.
(* reading a snapped (exact one-hot) block deterministically: the element at the first maximum *)
Definition choose_argmax (_ : unit) (vals : row) (es : list Z) : option Z := nth_error es (argmax vals).
Definition collapse (d : domain) (x : row) : option point :=
  decode_gen choose_argmax (comps d) (repeat tt (length (comps d))) x.
(* deterministic decode: the three rounding functions, then read the categories off *)
Definition decode_det (d : domain) (x : row) : option point := collapse d (snap_det d x).

(* ---- the stochastic choice.  rel_prob_func(z) = (z ** (1/T) + 1e-300) / sum(...);  numpy.random.choice(cats, p):
        cdf = cumsum(p); idx = cdf.searchsorted(u, side="right"), u uniform in [0,1). *)
Definition eps300 : Q := 1 # (10 ^ 300).
Definition default_temp : Q := 1 # 5.
Definition min_temp : Q := 1 # 100.
(* max(temperature or DEFAULT, MINIMUM) *)
Definition eff_temp (T : option Q) : Q :=
  Qmaxb (match T with None => default_temp | Some t => if Qeq_bool t 0 then default_temp else t end) min_temp.
Definition qsum (l : list Q) : Q := fold_left (fun a b => Qred (a + b)) l 0.
Fixpoint draw_ix (u acc : Q) (p : list Q) (i : nat) : option nat :=
  match p with
  | [] => None
  | a :: r => let acc' := Qred (acc + a) in if Qltb u acc' then Some i else draw_ix u acc' r (S i)
  end.
Section Stochastic.
  Variable powf : Q -> Q -> Q.                                  (* numpy.power on [0,1] x (0,inf) *)
  Definition rel_weights (T : option Q) (vals : row) : list Q := map (fun z => Qred (powf z (/ eff_temp T) + eps300)) vals.
  Definition rel_probs (T : option Q) (vals : row) : list Q :=
    let w := rel_weights T vals in let s := qsum w in map (fun a => Qred (a / s)) w.
  Definition choose_draw (T : option Q) (u : Q) (vals : row) (es : list Z) : option Z :=
    match draw_ix u 0 (rel_probs T vals) 0 with Some i => nth_error es i | None => None end.
  Definition decode_row (d : domain) (T : option Q) (us : list Q) (x : row) : option point :=
    decode_gen (choose_draw T) (comps d) us x.
End Stochastic.
(* numpy.power for the exponents the correspondence uses (1/T a positive integer) *)
Definition pow_int (z e : Q) : Q :=
  let e' := Qred e in
  match Qnum e', Qden e' with
  | Zpos n, 1%positive => Qred (Qpower z (Zpos n))
  | _, _ => if Qeq_bool z 0 then 0 else 1          (* not used by any generated case; exact only at z in {0,1} *)
  end.

(* ------------------------------------------------------------------ integer constraints *)
(* _form_one_hot_constraint_list: component weights spread over the relaxed coordinates (only double / int keep theirs) *)
Fixpoint oh_weights (cs : list component) (w : list Q) : list Q :=
  match cs, w with
  | Cat es :: r, _ :: t => repeat 0 (length es) ++ oh_weights r t
  | Grid _ :: r, _ :: t => 0 :: oh_weights r t
  | _ :: r, a :: t => a :: oh_weights r t
  | _, _ => []
  end.
Definition int_cons (d : domain) : list constraint := filter (fun k => match cty k with CInt => true | _ => false end) (cons d).
Definition dbl_cons (d : domain) : list constraint := filter (fun k => match cty k with CDouble => true | _ => false end) (cons d).
Definition is_int_constrained (d : domain) : bool := negb (Nat.eqb (length (int_cons d)) 0).
Definition sat_cons (cs : list component) (ks : list constraint) (x : row) : bool :=
  forallb (fun k => Qle_bool (rhs k) (dot (oh_weights cs (weights k)) x)) ks.
Definition sat_double_cons (d : domain) (x : row) : Prop :=
  Forall (fun k => rhs k <= dot (oh_weights (comps d) (weights k)) x) (dbl_cons d).
(* _form_constrained_variable_indices: relaxed coordinates of the components carrying a non-zero weight in some int constraint *)
Fixpoint any_nonzero (ws : list (list Q)) : bool :=
  match ws with [] => false | w :: r => negb (Qeq_bool (hd 0 w) 0) || any_nonzero r end.
Fixpoint cmask (cs : list component) (ws : list (list Q)) : list bool :=
  match cs with
  | [] => []
  | Cat es :: r => repeat false (length es) ++ cmask r (map (@tl Q) ws)
  | _ :: r => any_nonzero ws :: cmask r (map (@tl Q) ws)
  end.
Definition int_mask (d : domain) : list bool := cmask (comps d) (map weights (int_cons d)).
Definition count_true (m : list bool) : nat := length (filter (fun b => b) m).
(* the 2^k floor/ceil grid over the masked coordinates (first masked coordinate slowest); a coordinate that is already
   an integer yields the same value twice, as numpy.meshgrid over the (lb, ub) pairs does *)
Fixpoint lattice (mask : list bool) (x : row) : list row :=
  match mask, x with
  | true :: m, v :: t => map (Datatypes.cons (inject_Z (Qfloor v))) (lattice m t) ++ map (Datatypes.cons (inject_Z (Qceiling v))) (lattice m t)
  | false :: m, v :: t => map (Datatypes.cons v) (lattice m t)
  | _, _ => [x]
  end.
(* the random branch (more than MAX_GRID_DIM constrained ints): numpy.round(uniform(lb, ub)) per neighbour; the oracle
   says, per neighbour and masked coordinate, whether the draw rounded up *)
Fixpoint pick (mask : list bool) (x : row) (ups : list bool) : row :=
  match mask, x with
  | true :: m, v :: t => match ups with
                         | up :: ups' => inject_Z (if up then Qceiling v else Qfloor v) :: pick m t ups'
                         | [] => inject_Z (Qfloor v) :: pick m t []
                         end
  | false :: m, v :: t => v :: pick m t ups
  | _, _ => x
  end.
Definition max_grid_dim : nat := 13.
Definition int_neighbors (d : domain) (rnd : list (list bool)) (x : row) : list row :=
  if Nat.leb (count_true (int_mask d)) max_grid_dim then lattice (int_mask d) x else map (pick (int_mask d) x) rnd.
(* generate_feasible_integer_neighbors *)
Definition feasible_neighbors (d : domain) (rnd : list (list bool)) (x : row) : list row :=
  filter (sat_cons (comps d) (int_cons d)) (int_neighbors d rnd x).
(* numpy.random.shuffle as an oracle permutation of positions *)
Definition permute {A} (perm : list nat) (l : list A) : list A :=
  flat_map (fun j => match nth_error l j with Some a => [a] | None => [] end) perm.

(* snap_one_hot_points_to_integer_feasible: first pass (own neighbour or hole; spare neighbours collected) ... *)
Fixpoint snap_pass (d : domain) (n : nat) (rnds : list (list (list bool))) (perms : list (list nat)) (xs : list row)
  (padding : list row) : list (option row) * list row :=
  match xs with
  | [] => ([], padding)
  | x :: r =>
      let fn := permute (hd [] perms) (feasible_neighbors d (hd [] rnds) x) in
      match fn with
      | [] => let '(o, p) := snap_pass d n (tl rnds) (tl perms) r padding in (None :: o, p)
      | f :: rest =>
          let padding' := if Nat.ltb (length padding) n
                          then padding ++ firstn (Nat.min (n - length padding) (length rest)) rest else padding in
          let '(o, p) := snap_pass d n (tl rnds) (tl perms) r padding' in (Some f :: o, p)
      end
  end.
(* ... second pass: holes take the spare neighbours in order, remaining holes are deleted *)
Fixpoint snap_fill (o : list (option row)) (padding : list row) : list row :=
  match o with
  | [] => []
  | Some f :: r => f :: snap_fill r padding
  | None :: r => match padding with [] => snap_fill r [] | f :: p => f :: snap_fill r p end
  end.
Definition snap_feasible (d : domain) (rnds : list (list (list bool))) (perms : list (list nat)) (xs : list row) : list row :=
  let '(o, p) := snap_pass d (length xs) rnds perms xs [] in snap_fill o p.

(* ------------------------------------------------------------------ map_one_hot_points_to_categorical, whole batch *)
Fixpoint all_some {A} (l : list (option A)) : option (list A) :=
  match l with
  | [] => Some []
  | None :: _ => None
  | Some a :: r => option_map (Datatypes.cons a) (all_some r)
  end.
Definition decode_batch_gen {O} (choose : O -> row -> list Z -> option Z) (d : domain)
  (rnds : list (list (list bool))) (perms : list (list nat)) (oss : list (list O)) (xs : list row) : option (list point) :=
  let xs' := if is_int_constrained d then snap_feasible d rnds perms xs else xs in
  if negb (has_cat (comps d) || has_grid (comps d)) then Some (round_ints d xs')
  else all_some (map (fun ox => decode_gen choose (comps d) (fst ox) (snd ox)) (combine oss xs')).
Definition decode_batch_with := @decode_batch_gen Z choose_given.
Definition decode_batch (powf : Q -> Q -> Q) (d : domain) (T : option Q) := @decode_batch_gen Q (choose_draw powf T) d.
(* Appendix A's single-point decode: temperature, uniform draws, relaxed point (no integer constraints involved) *)
Definition decode (powf : Q -> Q -> Q) (d : domain) (T : Q) (us : list Q) (x : row) : option point :=
  decode_row powf d (Some T) us x.

(* ------------------------------------------------------------------ length scales *)
Fixpoint ls_to_one_hot (cs : list component) (ls : list (list (option Q))) : list (option Q) :=
  match cs, ls with
  | c :: r, l :: t =>
      (if existsb (fun o => match o with None => true | Some _ => false end) l
       then repeat (Some 1) (match c with Cat es | Grid es => length es | _ => 2%nat end)   (* len(component["elements"]) *)
       else l) ++ ls_to_one_hot r t
  | _, _ => []
  end.
Fixpoint ls_to_categorical {A} (cs : list component) (l : list A) : list (list A) :=
  match cs with
  | [] => []
  | Cat es :: r => firstn (length es) l :: ls_to_categorical r (skipn (length es) l)
  | _ :: r => firstn 1 l :: ls_to_categorical r (skipn 1 l)
  end.

(* ------------------------------------------------------------------ views: task snapping and lattice neighbours *)
Definition snap_tasks (costs options : list Q) : list Q := map (fun c => nearest c options) costs.
(* generate_neighboring_integer_points: every int component, floor/ceil *)
Fixpoint imask (cs : list component) : list bool :=
  match cs with [] => [] | Cat es :: r => repeat false (length es) ++ imask r | c :: r => is_int c :: imask r end.
Definition neighboring_int_points (d : domain) (x : row) : list row := lattice (imask (comps d)) x.
(* generate_neighboring_categorical_points: every joint one-hot assignment, first categorical slowest *)
Fixpoint cat_lattice (cs : list component) (x : row) : list row :=
  match cs with
  | [] => [x]
  | Cat es :: r =>
      flat_map (fun i => map (app (unit_vec (length es) i)) (cat_lattice r (skipn (length es) x))) (seq 0 (length es))
  | _ :: r => match x with v :: t => map (Datatypes.cons v) (cat_lattice r t) | [] => [[]] end
  end.
Definition neighboring_cat_points (d : domain) (xs : list row) : list row := flat_map (cat_lattice (comps d)) xs.
