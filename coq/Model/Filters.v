(* Executable model of the data filters of libsigopt/compute/misc/multimetric.py and of the SPE failure
   augmentation (C14).  No proofs here.  The epsilon-constraint labelling (eps_failures, force_min, eps_labelling)
   is the one of Model/Pareto.v (C13). *)
From Coq Require Import List QArith ZArith Bool Arith.
From LV Require Import Model.Pareto Model.Phases.
Import ListNotations.
Open Scope Q_scope.

(* numpy arrays of the three ranks that occur *)
Inductive arr := Sc (q : Q) | A1 (l : list Q) | A2 (l : list row).
Definition arr_len (a : arr) : nat := match a with Sc _ => 1%nat | A1 l => length l | A2 l => length l end.

(* numpy.dot of two vectors *)
Definition dot (a b : list Q) : Q := fold_right Qplus 0 (map (fun p : Q * Q => fst p * snd p) (combine a b)).
Definition sq (w : list Q) : list Q := map (fun x => x * x) w.

(* a[mask] = x for a 1-D array and a mask of the same length *)
Definition set_where (mask : list bool) (x : Q) (l : list Q) : list Q :=
  map (fun p : bool * Q => if fst p then x else snd p) (combine mask l).

Record fout := { o_pts : list row; o_vals : arr; o_vars : arr; o_lie : arr }.

(* filter_convex_combination *)
Definition filter_convex (w : list Q) (pts vals vars : list row) (fails : list bool) (lie : list Q) : fout :=
  {| o_pts := pts; o_vals := A1 (map (fun r => dot r w) vals); o_vars := A1 (map (fun r => dot r (sq w)) vars);
     o_lie := Sc (dot lie w) |}.

(* filter_convex_combination_sum_of_gps *)
Definition filter_sum_of_gps (pts vals vars : list row) (fails : list bool) (lie : list Q) : fout :=
  {| o_pts := pts; o_vals := A2 vals; o_vars := A2 vars; o_lie := A1 lie |}.

(* filter_epsilon_contraint *)
Definition filter_eps_constraint (eps : Q) (om cm : nat) (pts vals vars : list row) (fails : list bool) (lie : list Q) : fout :=
  let lab := eps_labelling eps om cm vals fails in
  {| o_pts := pts; o_vals := A1 (set_where lab (nth om lie 0) (col om vals)); o_vars := A1 (col om vars);
     o_lie := Sc (nth om lie 0) |}.

(* filter_probabilistic_failure: the reported failures are NOT merged here *)
Definition pf_labelling (eps : Q) (om cm : nat) (vals : list row) (fails : list bool) : list bool :=
  force_min om vals (eps_failures eps cm vals fails).
Definition filter_prob_failure (eps : Q) (om cm : nat) (pts vals vars : list row) (fails : list bool) (lie : list Q) : fout :=
  let keepm := map negb (pf_labelling eps om cm vals fails) in
  {| o_pts := select keepm pts; o_vals := A1 (select keepm (col om vals)); o_vars := A1 (select keepm (col om vars));
     o_lie := Sc (nth om lie 0) |}.

(* filter_optimizing_one_metric / filter_not_multimetric (om = 0) *)
Definition filter_one_metric (om : nat) (pts vals vars : list row) (fails : list bool) (lie : list Q) : fout :=
  {| o_pts := pts; o_vals := A1 (col om vals); o_vars := A1 (col om vars); o_lie := Sc (nth om lie 0) |}.

(* filter_multimetric_points_sampled (GP path) *)
Definition filter_gp (info : minfo) (pts vals vars : list row) (fails : list bool) (lie : list Q) : fout :=
  match info with
  | Convex _ _ => filter_sum_of_gps pts vals vars fails lie
  | EpsC om cm eps => filter_prob_failure eps om cm pts vals vars fails lie
  | OptOne om _ => filter_one_metric om pts vals vars fails lie
  | NotMM => filter_one_metric 0 pts vals vars fails lie
  end.

(* filter_multimetric_points_sampled_spe (Parzen-estimator path): returns (points, values) *)
Definition arr1 (a : arr) : list Q := match a with A1 l => l | _ => [] end.
Definition arr0 (a : arr) : Q := match a with Sc q => q | _ => 0 end.
Definition filter_spe (info : minfo) (pts vals : list row) (fails : list bool) (lie : list Q) : list row * list Q :=
  let junk := vals in   (* numpy.empty_like(points_sampled_values): the variance output is discarded *)
  match info with
  | EpsC om cm eps => let o := filter_eps_constraint eps om cm pts vals junk fails lie in (o_pts o, arr1 (o_vals o))
  | Convex w0 w1 => let o := filter_convex [w0; w1] pts vals junk fails lie in
                    (o_pts o, set_where fails (arr0 (o_lie o)) (arr1 (o_vals o)))
  | OptOne om _ => let o := filter_one_metric om pts vals junk fails lie in
                   (o_pts o, set_where fails (arr0 (o_lie o)) (arr1 (o_vals o)))
  | NotMM => let o := filter_one_metric 0 pts vals junk fails lie in
             (o_pts o, set_where fails (arr0 (o_lie o)) (arr1 (o_vals o)))
  end.

(* ---------------------------------------------------------------- C13 at the two wrappers: the guaranteed minimum at
   the consumers of the labelling.  With the epsilon-constraint method filter_gp / filter_spe above are total: when no
   observation is reported as a success _create_epsilon_constraint_failures labels nothing (Model/Pareto.v eps_failures)
   and the minimum-success repair promotes reported failures. *)
(* how many rows of the Parzen-estimator data still carry their own value / do not carry the lie value *)
Definition own_count (own out : list Q) : nat :=
  count_true (map (fun p : Q * Q => Qeq_bool (fst p) (snd p)) (combine own out)).
Definition not_lie_count (lie : Q) (out : list Q) : nat := count_true (map (fun x => negb (Qeq_bool x lie)) out).

(* ---------------------------------------------------------------- SPE failure augmentation *)
(* identify_scaled_values_exceeding_scaled_upper_thresholds; a NaN threshold is None *)
Definition within (thr : list (option Q)) (r : row) : bool :=
  forall_ix (fun i t => match t with None => true | Some t => Qltb (nth i r 0) t end) 0 thr.
Definition exceeds (vals : list row) (thr : list (option Q)) : list bool := map (fun r => negb (within thr r)) vals.

Definition zcount (l : list bool) : Z := Z.of_nat (count_true l).
Fixpoint or3 (a b c : list bool) : list bool :=
  match a, b, c with x :: a', y :: b', z :: c' => (x || y || z) :: or3 a' b' c' | _, _, _ => [] end.

(* augment_failures_with_user_specified_thresholds_violations *)
Definition augment (req_pareto has_constr : bool) (obs : list bool)
                   (af_vals : list row) (opt_thr : list (option Q)) (pf_vals : list row) (con_thr : list (option Q)) : list bool :=
  if negb (req_pareto || has_constr) then obs else
  let n := Z.of_nat (length obs) in
  let bv := if req_pareto then exceeds af_vals opt_thr else repeat false (length obs) in
  let cv := if has_constr then exceeds pf_vals con_thr else repeat false (length obs) in
  let either := or3 obs bv cv in
  if (n - 1 <? zcount bv)%Z || (n - 5 <? zcount cv)%Z || (n - 5 <? zcount either)%Z then obs else either.

(* ---------------------------------------------------------------- comparison helpers for the correspondence *)
Definition qlist_eqb := list_eqb Qeq_bool.
Definition rows_eqb := list_eqb qlist_eqb.
Definition arr_eqb (a b : arr) : bool :=
  match a, b with Sc x, Sc y => Qeq_bool x y | A1 x, A1 y => qlist_eqb x y | A2 x, A2 y => rows_eqb x y | _, _ => false end.
Definition fout_eqb (a b : fout) : bool :=
  rows_eqb (o_pts a) (o_pts b) && arr_eqb (o_vals a) (o_vals b) && arr_eqb (o_vars a) (o_vars b) && arr_eqb (o_lie a) (o_lie b).
Definition fout_lengths_b (o : fout) : bool :=
  Nat.eqb (length (o_pts o)) (arr_len (o_vals o)) && Nat.eqb (arr_len (o_vals o)) (arr_len (o_vars o)).
