(* Executable model for C20: libsigopt/aux/validate_schema.py (validate, process_error, get_path_string), the error
   classes of libsigopt/aux/errors.py, and the specification `conforms` of the JSON-schema keywords (draft 2020-12
   semantics as implemented by jsonschema 4.x) that the correspondence compares with jsonschema's accept/reject.
   Draft 3 enters through its one construct whose error record has a shape of its own: the boolean `required` inside the
   sub-schemas of `properties` (SRequired3, the draft-3 record shape of wf_verr, the boolean branch of process_error).
   No proofs here.  Strings are lists of code points (N); numbers are Z (Python int) or Q (Python float, exact).
   Regular expressions are oracles: rxm for the keyword `pattern`, pm for patternProperties (see pat_matched). *)
From Coq Require Import List ZArith NArith QArith Bool Arith Ascii String.
Import ListNotations.

Notation str := (list N).

Fixpoint codes (s : string) : str :=
  match s with EmptyString => [] | String a r => N_of_ascii a :: codes r end.

Fixpoint str_eqb (a b : str) : bool :=
  match a, b with
  | [], [] => true
  | x :: a', y :: b' => N.eqb x y && str_eqb a' b'
  | _, _ => false
  end.

(* Python's str ordering: lexicographic on code points *)
Fixpoint str_leb (a b : str) : bool :=
  match a, b with
  | [], _ => true
  | _ :: _, [] => false
  | x :: a', y :: b' => if N.ltb x y then true else if N.ltb y x then false else str_leb a' b'
  end.

Definition mem_str (k : str) (l : list str) : bool := existsb (str_eqb k) l.

(* ------------------------------------------------------------------------------------------------ JSON values *)
Inductive json :=
| JNull
| JBool (b : bool)
| JInt (z : Z)          (* Python int (any size) *)
| JFloat (q : Q)        (* Python finite float, as its exact rational *)
| JStr (s : str)
| JArr (l : list json)
| JObj (kvs : list (str * json)).   (* a Python dict: keys are distinct, order = insertion order *)

Definition keys (kvs : list (str * json)) : list str := map fst kvs.

Fixpoint lookup {A} (k : str) (kvs : list (str * A)) : option A :=
  match kvs with [] => None | (k', v) :: r => if str_eqb k k' then Some v else lookup k r end.

Definition numval (v : json) : option Q :=
  match v with JInt z => Some (inject_Z z) | JFloat q => Some q | _ => None end.

Definition is_integral (q : Q) : bool := Z.eqb (Z.modulo (Qnum q) (Zpos (Qden q))) 0.

(* strict identity of JSON values as Python objects of the json module (int 1 and float 1.0 differ; dict order kept) *)
Fixpoint json_eqb (a b : json) : bool :=
  match a, b with
  | JNull, JNull => true
  | JBool x, JBool y => Bool.eqb x y
  | JInt x, JInt y => Z.eqb x y
  | JFloat x, JFloat y => Qeq_bool x y
  | JStr x, JStr y => str_eqb x y
  | JArr l, JArr m =>
      (fix go (l m : list json) : bool :=
         match l, m with
         | [], [] => true
         | x :: l', y :: m' => json_eqb x y && go l' m'
         | _, _ => false
         end) l m
  | JObj k, JObj m =>
      (fix go (k m : list (str * json)) : bool :=
         match k, m with
         | [], [] => true
         | (s, x) :: k', (t, y) :: m' => str_eqb s t && json_eqb x y && go k' m'
         | _, _ => false
         end) k m
  | _, _ => false
  end.

(* jsonschema._utils.equal: 1 == 1.0, True != 1, sequences pointwise, mappings by key *)
Fixpoint json_equal (a b : json) : bool :=
  match a, b with
  | JNull, JNull => true
  | JBool x, JBool y => Bool.eqb x y
  | JInt x, JInt y => Z.eqb x y
  | JInt x, JFloat y => Qeq_bool (inject_Z x) y
  | JFloat x, JInt y => Qeq_bool x (inject_Z y)
  | JFloat x, JFloat y => Qeq_bool x y
  | JStr x, JStr y => str_eqb x y
  | JArr l, JArr m =>
      (fix go (l m : list json) : bool :=
         match l, m with
         | [], [] => true
         | x :: l', y :: m' => json_equal x y && go l' m'
         | _, _ => false
         end) l m
  | JObj k, JObj m =>
      Nat.eqb (List.length k) (List.length m) &&
      (fix go (k : list (str * json)) : bool :=
         match k with
         | [] => true
         | (s, x) :: k' => match lookup s m with Some y => json_equal x y | None => false end && go k'
         end) k
  | _, _ => false
  end.

(* ------------------------------------------------------------------------------------------------ schemas *)
Inductive jtype := TNull | TBoolean | TInteger | TNumber | TString | TArray | TObject.

Definition has_type (v : json) (t : jtype) : bool :=
  match t, v with
  | TNull, JNull => true
  | TBoolean, JBool _ => true
  | TInteger, JInt _ => true
  | TInteger, JFloat q => is_integral q      (* draft 6+: 1.0 is an integer *)
  | TNumber, JInt _ => true
  | TNumber, JFloat _ => true
  | TString, JStr _ => true
  | TArray, JArr _ => true
  | TObject, JObj _ => true
  | _, _ => false
  end.

(* A schema object is the conjunction (SAnd) of its keywords; `properties`, `patternProperties` and
   `additionalProperties` are one keyword because the third is defined relative to the first two.  The patterns of
   patternProperties are kept as strings (jsonschema prints them in its message), in the schema's (dict) order. *)
Inductive schema :=
| SBool (b : bool)
| SAnd (l : list schema)                 (* {k1:…, k2:…} and allOf *)
| SType (ts : list jtype)
| SRequired (ks : list str)
| SRequired3 (fl : list (str * bool))    (* draft 3: the boolean `required` found inside the sub-schemas of `properties`
                                            (key, flag), read by the keyword `properties` itself: an object lacking a
                                            declared property whose flag is true does not conform; false = no constraint *)
| SProps (ps : list (str * schema)) (pps : list (str * schema)) (addl : option schema)
| SItems (s : schema)
| SMin (q : Q) | SMax (q : Q) | SExMin (q : Q) | SExMax (q : Q)
| SMinLen (n : Q) | SMaxLen (n : Q) | SMinItems (n : Q) | SMaxItems (n : Q) | SMinProps (n : Q) | SMaxProps (n : Q)
| SEnum (vs : list json)
| SPattern (rx : N)                      (* regular expression number rx; matching is an oracle *)
| SOneOf (l : list schema) | SAnyOf (l : list schema)
| SNot (s : schema) | SConst (v : json)
| SAnnot.                                (* title / description / default / unknown keyword: no constraint *)

Definition Qltb (x y : Q) : bool := negb (Qle_bool y x).
Definition lenQ {A} (l : list A) : Q := inject_Z (Z.of_nat (List.length l)).
Definition count_true (l : list bool) : nat := List.length (filter (fun b => b) l).

(* Python's sorted() on strings *)
Fixpoint insert_str (x : str) (l : list str) : list str :=
  match l with [] => [x] | y :: r => if str_leb x y then x :: l else y :: insert_str x r end.
Definition sort_strs (l : list str) : list str := fold_right insert_str [] l.

(* jsonschema._utils.find_additional_properties:   patterns = "|".join(schema.get("patternProperties", {}));
   a key is "matched" when `patterns and re.search(patterns, key)`.  The joined string is empty (falsy) when there is
   no pattern or when the only pattern is the empty string - then NO key counts as matched (although the keyword
   patternProperties itself applies the empty pattern to every key).
   pm pats k stands for  re.search("|".join(pats), k) is not None  - an oracle; it is indexed by the SORTED list of
   patterns (the order of the alternatives does not change whether some alternative matches). *)
Definition joined_empty (pats : list str) : bool :=
  match pats with [] => true | [ [] ] => true | _ => false end.
Definition pat_matched (pm : list str -> str -> bool) (pats : list str) (k : str) : bool :=
  negb (joined_empty pats) && pm pats k.

Section Conforms.
  Variable rxm : N -> str -> bool.       (* re.search(pattern number rx, s) is not None *)
  Variable pm : list str -> str -> bool. (* re.search("|".join(pats), key) is not None, for patternProperties *)

  Fixpoint conforms (s : schema) (v : json) : bool :=
    match s with
    | SBool b => b
    | SAnd l => forallb (fun k => conforms k v) l
    | SType ts => existsb (has_type v) ts
    | SRequired ks => match v with JObj kvs => forallb (fun k => mem_str k (keys kvs)) ks | _ => true end
    | SRequired3 fl =>
        match v with
        | JObj kvs => forallb (fun kb : str * bool => negb (snd kb) || mem_str (fst kb) (keys kvs)) fl
        | _ => true
        end
    | SProps ps pps addl =>
        match v with
        | JObj kvs =>
            forallb (fun kv : str * json =>
              (* properties: the declared key's sub-schema *)
              (fix find (ps : list (str * schema)) : bool :=
                 match ps with
                 | [] => true
                 | (k, sub) :: ps' => if str_eqb (fst kv) k then conforms sub (snd kv) else find ps'
                 end) ps &&
              (* patternProperties: the sub-schema of EVERY pattern that matches the key (re.search(pattern, key)) *)
              (fix allp (pps : list (str * schema)) : bool :=
                 match pps with
                 | [] => true
                 | (p, sub) :: r => (if pm [p] (fst kv) then conforms sub (snd kv) else true) && allp r
                 end) pps &&
              (* additionalProperties: keys that are neither declared nor matched (find_additional_properties) *)
              (if mem_str (fst kv) (map fst ps) || pat_matched pm (sort_strs (map fst pps)) (fst kv) then true
               else match addl with Some a => conforms a (snd kv) | None => true end)) kvs
        | _ => true
        end
    | SItems sub => match v with JArr l => forallb (conforms sub) l | _ => true end
    | SMin q => match numval v with Some x => Qle_bool q x | None => true end
    | SMax q => match numval v with Some x => Qle_bool x q | None => true end
    | SExMin q => match numval v with Some x => Qltb q x | None => true end
    | SExMax q => match numval v with Some x => Qltb x q | None => true end
    | SMinLen n => match v with JStr t => Qle_bool n (lenQ t) | _ => true end
    | SMaxLen n => match v with JStr t => Qle_bool (lenQ t) n | _ => true end
    | SMinItems n => match v with JArr l => Qle_bool n (lenQ l) | _ => true end
    | SMaxItems n => match v with JArr l => Qle_bool (lenQ l) n | _ => true end
    | SMinProps n => match v with JObj l => Qle_bool n (lenQ l) | _ => true end
    | SMaxProps n => match v with JObj l => Qle_bool (lenQ l) n | _ => true end
    | SEnum vs => existsb (fun e => json_equal e v) vs
    | SPattern rx => match v with JStr t => rxm rx t | _ => true end
    | SOneOf l => Nat.eqb (count_true (map (fun k => conforms k v) l)) 1
    | SAnyOf l => existsb (fun k => conforms k v) l
    | SNot sub => negb (conforms sub v)
    | SConst c => json_equal v c
    | SAnnot => true
    end.
End Conforms.

(* ------------------------------------------------------------------------------------------------ the record
   jsonschema raises: jsonschema.exceptions.ValidationError, the fields process_error reads *)
Inductive vkind :=
| VAdditional | VType | VMaxProps | VMinProps | VRequired | VMinimum | VMaximum
| VMinLength | VMaxLength | VMinItems | VMaxItems | VEnum | VPattern | VExMin | VOneOf | VAnyOf
| VOther.                               (* any other keyword, or None (a `false` schema) *)

Inductive pathpart := PIdx (n : nat) | PKey (k : str).

Inductive verr :=
| VErr (k : vkind)
       (vv : json)                      (* e.validator_value *)
       (inst : json)                    (* e.instance *)
       (sty : option json)              (* e.schema.get("type") *)
       (sprops : list str)              (* list(e.schema.get("properties", {})) *)
       (spat : bool)                    (* "patternProperties" in e.schema *)
       (spats : list str)               (* sorted(e.schema.get("patternProperties", {})): the order jsonschema prints them in *)
       (path : list pathpart)           (* e.path *)
       (message : str)                  (* e.message *)
       (ctx : list verr).               (* e.context *)

Definition v_kind e := match e with VErr k _ _ _ _ _ _ _ _ _ => k end.
Definition v_value e := match e with VErr _ vv _ _ _ _ _ _ _ _ => vv end.
Definition v_inst e := match e with VErr _ _ i _ _ _ _ _ _ _ => i end.
Definition v_sty e := match e with VErr _ _ _ t _ _ _ _ _ _ => t end.
Definition v_sprops e := match e with VErr _ _ _ _ p _ _ _ _ _ => p end.
Definition v_spat e := match e with VErr _ _ _ _ _ b _ _ _ _ => b end.
Definition v_spats e := match e with VErr _ _ _ _ _ _ ps _ _ _ => ps end.
Definition v_path e := match e with VErr _ _ _ _ _ _ _ p _ _ => p end.
Definition v_message e := match e with VErr _ _ _ _ _ _ _ _ m _ => m end.
Definition v_ctx e := match e with VErr _ _ _ _ _ _ _ _ _ c => c end.

(* ------------------------------------------------------------------------------------------------ library errors *)
Inductive frag := Lit (s : string) | Dyn.         (* literal text of an f-string / a formatted value (any length) *)
Notation msg := (list frag).
Definition frag_nonempty (f : frag) : bool := match f with Lit EmptyString => false | Lit _ => true | Dyn => false end.
Definition msg_nonempty (m : msg) : bool := existsb frag_nonempty m.

Inductive lib_error :=
| ESigopt (m : msg)                                              (* SigoptValidationError *)
| EMissingKey (key : option json) (m : msg)                      (* MissingJsonKeyError.missing_json_key (None = Python None) *)
| EInvalidType (value : json) (expected_of : json) (m : msg)     (* InvalidTypeError.value, .expected_type = str(expected_of) *)
| EInvalidValue (m : msg)                                        (* InvalidValueError *)
| EInvalidKey (key : option str) (m : msg).                      (* InvalidKeyError.invalid_key *)

Inductive raw := RTypeError | RKeyError | RIndexError.           (* exceptions that are not the library's *)
Inductive outcome := Lib (e : lib_error) | Raw (x : raw).

Definition err_msg (e : lib_error) : msg :=
  match e with ESigopt m | EMissingKey _ m | EInvalidType _ _ m | EInvalidValue m | EInvalidKey _ m => m end.

(* ------------------------------------------------------------------------------------------------
   re.findall(r"u?'(\w+)',?", message) as a one-pass scanner.  \w is modelled on ASCII: [A-Za-z0-9_]. *)
Definition wordchar (c : N) : bool :=
  (N.leb 48 c && N.leb c 57) || (N.leb 65 c && N.leb c 90) || (N.leb 97 c && N.leb c 122) || N.eqb c 95.
Definition ident (k : str) : bool := match k with [] => false | _ => forallb wordchar k end.
Definition c_quote : N := 39%N.
Definition c_u : N := 117%N.
Definition c_comma : N := 44%N.

Inductive sstate := Idle | SawU | InWord (acc : str) | AfterClose.

Definition step_idle (c : N) : sstate :=
  if N.eqb c c_u then SawU else if N.eqb c c_quote then InWord [] else Idle.

Definition step (st : sstate) (c : N) : sstate * option str :=
  match st with
  | Idle => (step_idle c, None)
  | SawU => (step_idle c, None)
  | InWord acc =>
      if wordchar c then (InWord (c :: acc), None)
      else if N.eqb c c_quote then
        match acc with [] => (InWord [], None) | _ => (AfterClose, Some (rev acc)) end
      else (Idle, None)
  | AfterClose => if N.eqb c c_comma then (Idle, None) else (step_idle c, None)
  end.

Fixpoint scan (st : sstate) (s : str) : list str :=
  match s with
  | [] => []
  | c :: r => match step st c with
              | (st', Some w) => w :: scan st' r
              | (st', None) => scan st' r
              end
  end.
Definition findall_keys (m : str) : list str := scan Idle m.

(* the message jsonschema builds for additionalProperties: false (no patternProperties), keys with plain reprs *)
Definition py_repr_plain (k : str) : str := c_quote :: k ++ [c_quote].
Fixpoint join_reprs (ks : list str) : str :=
  match ks with
  | [] => []
  | [k] => py_repr_plain k
  | k :: r => py_repr_plain k ++ [c_comma; 32%N] ++ join_reprs r
  end.
Definition addl_prefix : str := codes "Additional properties are not allowed (".
Definition addl_suffix (n : nat) : str := if Nat.eqb n 1 then codes " was unexpected)" else codes " were unexpected)".
Definition addl_message (extras : list str) : str := addl_prefix ++ join_reprs extras ++ addl_suffix (List.length extras).

(* jsonschema._utils.find_additional_properties without patternProperties *)
Definition extras_of (inst : json) (sprops : list str) : list str :=
  match inst with JObj kvs => filter (fun k => negb (mem_str k sprops)) (keys kvs) | _ => [] end.

(* ... and in general: instance keys that are neither declared properties nor matched by the joined patterns *)
Definition extras_pat (pm : list str -> str -> bool) (inst : json) (sprops pats : list str) : list str :=
  match inst with
  | JObj kvs => filter (fun k => negb (mem_str k sprops) && negb (pat_matched pm pats k)) (keys kvs)
  | _ => []
  end.

(* ------------------------------------------------------------------------------------------------
   the message jsonschema builds for additionalProperties: false when the schema HAS patternProperties
   (_keywords.additionalProperties):
       verb = "does" if len(extras) == 1 else "do"
       joined = ", ".join(repr(each) for each in sorted(extras))
       patterns = ", ".join(repr(each) for each in sorted(schema["patternProperties"]))
       f"{joined} {verb} not match any of the regexes: {patterns}"
   Python's repr of a str is modelled exactly on ASCII strings (None beyond ASCII: printability of a code point is
   a table of the Unicode database). *)
Definition c_dquote : N := 34%N.
Definition c_bslash : N := 92%N.
Definition hexdig (d : N) : N := if N.ltb d 10 then (48 + d)%N else (87 + d)%N.
Definition repr_char (q c : N) : str :=
  if N.eqb c q || N.eqb c c_bslash then [c_bslash; c]
  else if N.eqb c 9 then [c_bslash; 116%N]
  else if N.eqb c 10 then [c_bslash; 110%N]
  else if N.eqb c 13 then [c_bslash; 114%N]
  else if N.ltb c 32 || N.eqb c 127 then [c_bslash; 120%N; hexdig (N.div c 16); hexdig (N.modulo c 16)]
  else [c].
Definition is_ascii (s : str) : bool := forallb (fun c => N.ltb c 128) s.
Definition has_char (c : N) (s : str) : bool := existsb (N.eqb c) s.
(* unicode_repr: double quotes only when the string has a single quote and no double quote *)
Definition py_repr (s : str) : option str :=
  if is_ascii s then
    let q := if has_char c_quote s && negb (has_char c_dquote s) then c_dquote else c_quote in
    Some (q :: flat_map (repr_char q) s ++ [q])
  else None.
Definition py_reprs (l : list str) : option (list str) :=
  fold_right (fun s acc => match py_repr s, acc with Some r, Some a => Some (r :: a) | _, _ => None end) (Some []) l.
Fixpoint join_comma (l : list str) : str :=
  match l with
  | [] => []
  | [x] => x
  | x :: r => x ++ [c_comma; 32%N] ++ join_comma r
  end.
(* everything up to and including "regexes: " (keys with plain reprs, as in addl_message) *)
Definition addl_pat_head (extras : list str) : str :=
  join_reprs extras ++ (if Nat.eqb (List.length extras) 1 then codes " does" else codes " do")
                    ++ codes " not match any of the regexes: ".
Definition addl_message_pat (extras pats : list str) : option str :=
  match py_reprs pats with Some rs => Some (addl_pat_head extras ++ join_comma rs) | None => None end.

Fixpoint prefix_str (p m : str) : bool :=
  match p, m with
  | [], _ => true
  | x :: p', y :: m' => N.eqb x y && prefix_str p' m'
  | _ :: _, [] => false
  end.

(* the contract on e.message of an additionalProperties: false error, given the sorted unknown keys (all
   identifier-like) and the sorted patterns: without patternProperties the message is addl_message; with it, the
   message starts with addl_pat_head whatever the patterns are, and is exactly addl_message_pat when the patterns are ASCII *)
Definition addl_msg_ok (spat : bool) (ks pats : list str) (message : str) : bool :=
  if spat
  then prefix_str (addl_pat_head ks) message &&
       match addl_message_pat ks pats with Some m => str_eqb message m | None => true end
  else str_eqb message (addl_message ks).

(* ------------------------------------------------------------------------------------------------ process_error *)
Definition is_false (v : json) : bool := match v with JBool false => true | _ => false end.

(* Python iteration over a JSON value; None = TypeError: not iterable *)
Definition iter_json (v : json) : option (list json) :=
  match v with
  | JArr l => Some l
  | JStr s => Some (map (fun c => JStr [c]) s)
  | JObj kvs => Some (map (fun kv => JStr (fst kv)) kvs)
  | _ => None
  end.
Definition hashable (v : json) : bool := match v with JArr _ | JObj _ => false | _ => true end.
Definition key_in (k : json) (kvs : list (str * json)) : bool :=
  match k with JStr s => mem_str s (keys kvs) | _ => false end.

(* e.validator_value[0] *)
Definition subscript0 (v : json) : raw + json :=
  match v with
  | JArr (x :: _) => inr x
  | JArr [] => inl RIndexError
  | JStr (c :: _) => inr (JStr [c])
  | JStr [] => inl RIndexError
  | JObj _ => inl RKeyError
  | _ => inl RTypeError
  end.

Definition m_unrecognized : msg := [Lit "Unrecognized error "; Dyn; Lit " parsing json: "; Dyn].
Definition m_unknown_keys : msg := [Lit "Unknown json keys "; Dyn; Lit " in: "; Dyn].
Definition m_props (at_least : bool) : msg :=
  [Lit "Expected "; Lit (if at_least then "at least" else "at most"); Lit " "; Dyn; Lit " keys in "; Dyn].
Definition m_missing : msg := [Lit "Missing required json key """; Dyn; Lit """ in: "; Dyn].
Definition m_bound (greater : bool) : msg :=
  [Dyn; Lit " must be "; Lit (if greater then "greater than" else "less than"); Lit " or equal to "; Dyn].
Definition m_length (greater : bool) : msg :=
  [Lit "The length of "; Dyn; Lit " must be "; Lit (if greater then "greater than" else "less than"); Lit " or equal to "; Dyn].
Definition m_enum : msg := [Dyn; Lit " is not one of the allowed values: "; Dyn].
Definition m_pattern : msg := [Dyn; Lit " does not match the regular expression /"; Dyn; Lit "/"].
Definition m_exmin : msg := [Dyn; Lit " must be greater than "; Dyn].
Definition m_nocontext : msg := [Lit "Error has no context but it is oneOf or anyOf"].
(* InvalidTypeError.__init__: `if key:` on the path string *)
Definition m_type (has_key : bool) : msg :=
  if has_key then [Lit "Invalid type for "; Dyn; Dyn; Lit "expected type "; Dyn]
  else [Lit "Invalid type"; Dyn; Lit "expected type "; Dyn].

(* e.path[-1] as a Python value: a key (str) or an array position (int); None for an empty path *)
Fixpoint last_part (path : list pathpart) : option pathpart :=
  match path with
  | [] => None
  | [p] => Some p
  | _ :: r => last_part r
  end.
Definition part_json (p : pathpart) : json := match p with PKey k => JStr k | PIdx n => JInt (Z.of_nat n) end.

Definition required_outcome (vv inst : json) (path : list pathpart) : outcome :=
  match vv with
  | JBool _ =>
      (* isinstance(e.validator_value, bool): draft 3, `required` is a boolean of the property's own sub-schema and the
         missing key is the last element of the error's path *)
      Lib (EMissingKey (option_map part_json (last_part path)) m_missing)
  | _ =>
      match inst with
      | JObj kvs =>
          match iter_json vv with
          | None => Raw RTypeError
          | Some ks =>
              if forallb hashable ks
              then Lib (EMissingKey (hd_error (filter (fun k => negb (key_in k kvs)) ks)) m_missing)
              else Raw RTypeError
          end
      | _ => match subscript0 vv with inl x => Raw x | inr k => Lib (EMissingKey (Some k) m_missing) end
      end
  end.

Fixpoint process_error (e : verr) : outcome :=
  match e with
  | VErr k vv inst sty sprops spat spats path message ctx =>
      match k with
      | VAdditional =>
          if is_false vv then Lib (EInvalidKey (hd_error (findall_keys message)) m_unknown_keys)
          else Lib (ESigopt m_unrecognized)
      | VType =>
          match sty with
          | None => Raw RKeyError
          | Some t => Lib (EInvalidType inst t (m_type (match path with [] => false | _ => true end)))
          end
      | VMaxProps => Lib (ESigopt (m_props false))
      | VMinProps => Lib (ESigopt (m_props true))
      | VRequired => required_outcome vv inst path
      | VMinimum => Lib (EInvalidValue (m_bound true))
      | VMaximum => Lib (EInvalidValue (m_bound false))
      | VMinLength | VMinItems => Lib (EInvalidValue (m_length true))
      | VMaxLength | VMaxItems => Lib (EInvalidValue (m_length false))
      | VEnum => match iter_json vv with None => Raw RTypeError | Some _ => Lib (ESigopt m_enum) end
      | VPattern => Lib (ESigopt m_pattern)
      | VExMin => Lib (EInvalidValue m_exmin)
      | VOneOf | VAnyOf =>
          match ctx with
          | c :: _ => process_error c
          | [] => Lib (ESigopt m_nocontext)
          end
      | VOther => Lib (ESigopt m_unrecognized)
      end
  end.

(* ------------------------------------------------------------------------------------------------
   wf_verr: what jsonschema guarantees about a ValidationError it raises (the record shapes of the drafts whose
   `required` is a list of keys - 4 and later - and the draft-3 shape of a `required` record) *)
Definition type_of_name (s : str) : option jtype :=
  if str_eqb s (codes "null") then Some TNull else
  if str_eqb s (codes "boolean") then Some TBoolean else
  if str_eqb s (codes "integer") then Some TInteger else
  if str_eqb s (codes "number") then Some TNumber else
  if str_eqb s (codes "string") then Some TString else
  if str_eqb s (codes "array") then Some TArray else
  if str_eqb s (codes "object") then Some TObject else None.

(* the type names of a "type" keyword value: a name or a list of names *)
Definition type_decl (t : json) : option (list jtype) :=
  match t with
  | JStr s => match type_of_name s with Some ty => Some [ty] | None => None end
  | JArr l =>
      fold_right (fun x acc => match x, acc with
                               | JStr s, Some r => match type_of_name s with Some ty => Some (ty :: r) | None => None end
                               | _, _ => None end) (Some []) l
  | _ => None
  end.

Definition is_str (v : json) : bool := match v with JStr _ => true | _ => false end.
Definition size_of (v : json) : option Q :=
  match v with JStr s => Some (lenQ s) | JArr l => Some (lenQ l) | JObj l => Some (lenQ l) | _ => None end.
Definition rel2 (f : Q -> Q -> bool) (a b : option Q) : bool :=
  match a, b with Some x, Some y => f x y | _, _ => false end.

Section WfVerr.
Variable pm : list str -> str -> bool.   (* re.search("|".join(pats), key) is not None: see pat_matched *)

Fixpoint wf_verr (e : verr) : bool :=
  match e with
  | VErr k vv inst sty sprops spat spats path message ctx =>
      match k with
      | VAdditional =>
          (* raised only `elif not aP and extras`: the validator value is false and there IS an unknown key *)
          is_false vv &&
          match inst with JObj _ => true | _ => false end &&
          (spat || match spats with [] => true | _ => false end) &&
          (let ex := extras_pat pm inst sprops spats in
           match ex with [] => false | _ => true end &&
           (if forallb ident ex then addl_msg_ok spat (sort_strs ex) spats message else true))
      | VType =>
          match sty with
          | Some t => match type_decl t with
                      | Some ts => json_eqb vv t && negb (existsb (has_type inst) ts)
                      | None => false
                      end
          | None => false
          end
      | VRequired =>
          match inst, vv with
          | JObj kvs, JArr ks => forallb is_str ks && existsb (fun k => negb (key_in k kvs)) ks
          (* draft 3 (_legacy_keywords.properties_draft3): raised for a declared property that is absent from the
             instance and whose sub-schema says `required: true`; validator_value = that boolean, instance = the parent
             object, schema = the schema holding `properties`, and the property name is appended to the path *)
          | JObj kvs, JBool true =>
              match last_part path with
              | Some (PKey k) => negb (mem_str k (keys kvs)) && mem_str k sprops
              | _ => false
              end
          | _, _ => false
          end
      | VMinimum => rel2 Qltb (numval inst) (numval vv)
      | VMaximum => rel2 Qltb (numval vv) (numval inst)
      | VExMin => rel2 Qle_bool (numval inst) (numval vv)
      | VMinLength => is_str inst && rel2 Qltb (size_of inst) (numval vv)
      | VMaxLength => is_str inst && rel2 Qltb (numval vv) (size_of inst)
      | VMinItems => match inst with JArr _ => rel2 Qltb (size_of inst) (numval vv) | _ => false end
      | VMaxItems => match inst with JArr _ => rel2 Qltb (numval vv) (size_of inst) | _ => false end
      | VMinProps => match inst with JObj _ => rel2 Qltb (size_of inst) (numval vv) | _ => false end
      | VMaxProps => match inst with JObj _ => rel2 Qltb (numval vv) (size_of inst) | _ => false end
      | VEnum => match vv with JArr vs => negb (existsb (fun x => json_equal x inst) vs) | _ => false end
      | VPattern => is_str inst && is_str vv
      | VOneOf | VAnyOf => match vv with JArr _ => forallb wf_verr ctx | _ => false end
      | VOther => true
      end
  end.
End WfVerr.

(* ------------------------------------------------------------------------------------------------ validate *)
Inductive result := Silent | Raises (o : outcome).

(* what calling jsonschema.validate may do *)
Inductive js_result := JsOk | JsError (e : verr).

Definition validate (js : json -> schema -> js_result) (v : json) (s : schema) : result :=
  match js v s with JsOk => Silent | JsError e => Raises (process_error e) end.

(* ------------------------------------------------------------------------------------------------ helpers for the
   correspondence: the sub-value an error path points at *)
Fixpoint json_at (v : json) (p : list pathpart) : option json :=
  match p with
  | [] => Some v
  | PIdx n :: r => match v with JArr l => match nth_error l n with Some x => json_at x r | None => None end | _ => None end
  | PKey k :: r => match v with JObj kvs => match lookup k kvs with Some x => json_at x r | None => None end | _ => None end
  end.

(* Python str() of a "type" keyword value: a name, or a list of names *)
Definition py_str_type (t : json) : option str :=
  match t with
  | JStr s => Some s
  | JArr l =>
      if forallb is_str l
      then Some ([91%N] ++ join_reprs (map (fun x => match x with JStr s => s | _ => [] end) l) ++ [93%N])
      else None
  | _ => None
  end.
