(* Executable model of libsigopt/views/rest/multisolution_best_assignments.py (k_center_clustering and
   MultisolutionBestAssignments.view) and of the glue it uses: compute/search.py
   convert_one_hot_to_search_hypercube_points, compute/domain.py map_categorical_point_to_one_hot /
   form_one_hot_domain, views/view.py _preprocess_optimization_metrics with
   compute/misc/data_containers.py SingleMetricMidpointInfo (C18).  No proofs here.
   Coordinates, values and squared distances are exact rationals; the code compares squared distances only
   (it never takes a square root of a distance), so argmax/argmin are taken on squared distances, exactly as in
   the source.  The one square root of the source, sqrt(one_hot_dim), is an explicit argument `tgt`.
   The view ranks failed observations strictly after every successful one:
     values = numpy.where(self.points_sampled_failures, numpy.inf, self.points_sampled_for_af_values[:, 0])
   so the values the view compares are extended values `xv` (a finite scaled value, or +inf for a failure). *)
From Coq Require Import List QArith Qabs Bool Arith.
Import ListNotations.
Open Scope Q_scope.

Notation point := (list Q).
Definition Qltb (x y : Q) : bool := negb (Qle_bool y x).
Definition Qminb (a b : Q) : Q := if Qle_bool a b then a else b.
Definition Qmaxb (a b : Q) : Q := if Qle_bool a b then b else a.

(* ---------------------------------------------------------------- extended values: -inf and finite *)
Inductive xr := NInf | Fin (q : Q).
Definition xltb (a b : xr) : bool :=
  match a, b with
  | _, NInf => false
  | NInf, Fin _ => true
  | Fin x, Fin y => Qltb x y
  end.
Definition xminb (a b : xr) : xr := if xltb b a then b else a.

(* numpy.argmax / numpy.argmin on one axis: the FIRST extremum.  `better x best` = x replaces the running best. *)
Fixpoint argbest_from {A} (better : A -> A -> bool) (best : A) (bi i : nat) (l : list A) : nat :=
  match l with
  | [] => bi
  | x :: r => if better x best then argbest_from better x i (S i) r else argbest_from better best bi (S i) r
  end.
Definition argbest {A} (better : A -> A -> bool) (l : list A) : nat :=
  match l with [] => O | x :: r => argbest_from better x O 1%nat r end.
Definition xargmax (l : list xr) : nat := argbest (fun x best => xltb best x) l.
Definition xargmin (l : list xr) : nat := argbest (fun x best => xltb x best) l.
Definition qargmin (l : list Q) : nat := argbest (fun x best => Qltb x best) l.
Definition qargmax (l : list Q) : nat := argbest (fun x best => Qltb best x) l.

(* ---------------------------------------------------------------- aux/geometry_utils.py
   compute_distance_matrix_squared(x, z) = fmax(0, sum(x**2) + sum(z**2) - 2 x.z), one entry *)
Fixpoint sumsq (a : point) : Q := match a with [] => 0 | x :: r => x * x + sumsq r end.
Fixpoint dot (a b : point) : Q := match a, b with x :: a', y :: b' => x * y + dot a' b' | _, _ => 0 end.
Definition dist2 (a b : point) : Q := Qmaxb 0 (sumsq a + sumsq b - 2 * dot a b).

(* ---------------------------------------------------------------- k_center_clustering *)
Fixpoint set_nth {A} (i : nat) (v : A) (l : list A) : list A :=
  match l, i with
  | [], _ => []
  | _ :: r, O => v :: r
  | x :: r, S i' => x :: set_nth i' v r
  end.

(* distance_matrix_squared[i, :] = compute_distance_matrix_squared(points[f, None], points);
   distance_matrix_squared[i, f] = -inf *)
Definition row_of (pts : list point) (f : nat) : list xr :=
  set_nth f NInf (map (fun p => Fin (dist2 (nth f pts []) p)) pts).

Fixpoint map2 {A} (g : A -> A -> A) (a b : list A) : list A :=
  match a, b with x :: a', y :: b' => g x y :: map2 g a' b' | _, _ => [] end.
(* numpy.min(rows, axis=0) *)
Definition colmin (rows : list (list xr)) : list xr :=
  match rows with [] => [] | r :: rs => fold_left (map2 xminb) rs r end.

(* the loop body from iteration i on; `fuel` = number of centres still to choose *)
Fixpoint kc_loop (fuel : nat) (pts : list point) (f : nat) (rows : list (list xr)) (centres : list nat)
  : list nat * list (list xr) :=
  let rows' := rows ++ [row_of pts f] in
  match fuel with
  | O => (centres, rows')
  | S fuel' => let f' := xargmax (colmin rows') in kc_loop fuel' pts f' rows' (centres ++ [f'])
  end.

Definition column (rows : list (list xr)) (t : nat) : list xr := map (fun r => nth t r NInf) rows.

(* None = AssertionError *)
Definition k_center (pts : list point) (first k : nat) : option (list nat * list nat) :=
  if Nat.ltb 0 k && Nat.ltb k (length pts) && Nat.ltb first (length pts) then
    let '(centres, rows) := kc_loop (k - 1) pts first [] [first] in
    (* partition = numpy.argmin(distance_matrix_squared, axis=0) *)
    Some (centres, map (fun t => xargmin (column rows t)) (seq 0 (length pts)))
  else None.

(* ---------------------------------------------------------------- domain and search hypercube *)
Inductive comp :=
| CNum (lo hi : Q)            (* double / int: elements (lo, hi) *)
| CQuant (elems : list Q)     (* quantized: bounds [min elems, max elems] *)
| CCat (elems : list Q).      (* categorical: enum indices *)

Definition is_cat (c : comp) : bool := match c with CCat _ => true | _ => false end.
Definition has_categoricals (cs : list comp) : bool := existsb is_cat cs.

Definition lmin (l : list Q) : Q := match l with [] => 0 | x :: r => fold_left Qminb r x end.
Definition lmax (l : list Q) : Q := match l with [] => 0 | x :: r => fold_left Qmaxb r x end.

(* CategoricalDomain.form_one_hot_domain: the bounds of the relaxed box *)
Definition bounds_of (c : comp) : list (Q * Q) :=
  match c with
  | CNum lo hi => [(lo, hi)]
  | CQuant es => [(lmin es, lmax es)]
  | CCat es => repeat (0, 1) (length es)
  end.
Definition one_hot_bounds (cs : list comp) : list (Q * Q) := flat_map bounds_of cs.
Definition one_hot_dim (cs : list comp) : nat := length (one_hot_bounds cs).

(* CategoricalDomain.map_categorical_point_to_one_hot; None = the assertion `value in elements` fails *)
Fixpoint one_hot (cs : list comp) (p : point) : option point :=
  match cs, p with
  | [], _ => Some []
  | c :: cs', x :: p' =>
      match one_hot cs' p' with
      | None => None
      | Some rest =>
          match c with
          | CCat es => if existsb (Qeq_bool x) es
                       then Some (map (fun e => if Qeq_bool x e then 1 else 0) es ++ rest) else None
          | _ => Some (x :: rest)
          end
      end
  | _ :: _, [] => Some []
  end.
Definition to_one_hot (cs : list comp) (p : point) : option point :=
  if has_categoricals cs then one_hot cs p else Some p.

(* map_non_categorical_points_to_unit_hypercube: (x - lower) / (upper - lower), every one-hot coordinate *)
Definition to_unit (bs : list (Q * Q)) (v : point) : point :=
  map (fun xb => (fst xb - fst (snd xb)) / (snd (snd xb) - fst (snd xb))) (combine v bs).

(* round_one_hot_points_categorical_values_to_target: per categorical block, argmax, zero the block, put the
   target at the first maximum *)
Fixpoint round_cats (cs : list comp) (v : point) (tgt : Q) : point :=
  match cs with
  | [] => v
  | CCat es :: cs' =>
      let m := length es in
      let b := qargmax (firstn m v) in
      map (fun j => if Nat.eqb j b then tgt else 0) (seq 0 m) ++ round_cats cs' (skipn m v) tgt
  | _ :: cs' => match v with [] => [] | x :: v' => x :: round_cats cs' v' tgt end
  end.

(* convert_one_hot_to_search_hypercube_points; tgt stands for numpy.sqrt(domain.one_hot_dim) *)
Definition search_point (cs : list comp) (tgt : Q) (oh : point) : point :=
  let u := to_unit (one_hot_bounds cs) oh in
  if has_categoricals cs then round_cats cs u tgt else u.

(* ---------------------------------------------------------------- scaled values (views/view.py
   _preprocess_optimization_metrics, one optimised metric; SingleMetricMidpointInfo) *)
Fixpoint select {A} (mask : list bool) (l : list A) : list A :=
  match mask, l with b :: m, x :: r => if b then x :: select m r else select m r | _, _ => [] end.

Definition default_lie : Q := (-(123456789)) # 10000000000.       (* DEFAULT_CONSTANT_LIAR_VALUE *)
Definition min_half_width : Q := 1 # 100000000.                   (* MINIMUM_METRIC_HALF_WIDTH *)
Definition norm_factor : Q := 1 # 10.                             (* MIDPOINT_NORMALIZATION_SCALE_FACTOR *)

(* (scale, midpoint) of SingleMetricMidpointInfo.__init__ when there is at least one success *)
Definition scale_mid (nf : list Q) : Q * Q :=
  let mn := lmin nf in let mx := lmax nf in
  if Qltb ((mx - mn) * (1 # 2)) min_half_width then
    if Qltb 1 (Qminb (Qabs mx) (Qabs mn)) then (1 / Qmaxb (Qabs mn) (Qabs mx), mn) else (1, 0)
  else (2 * norm_factor / (mx - mn), (mx + mn) * (1 # 2)).

Definition scaled_values (maximize : bool) (vals : list Q) (fails : list bool) : list Q :=
  let neg : Q := if maximize then Qopp 1 else 1 in
  let nf := select (map negb fails) vals in
  match nf with
  | [] =>   (* force_skip: relative_objective_value = negate * values; every row is a failure *)
      map (fun vf : Q * bool => if snd vf then neg * default_lie else neg * fst vf) (combine vals fails)
  | _ =>
      let '(s, m) := scale_mid nf in
      let lie := if maximize then lmin nf else lmax nf in      (* compute_lie_value(CONSTANT_LIAR_MIN) *)
      let rel x := neg * s * (x - m) in
      map (fun vf : Q * bool => if snd vf then rel lie else rel (fst vf)) (combine vals fails)
  end.

(* the history in which the value STORED with every failed observation is replaced by the corresponding entry of `junk`
   (an observation reported as failed still carries some number - a placeholder, a sentinel such as 1e30, whatever the client
   sent); successes keep their values; where `junk` runs out the stored value stays.  Used to state that the endpoint never
   reads those numbers. *)
Fixpoint overwrite (fails : list bool) (vals junk : list Q) : list Q :=
  match fails, vals with
  | f :: fs, v :: vs => (if f then hd v junk else v) :: overwrite fs vs (tl junk)
  | _, _ => vals
  end.

(* ---------------------------------------------------------------- MultisolutionBestAssignments.view *)
(* extended values: a finite double or +inf.  `vltb a b` is the IEEE comparison a < b (inf < inf is false). *)
Inductive xv := PInf | Val (q : Q).
Definition vltb (a b : xv) : bool :=
  match a, b with
  | PInf, _ => false
  | Val _, PInf => true
  | Val x, Val y => Qltb x y
  end.
Definition vargmin (l : list xv) : nat := argbest (fun x best => vltb x best) l.
(* the order read off the comparison the code makes: a <= b iff not (b < a) *)
Definition vlt (a b : xv) : Prop := vltb a b = true.
Definition vle (a b : xv) : Prop := vltb b a = false.

(* values = numpy.where(self.points_sampled_failures, numpy.inf, self.points_sampled_for_af_values[:, 0]) *)
Definition masked_values (scaled : list Q) (fails : list bool) : list xv :=
  map (fun vf : Q * bool => if snd vf then PInf else Val (fst vf)) (combine scaled fails).

(* for i, p in enumerate(partition): if best_value[p] is None or values[i] < best_value[p]: ... *)
Definition scan_step (values : list xv) (st : list (option (nat * xv))) (ip : nat * nat) : list (option (nat * xv)) :=
  let '(i, p) := ip in
  let v := nth i values PInf in
  match nth p st None with
  | None => set_nth p (Some (i, v)) st
  | Some (_, bv) => if vltb v bv then set_nth p (Some (i, v)) st else st
  end.
Definition cluster_scan (values : list xv) (partition : list nat) (k : nat) : list (option (nat * xv)) :=
  fold_left (scan_step values) (combine (seq 0 (length partition)) partition) (repeat None k).

Fixpoint nodupb (l : list nat) : bool :=
  match l with [] => true | x :: r => negb (existsb (Nat.eqb x) r) && nodupb r end.

(* the part of view() after the values and the search points are formed; None = AssertionError *)
Definition best_assignments (values : list xv) (spts : list point) (k : nat) : option (list nat) :=
  if negb (Nat.ltb 1 k) then None else
  let first := vargmin values in
  match k_center spts first k with
  | None => None
  | Some (_, partition) =>
      let st := cluster_scan values partition k in
      let best := flat_map (fun o => match o with Some (i, _) => [i] | None => [] end) st in
      if Nat.eqb (length best) (length st) && nodupb best && forallb (fun i => Nat.ltb i (length spts)) best
      then Some best else None
  end.

Fixpoint all_some {A} (l : list (option A)) : option (list A) :=
  match l with
  | [] => Some []
  | None :: _ => None
  | Some x :: r => match all_some r with Some r' => Some (x :: r') | None => None end
  end.

(* the whole endpoint on one optimised metric *)
Definition view (cs : list comp) (tgt : Q) (points : list point) (vals : list Q) (fails : list bool)
  (maximize : bool) (k : nat) : option (list nat) :=
  match all_some (map (to_one_hot cs) points) with
  | None => None
  | Some ohs =>
      best_assignments (masked_values (scaled_values maximize vals fails) fails) (map (search_point cs tgt) ohs) k
  end.

(* ---------------------------------------------------------------- decidable specifications, evaluated on the
   implementation's own outputs *)
Definition ltb_or_eq (strict : bool) (a b : Q) : bool := if strict then Qltb a b else Qle_bool a b.
Definition d2ix (pts : list point) (i j : nat) : Q := dist2 (nth i pts []) (nth j pts []).
(* squared distance of observation t to the nearest of the listed centres (None for no centre) *)
Definition mind (pts : list point) (cs : list nat) (t : nat) : option Q :=
  match cs with [] => None | c :: r => Some (fold_left (fun m c' => Qminb m (d2ix pts c' t)) r (d2ix pts c t)) end.
Definition omind (pts : list point) (cs : list nat) (t : nat) : Q := match mind pts cs t with Some q => q | None => 0 end.
Definition memb (x : nat) (l : list nat) : bool := existsb (Nat.eqb x) l.

(* centres: distinct, in range, start at `first`; each later centre is the first observation, among those not yet
   chosen, at maximal squared distance from the chosen ones *)
Definition centres_spec_b (pts : list point) (first k : nat) (cs : list nat) : bool :=
  let n := length pts in
  Nat.eqb (length cs) k && Nat.eqb (hd n cs) first && nodupb cs && forallb (fun c => Nat.ltb c n) cs &&
  forallb (fun i =>
    let pre := firstn i cs in let c := nth i cs O in
    forallb (fun t => memb t pre ||
                      (if Nat.ltb t c then Qltb (omind pts pre t) (omind pts pre c)
                       else Qle_bool (omind pts pre t) (omind pts pre c)))
            (seq 0 n))
    (seq 1 (k - 1)).

(* partition: every centre is in its own cluster, every other observation in the cluster of its nearest centre,
   the first such centre on ties *)
Definition partition_spec_b (pts : list point) (cs part : list nat) : bool :=
  let n := length pts in let k := length cs in
  Nat.eqb (length part) n &&
  forallb (fun t =>
    let c := nth t part O in
    Nat.ltb c k &&
    forallb (fun j => Qle_bool (d2ix pts (nth c cs O) t) (d2ix pts (nth j cs O) t)) (seq 0 k) &&
    (if memb t cs then Nat.eqb (nth c cs O) t
     else forallb (fun j => Qltb (d2ix pts (nth c cs O) t) (d2ix pts (nth j cs O) t)) (seq 0 c)))
    (seq 0 n).

(* best indices: k distinct indices in range, entry c lies in cluster c and is the first minimum of the (extended) values
   over cluster c; entry 0 is the first minimum of all values *)
Definition best_spec_b (values : list xv) (part : list nat) (k : nat) (best : list nat) : bool :=
  let n := length part in
  Nat.eqb (length best) k && nodupb best && forallb (fun i => Nat.ltb i n) best &&
  Nat.eqb (hd n best) (vargmin values) &&
  forallb (fun c =>
    let b := nth c best O in
    Nat.eqb (nth b part k) c &&
    forallb (fun t => negb (Nat.eqb (nth t part k) c) ||
                      (if Nat.ltb t b then vltb (nth b values PInf) (nth t values PInf)
                       else negb (vltb (nth t values PInf) (nth b values PInf))))
            (seq 0 n))
    (seq 0 k).

(* the weaker statement visible through the endpoint alone: k distinct valid indices containing a best value *)
Definition endpoint_spec_b (values : list xv) (n k : nat) (best : list nat) : bool :=
  Nat.eqb (length best) k && nodupb best && forallb (fun i => Nat.ltb i n) best &&
  memb (vargmin values) best.

(* the STRICT reading on the RAW values (no scaled value involved), for a history with at least one success:
   `rbetter a b` = raw value a is strictly better than raw value b for the objective.  Entry 0 is a success no success beats
   and every earlier success is strictly worse; for every cluster c with representative b: if the cluster holds a success
   then b is a success of the cluster that none of its successes beats, every earlier success of the cluster being strictly
   worse; if it holds none, b is its first member. *)
Definition rbetter (maximize : bool) (a b : Q) : bool := if maximize then Qltb b a else Qltb a b.
Definition strict_spec_b (maximize : bool) (vals : list Q) (fails : list bool) (part : list nat) (k : nat) (best : list nat) : bool :=
  let n := length part in
  let ok t := negb (nth t fails true) in
  let v t := nth t vals 0 in
  let b0 := hd n best in
  ok b0 &&
  forallb (fun t => negb (ok t) || (if Nat.ltb t b0 then rbetter maximize (v b0) (v t) else negb (rbetter maximize (v t) (v b0)))) (seq 0 n) &&
  forallb (fun c =>
    let b := nth c best O in
    let members := filter (fun t => Nat.eqb (nth t part k) c) (seq 0 n) in
    if existsb ok members
    then ok b && forallb (fun t => negb (ok t) || (if Nat.ltb t b then rbetter maximize (v b) (v t)
                                                   else negb (rbetter maximize (v t) (v b)))) members
    else Nat.eqb (hd n members) b)
    (seq 0 k).
