(* Correspondence cases for C07: the implementation's recorded behaviour (every evaluated batch, every batch handed to
   the restriction, the returned best point / value / OptimizationResults) is compared with Model.Optim and
   Model.Multistart, and the decidable specifications are evaluated on the implementation's own output, inside Coq. *)
From Coq Require Import List QArith Bool Arith Qabs Qround.
From LV Require Import Model.Optim Model.Multistart.
Import ListNotations.
Open Scope Q_scope.

(* ---------------------------------------------------------------- the recorded acquisition function
   af(x) = sum_i (a_i y_i^2 + b_i y_i) + cc * y_first * y_last   with  y = floor(snap * x) / snap  (y = x when snap = 0);
   integer coefficients, power-of-two snap: exact in double arithmetic on the generated inputs *)
Record afspec := mkaf { af_a : list Q; af_b : list Q; af_cc : Q; af_snap : Q }.
Definition snap1 (s x : Q) : Q := if Qeq_bool s 0 then x else Qred (inject_Z (Qfloor (s * x)) / s).
Fixpoint quad_sum (a b y : list Q) : Q :=
  match a, b, y with ai :: a', bi :: b', yi :: y' => ai * yi * yi + bi * yi + quad_sum a' b' y' | _, _, _ => 0 end.
Definition af_eval (f : afspec) (x : point) : Q :=
  let y := map (snap1 (af_snap f)) x in
  Qred (quad_sum (af_a f) (af_b f) y + af_cc f * hd 0 y * last y 0).

Record domspec := mkdom { d_lb : point; d_ub : point; d_fixed : list (nat * Q); d_cons : list (point * Q) }.
Definition in_dom_of (tol : Q) (d : domspec) : point -> bool := in_dom_b tol (d_lb d) (d_ub d) (d_fixed d) (d_cons d).

(* the scripted quasi-random generator: the first k points of the cyclically repeated pool *)
Definition cyc (pool : batch) (k : nat) : batch :=
  map (fun i => nth (i mod (length pool)) pool []) (seq 0 k).

Definition list_eqb {A} (eq : A -> A -> bool) := fix go (a b : list A) : bool :=
  match a, b with [], [] => true | x :: a', y :: b' => eq x y && go a' b' | _, _ => false end.
Definition point_eqb := list_eqb Qeq_bool.
Definition batch_eqb := list_eqb point_eqb.
Definition close (tol a b : Q) : bool := Qle_bool (Qabs (a - b)) tol.
Definition batch_close (tol : Q) := list_eqb (list_eqb (close tol)).
Definition optq_eqb (a b : option Q) : bool :=
  match a, b with None, None => true | Some x, Some y => Qeq_bool x y | _, _ => false end.

(* decidable specification of "returns exactly the evaluated point of highest value, the first one attaining it" *)
Definition best_spec_b (af : point -> Q) (flat : batch) (p : point) (v : Q) : bool :=
  Qeq_bool v (af p) && forallb (fun q => Qle_bool (af q) v) flat &&
  match find (fun q => Qeq_bool (af q) v) flat with Some q => point_eqb q p | None => false end.

(* what the harness observed *)
Record obs := mkobs {
  ob_evals : list batch; ob_rins : list batch; ob_routs : list batch;
  ob_best : point; ob_bestv : Q; ob_start : batch; ob_end : batch; ob_vals : list Q
}.

Definition tol_cons : Q := 1 # 1000000000.      (* constraints on the running code: 1e-9 (DESIGN 7.0) *)
Definition tol_num : Q := 1 # 1000000000000.    (* 1e-12: double rounding after a division / square root *)

(* restriction used by the model: exact clip + fix on a box; the recorded outputs under linear constraints (the
   constrained restriction divides and draws; it is C08's subject) *)
Definition restrict_of (d : domspec) (routs : list batch) : nat -> batch -> batch :=
  match d_cons d with
  | [] => fun _ b => restrict_box (d_lb d) (d_ub d) (d_fixed d) b
  | _ => fun k _ => nth k routs []
  end.
Definition rin_tol (d : domspec) : Q := match d_cons d with [] => 0 | _ => tol_num end.

Definition check_output (d : domspec) (f : afspec) (o : output) (ob : obs) : bool :=
  let af := af_eval f in
  list_eqb batch_eqb (evals (o_state o)) (ob_evals ob) &&
  list_eqb (batch_close (rin_tol d)) (rins (o_state o)) (ob_rins ob) &&
  match best (o_state o) with
  | Some (p, v) => point_eqb p (ob_best ob) && Qeq_bool v (ob_bestv ob)
  | None => false
  end &&
  batch_eqb (o_start o) (ob_start ob) && batch_eqb (o_end o) (ob_end ob) &&
  list_eqb Qeq_bool (o_vals o) (ob_vals ob) &&
  (* specification on the implementation's own output *)
  forallb (forallb (in_dom_of tol_cons d)) (ob_evals ob) &&
  best_spec_b af (concat (ob_evals ob)) (ob_best ob) (ob_bestv ob) &&
  list_eqb Qeq_bool (map af (ob_end ob)) (ob_vals ob) &&
  match ob_routs ob with     (* never lower than the value at any domain-restricted starting point *)
  | r0 :: _ => forallb (fun p => Qle_bool (af p) (ob_bestv ob)) r0
  | [] => false
  end.

(* one coordinate of one member over the Adam iterations: gradients, certified square roots, observed updates *)
Record track := mktr { tr_g : list Q; tr_s : list Q; tr_u : list Q }.
Definition Qmaxb (a b : Q) : Q := if Qle_bool a b then b else a.
Fixpoint check_track_run (outs : list adam_out) (ss us : list Q) : bool :=
  match outs, ss, us with
  | [], [], [] => true
  | o :: outs', s :: ss', u :: us' =>
      Qle_bool 0 s && Qle_bool (Qabs (s * s - a_vhat o)) (tol_num * Qmaxb 1 (a_vhat o)) &&
      close tol_num (a_upd o) u && check_track_run outs' ss' us'
  | _, _, _ => false
  end.
Definition check_track (b1 b2 lr eps : Q) (t : track) : bool :=
  Nat.eqb (length (tr_g t)) (length (tr_s t)) && Nat.eqb (length (tr_g t)) (length (tr_u t)) &&
  check_track_run (adam_coord_run b1 b2 lr eps 1 0 0 (tr_g t) (tr_s t)) (tr_s t) (tr_u t) &&
  match tr_g t, tr_u t with
  | g :: _, u :: _ => close tol_num (adam_first lr eps g) u &&
                      Qle_bool 0 (u * g)                       (* the first step does not point downhill *)
  | _, _ => true
  end.

Inductive ms_obs :=
| MsErr (e : err)
| MsOk (bestp : point) (starts ends : batch) (vals : list (option Q)).

Inductive case :=
| CDE (d : domspec) (f : afspec) (P : de_par) (maxiter : nat) (selected : option batch) (pool : batch)
      (ds : list draws) (ob : option obs)                       (* None: the implementation raised ValueError *)
| CAdam (d : domspec) (f : afspec) (n maxiter : nat) (selected : option batch) (pool : batch)
        (ups : list batch) (ob : obs) (b1 b2 lr eps : Q) (tracks : list track)
| CMs (d : domspec) (nm : nat) (selected : option batch) (pool : batch) (table : list outcome) (ob : ms_obs).

Definition err_eqb (a b : err) : bool :=
  match a, b with
  | ValueError, ValueError | IndexError, IndexError | ShapeError, ShapeError
  | RuntimeError, RuntimeError | NoBest, NoBest => true
  | _, _ => false
  end.

Definition check (c : case) : bool :=
  match c with
  | CDE d f P maxiter selected pool ds ob =>
      let routs := match ob with Some o => ob_routs o | None => [] end in
      match de_optimize (af_eval f) (restrict_of d routs) (cyc pool) P maxiter selected ds, ob with
      | Ok o, Some ob => check_output d f o ob
      | Err ValueError, None => true
      | _, _ => false
      end
  | CAdam d f n maxiter selected pool ups ob b1 b2 lr eps tracks =>
      match adam_optimize (af_eval f) (restrict_of d (ob_routs ob)) (cyc pool) n maxiter selected ups with
      | Ok o => check_output d f o ob && forallb (check_track b1 b2 lr eps) tracks
      | Err _ => false
      end
  | CMs d nm selected pool table ob =>
      (* a run beyond the scripted table hands its start back without success *)
      match ms_optimize (in_dom_of 0 d) (fun k p => nth k table (mkoc false false p None)) (cyc pool) nm selected, ob with
      | Ok st, MsOk bp starts ends vals =>
          match ms_best st with Some p => point_eqb p bp | None => false end &&
          batch_eqb (ms_starts st) starts && batch_eqb (ms_ends st) ends && list_eqb optq_eqb (ms_vals st) vals
      | Err e, MsErr e' => err_eqb e e'
      | _, _ => false
      end
  end.
