(* Correspondence cases for C07: the implementation's recorded behaviour (every evaluated batch, every batch handed to
   the restriction, the returned best point / value / OptimizationResults) is compared with Model.Optim and
   Model.Multistart, and the decidable specifications are evaluated on the implementation's own output, inside Coq. *)
From Coq Require Import List QArith Bool Arith Qabs Qround.
From LV Require Import Model.Optim Model.Multistart.
Import ListNotations.
Open Scope Q_scope.

(* ---------------------------------------------------------------- the recorded acquisition function
   af(x) = sum_i (a_i y_i^2 + b_i y_i) + cc * y_first * y_last   with  y = floor(snap * x) / snap  (y = x when snap = 0);
   integer coefficients, power-of-two snap: exact in double arithmetic on the generated inputs.
   The function is undefined (the harness returns NaN) on the union of the half-spaces af_und: (k, t, true) means x_k > t,
   (k, t, false) means x_k < t (raw coordinates: a comparison of doubles is exact) *)
Record afspec := mkaf { af_a : list Q; af_b : list Q; af_cc : Q; af_snap : Q; af_und : list (nat * Q * bool) }.
Definition snap1 (s x : Q) : Q := if Qeq_bool s 0 then x else Qred (inject_Z (Qfloor (s * x)) / s).
Fixpoint quad_sum (a b y : list Q) : Q :=
  match a, b, y with ai :: a', bi :: b', yi :: y' => ai * yi * yi + bi * yi + quad_sum a' b' y' | _, _, _ => 0 end.
Definition af_value (f : afspec) (x : point) : Q :=
  let y := map (snap1 (af_snap f)) x in
  Qred (quad_sum (af_a f) (af_b f) y + af_cc f * hd 0 y * last y 0).
Definition undefined_at (f : afspec) (x : point) : bool :=
  existsb (fun u : nat * Q * bool =>
             let '(k, t, above) := u in
             if above then Qltb t (nth k x t) else Qltb (nth k x t) t) (af_und f).
Definition af_eval (f : afspec) (x : point) : option Q :=
  if undefined_at f x then None else Some (af_value f x).

Record domspec := mkdom { d_lb : point; d_ub : point; d_fixed : list (nat * Q); d_cons : list (point * Q) }.
Definition in_dom_of (tol : Q) (d : domspec) : point -> bool := in_dom_b tol (d_lb d) (d_ub d) (d_fixed d) (d_cons d).

(* the scripted quasi-random generator: the first k points of the cyclically repeated pool *)
Definition cyc (pool : batch) (k : nat) : batch :=
  map (fun i => nth (i mod (length pool)) pool []) (seq 0 k).

Definition list_eqb {A} (eq : A -> A -> bool) := fix go (a b : list A) : bool :=
  match a, b with [], [] => true | x :: a', y :: b' => eq x y && go a' b' | _, _ => false end.
Definition point_eqb := list_eqb Qeq_bool.
Definition batch_eqb := list_eqb point_eqb.
Definition close (tol a b : Q) : bool := Qle_bool (Qabs (a - b)) tol.
Definition batch_close (tol : Q) := list_eqb (list_eqb (close tol)).
Definition optq_eqb (a b : option Q) : bool :=
  match a, b with None, None => true | Some x, Some y => Qeq_bool x y | _, _ => false end.

(* decidable specification of "returns exactly the evaluated point of highest value, the first one attaining it"; a point
   where the function is undefined has no value: it is never the answer and never stands in the way of one *)
Definition le_opt (a : option Q) (v : Q) : bool := match a with Some w => Qle_bool w v | None => true end.
Definition best_spec_b (af : point -> option Q) (flat : batch) (p : point) (v : Q) : bool :=
  optq_eqb (af p) (Some v) && forallb (fun q => le_opt (af q) v) flat &&
  match find (fun q => optq_eqb (af q) (Some v)) flat with Some q => point_eqb q p | None => false end.

(* what the harness observed *)
Record obs := mkobs {
  ob_evals : list batch; ob_rins : list batch; ob_routs : list batch;
  ob_best : point; ob_bestv : option Q; ob_start : batch; ob_end : batch; ob_vals : list (option Q)   (* None: NaN *)
}.

Definition tol_cons : Q := 1 # 1000000000.      (* constraints on the running code: 1e-9 (DESIGN 7.0) *)
Definition tol_num : Q := 1 # 1000000000000.    (* 1e-12: double rounding after a division / square root *)

(* restriction used by the model: exact clip + fix on a box; the recorded outputs under linear constraints (the
   constrained restriction divides and draws; it is C08's subject) *)
Definition restrict_of (d : domspec) (routs : list batch) : nat -> batch -> batch :=
  match d_cons d with
  | [] => fun _ b => restrict_box (d_lb d) (d_ub d) (d_fixed d) b
  | _ => fun k _ => nth k routs []
  end.
Definition rin_tol (d : domspec) : Q := match d_cons d with [] => 0 | _ => tol_num end.

Definition check_output (d : domspec) (f : afspec) (o : output) (ob : obs) : bool :=
  let af := af_eval f in
  list_eqb batch_eqb (evals (o_state o)) (ob_evals ob) &&
  list_eqb (batch_close (rin_tol d)) (rins (o_state o)) (ob_rins ob) &&
  match best (o_state o) with
  | Some (p, v) => point_eqb p (ob_best ob) && optq_eqb (Some v) (ob_bestv ob)
  | None => false
  end &&
  batch_eqb (o_start o) (ob_start ob) && batch_eqb (o_end o) (ob_end ob) &&
  list_eqb optq_eqb (o_vals o) (ob_vals ob) &&
  (* specification on the implementation's own output *)
  forallb (forallb (in_dom_of tol_cons d)) (ob_evals ob) &&
  match ob_bestv ob with       (* the reported value is a value: never NaN *)
  | Some bv =>
      best_spec_b af (concat (ob_evals ob)) (ob_best ob) bv &&
      match ob_routs ob with     (* never lower than the value at any domain-restricted starting point that has one *)
      | r0 :: _ => forallb (fun p => le_opt (af p) bv) r0
      | [] => false
      end
  | None => false
  end &&
  list_eqb optq_eqb (map af (ob_end ob)) (ob_vals ob).

(* one coordinate of one member over the Adam iterations: gradients, certified square roots, observed updates *)
Record track := mktr { tr_g : list Q; tr_s : list Q; tr_u : list Q }.
Definition Qmaxb (a b : Q) : Q := if Qle_bool a b then b else a.
Fixpoint check_track_run (outs : list adam_out) (ss us : list Q) : bool :=
  match outs, ss, us with
  | [], [], [] => true
  | o :: outs', s :: ss', u :: us' =>
      Qle_bool 0 s && Qle_bool (Qabs (s * s - a_vhat o)) (tol_num * Qmaxb 1 (a_vhat o)) &&
      close tol_num (a_upd o) u && check_track_run outs' ss' us'
  | _, _, _ => false
  end.
Definition check_track (b1 b2 lr eps : Q) (t : track) : bool :=
  Nat.eqb (length (tr_g t)) (length (tr_s t)) && Nat.eqb (length (tr_g t)) (length (tr_u t)) &&
  check_track_run (adam_coord_run b1 b2 lr eps 1 0 0 (tr_g t) (tr_s t)) (tr_s t) (tr_u t) &&
  match tr_g t, tr_u t with
  | g :: _, u :: _ => close tol_num (adam_first lr eps g) u &&
                      Qle_bool 0 (u * g)                       (* the first step does not point downhill *)
  | _, _ => true
  end.

Inductive ms_obs :=
| MsErr (e : err)
| MsOk (bestp : point) (starts ends : batch) (vals : list (option Q)).

Inductive case :=
| CDE (d : domspec) (f : afspec) (P : de_par) (maxiter : nat) (selected : option batch) (pool : batch)
      (ds : list draws) (routs : list batch) (ob : option obs)  (* None: the implementation raised ValueError *)
| CAdam (d : domspec) (f : afspec) (n maxiter : nat) (selected : option batch) (pool : batch)
        (ups : list batch) (routs : list batch) (ob : option obs)    (* None: ValueError (a batch without a single defined value) *)
        (b1 b2 lr eps : Q) (tracks : list track)
| CMs (d : domspec) (nm : nat) (selected : option batch) (pool : batch) (table : list outcome) (ob : ms_obs).

Definition err_eqb (a b : err) : bool :=
  match a, b with
  | ValueError, ValueError | IndexError, IndexError | ShapeError, ShapeError
  | RuntimeError, RuntimeError | NoBest, NoBest => true
  | _, _ => false
  end.

Definition check (c : case) : bool :=
  match c with
  | CDE d f P maxiter selected pool ds routs ob =>
      match de_optimize (af_eval f) (restrict_of d routs) (cyc pool) P maxiter selected ds, ob with
      | Ok o, Some ob => check_output d f o ob
      | Err ValueError, None => true
      | _, _ => false
      end
  | CAdam d f n maxiter selected pool ups routs ob b1 b2 lr eps tracks =>
      match adam_optimize (af_eval f) (restrict_of d routs) (cyc pool) n maxiter selected ups, ob with
      | Ok o, Some ob => check_output d f o ob && forallb (check_track b1 b2 lr eps) tracks
      | Err ValueError, None => true
      | _, _ => false
      end
  | CMs d nm selected pool table ob =>
      (* a run beyond the scripted table hands its start back without success *)
      match ms_optimize (in_dom_of 0 d) (fun k p => nth k table (mkoc false false p None)) (cyc pool) nm selected, ob with
      | Ok st, MsOk bp starts ends vals =>
          match ms_best st with Some p => point_eqb p bp | None => false end &&
          batch_eqb (ms_starts st) starts && batch_eqb (ms_ends st) ends && list_eqb optq_eqb (ms_vals st) vals
      | Err e, MsErr e' => err_eqb e e'
      | _, _ => false
      end
  end.
