(* Correspondence cases for C15: the implementation's outputs (recorded by tools/props/C15.py) are compared with
   LV.Model.Lies and with the decidable specifications, inside Coq. *)
From Coq Require Import List QArith Qabs Bool Arith.
From LV Require Import Model.Lies.
Import ListNotations.
Open Scope Q_scope.

(* exact comparison, or (only where the implementation divides / rounds a non-dyadic product: constant_liar_mean values,
   weighted noise sums) relative 1e-12 *)
Definition rtol : Q := 1 # 1000000000000.
(* relative to 1 + |b|: a mean that is exactly 0 in the model comes out as ~1e-16 in doubles (data of the generator are of size 1 .. 100) *)
Definition qclose (a b : Q) : bool := Qle_bool (Qabs (a - b)) (rtol * (1 + Qabs b)).
Definition q_eqb (tol : bool) (a b : Q) : bool := if tol then qclose a b else Qeq_bool a b.
Definition v_eqb (tol : bool) := list_eqb (q_eqb tol).
Definition err_eqb (a b : err) : bool :=
  match a, b with AssertionError, AssertionError | ValueError, ValueError | IndexError, IndexError => true | _, _ => false end.
Definition out_eqb (tol : bool) (a b : out) : bool :=
  match a, b with
  | ONone, ONone => true
  | ONat n, ONat m => Nat.eqb n m
  | OPts p, OPts q => pts_eqb p q
  | OVec v, OVec w => v_eqb tol v w
  | OVal x, OVal y => q_eqb tol x y
  | OErr e, OErr f => err_eqb e f
  | OStash a1 b1, OStash a2 b2 => pts_eqb a1 a2 && pts_eqb b1 b2
  | _, _ => false
  end.
Definition hist_eqb (tol tol_noise : bool) (a b : hist) : bool :=
  Nat.eqb (h_dim a) (h_dim b) && pts_eqb (h_pts a) (h_pts b) && v_eqb tol (h_vals a) (h_vals b) && v_eqb tol_noise (h_noise a) (h_noise b).
Definition pz_eqb (a b : pz) : bool :=
  Nat.eqb (p_dim a) (p_dim b) && pts_eqb (p_lower a) (p_lower b) && pts_eqb (p_greater a) (p_greater b) &&
  pts_eqb (p_lower_lies a) (p_lower_lies b) && pts_eqb (p_greater_lies a) (p_greater_lies b).

(* the states a machine goes through, one per op (after the op) *)
Fixpoint states {St Op Out} (step : St -> Op -> St * Out) (s : St) (ops : list Op) : list St :=
  match ops with [] => [] | o :: r => let s' := fst (step s o) in s' :: states step s' r end.

(* ---- decidable specifications evaluated on the implementation's own observations ---- *)
(* C15, GP clause, for histories using constant_liar_min only: final data = initial ++ appended, worst initial value, lie noise *)
Definition all_liemin (ops : list gop) : bool :=
  forallb (fun o => match o with GAppend _ LieMin => true | GAppend _ _ => false | _ => true end) ops.
Definition good_appends (d : nat) (ops : list gop) : list point :=
  flat_map (fun o => match o with GAppend locs _ => if rows_ok d locs then locs else [] | _ => [] end) ops.
Definition gp_closed_b (init : hist) (ops : list gop) (fin : hist) : bool :=
  let app := good_appends (h_dim init) ops in
  let k := length app in
  Nat.eqb (length (h_vals fin)) (length (h_pts fin)) && Nat.eqb (length (h_noise fin)) (length (h_pts fin)) &&
  pts_eqb (h_pts fin) (h_pts init ++ app) &&
  vec_eqb (h_noise fin) (h_noise init ++ repeat lie_noise k) &&
  (negb (all_liemin ops) ||
   match h_vals init with
   | [] => false
   | x :: r => let w := qmax x r in
               vec_eqb (h_vals fin) (h_vals init ++ repeat w k) &&
               forallb (fun y => Qle_bool y w) (h_vals init) && existsb (Qeq_bool w) (h_vals init)
   end).
(* C15, Parzen clause: points = base ++ current lies *)
Definition pz_inv_b (blo bgr : list point) (s : pz) : bool :=
  pts_eqb (p_lower s) (blo ++ p_lower_lies s) && pts_eqb (p_greater s) (bgr ++ p_greater_lies s).

(* C15, endpoint clause, on what the optimiser of the GP endpoint is handed: the pending points are the tail of the model's data,
   carrying one value that is not below any value of the data the model was built from, and the lie noise - or they are the
   pending set of parallel EI and parallel EI is what runs *)
Definition pending_fed_b (h : hist) (pending : list point) (observed : hist) (pending_set : list point) (used_qei : bool) : bool :=
  let k := length pending in
  (negb used_qei &&
   pts_eqb (h_pts observed) (h_pts h ++ pending) &&
   vec_eqb (h_noise observed) (h_noise h ++ repeat lie_noise k) &&
   match skipn (length (h_vals h)) (h_vals observed) with
   | [] => Nat.eqb k 0 && vec_eqb (h_vals observed) (h_vals h)
   | v :: _ => vec_eqb (h_vals observed) (h_vals h ++ repeat v k) && forallb (fun y => Qle_bool y v) (h_vals h)
   end)
  || (used_qei && pts_eqb pending_set pending && negb (Nat.eqb k 0)).

(* ---- stub optimisers, mirrored exactly by the Python harness ---- *)
Definition stub_of (pts : list point) (vals : list Q) : point :=
  let n := inject_Z (Z.of_nat (length pts)) in
  map (fun x => x + n + last vals 0) (last pts []).
Definition stub_pick_gp (g : gp) : point := stub_of (h_pts (g_hist g)) (h_vals (g_hist g)).
Definition stub_pick_sum (s : gpsum) : point :=
  stub_of (match s_comps s with g :: _ => h_pts (g_hist g) | [] => [] end) (fresh_vals s).
Definition stub_pick_search (lo hi : list Q) (a : search_af) : point :=
  map (fun t => fst (snd t) + (snd (snd t) - fst (snd t)) * ((fst t + 1) / 2))
      (combine (last (repulsors a) (repeat 0 (length lo))) (combine lo hi)).

(* the Parzen constant liar's optimiser: half the last point of the greater set, shifted by a quarter of the number of greater
   points and an eighth of the number of lower points (dyadic, so exact in double arithmetic) *)
Definition stub_pick_pz (s : pz) : point :=
  let k := inject_Z (Z.of_nat (length (p_greater s))) / 4 + inject_Z (Z.of_nat (length (p_lower s))) / 8 in
  map (fun x => x / 2 + k) (last (p_greater s) []).

Definition sum_view (s : gpsum) : hist :=
  mkHist (match s_comps s with g :: _ => h_dim (g_hist g) | [] => O end)
         (match s_comps s with g :: _ => h_pts (g_hist g) | [] => [] end) (fresh_vals s) (fresh_noise s).
Definition search_eqb (a b : search_af) : bool := pts_eqb (repulsors a) (repulsors b) && Qeq_bool (dist_par a) (dist_par b).

Inductive case :=
(* tol: a constant_liar_mean append occurs; outs: the implementation's output of every op (the last five are reads of
   every accessor); unchanged: the harness's deep comparison of objects the calls must not touch *)
| CGp (tol : bool) (init : hist) (ops : list gop) (outs : list out) (fin : hist)
| CSum (reset tol : bool) (comps : list hist) (weights : list Q) (ops : list sop) (outs : list out)
| CPz (init : pz) (ops : list pop) (outs : list out) (snaps : list pz) (valid : bool)   (* valid: no malformed lie in the history *)
| CCLGp (init : hist) (n : nat) (picks : list point) (seen : list hist) (unchanged : bool)
| CCLSum (comps : list hist) (weights : list Q) (n : nat) (picks : list point) (seen : list hist) (unchanged : bool)
| CSearch (lo hi : list Q) (init : search_af) (draws : list Q) (n : nat) (picks : list point) (seen : list search_af)
          (final : search_af)
(* one GP the GP endpoint built: [objective] = it is (a component of) the predictor of the acquisition function the optimiser was
   handed, otherwise a GP under the failure model; h, lie: what form_single_gaussian_process was given; observed: the data of that
   GP object WHEN THE OPTIMISER IS CALLED; pending_set, used_qei: the pending set of the acquisition function and which optimiser ran *)
| CFeedGp (qei multitask objective : bool) (h : hist) (pending : list point) (lie : Q) (observed : hist)
          (pending_set : list point) (used_qei : bool)
| CFeedPz (before : pz) (pending : list point) (after : pz)
(* SPENextPoints.suggest_next_points_constant_liar on a real estimator that already holds lies (init), the multistart optimiser
   replaced by the recording stub: the picks returned, the estimator state each optimisation saw, the state left to the caller *)
| CPzCL (init : pz) (n : nat) (picks : list point) (seen : list pz) (final : pz)
(* the real Parzen endpoint from the formed estimator on (real create_spe_suggestions / draw_samples / constant liar, one batch of
   the rejection sampler): pick = what the multistart optimiser returned, seen = the estimator it ran against, evals = the estimator
   at every expected-improvement evaluation after the pick, after = the estimator when draw_samples returns *)
| CSpeSampling (formed : pz) (pending : list point) (pick : point) (seen after : pz) (evals : list pz)
| CFeedSearch (lo hi : list Q) (sampled pending : list point) (observed : list point).

Definition mk_sum (comps : list hist) (weights : list Q) : gpsum :=
  mkSum (map (fun h => mkGp h None) comps) weights None None None.

Definition check (c : case) : bool :=
  match c with
  | CGp tol init ops outs fin =>
      list_eqb (out_eqb tol) (trace gp_step (mkGp init None) ops) outs &&
      hist_eqb tol false (g_hist (run gp_step (mkGp init None) ops)) fin &&
      (tol || gp_closed_b init ops fin)
  | CSum reset tol comps weights ops outs =>
      (* weighted noise sums round in double arithmetic: always compared to 1e-12 relative; values exactly unless tol *)
      list_eqb (fun a b => match a, b with
                           | OVec v, OVec w => v_eqb tol v w || v_eqb true v w
                           | _, _ => out_eqb tol a b end)
               (trace (s_step reset) (mk_sum comps weights) ops) outs
  | CPz init ops outs snaps valid =>
      list_eqb (out_eqb false) (trace pz_step init ops) outs &&
      list_eqb pz_eqb (states pz_step init ops) snaps &&
      (negb valid || forallb (pz_inv_b (p_lower init) (p_greater init)) snaps)
  | CCLGp init n picks seen unchanged =>
      let '(ps, ss) := cl_loop gp_append1 stub_pick_gp n (mkGp init None) in
      unchanged && pts_eqb ps picks && list_eqb (hist_eqb false false) (map g_hist ss) seen
  | CCLSum comps weights n picks seen unchanged =>
      let '(ps, ss) := cl_loop sum_append1 stub_pick_sum n (mk_sum comps weights) in
      unchanged && pts_eqb ps picks && list_eqb (hist_eqb false true) (map sum_view ss) seen
  | CSearch lo hi init draws n picks seen final =>
      let '(ps, ss, fin) := search_loop (unit_cube lo hi) (stub_pick_search lo hi) draws n init in
      pts_eqb ps picks && list_eqb search_eqb ss seen && search_eqb fin final && search_eqb init final
  | CFeedGp qei multitask objective h pending lie observed pending_set used_qei =>
      let par := if qei then QEI else ConstantLiar in
      if objective then
        match feed_gp par multitask h pending lie with
        | inl f => hist_eqb false false (f_hist f) observed && pts_eqb (f_pending_set f) pending_set && Bool.eqb (f_use_qei f) used_qei &&
                   pending_fed_b h pending observed pending_set used_qei
        | inr _ => false
        end
      else
        match feed_failure_gp par h pending lie with
        | inl h' => hist_eqb false false h' observed
        | inr _ => false
        end
  | CFeedPz before pending after =>
      match feed_parzen before pending with (s, None) => pz_eqb s after | _ => false end
  | CPzCL init n picks seen final =>
      let '(ps, ss, fin) := pz_constant_liar stub_pick_pz n init in
      pts_eqb ps picks && list_eqb pz_eqb ss seen && pz_eqb fin final &&
      pz_eqb init final                                  (* the clause itself, on the implementation's output: restored *)
  | CSpeSampling formed pending pick seen after evals =>
      match spe_sampling (fun _ => pick) formed pending with
      | inl (p, s1, s2) => vec_eqb p pick && pz_eqb s1 seen && pz_eqb s2 after && forallb (pz_eqb s2) evals &&
                           pts_eqb (p_greater_lies after) (p_greater_lies formed ++ pending)   (* pending points still lies *)
      | inr _ => false
      end
  | CFeedSearch lo hi sampled pending observed =>
      pts_eqb (repulsors (feed_search (unit_cube lo hi) sampled pending 0)) observed
  end.
