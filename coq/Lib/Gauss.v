(* The Gaussian integral  int_0^oo exp(-t^2) dt = sqrt(PI)/2  and its consequences for the standard normal
   distribution function Phi of Lib.RBase:  Phi(-z) = 1 - Phi z,  Phi -> 1 / 0 at +oo / -oo,  0 < Phi < 1.

   Route (no Fubini): with I x = int_0^x exp(-t^2) dt and J x = int_0^1 exp(-x^2 (1+s^2)) / (1+s^2) ds one has
   d/dx (I x)^2 = 2 I x exp(-x^2) and d/dx J x = -2 exp(-x^2) I x (differentiation under the integral sign, then the
   substitution u = x s), so I^2 + J is constant = J 0 = atan 1 = PI/4, and 0 <= J x <= exp(-x^2) -> 0.
   No axioms beyond those of the standard library's real numbers. *)
From Coq Require Import Reals Lra Psatz.
From Coquelicot Require Import Coquelicot.
From LV Require Import Lib.RBase.
Open Scope R_scope.

(* ------------------------------------------------------------------ a function with zero derivative is constant *)
Lemma is_derive_0_const (f : R -> R) : (forall x, is_derive f x 0) -> forall x y, f x = f y.
Proof.
  intros H.
  assert (L : forall a b, a < b -> f a = f b).
  { intros a b Hab. destruct (MVT_cor2 f (fun _ => 0) a b Hab) as (c & Heq & _).
    - intros x _. apply is_derive_Reals, H.
    - lra. }
  intros x y. destruct (Rtotal_order x y) as [Hxy|[->|Hxy]]; [apply L; exact Hxy|reflexivity|symmetry; apply L; exact Hxy].
Qed.

(* ------------------------------------------------------------------ I x = int_0^x exp(-t^2) dt *)
Definition gs (t : R) : R := exp (- t ^ 2).

Lemma gs_pos t : 0 < gs t.
Proof. apply exp_pos. Qed.
Lemma gs_le_1 t : gs t <= 1.
Proof. unfold gs. rewrite <- exp_0. destruct (Req_dec t 0) as [->|Ht]; [right; f_equal; ring|left; apply exp_increasing; nra]. Qed.
Lemma gs_cont t : continuous gs t.
Proof. apply (ex_derive_continuous gs t). unfold gs. auto_derive. exact I. Qed.
Lemma gs_ex_RInt a b : ex_RInt gs a b.
Proof. apply (@ex_RInt_continuous R_CompleteNormedModule). intros t _. apply gs_cont. Qed.

Definition Ig (x : R) : R := RInt gs 0 x.

Lemma Ig_deriv x : is_derive Ig x (gs x).
Proof.
  apply (is_derive_RInt gs Ig 0 x).
  - apply filter_forall. intros y. apply (@RInt_correct R_CompleteNormedModule), gs_ex_RInt.
  - apply gs_cont.
Qed.
Lemma Ig_0 : Ig 0 = 0.
Proof. unfold Ig. apply (@RInt_point R_CompleteNormedModule). Qed.
Lemma Ig_nonneg x : 0 <= x -> 0 <= Ig x.
Proof.
  intros Hx. unfold Ig. apply RInt_ge_0; [exact Hx|apply gs_ex_RInt|]. intros t _. left; apply gs_pos.
Qed.

(* ------------------------------------------------------------------ J x = int_0^1 exp(-x^2 (1+s^2)) / (1+s^2) ds *)
Definition kf (x s : R) : R := exp (- x ^ 2 * (1 + s ^ 2)) / (1 + s ^ 2).
Definition dkf (x s : R) : R := - 2 * x * exp (- x ^ 2 * (1 + s ^ 2)).
Definition Jg (x : R) : R := RInt (kf x) 0 1.

Lemma one_s2_pos s : 0 < 1 + s ^ 2.
Proof. nra. Qed.

Lemma kf_deriv x s : is_derive (fun u => kf u s) x (dkf x s).
Proof.
  pose proof (one_s2_pos s). unfold kf, dkf. auto_derive; [exact I|].
  replace (- (x * (x * 1)) * (1 + s * (s * 1))) with (- x ^ 2 * (1 + s ^ 2)) by ring.
  field. lra.
Qed.
Lemma kf_cont x s : continuous (kf x) s.
Proof.
  pose proof (one_s2_pos s).
  apply (ex_derive_continuous (kf x) s). unfold kf. auto_derive. replace (1 + s * (s * 1)) with (1 + s ^ 2) by ring. lra.
Qed.
Lemma kf_ex_RInt x a b : ex_RInt (kf x) a b.
Proof. apply (@ex_RInt_continuous R_CompleteNormedModule). intros t _. apply kf_cont. Qed.

Lemma dkf_cont2 x s : continuity_2d_pt dkf x s.
Proof.
  unfold dkf.
  apply continuity_2d_pt_mult.
  - apply continuity_2d_pt_mult; [apply continuity_2d_pt_const|apply continuity_2d_pt_id1].
  - apply (continuity_1d_2d_pt_comp exp (fun u v => - u ^ 2 * (1 + v ^ 2))).
    + apply derivable_continuous_pt, derivable_pt_exp.
    + apply continuity_2d_pt_mult.
      * apply continuity_2d_pt_opp. simpl.
        apply continuity_2d_pt_mult; [apply continuity_2d_pt_id1|].
        apply continuity_2d_pt_mult; [apply continuity_2d_pt_id1|apply continuity_2d_pt_const].
      * apply continuity_2d_pt_plus; [apply continuity_2d_pt_const|]. simpl.
        apply continuity_2d_pt_mult; [apply continuity_2d_pt_id2|].
        apply continuity_2d_pt_mult; [apply continuity_2d_pt_id2|apply continuity_2d_pt_const].
Qed.

Lemma dkf_subst x s : dkf x s = (- 2 * exp (- x ^ 2)) * scal x (gs (x * s + 0)).
Proof.
  unfold dkf, gs.
  replace (- x ^ 2 * (1 + s ^ 2)) with (- x ^ 2 + - (x * s + 0) ^ 2) by ring.
  rewrite exp_plus. unfold scal; simpl. unfold mult; simpl. ring.
Qed.

Lemma Jg_deriv x : is_derive Jg x (- 2 * exp (- x ^ 2) * Ig x).
Proof.
  unfold Jg. evar_last.
  apply (is_derive_RInt_param kf 0 1 x).
  - apply filter_forall. intros y t _. eexists. apply kf_deriv.
  - intros t _. apply continuity_2d_pt_ext with dkf.
    + intros u v. symmetry. apply is_derive_unique, kf_deriv.
    + apply dkf_cont2.
  - apply filter_forall. intros y. apply kf_ex_RInt.
  - rewrite (RInt_ext _ (fun s => (- 2 * exp (- x ^ 2)) * scal x (gs (x * s + 0)))).
    2:{ intros s _. rewrite <- dkf_subst. apply is_derive_unique, kf_deriv. }
    assert (E : ex_RInt (fun s => scal x (gs (x * s + 0))) 0 1).
    { apply (@ex_RInt_comp_lin R_CompleteNormedModule). apply gs_ex_RInt. }
    change (RInt (fun s => scal (- 2 * exp (- x ^ 2)) (scal x (gs (x * s + 0)))) 0 1 = - 2 * exp (- x ^ 2) * Ig x).
    rewrite (RInt_scal (V := R_CompleteNormedModule)) by exact E.
    rewrite (RInt_comp_lin (V := R_CompleteNormedModule)) by apply gs_ex_RInt.
    unfold Ig, scal; simpl. unfold mult; simpl.
    rewrite Rmult_0_r, Rmult_1_r, !Rplus_0_r. reflexivity.
Qed.

Lemma Jg_0 : Jg 0 = PI / 4.
Proof.
  unfold Jg. rewrite (RInt_ext _ (fun s => / (1 + s ^ 2))).
  2:{ intros s _. unfold kf. replace (- 0 ^ 2 * (1 + s ^ 2)) with 0 by ring. rewrite exp_0. unfold Rdiv. apply Rmult_1_l. }
  apply is_RInt_unique. evar_last.
  apply (is_RInt_derive atan (fun s => / (1 + s ^ 2))).
  - intros s _. apply is_derive_Reals. apply derivable_pt_lim_atan.
  - intros s _. pose proof (one_s2_pos s).
    apply (ex_derive_continuous (fun s => / (1 + s ^ 2)) s). auto_derive.
    replace (1 + s * (s * 1)) with (1 + s ^ 2) by ring. lra.
  - rewrite atan_1, atan_0. unfold minus, plus, opp; simpl. ring.
Qed.

Lemma Jg_bounds x : 0 <= Jg x <= exp (- x ^ 2).
Proof.
  unfold Jg. split.
  - apply RInt_ge_0; [lra|apply kf_ex_RInt|]. intros s _. unfold kf.
    left. apply Rdiv_lt_0_compat; [apply exp_pos|apply one_s2_pos].
  - replace (exp (- x ^ 2)) with (RInt (fun _ => exp (- x ^ 2)) 0 1).
    2:{ rewrite RInt_const. unfold scal; simpl. unfold mult; simpl. ring. }
    apply RInt_le; [lra|apply kf_ex_RInt|apply ex_RInt_const|].
    intros s _. unfold kf. pose proof (one_s2_pos s).
    apply Rle_trans with (exp (- x ^ 2 * (1 + s ^ 2))).
    + apply Rle_div_l; [lra|]. pose proof (exp_pos (- x ^ 2 * (1 + s ^ 2))). nra.
    + destruct (Req_dec (- x ^ 2 * (1 + s ^ 2)) (- x ^ 2)) as [->|Hne]; [lra|].
      left. apply exp_increasing. nra.
Qed.

(* the conserved quantity *)
Theorem Ig_sq_plus_Jg x : Ig x ^ 2 + Jg x = PI / 4.
Proof.
  rewrite <- Jg_0.
  transitivity ((fun x => Ig x ^ 2 + Jg x) 0); [|simpl; rewrite Ig_0; ring].
  apply (is_derive_0_const (fun x => Ig x ^ 2 + Jg x)). clear x. intros x.
  evar_last.
  apply @is_derive_plus. apply (is_derive_pow Ig 2 x). apply Ig_deriv. apply Jg_deriv.
  unfold plus, scal, mult, one, zero; simpl. unfold mult; simpl. unfold gs. simpl. ring.
Qed.

(* ------------------------------------------------------------------ limits at infinity: helpers *)
Lemma flim_lin_pp c d : 0 < c -> filterlim (fun x => c * x + d) (Rbar_locally' p_infty) (Rbar_locally' p_infty).
Proof.
  intros Hc P [M HM]. exists ((M - d) / c). intros x Hx. apply HM.
  apply Rlt_div_l in Hx; [|exact Hc]. lra.
Qed.
Lemma flim_lin_mm c d : 0 < c -> filterlim (fun x => c * x + d) (Rbar_locally' m_infty) (Rbar_locally' m_infty).
Proof.
  intros Hc P [M HM]. exists ((M - d) / c). intros x Hx. apply HM.
  apply Rlt_div_r in Hx; [|exact Hc]. lra.
Qed.
Lemma flim_opp_mp : filterlim Ropp (Rbar_locally' m_infty) (Rbar_locally' p_infty).
Proof. intros P [M HM]. exists (- M). intros x Hx. apply HM. lra. Qed.
Lemma flim_opp_pm : filterlim Ropp (Rbar_locally' p_infty) (Rbar_locally' m_infty).
Proof. intros P [M HM]. exists (- M). intros x Hx. apply HM. lra. Qed.

Lemma is_lim_lin_pp (f : R -> R) c d (l : Rbar) : 0 < c -> is_lim f p_infty l -> is_lim (fun x => f (c * x + d)) p_infty l.
Proof. intros Hc Hf. unfold is_lim. eapply filterlim_comp; [apply (flim_lin_pp c d Hc)|exact Hf]. Qed.
Lemma is_lim_lin_mm (f : R -> R) c d (l : Rbar) : 0 < c -> is_lim f m_infty l -> is_lim (fun x => f (c * x + d)) m_infty l.
Proof. intros Hc Hf. unfold is_lim. eapply filterlim_comp; [apply (flim_lin_mm c d Hc)|exact Hf]. Qed.
Lemma is_lim_opp_mp (f : R -> R) (l : Rbar) : is_lim f p_infty l -> is_lim (fun x => f (- x)) m_infty l.
Proof. intros Hf. unfold is_lim. eapply filterlim_comp; [apply flim_opp_mp|exact Hf]. Qed.
Lemma is_lim_opp_pm (f : R -> R) (l : Rbar) : is_lim f m_infty l -> is_lim (fun x => f (- x)) p_infty l.
Proof. intros Hf. unfold is_lim. eapply filterlim_comp; [apply flim_opp_pm|exact Hf]. Qed.

(* squeeze to 0 *)
Lemma is_lim_0_bound (f g : R -> R) (x : Rbar) :
  Rbar_locally' x (fun y => Rabs (f y) <= g y) -> is_lim g x 0 -> is_lim f x 0.
Proof.
  intros Hb Hg. apply (is_lim_le_le_loc (fun y => - g y) g f x 0).
  - revert Hb. apply filter_imp. intros y Hy. split; [apply Rabs_le_between in Hy|apply Rabs_le_between in Hy]; lra.
  - replace (Finite 0) with (Rbar_opp 0) by (simpl; f_equal; ring). apply is_lim_opp. exact Hg.
  - exact Hg.
Qed.

Lemma is_lim_inv_p : is_lim (fun x => / x) p_infty 0.
Proof.
  change (Finite 0) with (Rbar_inv p_infty). apply (is_lim_inv (fun y => y) p_infty p_infty).
  apply is_lim_id. discriminate.
Qed.

Lemma exp_m_sq_le x : 0 < x -> exp (- x ^ 2) <= / x.
Proof.
  intros Hx. rewrite exp_Ropp. apply Rinv_le_contravar; [exact Hx|].
  pose proof (exp_ineq1 (x ^ 2)). assert (0 < x ^ 2) by nra. nra.
Qed.

Lemma is_lim_gs_p : is_lim gs p_infty 0.
Proof.
  apply (is_lim_0_bound gs (fun x => / x)); [|apply is_lim_inv_p].
  exists 0. intros x Hx. rewrite Rabs_pos_eq by (left; apply gs_pos). apply exp_m_sq_le, Hx.
Qed.

Lemma is_lim_Jg_p : is_lim Jg p_infty 0.
Proof.
  apply (is_lim_0_bound Jg gs); [|apply is_lim_gs_p].
  exists 0. intros x _. destruct (Jg_bounds x). rewrite Rabs_pos_eq by assumption. assumption.
Qed.

Lemma sqrt_PI_4 : sqrt (PI / 4) = sqrt PI / 2.
Proof.
  pose proof PI_RGT_0. pose proof (sqrt_pos PI).
  apply sqrt_lem_1; [lra|lra|].
  transitivity (sqrt PI * sqrt PI / 4); [field|]. rewrite sqrt_sqrt; lra.
Qed.

(* ------------------------------------------------------------------ THE GAUSSIAN INTEGRAL *)
Theorem gauss_integral_half : is_lim (fun x => RInt (fun t => exp (- t ^ 2)) 0 x) p_infty (sqrt PI / 2).
Proof.
  change (is_lim Ig p_infty (sqrt PI / 2)).
  apply (is_lim_ext_loc (fun x => sqrt (PI / 4 - Jg x))).
  - exists 0. intros x Hx. rewrite <- (Ig_sq_plus_Jg x).
    replace (Ig x ^ 2 + Jg x - Jg x) with (Ig x ^ 2) by ring.
    replace (Ig x ^ 2) with (Rsqr (Ig x)) by (unfold Rsqr; ring).
    apply sqrt_Rsqr, Ig_nonneg. lra.
  - rewrite <- sqrt_PI_4. unfold is_lim.
    eapply filterlim_comp with (G := locally (PI / 4)).
    + assert (L : is_lim (fun x => PI / 4 - Jg x) p_infty (PI / 4 - 0)).
      { apply (is_lim_minus' (fun _ => PI / 4) Jg p_infty (PI / 4) 0); [apply is_lim_const|apply is_lim_Jg_p]. }
      rewrite Rminus_0_r in L. exact L.
    + apply continuity_pt_filterlim. apply continuity_pt_sqrt. generalize PI_RGT_0; lra.
Qed.

Corollary Ig_lim : is_lim Ig p_infty (sqrt PI / 2).
Proof. exact gauss_integral_half. Qed.

(* ------------------------------------------------------------------ the normal density integrates to 1/2 on each half line *)
Lemma sqrt2_pos : 0 < sqrt 2.
Proof. apply sqrt_lt_R0; lra. Qed.
Lemma sqrtPI_pos : 0 < sqrt PI.
Proof. apply sqrt_lt_R0, PI_RGT_0. Qed.

Lemma pdf_as_gs t : pdf t = scal (/ sqrt PI) (scal (/ sqrt 2) (gs (/ sqrt 2 * t + 0))).
Proof.
  pose proof sqrt2_pos. pose proof sqrtPI_pos. pose proof PI_RGT_0.
  unfold pdf, gs.
  replace (- (/ sqrt 2 * t + 0) ^ 2) with (- (1 / 2) * t ^ 2).
  2:{ transitivity (- (t ^ 2 / (sqrt 2 * sqrt 2))); [rewrite sqrt_sqrt by lra; field|field; lra]. }
  rewrite sqrt_mult by lra.
  unfold scal; simpl. unfold mult; simpl. field. lra.
Qed.

Lemma RInt_pdf_Ig x : RInt pdf 0 x = / sqrt PI * Ig (/ sqrt 2 * x + 0).
Proof.
  rewrite (RInt_ext _ _ _ _ (fun t _ => pdf_as_gs t)).
  rewrite (RInt_scal (V := R_CompleteNormedModule)).
  2:{ apply (@ex_RInt_comp_lin R_CompleteNormedModule). apply gs_ex_RInt. }
  rewrite (RInt_comp_lin (V := R_CompleteNormedModule)) by apply gs_ex_RInt.
  unfold Ig. rewrite Rmult_0_r, Rplus_0_l. reflexivity.
Qed.

Theorem pdf_integral_half : is_lim (fun x => RInt pdf 0 x) p_infty (1 / 2).
Proof.
  pose proof sqrt2_pos. pose proof sqrtPI_pos.
  apply (is_lim_ext (fun x => / sqrt PI * Ig (/ sqrt 2 * x + 0))).
  { intros x. symmetry. apply RInt_pdf_Ig. }
  replace (Finite (1 / 2)) with (Rbar_mult (/ sqrt PI) (sqrt PI / 2)).
  2:{ simpl. f_equal. field. lra. }
  apply is_lim_scal_l. apply is_lim_lin_pp; [apply Rinv_0_lt_compat; lra|apply Ig_lim].
Qed.

(* ------------------------------------------------------------------ Phi: symmetry, limits, range *)
Lemma pdf_even z : pdf (- z) = pdf z.
Proof. unfold pdf. f_equal. f_equal. ring. Qed.

Lemma pdf_ex_RInt a b : ex_RInt pdf a b.
Proof. apply (@ex_RInt_continuous R_CompleteNormedModule). intros t _. apply pdf_cont. Qed.

Lemma Phi_0 : Phi 0 = 1 / 2.
Proof. unfold Phi. rewrite (@RInt_point R_CompleteNormedModule). unfold zero; simpl. ring. Qed.

Theorem Phi_sym z : Phi (- z) = 1 - Phi z.
Proof.
  assert (E : (fun z => Phi (- z) + Phi z) z = (fun z => Phi (- z) + Phi z) 0).
  { apply (is_derive_0_const (fun z => Phi (- z) + Phi z)). clear z. intros z.
    evar_last.
    apply @is_derive_plus.
    apply (is_derive_comp Phi Ropp). apply Phi_deriv. apply @is_derive_opp. apply is_derive_id.
    apply Phi_deriv.
    rewrite pdf_even. unfold plus, scal, opp, one, zero; simpl. unfold mult; simpl. ring. }
  simpl in E. rewrite Ropp_0, Phi_0 in E. lra.
Qed.

Theorem Phi_lim_p : is_lim Phi p_infty 1.
Proof.
  replace (Finite 1) with (Finite (1 / 2 + 1 / 2)) by (f_equal; field).
  unfold Phi. apply (is_lim_plus' (fun _ => 1 / 2) (fun z => RInt pdf 0 z)); [apply is_lim_const|apply pdf_integral_half].
Qed.

Theorem Phi_lim_m : is_lim Phi m_infty 0.
Proof.
  apply (is_lim_ext (fun z => 1 - Phi (- z))).
  { intros z. rewrite Phi_sym. ring. }
  replace (Finite 0) with (Finite (1 - 1)) by (f_equal; ring).
  apply (is_lim_minus' (fun _ => 1) (fun z => Phi (- z))); [apply is_lim_const|].
  apply (is_lim_opp_mp Phi 1 Phi_lim_p).
Qed.

Lemma Phi_le_1 z : Phi z <= 1.
Proof.
  apply (is_lim_le_loc (fun _ => Phi z) Phi p_infty (Phi z) 1); [|apply is_lim_const|apply Phi_lim_p].
  exists z. intros y Hy. left. apply Phi_increasing, Hy.
Qed.

Theorem Phi_range : forall z, 0 < Phi z < 1.
Proof.
  assert (L : forall z, Phi z < 1).
  { intros z. apply Rlt_le_trans with (Phi (z + 1)); [apply Phi_increasing; lra|apply Phi_le_1]. }
  intros z. split; [|apply L]. specialize (L (- z)). rewrite Phi_sym in L. lra.
Qed.

(* the density integrates to 1 over the real line, in the sense of Coquelicot's generalised Riemann integral *)
Lemma RInt_pdf_Phi a b : RInt pdf a b = Phi b - Phi a.
Proof.
  unfold Phi. rewrite <- (RInt_Chasles pdf 0 a b) by apply pdf_ex_RInt.
  change (plus (RInt pdf 0 a) (RInt pdf a b)) with (RInt pdf 0 a + RInt pdf a b). lra.
Qed.

(* ------------------------------------------------------------------ Gaussian tail: Mills-ratio bound *)
Lemma pdf_lim_p : is_lim pdf p_infty 0.
Proof.
  pose proof sqrt2_pos. pose proof sqrt2pi_pos.
  apply (is_lim_ext (fun z => / sqrt (2 * PI) * gs (/ sqrt 2 * z + 0))).
  { intros z. unfold pdf, gs.
    replace (- (/ sqrt 2 * z + 0) ^ 2) with (- (1 / 2) * z ^ 2).
    2:{ transitivity (- (z ^ 2 / (sqrt 2 * sqrt 2))); [rewrite sqrt_sqrt by lra; field|field; lra]. }
    unfold Rdiv. ring. }
  replace (Finite 0) with (Rbar_mult (/ sqrt (2 * PI)) 0) by (simpl; f_equal; ring).
  apply is_lim_scal_l. apply is_lim_lin_pp; [apply Rinv_0_lt_compat; lra|apply is_lim_gs_p].
Qed.
Lemma pdf_lim_m : is_lim pdf m_infty 0.
Proof.
  apply (is_lim_ext (fun z => pdf (- z))); [intros z; apply pdf_even|]. apply (is_lim_opp_mp pdf 0 pdf_lim_p).
Qed.

Definition mills_gap (z : R) : R := pdf z / (- z) - Phi z.

Lemma mills_gap_deriv z : z < 0 -> is_derive mills_gap z (pdf z / z ^ 2).
Proof.
  intros Hz. unfold mills_gap. evar_last.
  apply @is_derive_minus.
  apply (is_derive_div pdf Ropp z (- z * pdf z) (- 1)). apply pdf_deriv.
  evar_last. apply @is_derive_opp. apply is_derive_id. reflexivity. lra.
  apply Phi_deriv.
  unfold minus, plus, opp; simpl. field. lra.
Qed.

Lemma mills_gap_incr a z : a < z -> z < 0 -> mills_gap a < mills_gap z.
Proof.
  intros Haz Hz.
  destruct (MVT_cor2 mills_gap (fun c => pdf c / c ^ 2) a z Haz) as (c & Heq & Hc).
  { intros c Hc. apply is_derive_Reals, mills_gap_deriv. lra. }
  assert (0 < pdf c / c ^ 2). { apply Rdiv_lt_0_compat; [apply pdf_pos|nra]. }
  nra.
Qed.

(* for z < 0:  Phi z <= pdf z / (-z) *)
Theorem Phi_mills z : z < 0 -> Phi z <= pdf z / (- z).
Proof.
  intros Hz. enough (H : - 0 <= mills_gap z) by (unfold mills_gap in H; lra).
  apply (is_lim_le_loc (fun a => - Phi a) (fun _ => mills_gap z) m_infty (- 0) (mills_gap z)).
  - exists z. intros a Ha. pose proof (mills_gap_incr a z Ha Hz) as L. unfold mills_gap at 1 in L.
    assert (0 < pdf a / (- a)). { apply Rdiv_lt_0_compat; [apply pdf_pos|lra]. }
    lra.
  - apply (is_lim_opp Phi m_infty 0 Phi_lim_m).
  - apply is_lim_const.
Qed.

Lemma zPhi_bounds z : z < 0 -> - pdf z <= z * Phi z <= 0.
Proof.
  intros Hz. pose proof (Phi_mills z Hz) as M. destruct (Phi_range z) as [P0 _].
  apply Rle_div_r in M; [|lra]. nra.
Qed.

Theorem zPhi_lim_m : is_lim (fun z => z * Phi z) m_infty 0.
Proof.
  apply (is_lim_0_bound (fun z => z * Phi z) pdf); [|apply pdf_lim_m].
  exists 0. intros z Hz. destruct (zPhi_bounds z Hz). apply Rabs_le. lra.
Qed.
