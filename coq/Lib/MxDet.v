(* Algebraic (MathComp-only) lemmas about determinants used by the derivative of det / log det / matrix inverse:
   product-rule shape of the Leibniz formula, replacing one row, cofactor sums as traces.  Over any commutative ring / field. *)
From mathcomp Require Import all_ssreflect all_fingroup all_algebra.
Set Implicit Arguments. Unset Strict Implicit. Unset Printing Implicit Defensive.
Import GRing.Theory.
Local Open Scope ring_scope.

Section DProd.
Variable A : comRingType.
Fixpoint dprod (I : Type) (f df : I -> A) (r : seq I) : A :=
  if r is i :: r' then df i * \prod_(j <- r') f j + f i * dprod f df r' else 0.
Lemma dprodE (I : eqType) (f df : I -> A) (r : seq I) :
  uniq r -> dprod f df r = \sum_(i <- r) df i * \prod_(j <- r | j != i) f j.
Proof.
  elim: r => [|a r IH] /=; first by rewrite big_nil.
  case/andP=> Ha Hu. rewrite big_cons big_cons eqxx /=. congr (_ * _ + _).
  - rewrite [RHS]big_seq_cond [LHS]big_seq; apply: eq_bigl => j.
    by case: eqP => [->|]; rewrite ?andbT // (negbTE Ha).
  - rewrite (IH Hu) big_distrr /= big_seq [RHS]big_seq. apply: eq_bigr => i Hi.
    have Hai : a != i by apply: contraNneq Ha => ->.
    by rewrite big_cons Hai mulrCA.
Qed.
Lemma dprod_fin (I : finType) (f df : I -> A) :
  dprod f df (index_enum I) = \sum_i df i * \prod_(j | j != i) f j.
Proof. by rewrite dprodE // index_enum_uniq. Qed.

Definition row_repl n (M N : 'M[A]_n) (i : 'I_n) : 'M[A]_n := \matrix_(k, j) if k == i then N k j else M k j.
Lemma cofactor_row_repl n (M N : 'M[A]_n) i j : cofactor (row_repl M N i) i j = cofactor M i j.
Proof.
  rewrite /cofactor; congr (_ * \det _). apply/matrixP => k l; rewrite !mxE.
  by rewrite eq_sym (negbTE (neq_lift i k)).
Qed.
Lemma det_row_repl_cofactor n (M N : 'M[A]_n) i : \det (row_repl M N i) = \sum_j N i j * cofactor M i j.
Proof.
  rewrite (expand_det_row _ i). apply: eq_bigr => j _. by rewrite cofactor_row_repl mxE eqxx.
Qed.
Lemma det_row_repl_leibniz n (M N : 'M[A]_n) i :
  \det (row_repl M N i) = \sum_(s : 'S_n) (-1) ^+ s * (N i (s i) * \prod_(k | k != i) M k (s k)).
Proof.
  rewrite /determinant. apply: eq_bigr => s _. congr (_ * _). rewrite (bigD1 i) //= mxE eqxx. congr (_ * _).
  by apply: eq_bigr => k Hk; rewrite mxE (negbTE Hk).
Qed.
(* derivative of the Leibniz formula, purely algebraic part *)
Lemma leibniz_dprod n (M N : 'M[A]_n) :
  \sum_(s : 'S_n) (-1) ^+ s * dprod (fun i => M i (s i)) (fun i => N i (s i)) (index_enum _)
  = \sum_i \sum_j N i j * cofactor M i j.
Proof.
  transitivity (\sum_i \det (row_repl M N i)); last by apply: eq_bigr => i _; rewrite det_row_repl_cofactor.
  under [RHS]eq_bigr => i _ do rewrite det_row_repl_leibniz.
  rewrite exchange_big /=. apply: eq_bigr => s _. by rewrite dprod_fin big_distrr.
Qed.
Lemma cofactor_sum_trace n (M N : 'M[A]_n) : \sum_i \sum_j N i j * cofactor M i j = \tr (\adj M *m N).
Proof.
  rewrite /mxtrace exchange_big /=. apply: eq_bigr => j _. rewrite mxE. apply: eq_bigr => i _. by rewrite mxE mulrC.
Qed.
End DProd.
Lemma adj_unit (F : fieldType) n (M : 'M[F]_n) : \det M != 0 -> \adj M = \det M *: invmx M.
Proof.
  move=> H. have U : M \in unitmx by rewrite unitmxE unitfE.
  by rewrite /invmx U scalerA divff // scale1r.
Qed.
