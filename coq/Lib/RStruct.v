(* Coq's axiomatic reals R as a MathComp 1.15 realFieldType (the classical "Rstruct" construction), so that matrix.v's
   determinant / adjugate / invmx theory and the GP lemmas proved over an abstract realFieldType (Proofs/GP.v) can be
   instantiated at R and combined with Coquelicot's is_derive.
   Axioms used: the Reals axioms (through Req_EM_T etc.), ClassicalEpsilon.constructive_indefinite_description + classic
   (epsilon, for the choiceType structure) and
   functional extensionality (pickR_ext).  Nothing is postulated here.
   Usage: import this file AFTER Reals/Coquelicot; ring_scope is NOT opened here.  In client files, R_scope stays the
   default scope of Coq's R operations; write (x * y)%Re for Rmult and (x * y)%Ri for the ring_scope product
   (the key %R is bound by whichever of Reals / ssralg was imported last, so it is best avoided). *)
From Coq Require Import Reals Lra Psatz ClassicalEpsilon FunctionalExtensionality.
From mathcomp Require Import all_ssreflect ssralg ssrnum.
Set Implicit Arguments. Unset Strict Implicit. Unset Printing Implicit Defensive.

Delimit Scope ring_scope with Ri.
Delimit Scope R_scope with Re.
Local Open Scope R_scope.

Definition eqr (r1 r2 : R) : bool := if Req_EM_T r1 r2 is left _ then true else false.
Lemma eqrP : Equality.axiom eqr.
Proof. by move=> r1 r2; rewrite /eqr; case: Req_EM_T => H; apply: (iffP idP). Qed.
Canonical R_eqMixin := EqMixin eqrP.
Canonical R_eqType := Eval hnf in EqType R R_eqMixin.

Fact inhR : inhabited R. Proof. exact: (inhabits 0). Qed.
Definition pickR (P : pred R) (n : nat) := let x := epsilon inhR P in if P x then Some x else None.
Fact pickR_some P n x : pickR P n = Some x -> P x.
Proof. by rewrite /pickR; case: (boolP (P _)) => // Px [<-]. Qed.
Fact pickR_ex (P : pred R) : (exists x : R, P x) -> exists n, pickR P n.
Proof. by rewrite /pickR; move=> /(epsilon_spec inhR)->; exists 0%N. Qed.
Fact pickR_ext (P Q : pred R) : P =1 Q -> pickR P =1 pickR Q.
Proof.
  move=> PEQ n; rewrite /pickR; set u := epsilon _ _; set v := epsilon _ _.
  suff->: u = v by rewrite PEQ.
  by congr epsilon; apply: functional_extensionality=> x; rewrite PEQ.
Qed.
Definition R_choiceMixin : choiceMixin R := Choice.Mixin pickR_some pickR_ex pickR_ext.
Canonical R_choiceType := ChoiceType R R_choiceMixin.

Fact RplusA : associative Rplus. Proof. by move=> *; rewrite Rplus_assoc. Qed.
Definition R_zmodMixin := ZmodMixin RplusA Rplus_comm Rplus_0_l Rplus_opp_l.
Canonical R_zmodType := Eval hnf in ZmodType R R_zmodMixin.

Fact RmultA : associative Rmult. Proof. by move=> *; rewrite Rmult_assoc. Qed.
Fact R1_neq_0 : R1 != R0. Proof. by apply/eqP/R1_neq_R0. Qed.
Definition R_ringMixin := RingMixin RmultA Rmult_1_l Rmult_1_r Rmult_plus_distr_r Rmult_plus_distr_l R1_neq_0.
Canonical R_ringType := Eval hnf in RingType R R_ringMixin.
Canonical R_comRingType := Eval hnf in ComRingType R Rmult_comm.

Definition Rinvx r := if (r != 0) then / r else r.
Definition unit_R r := r != 0.
Lemma RmultRinvx : {in unit_R, left_inverse 1 Rinvx Rmult}.
Proof. by move=> r; rewrite -topredE /unit_R /Rinvx => /= rNZ /=; rewrite rNZ Rinv_l //; apply/eqP. Qed.
Lemma RinvxRmult : {in unit_R, right_inverse 1 Rinvx Rmult}.
Proof. by move=> r; rewrite -topredE /unit_R /Rinvx => /= rNZ /=; rewrite rNZ Rinv_r //; apply/eqP. Qed.
Lemma intro_unit_R x y : y * x = 1 /\ x * y = 1 -> unit_R x.
Proof.
  move=> [yx_eq1 _]; apply/eqP => x0.
  by move: yx_eq1; rewrite x0 Rmult_0_r; apply/eqP; rewrite eq_sym R1_neq_0.
Qed.
Lemma Rinvx_out : {in predC unit_R, Rinvx =1 id}.
Proof. by move=> x; rewrite inE /= /Rinvx -if_neg => ->. Qed.
Definition R_unitRingMixin := UnitRingMixin RmultRinvx RinvxRmult intro_unit_R Rinvx_out.
Canonical R_unitRing := Eval hnf in UnitRingType R R_unitRingMixin.
Canonical R_comUnitRingType := Eval hnf in [comUnitRingType of R].

Lemma R_idomainMixin x y : x * y = 0 -> (x == 0) || (y == 0).
Proof. by (do 2 case: (boolP (_ == _)) => // /eqP) => yNZ xNZ /Rmult_integral []. Qed.
Canonical R_idomainType := Eval hnf in IdomainType R R_idomainMixin.
Lemma R_fieldMixin : GRing.Field.mixin_of [unitRingType of R]. Proof. by []. Qed.
Definition R_fieldIdomainMixin := FieldIdomainMixin R_fieldMixin.
Canonical R_fieldType := FieldType R R_fieldMixin.

(* order / norm: needed only to instantiate lemmas stated over a realFieldType *)
Definition Rleb (x y : R) : bool := if Rle_dec x y is left _ then true else false.
Definition Rltb (x y : R) : bool := if Rlt_dec x y is left _ then true else false.
Lemma RlebP x y : reflect (x <= y) (Rleb x y).
Proof. by rewrite /Rleb; case: Rle_dec => H; constructor. Qed.
Lemma RltbP x y : reflect (x < y) (Rltb x y).
Proof. by rewrite /Rltb; case: Rlt_dec => H; constructor. Qed.

Section ssreal_struct.
Import GRing.Theory Num.Theory Num.Def.
Lemma Rleb_norm_add x y : Rleb (Rabs (x + y)) (Rabs x + Rabs y).
Proof. by apply/RlebP/Rabs_triang. Qed.
Lemma addr_Rgtb0 x y : Rltb 0 x -> Rltb 0 y -> Rltb 0 (x + y).
Proof. by move/RltbP => Hx /RltbP Hy; apply/RltbP/Rplus_lt_0_compat. Qed.
Lemma Rnorm0_eq0 x : Rabs x = 0 -> x = 0.
Proof. by move=> H; case: (Req_dec x 0) => // /Rabs_no_R0. Qed.
Lemma Rleb_leVge x y : Rleb 0 x -> Rleb 0 y -> (Rleb x y) || (Rleb y x).
Proof.
  move=> _ _; case: (Rle_lt_dec x y) => H; first by move/RlebP: H => ->.
  by apply/orP; right; apply/RlebP/Rlt_le.
Qed.
Lemma RnormM : {morph Rabs : x y / x * y}. Proof. exact: Rabs_mult. Qed.
Lemma Rleb_def x y : (Rleb x y) = (Rabs (y - x) == y - x).
Proof.
  apply/RlebP/eqP => [H|H].
  - by rewrite Rabs_pos_eq //; apply: Rge_le; apply: Rge_minus; apply: Rle_ge.
  - by apply: Rminus_le; rewrite -Ropp_minus_distr -H; apply/Rge_le/Ropp_0_le_ge_contravar/Rabs_pos.
Qed.
Lemma Rltb_def x y : (Rltb x y) = (y != x) && (Rleb x y).
Proof.
  apply/RltbP/andP => [H|[/eqP H /RlebP [] //]].
  - by split; [apply/eqP/Rgt_not_eq|apply/RlebP/Rlt_le].
  - by move=> E; case: H.
Qed.
Definition R_numMixin := NumMixin Rleb_norm_add addr_Rgtb0 Rnorm0_eq0 Rleb_leVge RnormM Rleb_def Rltb_def.
Canonical R_porderType := POrderType ring_display R R_numMixin.
Canonical R_numDomainType := NumDomainType R R_numMixin.
Canonical R_normedZmodType := NormedZmodType R R R_numMixin.
Canonical R_numFieldType := [numFieldType of R].
Lemma RleP (x y : R) : reflect (x <= y) (x <= y)%O. Proof. exact: RlebP. Qed.
Lemma RltP (x y : R) : reflect (x < y) (x < y)%O. Proof. exact: RltbP. Qed.
Lemma R_total : totalPOrderMixin R_porderType.
Proof.
  move=> x y; case: (Rle_lt_dec x y) => H; first by move/RleP: H => ->.
  by apply/orP; right; apply/RleP/Rlt_le.
Qed.
Canonical R_latticeType := LatticeType R R_total.
Canonical R_distrLatticeType := DistrLatticeType R R_total.
Canonical R_orderType := OrderType R R_total.
Canonical R_realDomainType := [realDomainType of R].
Canonical R_realFieldType := [realFieldType of R].
End ssreal_struct.

(* bridges between the MathComp operations at R and Coq's: all hold by computation *)
Section Bridges.
Import GRing.Theory.
Lemma RaddE (x y : R) : (x + y)%Ri = x + y. Proof. by []. Qed.
Lemma RoppE (x : R) : (- x)%Ri = - x. Proof. by []. Qed.
Lemma RsubE (x y : R) : (x - y)%Ri = x - y. Proof. by []. Qed.
Lemma RmulE (x y : R) : (x * y)%Ri = x * y. Proof. by []. Qed.
Lemma R0E : (0%Ri : R) = 0. Proof. by []. Qed.
Lemma R1E : (1%Ri : R) = 1. Proof. by []. Qed.
Lemma RinvE (x : R) : x <> 0 -> (x^-1)%Ri = / x.
Proof. by move=> /eqP H; rewrite /GRing.inv /= /Rinvx H. Qed.
Lemma ReqE (x y : R) : (x == y) = false -> x <> y. Proof. by move=> /eqP. Qed.
Lemma RneqP (x y : R) : reflect (x <> y) (x != y). Proof. by apply: (iffP idP) => /eqP. Qed.
Lemma RnatrE (k : nat) : (k%:R)%Ri = INR k.
Proof.
  elim: k => [|k IH] //; rewrite -addn1 natrD IH plus_INR /=. by [].
Qed.
End Bridges.

(* toR: turn a goal written with the MathComp operations at R into one written with Coq's (Rplus, Rmult, Ropp, 0, 1), so that
   ring / field / lra / nra apply.  (The inverse x^-1 is `if x != 0 then / x else x`: rewrite RinvE first.) *)
Ltac toR := rewrite /GRing.add /GRing.mul /GRing.opp /GRing.zero /GRing.one /GRing.natmul /=.

(* regression: Coq's decision procedures on R are unaffected by the canonical structures, with or without ring_scope open *)
Section Regression.
Import GRing.Theory.
Goal forall x y : R, x * y + 1 = 1 + y * x. Proof. move=> x y. ring. Qed.
Goal forall x y : R, x <> 0 -> x * y / x = y. Proof. move=> x y H. field. exact H. Qed.
Goal forall x y : R, x < y -> x <= y + 1. Proof. move=> x y H. lra. Qed.
Local Open Scope ring_scope.
Goal forall x y : R, x * y + 1 = 1 + y * x. Proof. move=> x y. toR. ring. Qed.
Goal forall x y : R, x * x + y * y = 0 -> x = 0. Proof. move=> x y. toR. move=> H. nra. Qed.
Goal forall x y : R, (x < y)%Re -> (x <= y + 1)%Re. Proof. move=> x y H. lra. Qed.
End Regression.
