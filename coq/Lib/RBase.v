(* Real-analysis vocabulary shared by the generated definitions (coq/Gen) and their proofs. *)
From Coq Require Import Reals Lra Psatz Arith Lia.
From Coquelicot Require Import Coquelicot.
Open Scope R_scope.

Fixpoint bigsum (n : nat) (f : nat -> R) : R :=
  match n with O => 0 | S m => bigsum m f + f m end.
Fixpoint bigprod (n : nat) (f : nat -> R) : R :=
  match n with O => 1 | S m => bigprod m f * f m end.
(* numpy.amax over an axis of positive length *)
Fixpoint bigmax (n : nat) (f : nat -> R) : R :=
  match n with O => 0 | S O => f O | S m => Rmax (bigmax m f) (f m) end.

(* standard normal density and distribution function (scipy.stats.norm.pdf / cdf) *)
Definition pdf (z : R) : R := exp (-(1/2) * z ^ 2) / sqrt (2 * PI).
Definition Phi (z : R) : R := 1/2 + RInt pdf 0 z.

Lemma sqrt2pi_pos : 0 < sqrt (2 * PI).
Proof. apply sqrt_lt_R0. generalize PI_RGT_0; lra. Qed.
Lemma sqrt2pi_neq : sqrt (2 * PI) <> 0.
Proof. apply Rgt_not_eq, sqrt2pi_pos. Qed.

Lemma pdf_pos z : 0 < pdf z.
Proof. unfold pdf. apply Rdiv_lt_0_compat; [apply exp_pos|apply sqrt2pi_pos]. Qed.

Lemma pdf_cont z : continuous pdf z.
Proof. apply (ex_derive_continuous pdf z). unfold pdf. auto_derive. exact I. Qed.

Lemma pdf_deriv z : is_derive pdf z (- z * pdf z).
Proof.
  pose proof sqrt2pi_neq. unfold pdf. auto_derive; [exact I|].
  replace (- (1 / 2) * (z * (z * 1))) with (- (1 / 2) * z ^ 2) by ring.
  field. auto.
Qed.

Lemma Phi_deriv z : is_derive Phi z (pdf z).
Proof.
  unfold Phi. evar_last.
  apply @is_derive_plus. apply is_derive_const.
  apply (is_derive_RInt pdf (fun x => RInt pdf 0 x) 0 z).
  - apply filter_forall. intros x. apply (@RInt_correct R_CompleteNormedModule).
    apply (@ex_RInt_continuous R_CompleteNormedModule). intros t _. apply pdf_cont.
  - apply pdf_cont.
  - unfold plus, zero; simpl. ring.
Qed.

(* Phi is strictly increasing (its derivative is positive) *)
Lemma Phi_increasing a b : a < b -> Phi a < Phi b.
Proof.
  intros Hab. destruct (MVT_cor2 Phi pdf a b Hab) as (c & Heq & Hc).
  { intros x _. apply is_derive_Reals, Phi_deriv. }
  pose proof (pdf_pos c). nra.
Qed.

(* squeeze: |f t - f t0| <= C (t-t0)^2  ->  derivative 0 *)
Lemma is_derive_sq_bound (f : R -> R) (t0 C : R) :
  (forall t, Rabs (f t - f t0) <= C * (t - t0) ^ 2) -> is_derive f t0 0.
Proof.
  intros H. apply is_derive_Reals.
  assert (HC : 0 <= C).
  { specialize (H (t0 + 1)). replace (t0 + 1 - t0) with 1 in H by ring.
    generalize (Rabs_pos (f (t0+1) - f t0)). lra. }
  intros eps Heps.
  assert (Hd : 0 < eps / (C + 1)) by (apply Rdiv_lt_0_compat; lra).
  exists (mkposreal _ Hd). intros h Hh Hlt. simpl in Hlt.
  rewrite Rminus_0_r. unfold Rdiv. rewrite Rabs_mult, Rabs_Rinv by exact Hh.
  specialize (H (t0 + h)). replace (t0 + h - t0) with h in H by ring.
  assert (Hp : 0 < Rabs h) by (apply Rabs_pos_lt; exact Hh).
  apply Rmult_lt_reg_r with (Rabs h); [exact Hp|].
  rewrite Rmult_assoc, Rinv_l, Rmult_1_r by lra.
  assert (h ^ 2 = Rabs h * Rabs h). { rewrite <- Rabs_mult. rewrite Rabs_pos_eq; [ring|nra]. }
  assert (Rabs h * (C + 1) < eps). { apply Rlt_div_r in Hlt; lra. }
  rewrite H0 in H. nra.
Qed.

(* normalise syntactically different but equal arguments of a unary function before `field` *)
Ltac norm_fun f :=
  repeat match goal with
  | |- context [f ?a] =>
      match goal with
      | |- context [f ?b] =>
          lazymatch a with b => fail | _ => idtac end;
          let H := fresh in
          assert (H : a = b) by (try unfold Rdiv; try field; auto);
          rewrite H; clear H
      end
  end.

(* finite sums *)
Lemma bigsum_ext n f g : (forall k, (k < n)%nat -> f k = g k) -> bigsum n f = bigsum n g.
Proof. induction n as [|n IH]; intros H; simpl; [reflexivity|]. rewrite IH, H by (intros; try apply H; lia). reflexivity. Qed.
Lemma bigsum_plus n f g : bigsum n (fun k => f k + g k) = bigsum n f + bigsum n g.
Proof. induction n as [|n IH]; simpl; [lra|rewrite IH; lra]. Qed.
Lemma bigsum_scal n c f : bigsum n (fun k => c * f k) = c * bigsum n f.
Proof. induction n as [|n IH]; simpl; [lra|rewrite IH; lra]. Qed.
Lemma bigsum_nonneg n f : (forall k, (k < n)%nat -> 0 <= f k) -> 0 <= bigsum n f.
Proof. induction n as [|n IH]; intros H; simpl; [lra|]. assert (0 <= f n) by (apply H; lia). assert (0 <= bigsum n f) by (apply IH; intros; apply H; lia). lra. Qed.
(* isolating one coordinate of a sum *)
Lemma bigsum_split n f k0 : (k0 < n)%nat ->
  bigsum n f = f k0 + bigsum n (fun k => if Nat.eqb k k0 then 0 else f k).
Proof.
  induction n as [|n IH]; intros Hk; [lia|]. simpl.
  destruct (Nat.eq_dec k0 n) as [->|Hne].
  - rewrite Nat.eqb_refl. assert (E : bigsum n (fun k => if Nat.eqb k n then 0 else f k) = bigsum n f).
    { apply bigsum_ext. intros k Hkn. destruct (Nat.eqb_spec k n); [lia|reflexivity]. }
    rewrite E. lra.
  - rewrite IH by lia. destruct (Nat.eqb_spec n k0); [lia|]. lra.
Qed.
