(* Matrix vocabulary shared by the generated GP definitions (coq/Gen/GenGP.v) and their proofs.
   cho_solve / tri_solve are the exact-arithmetic meaning of a successful LAPACK factor-and-solve. *)
From mathcomp Require Import all_ssreflect all_algebra.
Set Implicit Arguments. Unset Strict Implicit. Unset Printing Implicit Defensive.
Import Order.TTheory GRing.Theory Num.Theory.
Local Open Scope ring_scope.

Section MxAux.
Variable F : realFieldType.
Definition cho_solve n q (A : 'M[F]_n) (b : 'M[F]_(n,q)) : 'M[F]_(n,q) := invmx A *m b.
Definition tri_solve n q (chol : 'M[F]_n -> 'M[F]_n) (A : 'M[F]_n) (b : 'M[F]_(n,q)) : 'M[F]_(n,q) := invmx (chol A) *m b.
Definition colsumsq r c (V : 'M[F]_(r,c)) : 'M[F]_(c,1) := \matrix_(j, _) \sum_i (V i j) ^+ 2.
Definition rowdot r c (A B : 'M[F]_(r,c)) : 'M[F]_(r,1) := \matrix_(i, _) \sum_j A i j * B i j.
Definition diagcol r (A : 'M[F]_r) : 'M[F]_(r,1) := \matrix_(i, _) A i i.
Definition floor_at r c (lo : F) (A : 'M[F]_(r,c)) : 'M[F]_(r,c) := \matrix_(i, j) Num.max lo (A i j).
Definition psd k (A : 'M[F]_k) := forall v : 'cV[F]_k, 0 <= (v^T *m A *m v) 0 0.

Lemma colsumsq_diag r c (V : 'M[F]_(r,c)) : colsumsq V = diagcol (V^T *m V).
Proof. by apply/matrixP=> j k; rewrite !mxE; apply: eq_bigr => i _; rewrite !mxE expr2. Qed.
Lemma rowdot_diag r c (A B : 'M[F]_(r,c)) : rowdot A B = diagcol (A *m B^T).
Proof. by apply/matrixP=> i k; rewrite !mxE; apply: eq_bigr => j _; rewrite !mxE. Qed.
Lemma floor_at_ge r c lo (A : 'M[F]_(r,c)) i j : lo <= floor_at lo A i j.
Proof. by rewrite mxE le_maxr lexx. Qed.
Lemma floor_at_id r c lo (A : 'M[F]_(r,c)) i j : lo <= A i j -> floor_at lo A i j = A i j.
Proof. by move=> H; rewrite mxE; apply/max_idPr. Qed.

(* Schur complement: [[A,B],[B^T,C]] PSD and A invertible  ->  C - B^T A^-1 B PSD *)
Lemma schur_psd n m (A : 'M[F]_n) (B : 'M[F]_(n,m)) (C : 'M[F]_m) :
  A \in unitmx -> psd (block_mx A B B^T C) -> psd (C - B^T *m invmx A *m B).
Proof.
  move=> Au Hpsd v.
  pose u := invmx A *m B *m v.
  have Aueq : A *m u = B *m v by rewrite /u !mulmxA mulmxV // mul1mx.
  have := Hpsd (col_mx (- u) v).
  rewrite tr_col_mx mul_row_block mul_row_col.
  suff -> : ((- u)^T *m A + v^T *m B^T) *m - u + ((- u)^T *m B + v^T *m C) *m v
            = v^T *m (C - B^T *m invmx A *m B) *m v by [].
  rewrite mulmxDl [in RHS]mulmxBr [in RHS]mulmxBl mulmxDl.
  rewrite !linearN /= ?mulNmx ?mulmxN ?opprK -?mulmxA Aueq.
  have -> : invmx A *m (B *m v) = u by rewrite /u !mulmxA.
  set a := u^T *m (B *m v); set b := v^T *m (B^T *m u); set c := v^T *m (C *m v).
  by rewrite addrACA subrr add0r addrC.
Qed.
End MxAux.
