(* Differentiation of matrix-valued functions of one real variable (Coquelicot's is_derive, MathComp matrices over R):
   finite sums and products of differentiable functions (bigop), entrywise matrix calculus (mx_derive), the derivative of the
   determinant (Leibniz formula -> cofactors -> adjugate), JACOBI's formula d log det M = tr(M^-1 dM), and the derivative of
   the inverse d(M^-1) = - M^-1 dM M^-1.  No hypotheses beyond entrywise differentiability and det <> 0 (resp. 0 < det). *)
From Coq Require Import Reals Lra Psatz.
From Coquelicot Require Import Coquelicot.
From mathcomp Require Import all_ssreflect all_fingroup all_algebra.
From LV Require Import Lib.RStruct Lib.MxDet.
Set Implicit Arguments. Unset Strict Implicit. Unset Printing Implicit Defensive.
Import GRing.Theory.
Local Open Scope ring_scope.

Section Scalar.
Implicit Types (f g : R -> R) (x : R).
Lemma is_deriveD f g x df dg : is_derive f x df -> is_derive g x dg -> is_derive (fun t => f t + g t) x (df + dg).
Proof. exact: (@is_derive_plus R_AbsRing R_NormedModule). Qed.
Lemma is_deriveN f x df : is_derive f x df -> is_derive (fun t => - f t) x (- df).
Proof. exact: (@is_derive_opp R_AbsRing R_NormedModule). Qed.
Lemma is_deriveB f g x df dg : is_derive f x df -> is_derive g x dg -> is_derive (fun t => f t - g t) x (df - dg).
Proof. by move=> Hf Hg; apply: is_deriveD => //; apply: is_deriveN. Qed.
Lemma is_deriveM f g x df dg : is_derive f x df -> is_derive g x dg -> is_derive (fun t => f t * g t) x (df * g x + f x * dg).
Proof. move=> Hf Hg; exact (@is_derive_mult R_AbsRing f g x df dg Hf Hg Rmult_comm). Qed.
Lemma is_derive_cst (c : R) x : is_derive (fun _ => c) x 0.
Proof. exact: (@is_derive_const R_AbsRing R_NormedModule). Qed.
Lemma is_deriveZ (c : R) f x df : is_derive f x df -> is_derive (fun t => c * f t) x (c * df).
Proof. move=> Hf; exact (is_derive_scal f x c df Hf). Qed.
Lemma is_derive_eq f g x l : (forall t, f t = g t) -> is_derive f x l -> is_derive g x l.
Proof. exact: (@is_derive_ext R_AbsRing R_NormedModule). Qed.
Lemma is_derive_eq_loc f g x l : locally x (fun t => f t = g t) -> is_derive f x l -> is_derive g x l.
Proof. exact: (@is_derive_ext_loc R_AbsRing R_NormedModule). Qed.
Lemma is_derive_val f x l l' : l = l' -> is_derive f x l -> is_derive f x l'.
Proof. by move=> ->. Qed.
Lemma is_derive_uniq f x l l' : is_derive f x l -> is_derive f x l' -> l = l'.
Proof. by move=> /is_derive_unique <- /is_derive_unique <-. Qed.

Lemma is_derive_sum (I : Type) (r : seq I) (P : pred I) (f : I -> R -> R) (df : I -> R) x :
  (forall i, P i -> is_derive (f i) x (df i)) ->
  is_derive (fun t => \sum_(i <- r | P i) f i t) x (\sum_(i <- r | P i) df i).
Proof.
  move=> H; elim: r => [|i r IH].
  - rewrite big_nil; apply: (@is_derive_eq (fun _ => 0)); last exact: is_derive_cst.
    by move=> t; rewrite big_nil.
  - rewrite big_cons. apply: (@is_derive_eq (fun t => if P i then f i t + \sum_(j <- r | P j) f j t else \sum_(j <- r | P j) f j t)).
      by move=> t; rewrite big_cons.
    case E: (P i) => //. by apply: is_deriveD => //; apply: H.
Qed.

Lemma is_derive_prod_seq (I : Type) (r : seq I) (f : I -> R -> R) (df : I -> R) x :
  (forall i, is_derive (f i) x (df i)) ->
  is_derive (fun t => \prod_(i <- r) f i t) x (dprod (fun i => f i x) df r).
Proof.
  move=> H; elim: r => [|i r IH] /=.
  - apply: (@is_derive_eq (fun _ => 1)); last exact: is_derive_cst. by move=> t; rewrite big_nil.
  - apply: (@is_derive_eq (fun t => f i t * \prod_(j <- r) f j t)); first by move=> t; rewrite big_cons.
    exact: is_deriveM.
Qed.
End Scalar.

(* entrywise differentiability of a matrix-valued function of one real variable *)
Definition mx_derive m n (A : R -> 'M[R]_(m,n)) (x : R) (dA : 'M[R]_(m,n)) : Prop :=
  forall i j, is_derive (fun t => A t i j) x (dA i j).

Lemma locally_imp (x : R) (P Q : R -> Prop) : (forall t, P t -> Q t) -> locally x P -> locally x Q.
Proof. exact: filter_imp. Qed.

Section MxCalc.
Variables (x : R).
Lemma mx_derive_cst m n (A : 'M[R]_(m,n)) : mx_derive (fun _ => A) x 0.
Proof. by move=> i j; rewrite mxE; apply: is_derive_cst. Qed.
Lemma mx_deriveD m n (A B : R -> 'M[R]_(m,n)) dA dB :
  mx_derive A x dA -> mx_derive B x dB -> mx_derive (fun t => A t + B t) x (dA + dB).
Proof.
  move=> HA HB i j; rewrite mxE. apply: (@is_derive_eq (fun t => A t i j + B t i j)); first by move=> t; rewrite mxE.
  exact: is_deriveD.
Qed.
Lemma mx_deriveN m n (A : R -> 'M[R]_(m,n)) dA : mx_derive A x dA -> mx_derive (fun t => - A t) x (- dA).
Proof.
  move=> HA i j; rewrite mxE. apply: (@is_derive_eq (fun t => - A t i j)); first by move=> t; rewrite mxE.
  exact: is_deriveN.
Qed.
Lemma mx_deriveB m n (A B : R -> 'M[R]_(m,n)) dA dB :
  mx_derive A x dA -> mx_derive B x dB -> mx_derive (fun t => A t - B t) x (dA - dB).
Proof. by move=> HA HB; apply: mx_deriveD => //; apply: mx_deriveN. Qed.
Lemma mx_deriveM m n p (A : R -> 'M[R]_(m,n)) (B : R -> 'M[R]_(n,p)) dA dB :
  mx_derive A x dA -> mx_derive B x dB -> mx_derive (fun t => A t *m B t) x (dA *m B x + A x *m dB).
Proof.
  move=> HA HB i k. apply: (@is_derive_eq (fun t => \sum_j A t i j * B t j k)); first by move=> t; rewrite mxE.
  rewrite mxE !mxE -big_split /=. apply: is_derive_sum => j _. exact: is_deriveM.
Qed.
Lemma mx_derive_tr m n (A : R -> 'M[R]_(m,n)) dA : mx_derive A x dA -> mx_derive (fun t => (A t)^T) x dA^T.
Proof. move=> HA i j; rewrite mxE. apply: (@is_derive_eq (fun t => A t j i)) => // t. by rewrite mxE. Qed.
Lemma mx_derive_eq_loc m n (A B : R -> 'M[R]_(m,n)) dA :
  locally x (fun t => A t = B t) -> mx_derive A x dA -> mx_derive B x dA.
Proof.
  move=> H HA i j. apply: (@is_derive_eq_loc (fun t => A t i j)) => //.
  by apply: locally_imp H => t ->.
Qed.
Lemma mx_derive_val m n (A : R -> 'M[R]_(m,n)) dA dA' : dA = dA' -> mx_derive A x dA -> mx_derive A x dA'.
Proof. by move=> ->. Qed.
Lemma mx_derive_uniq m n (A : R -> 'M[R]_(m,n)) dA dA' : mx_derive A x dA -> mx_derive A x dA' -> dA = dA'.
Proof. move=> H H'. apply/matrixP => i j. exact: (is_derive_uniq (H i j) (H' i j)). Qed.
End MxCalc.

Section Det.
Variables (n : nat) (M : R -> 'M[R]_n) (x : R) (dM : 'M[R]_n).
Hypothesis HM : mx_derive M x dM.

(* derivative of the determinant: sum of entry derivatives times cofactors = tr(adj M * dM) *)
Lemma det_derive_cofactor : is_derive (fun t => \det (M t)) x (\sum_i \sum_j dM i j * cofactor (M x) i j).
Proof.
  rewrite -leibniz_dprod /determinant. apply: is_derive_sum => s _. apply: is_deriveZ.
  exact: (is_derive_prod_seq (index_enum _) (f := fun i t => M t i (s i)) (df := fun i => dM i (s i))).
Qed.
Lemma det_derive_adj : is_derive (fun t => \det (M t)) x (\tr (\adj (M x) *m dM)).
Proof. rewrite -cofactor_sum_trace. exact: det_derive_cofactor. Qed.
Lemma det_derive : \det (M x) != 0 -> is_derive (fun t => \det (M t)) x (\det (M x) * \tr (invmx (M x) *m dM)).
Proof. move=> H. rewrite -mxtraceZ scalemxAl -adj_unit //. exact: det_derive_adj. Qed.

(* JACOBI's formula *)
Theorem jacobi_logdet : Rlt 0 (\det (M x)) -> is_derive (fun t => ln (\det (M t))) x (\tr (invmx (M x) *m dM)).
Proof.
  move=> Hpos. have Hne : \det (M x) != 0 by apply/RneqP => E; rewrite E in Hpos; exact: (Rlt_irrefl _ Hpos).
  have H := is_derive_comp ln (fun t => \det (M t)) x _ _ (is_derive_ln _ Hpos) (det_derive Hne).
  apply: is_derive_val H. rewrite /scal /= /mult /= -RmulE mulrAC -RinvE; last exact/RneqP.
  by rewrite divff // mul1r.
Qed.
End Det.

Section Inverse.
Lemma locally_neq0 (f : R -> R) x df : is_derive f x df -> f x != 0 -> locally x (fun t => f t != 0).
Proof.
  move=> Hf /RneqP Hne.
  have C : continuous f x by apply: (@ex_derive_continuous R_AbsRing R_NormedModule); exists df.
  have := C _ (open_neq 0 (f x) Hne). apply: locally_imp => t Ht. exact/RneqP.
Qed.
Lemma ex_derive_invr (f : R -> R) x df : is_derive f x df -> f x != 0 -> exists l, is_derive (fun t => (f t)^-1) x l.
Proof.
  move=> Hf Hne. exists (- df / (f x) ^ 2)%Re.
  apply: (@is_derive_eq_loc (fun t => / f t)%Re); last by apply: is_derive_inv => //; apply/RneqP.
  apply: locally_imp (locally_neq0 Hf Hne) => t /RneqP Ht. by rewrite RinvE.
Qed.

Variables (n : nat) (M : R -> 'M[R]_n) (x : R) (dM : 'M[R]_n).
Hypothesis HM : mx_derive M x dM.
Hypothesis Hdet : \det (M x) != 0.

Lemma locally_unitmx : locally x (fun t => M t \in unitmx).
Proof.
  apply: locally_imp (locally_neq0 (det_derive_adj HM) Hdet) => t Ht. by rewrite unitmxE unitfE.
Qed.
Lemma ex_mx_derive_adj : exists dA, mx_derive (fun t => \adj (M t)) x dA.
Proof.
  exists (\matrix_(i, j) ((-1) ^+ (j + i) * \tr (\adj (row' j (col' i (M x))) *m row' j (col' i dM)))) => i j.
  rewrite mxE. apply: (@is_derive_eq (fun t => (-1) ^+ (j + i) * \det (row' j (col' i (M t))))).
    by move=> t; rewrite mxE.
  apply: is_deriveZ. apply: (@det_derive_adj _ (fun t => row' j (col' i (M t)))) => k l.
  rewrite !mxE. apply: (@is_derive_eq (fun t => M t (lift j k) (lift i l))) => // t. by rewrite !mxE.
Qed.
Lemma ex_mx_derive_inv : exists dN, mx_derive (fun t => invmx (M t)) x dN.
Proof.
  have [dA HA] := ex_mx_derive_adj. have [di Hi] := ex_derive_invr (det_derive_adj HM) Hdet.
  exists (\matrix_(i, j) (di * \adj (M x) i j + (\det (M x))^-1 * dA i j)).
  apply: (@mx_derive_eq_loc _ _ _ (fun t => (\det (M t))^-1 *: \adj (M t))).
    apply: locally_imp locally_unitmx => t Ht. by rewrite /invmx Ht.
  move=> i j. rewrite mxE. apply: (@is_derive_eq (fun t => (\det (M t))^-1 * \adj (M t) i j)).
    by move=> t; rewrite [RHS]mxE.
  exact: (is_deriveM Hi (HA i j)).
Qed.
(* d(M^-1) = - M^-1 dM M^-1 *)
Theorem mx_derive_inv : mx_derive (fun t => invmx (M t)) x (- (invmx (M x) *m dM *m invmx (M x))).
Proof.
  have [dN HN] := ex_mx_derive_inv.
  have U : M x \in unitmx by rewrite unitmxE unitfE.
  have H1 := mx_deriveM HM HN.
  have H0 : mx_derive (fun t => M t *m invmx (M t)) x 0.
    apply: (@mx_derive_eq_loc _ _ _ (fun _ => 1%:M)); last exact: mx_derive_cst.
    apply: locally_imp locally_unitmx => t Ht. by rewrite mulmxV.
  have E := mx_derive_uniq H1 H0.
  suff -> : - (invmx (M x) *m dM *m invmx (M x)) = dN by [].
  have E2 : M x *m dN = - (dM *m invmx (M x)) by apply/eqP; rewrite -addr_eq0 addrC; apply/eqP.
  by rewrite -[dN](mulKmx U) E2 mulmxN mulmxA.
Qed.
End Inverse.

(* constant factors *)
Section MxCalcConst.
Variable x : R.
Lemma mx_deriveMl m n p (A : 'M[R]_(m,n)) (B : R -> 'M[R]_(n,p)) dB :
  mx_derive B x dB -> mx_derive (fun t => A *m B t) x (A *m dB).
Proof. move=> HB. apply: mx_derive_val (mx_deriveM (mx_derive_cst x A) HB). by rewrite mul0mx add0r. Qed.
Lemma mx_deriveMr m n p (A : R -> 'M[R]_(m,n)) (B : 'M[R]_(n,p)) dA :
  mx_derive A x dA -> mx_derive (fun t => A t *m B) x (dA *m B).
Proof. move=> HA. apply: mx_derive_val (mx_deriveM HA (mx_derive_cst x B)). by rewrite mulmx0 addr0. Qed.
Lemma mx_derive_ex_inv n (M : R -> 'M[R]_n) dM :
  mx_derive M x dM -> M x \in unitmx -> mx_derive (fun t => invmx (M t)) x (- (invmx (M x) *m dM *m invmx (M x))).
Proof. by move=> HM U; apply: mx_derive_inv => //; rewrite -unitfE -unitmxE. Qed.
End MxCalcConst.
