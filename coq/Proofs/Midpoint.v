(* Lemmas and theorems for C12 (metric normalisation).  Model: LV.Model.Midpoint. *)
From Coq Require Import List QArith Qabs Bool Arith Lia Lra Psatz.
From LV Require Import Model.Midpoint.
Import ListNotations.
Open Scope Q_scope.

(* ------------------------------------------------------------------------------------------ booleans and Q *)
Lemma Qltb_true x y : Qltb x y = true <-> x < y.
Proof.
  unfold Qltb. rewrite negb_true_iff. split; intro H.
  - apply Qnot_le_lt. intro L. apply Qle_bool_iff in L. congruence.
  - destruct (Qle_bool y x) eqn:E; auto. apply Qle_bool_iff in E. lra.
Qed.
Lemma Qltb_false x y : Qltb x y = false <-> y <= x.
Proof.
  unfold Qltb. rewrite negb_false_iff. apply Qle_bool_iff.
Qed.

Lemma Qminb_spec a b : (a <= b /\ Qminb a b = a) \/ (b < a /\ Qminb a b = b).
Proof.
  unfold Qminb. destruct (Qle_bool a b) eqn:E.
  - left. apply Qle_bool_iff in E. auto.
  - right. split; auto. apply Qltb_true. unfold Qltb. now rewrite E.
Qed.
Lemma Qmaxb_spec a b : (a <= b /\ Qmaxb a b = b) \/ (b < a /\ Qmaxb a b = a).
Proof.
  unfold Qmaxb. destruct (Qle_bool a b) eqn:E.
  - left. apply Qle_bool_iff in E. auto.
  - right. split; auto. apply Qltb_true. unfold Qltb. now rewrite E.
Qed.

Lemma Qdiv_safe_some a b q : Qdiv_safe a b = Some q -> ~ b == 0 /\ q = a / b.
Proof.
  unfold Qdiv_safe. destruct (Qeq_bool b 0) eqn:E; [discriminate|].
  intro H. injection H as <-. split; auto. intro Z. apply Qeq_bool_iff in Z. congruence.
Qed.
Lemma Qdiv_safe_ok a b : ~ b == 0 -> Qdiv_safe a b = Some (a / b).
Proof.
  intro H. unfold Qdiv_safe. destruct (Qeq_bool b 0) eqn:E; auto. apply Qeq_bool_iff in E. contradiction.
Qed.

Lemma Qdiv_pos a b : 0 < a -> 0 < b -> 0 < a / b.
Proof.
  intros Ha Hb. apply Qlt_shift_div_l; auto. lra.
Qed.

(* ------------------------------------------------------------------------------------------ select, min, max *)
Lemma In_select {A} (mask : list bool) (l : list A) v :
  In v (select mask l) <-> exists k, nth_error mask k = Some true /\ nth_error l k = Some v.
Proof.
  revert l. induction mask as [|b m IH]; intros l.
  - simpl. split; [tauto|]. intros [k [H _]]. destruct k; discriminate.
  - destruct l as [|x r].
    + simpl. split; [tauto|]. intros [k [_ H]]. destruct k; discriminate.
    + simpl. destruct b.
      * simpl. rewrite IH. split.
        -- intros [->|[k Hk]]; [exists O; auto | exists (S k); auto].
        -- intros [[|k] [H1 H2]]; simpl in *; [left; congruence | right; eauto].
      * rewrite IH. split.
        -- intros [k Hk]. exists (S k); auto.
        -- intros [[|k] [H1 H2]]; simpl in *; [discriminate | eauto].
Qed.

Lemma fold_min_le r : forall x, fold_left Qminb r x <= x /\ (forall v, In v r -> fold_left Qminb r x <= v) /\
                                   In (fold_left Qminb r x) (x :: r).
Proof.
  induction r as [|y r IH]; intro x; simpl.
  - repeat split; try lra; auto. intros v [].
  - destruct (IH (Qminb x y)) as [H1 [H2 H3]]. destruct (Qminb_spec x y) as [[L E]|[L E]]; rewrite E in *.
    + repeat split; auto.
      * intros v [<-|Hv]; [lra | auto].
      * destruct H3 as [H3|H3]; auto.
    + repeat split; [lra| |].
      * intros v [<-|Hv]; [lra | auto].
      * destruct H3 as [H3|H3]; auto.
Qed.
Lemma fold_max_ge r : forall x, x <= fold_left Qmaxb r x /\ (forall v, In v r -> v <= fold_left Qmaxb r x) /\
                                   In (fold_left Qmaxb r x) (x :: r).
Proof.
  induction r as [|y r IH]; intro x; simpl.
  - repeat split; try lra; auto. intros v [].
  - destruct (IH (Qmaxb x y)) as [H1 [H2 H3]]. destruct (Qmaxb_spec x y) as [[L E]|[L E]]; rewrite E in *.
    + repeat split; [lra| |].
      * intros v [<-|Hv]; [lra | auto].
      * destruct H3 as [H3|H3]; auto.
    + repeat split; auto.
      * intros v [<-|Hv]; [lra | auto].
      * destruct H3 as [H3|H3]; auto.
Qed.

Lemma list_min_spec x r : In (list_min x r) (x :: r) /\ forall v, In v (x :: r) -> list_min x r <= v.
Proof.
  unfold list_min. destruct (fold_min_le r x) as [H1 [H2 H3]]. split; auto.
  intros v [<-|Hv]; auto.
Qed.
Lemma list_max_spec x r : In (list_max x r) (x :: r) /\ forall v, In v (x :: r) -> v <= list_max x r.
Proof.
  unfold list_max. destruct (fold_max_ge r x) as [H1 [H2 H3]]. split; auto.
  intros v [<-|Hv]; auto.
Qed.
Lemma list_min_le_max x r : list_min x r <= list_max x r.
Proof.
  destruct (list_min_spec x r) as [_ H]. destruct (list_max_spec x r) as [_ H'].
  specialize (H x (or_introl eq_refl)). specialize (H' x (or_introl eq_refl)). lra.
Qed.

(* ------------------------------------------------------------------------------------------ the constructor *)
Definition nonfail (vals : list Q) (fails : list bool) : list Q := select (map negb fails) vals.

(* what each arm of the constructor leaves in the object *)
Definition arm (i : info) (x : Q) (r : list Q) : Prop :=
  let mn := list_min x r in
  let mx := list_max x r in
  (i_branch i = BRegular /\ MIN_HALF_WIDTH <= (mx - mn) * (1 # 2) /\
     i_mid i = (mx + mn) * (1 # 2) /\ i_scale i = (2 * SCALE_FACTOR) / (mx - mn)) \/
  (i_branch i = BDegenBig /\ (mx - mn) * (1 # 2) < MIN_HALF_WIDTH /\ 1 < Qminb (Qabs mx) (Qabs mn) /\
     i_mid i = mn /\ i_scale i = 1 / Qmaxb (Qabs mn) (Qabs mx)) \/
  (i_branch i = BDegenSmall /\ (mx - mn) * (1 # 2) < MIN_HALF_WIDTH /\ Qminb (Qabs mx) (Qabs mn) <= 1 /\
     i_mid i = 0 /\ i_scale i = 1).

Lemma big_pos a b : 1 < Qminb (Qabs a) (Qabs b) -> 0 < Qmaxb (Qabs b) (Qabs a).
Proof.
  intro H. destruct (Qminb_spec (Qabs a) (Qabs b)) as [[L E]|[L E]]; rewrite E in H;
  destruct (Qmaxb_spec (Qabs b) (Qabs a)) as [[L' E']|[L' E']]; rewrite E'; lra.
Qed.

Lemma smmi_cases vals fails o i : smmi vals fails o = Some i ->
  i_nonfail i = nonfail vals fails /\ i_negate i = negate_of o /\
  match nonfail vals fails with
  | [] => i_skip i = true /\ i_branch i = BSkip
  | x :: r => i_skip i = false /\ arm i x r
  end.
Proof.
  unfold smmi, nonfail. destruct (select (map negb fails) vals) as [|x r] eqn:NF.
  - intro H. injection H as <-. simpl. auto.
  - destruct (Qltb ((list_max x r - list_min x r) * (1 # 2)) MIN_HALF_WIDTH) eqn:W.
    + apply Qltb_true in W.
      destruct (Qltb 1 (Qminb (Qabs (list_max x r)) (Qabs (list_min x r)))) eqn:B.
      * apply Qltb_true in B.
        destruct (Qdiv_safe 1 (Qmaxb (Qabs (list_min x r)) (Qabs (list_max x r)))) as [s|] eqn:D; [|discriminate].
        apply Qdiv_safe_some in D. destruct D as [_ ->].
        intro H. injection H as <-. simpl. repeat split; auto. unfold arm. right. left. simpl. auto.
      * apply Qltb_false in B. intro H. injection H as <-. simpl. repeat split; auto.
        unfold arm. right. right. simpl. auto.
    + apply Qltb_false in W.
      destruct (Qdiv_safe (2 * SCALE_FACTOR) (list_max x r - list_min x r)) as [s|] eqn:D; [|discriminate].
      apply Qdiv_safe_some in D. destruct D as [_ ->].
      intro H. injection H as <-. simpl. repeat split; auto. unfold arm. left. simpl. auto.
Qed.

(* no division by zero in any arm: the constructor always returns an object *)
Lemma smmi_total vals fails o : exists i, smmi vals fails o = Some i.
Proof.
  unfold smmi. destruct (select (map negb fails) vals) as [|x r]; [eauto|].
  destruct (Qltb ((list_max x r - list_min x r) * (1 # 2)) MIN_HALF_WIDTH) eqn:W.
  - destruct (Qltb 1 (Qminb (Qabs (list_max x r)) (Qabs (list_min x r)))) eqn:B; [|eauto].
    apply Qltb_true in B. apply big_pos in B. rewrite Qdiv_safe_ok; [eauto|]. intro Z. rewrite Z in B. lra.
  - apply Qltb_false in W. rewrite Qdiv_safe_ok; [eauto|]. unfold MIN_HALF_WIDTH in W. intro Z.
    assert (0 < 1 # 100000000) by reflexivity. lra.
Qed.

Lemma arm_scale_pos i x r : arm i x r -> 0 < i_scale i.
Proof.
  unfold arm. intros [[_ [W [_ S]]] | [[_ [_ [B [_ S]]]] | [_ [_ [_ [_ S]]]]]]; rewrite S.
  - apply Qdiv_pos; [reflexivity|]. unfold MIN_HALF_WIDTH in W. assert (0 < 1 # 100000000) by reflexivity. lra.
  - apply Qdiv_pos; [reflexivity|]. now apply big_pos.
  - reflexivity.
Qed.

Lemma smmi_scale_pos vals fails o i : smmi vals fails o = Some i -> i_skip i = false -> 0 < i_scale i.
Proof.
  intros H S. apply smmi_cases in H. destruct H as [_ [_ H]].
  destruct (nonfail vals fails) as [|x r].
  - destruct H as [H _]. congruence.
  - destruct H as [_ H]. eapply arm_scale_pos; eauto.
Qed.

Lemma negate_sq o : negate_of o * negate_of o == 1.
Proof. destruct o; reflexivity. Qed.

(* ------------------------------------------------------------------------------------------ well-formed objects *)
(* what the theorems below need of an object: its sign is the objective's and, unless it is in skip mode, its scale is
   positive.  Every constructed object is well-formed (smmi_wf, mmi_wf). *)
Definition wf_for (o : objective) (i : info) : Prop :=
  i_negate i = negate_of o /\ (i_skip i = false -> 0 < i_scale i).

Lemma smmi_wf vals fails o i : smmi vals fails o = Some i -> wf_for o i.
Proof.
  intro H. split.
  - apply smmi_cases in H. tauto.
  - eapply smmi_scale_pos; eauto.
Qed.

Lemma set_skip_wf o b i : wf_for o i -> wf_for o (set_skip b i).
Proof.
  intros [N S]. split; simpl; auto. intro H. apply orb_false_iff in H. tauto.
Qed.

(* a is better than b in the user's sense *)
Definition better (o : objective) (a b : Q) : Prop := match o with Minimize => a < b | _ => b < a end.

Lemma better_b_iff o a b : better_b o a b = true <-> better o a b.
Proof. destruct o; simpl; apply Qltb_true. Qed.

(* ------------------------------------------------------------------------------------------ order law *)
Theorem order_law o i a b : wf_for o i -> (better o a b <-> rel_value i a < rel_value i b).
Proof.
  intros [N S]. unfold rel_value. rewrite N. destruct (i_skip i).
  - destruct o; simpl; split; intro H; lra.
  - specialize (S eq_refl). set (s := i_scale i) in *. set (m := i_mid i).
    destruct o; simpl; split; intro H; nra.
Qed.

Corollary order_never_flipped o i a b : wf_for o i -> better o a b -> ~ rel_value i b <= rel_value i a.
Proof.
  intros W H. apply (order_law o i a b W) in H. lra.
Qed.

Corollary equal_values_equal_scaled o i a b : wf_for o i -> a == b -> rel_value i a == rel_value i b.
Proof.
  intros _ E. unfold rel_value. destruct (i_skip i); rewrite E; reflexivity.
Qed.

(* ------------------------------------------------------------------------------------------ inverse laws *)
Theorem undo_relative_id o i v : wf_for o i -> exists v', undo_value i (rel_value i v) = Some v' /\ v' == v.
Proof.
  intros [N S]. unfold undo_value, rel_value. destruct (i_skip i).
  - eexists; split; [reflexivity|]. rewrite N. destruct o; simpl; ring.
  - specialize (S eq_refl). assert (Z : ~ i_scale i == 0) by (intro Z; rewrite Z in S; lra).
    rewrite Qdiv_safe_ok by exact Z. eexists; split; [reflexivity|]. rewrite N. destruct o; simpl; field; exact Z.
Qed.

Theorem relative_undo_id o i y : wf_for o i -> exists v, undo_value i y = Some v /\ rel_value i v == y.
Proof.
  intros [N S]. unfold undo_value, rel_value. destruct (i_skip i).
  - eexists; split; [reflexivity|]. rewrite N. destruct o; simpl; ring.
  - specialize (S eq_refl). assert (Z : ~ i_scale i == 0) by (intro Z; rewrite Z in S; lra).
    rewrite Qdiv_safe_ok by exact Z. eexists; split; [reflexivity|]. rewrite N. destruct o; simpl; field; exact Z.
Qed.

(* ------------------------------------------------------------------------------------------ span *)
Lemma regular_iff vals fails o i : smmi vals fails o = Some i ->
  (i_branch i = BRegular <-> exists a b, In a (nonfail vals fails) /\ In b (nonfail vals fails) /\ 2 * MIN_HALF_WIDTH <= a - b).
Proof.
  intro H. apply smmi_cases in H. destruct H as [_ [_ H]]. destruct (nonfail vals fails) as [|x r].
  - destruct H as [_ B]. split; [congruence|]. intros [a [b [[] _]]].
  - destruct H as [_ A]. destruct (list_min_spec x r) as [Imn Lmn]. destruct (list_max_spec x r) as [Imx Lmx].
    split.
    + intro B. exists (list_max x r), (list_min x r). repeat split; auto.
      unfold arm in A. destruct A as [[_ [W _]] | [[B' _] | [B' _]]]; try congruence. lra.
    + intros [a [b [Ia [Ib W]]]]. specialize (Lmx a Ia). specialize (Lmn b Ib).
      unfold arm in A. destruct A as [[B _] | [[_ [W' _]] | [_ [W' _]]]]; auto; lra.
Qed.

Theorem span_exact vals fails o i : smmi vals fails o = Some i -> i_branch i = BRegular ->
  (forall v, In v (nonfail vals fails) -> -(1 # 10) <= rel_value i v <= 1 # 10) /\
  (exists lo, In lo (nonfail vals fails) /\ rel_value i lo == -(1 # 10)) /\
  (exists hi, In hi (nonfail vals fails) /\ rel_value i hi == 1 # 10).
Proof.
  intros H B. apply smmi_cases in H. destruct H as [_ [N H]]. destruct (nonfail vals fails) as [|x r].
  - destruct H as [_ B']. congruence.
  - destruct H as [K A]. destruct (list_min_spec x r) as [Imn Lmn]. destruct (list_max_spec x r) as [Imx Lmx].
    unfold arm in A. destruct A as [[_ [W [M S]]] | [[B' _] | [B' _]]]; try congruence.
    set (mn := list_min x r) in *. set (mx := list_max x r) in *.
    assert (P : 0 < mx - mn). { unfold MIN_HALF_WIDTH in W. assert (0 < 1 # 100000000) by reflexivity. lra. }
    assert (Z : ~ mx - mn == 0) by (intro Z; rewrite Z in P; lra).
    assert (SW : i_scale i * (mx - mn) == 2 # 10).
    { rewrite S. unfold SCALE_FACTOR. field. exact Z. }
    assert (SP : 0 < i_scale i). { rewrite S. apply Qdiv_pos; [reflexivity | exact P]. }
    unfold rel_value. rewrite K, N, M. set (s := i_scale i) in *.
    split; [|split].
    + intros v Iv. specialize (Lmn v Iv). specialize (Lmx v Iv). destruct o; simpl; split; nra.
    + destruct o; simpl.
      * exists mn. split; auto. nra.
      * exists mx. split; auto. nra.
      * exists mx. split; auto. nra.
    + destruct o; simpl.
      * exists mx. split; auto. nra.
      * exists mn. split; auto. nra.
      * exists mn. split; auto. nra.
Qed.

(* ------------------------------------------------------------------------------------------ variances *)
(* square of the slope of the value map *)
Definition var_factor (i : info) : Q := if i_skip i then 1 else i_scale i * i_scale i.
Definition var_floor (i : info) : Q := if i_skip i then SKIP_VALUE_VAR else MIN_VALUE_VAR.

Theorem value_scale_squared o i a b : wf_for o i ->
  (rel_value i a - rel_value i b) * (rel_value i a - rel_value i b) == var_factor i * ((a - b) * (a - b)).
Proof.
  intros [N _]. unfold rel_value, var_factor. rewrite N. destruct (i_skip i); destruct o; simpl; ring.
Qed.

Theorem variance_scaling i w :
  MIN_VALUE_VAR <= rel_var i w /\ var_floor i <= rel_var i w /\ w * var_factor i <= rel_var i w /\
  (rel_var i w == w * var_factor i \/ rel_var i w == var_floor i).
Proof.
  unfold rel_var, var_factor, var_floor. assert (F : MIN_VALUE_VAR <= SKIP_VALUE_VAR) by (unfold Qle; simpl; lia).
  destruct (i_skip i).
  - destruct (Qmaxb_spec w SKIP_VALUE_VAR) as [[L E]|[L E]]; rewrite E; repeat split; try lra;
      solve [right; reflexivity | left; ring].
  - destruct (Qmaxb_spec (w * (i_scale i * i_scale i)) MIN_VALUE_VAR) as [[L E]|[L E]]; rewrite E; repeat split; try lra;
      solve [right; reflexivity | left; reflexivity].
Qed.

Theorem variance_undo o i w : wf_for o i -> var_floor i <= w * var_factor i ->
  exists w', undo_var i (rel_var i w) = Some w' /\ w' == w.
Proof.
  intros [_ S]. unfold undo_var, rel_var, var_factor, var_floor. destruct (i_skip i).
  - intro F. eexists; split; [reflexivity|]. destruct (Qmaxb_spec w SKIP_VALUE_VAR) as [[L E]|[L E]]; rewrite E; lra.
  - intro F. specialize (S eq_refl). assert (Z : ~ i_scale i * i_scale i == 0) by nra.
    rewrite Qdiv_safe_ok by exact Z. eexists; split; [reflexivity|].
    destruct (Qmaxb_spec (w * (i_scale i * i_scale i)) MIN_VALUE_VAR) as [[L E]|[L E]]; rewrite E.
    + assert (E' : w * (i_scale i * i_scale i) == MIN_VALUE_VAR) by lra. rewrite <- E'. field. lra.
    + field. lra.
Qed.

(* ------------------------------------------------------------------------------------------ lies *)
Theorem lie_is_worst vals fails o i : smmi vals fails o = Some i -> nonfail vals fails <> [] ->
  exists l, lie_value i LieMin = Some l /\ In l (nonfail vals fails) /\
    (forall v, In v (nonfail vals fails) -> ~ better o l v) /\
    (forall v, In v (nonfail vals fails) -> rel_value i v <= rel_value i l).
Proof.
  intros H NE. pose proof (smmi_wf _ _ _ _ H) as W. apply smmi_cases in H. destruct H as [NF [N _]].
  unfold lie_value. rewrite NF, N. destruct (nonfail vals fails) as [|x r]; [congruence|].
  destruct (list_min_spec x r) as [Imn Lmn]. destruct (list_max_spec x r) as [Imx Lmx].
  assert (G : forall l, In l (x :: r) -> (forall v, In v (x :: r) -> ~ better o l v) ->
              forall v, In v (x :: r) -> rel_value i v <= rel_value i l).
  { intros l Il Hl v Iv. destruct (Qlt_le_dec (rel_value i l) (rel_value i v)) as [C|C]; auto.
    apply (order_law o i l v W) in C. exfalso. eapply Hl; eauto. }
  destruct o; simpl.
  - exists (list_max x r). repeat split; auto.
    + intros v Iv B. simpl in B. specialize (Lmx v Iv). lra.
    + apply G; auto. intros v Iv B. simpl in B. specialize (Lmx v Iv). lra.
  - exists (list_min x r). repeat split; auto.
    + intros v Iv B. simpl in B. specialize (Lmn v Iv). lra.
    + apply G; auto. intros v Iv B. simpl in B. specialize (Lmn v Iv). lra.
  - exists (list_min x r). repeat split; auto.
    + intros v Iv B. simpl in B. specialize (Lmn v Iv). lra.
    + apply G; auto. intros v Iv B. simpl in B. specialize (Lmn v Iv). lra.
Qed.

Lemma lie_default vals fails o i m : smmi vals fails o = Some i -> nonfail vals fails = [] ->
  lie_value i m = Some DEFAULT_LIE /\ i_skip i = true /\ rel_value i DEFAULT_LIE == negate_of o * DEFAULT_LIE.
Proof.
  intros H NE. apply smmi_cases in H. destruct H as [NF [N H]]. rewrite NE in *. destruct H as [K _].
  unfold lie_value, rel_value. rewrite NF, K, N. repeat split; reflexivity.
Qed.

Lemma lie_total i m : lie_value i m <> None.
Proof.
  unfold lie_value. destruct (i_nonfail i) as [|x r]; [discriminate|]. destruct m; discriminate.
Qed.

(* ------------------------------------------------------------------------------------------ never NaN / inf *)
Theorem no_nan vals fails o : exists i, smmi vals fails o = Some i /\
  (forall y, undo_value i y <> None) /\ (forall w, undo_var i w <> None) /\ (forall m, lie_value i m <> None).
Proof.
  destruct (smmi_total vals fails o) as [i H]. exists i. split; auto.
  pose proof (smmi_wf _ _ _ _ H) as [_ S]. repeat split.
  - intro y. unfold undo_value. destruct (i_skip i); [discriminate|]. specialize (S eq_refl).
    rewrite Qdiv_safe_ok; [discriminate|]. intro Z. rewrite Z in S. lra.
  - intro w. unfold undo_var. destruct (i_skip i); [discriminate|]. specialize (S eq_refl).
    rewrite Qdiv_safe_ok; [discriminate|]. nra.
  - apply lie_total.
Qed.

(* ------------------------------------------------------------------------------------------ lists *)
Lemma sequence_some {A} (l : list (option A)) r : sequence l = Some r -> l = map Some r.
Proof.
  revert r. induction l as [|[x|] l IH]; intros r H; simpl in H.
  - injection H as <-. reflexivity.
  - destruct (sequence l) as [r'|]; [|discriminate]. injection H as <-. simpl. f_equal. auto.
  - discriminate.
Qed.
Lemma sequence_total {A} (l : list (option A)) : (forall x, In x l -> x <> None) -> exists r, sequence l = Some r.
Proof.
  induction l as [|[x|] l IH]; intro H; simpl.
  - eauto.
  - destruct IH as [r ->]; [intros; apply H; simpl; auto | eauto].
  - exfalso. apply (H None); simpl; auto.
Qed.

Lemma length_map2 {A B C} (f : A -> B -> C) a : forall b, length (map2 f a b) = Nat.min (length a) (length b).
Proof. induction a as [|x a IH]; intros [|y b]; simpl; auto. Qed.
Lemma nth_map2 {A B C} (f : A -> B -> C) a : forall b k da db dc, (k < length a)%nat -> (k < length b)%nat ->
  nth k (map2 f a b) dc = f (nth k a da) (nth k b db).
Proof.
  induction a as [|x a IH]; intros [|y b] [|k] da db dc Ha Hb; simpl in *; try lia; auto.
  apply IH; lia.
Qed.
Lemma nth_map' {A B} (f : A -> B) l k da db : (k < length l)%nat -> nth k (map f l) db = f (nth k l da).
Proof. intro H. rewrite (nth_indep _ db (f da)) by (rewrite map_length; auto). apply map_nth. Qed.

Lemma select_map {A B} (f : A -> B) mask : forall l, select mask (map f l) = map f (select mask l).
Proof.
  induction mask as [|b m IH]; intros [|x l]; simpl; auto. destruct b; simpl; rewrite IH; auto.
Qed.

Lemma column_pick ix vals j : (j < length ix)%nat -> column j (map (pick 0 ix) vals) = column (nth j ix O) vals.
Proof.
  intro H. unfold column. rewrite map_map. apply map_ext. intro r. unfold pick.
  apply (nth_map' (fun k => nth k r 0)). exact H.
Qed.

(* ------------------------------------------------------------------------------------------ several metrics *)
Definition dinfo : info := mkinfo true BSkip 1 0 1 [].

Lemma smmi_skip_is vals fails o i : smmi vals fails o = Some i ->
  i_skip i = match nonfail vals fails with [] => true | _ => false end.
Proof.
  intro H. apply smmi_cases in H. destruct H as [_ [_ H]]. destruct (nonfail vals fails); tauto.
Qed.

Lemma nonfail_column k vals fails :
  nonfail (column k vals) fails = map (fun r => nth k r 0) (select (map negb fails) vals).
Proof. unfold nonfail, column. apply select_map. Qed.

Lemma set_skip_same i : set_skip (i_skip i) i = i.
Proof. destruct i as [s b n m c nf]. unfold set_skip. simpl. now rewrite orb_diag. Qed.

(* The multi-metric object is exactly the tuple of single-metric objects of its columns: all metrics see the same
   failures, so they are in skip mode together and the force_skip synchronisation changes nothing. *)
Theorem mmi_is_columnwise m vals fails objs :
  exists infos, mmi m vals fails objs = Some infos /\ length infos = m /\
    forall k, (k < m)%nat ->
      smmi (column k vals) fails (obj_at objs k) = Some (nth k infos dinfo) /\
      i_skip (nth k infos dinfo) = m_skip infos.
Proof.
  unfold mmi.
  destruct (sequence_total (map (fun k => smmi (column k vals) fails (obj_at objs k)) (seq 0 m))) as [infos0 E].
  { intros x Hx. apply in_map_iff in Hx. destruct Hx as [k [<- _]].
    destruct (smmi_total (column k vals) fails (obj_at objs k)) as [i ->]. discriminate. }
  rewrite E. pose proof (sequence_some _ _ E) as E0.
  assert (L : length infos0 = m).
  { apply (f_equal (@length _)) in E0. rewrite !map_length, seq_length in E0. auto. }
  set (b := match select (map negb fails) vals with [] => true | _ => false end).
  assert (K : forall k, (k < m)%nat -> smmi (column k vals) fails (obj_at objs k) = Some (nth k infos0 dinfo)).
  { intros k Hk. apply (f_equal (fun l => nth k l None)) in E0.
    rewrite (nth_map' _ _ _ O) in E0 by (rewrite seq_length; auto). rewrite seq_nth in E0 by auto. simpl in E0.
    rewrite (nth_map' _ _ _ dinfo) in E0 by lia. exact E0. }
  assert (SK : forall k, (k < m)%nat -> i_skip (nth k infos0 dinfo) = b).
  { intros k Hk. rewrite (smmi_skip_is _ _ _ _ (K k Hk)). rewrite nonfail_column. unfold b.
    destruct (select (map negb fails) vals); reflexivity. }
  assert (ALL : forall i, In i infos0 -> i_skip i = b).
  { intros i Hi. destruct (In_nth _ _ dinfo Hi) as [k [Hk <-]]. apply SK. lia. }
  assert (SAME : map (set_skip (existsb i_skip infos0)) infos0 = infos0).
  { destruct (existsb i_skip infos0) eqn:EX.
    - apply existsb_exists in EX. destruct EX as [i [Hi Si]]. rewrite (ALL i Hi) in Si.
      rewrite <- (map_id infos0) at 2. apply map_ext_in. intros a Ha.
      rewrite <- (set_skip_same a) at 2. rewrite (ALL a Ha), Si. reflexivity.
    - rewrite <- (map_id infos0) at 2. apply map_ext_in. intros a Ha.
      assert (Sa : i_skip a = false).
      { destruct (i_skip a) eqn:Sa; auto. assert (existsb i_skip infos0 = true) by (apply existsb_exists; eauto). congruence. }
      rewrite <- (set_skip_same a) at 2. rewrite Sa. reflexivity. }
  exists infos0. rewrite SAME. repeat split; auto.
  unfold m_skip. rewrite (SK k H). destruct (existsb i_skip infos0) eqn:EX.
  - apply existsb_exists in EX. destruct EX as [i [Hi Si]]. rewrite (ALL i Hi) in Si. auto.
  - destruct b eqn:B; auto. assert (existsb i_skip infos0 = true).
    { apply existsb_exists. exists (nth k infos0 dinfo). split; [apply nth_In; lia | rewrite SK; auto]. }
    congruence.
Qed.

Corollary mmi_wf m vals fails objs infos k : mmi m vals fails objs = Some infos -> (k < m)%nat ->
  wf_for (obj_at objs k) (nth k infos dinfo).
Proof.
  intros H Hk. destruct (mmi_is_columnwise m vals fails objs) as [infos' [H' [_ K]]].
  rewrite H in H'. injection H' as <-. destruct (K k Hk) as [S _]. eapply smmi_wf; eauto.
Qed.

(* ------------------------------------------------------------------------------------------ the view *)
Lemma obj_at_some l j : obj_at (Some l) j = nth j l NoObjective.
Proof. destruct l; simpl; auto. destruct j; auto. Qed.

Lemma nth_nonfail vals fails r : (r < length vals)%nat -> length fails = length vals -> nth r fails false = false ->
  In (nth r vals 0) (nonfail vals fails).
Proof.
  intros Hr L F. unfold nonfail. apply In_select. exists r. split.
  - rewrite (nth_error_nth' (map negb fails) true) by (rewrite map_length; lia).
    rewrite (nth_map' negb fails r false true) by lia. now rewrite F.
  - now apply nth_error_nth'.
Qed.

Theorem view_law ix vals vars fails objs thr : length fails = length vals ->
  exists out, preprocess ix vals vars fails objs thr = Some out /\
    length (v_lie out) = length ix /\ length (v_values out) = length vals /\
    forall j, (j < length ix)%nat ->
      let c := nth j ix O in
      exists i l,
        smmi (column c vals) fails (nth c objs NoObjective) = Some i /\
        lie_value i LieMin = Some l /\
        nth j (v_lie out) 0 = rel_value i l /\
        (forall r, (r < length vals)%nat ->
           nth j (nth r (v_values out) []) 0 =
           if nth r fails false then rel_value i l else rel_value i (nth c (nth r vals []) 0)) /\
        (forall r, (r < length vals)%nat -> nth j (nth r (v_values out) []) 0 <= nth j (v_lie out) 0) /\
        nth j (v_thresholds out) None = option_map (rel_value i) (nth c thr None).
Proof.
  intro LF. unfold preprocess.
  destruct (mmi_is_columnwise (length ix) (map (pick 0 ix) vals) fails (Some (pick NoObjective ix objs)))
    as [infos [-> [LI K]]].
  destruct (sequence_total (map (fun i => lie_value i LieMin) infos)) as [lie EL].
  { intros x Hx. apply in_map_iff in Hx. destruct Hx as [i [<- _]]. apply lie_total. }
  unfold lie_row. rewrite EL. pose proof (sequence_some _ _ EL) as EL0.
  assert (LL : length lie = length ix).
  { apply (f_equal (@length _)) in EL0. rewrite !map_length in EL0. lia. }
  eexists. split; [reflexivity|]. cbn [v_lie v_values v_vars v_thresholds].
  assert (LP : forall {A} (d : A) l, length (pick d ix l) = length ix) by (intros; unfold pick; apply map_length).
  split; [unfold rel_row; rewrite length_map2; lia|].
  split; [rewrite length_map2, map_length; lia|].
  intros j Hj. set (c := nth j ix O). destruct (K j Hj) as [S _].
  rewrite column_pick in S by exact Hj. rewrite obj_at_some in S.
  unfold pick at 1 in S. rewrite (nth_map' (fun k => nth k objs NoObjective) ix j O) in S by exact Hj. fold c in S.
  set (i := nth j infos dinfo) in *.
  assert (LV : lie_value i LieMin = Some (nth j lie 0)).
  { apply (f_equal (fun l => nth j l None)) in EL0.
    rewrite (nth_map' _ infos j dinfo) in EL0 by lia. rewrite (nth_map' _ lie j 0) in EL0 by lia. exact EL0. }
  assert (SL : nth j (rel_row infos lie) 0 = rel_value i (nth j lie 0)).
  { unfold rel_row. apply nth_map2; lia. }
  assert (ROW : forall r, (r < length vals)%nat ->
            nth j (nth r (map2 (fun (f : bool) r0 => if f then rel_row infos lie else rel_row infos r0) fails
                                 (map (pick 0 ix) vals)) []) 0 =
            if nth r fails false then rel_value i (nth j lie 0) else rel_value i (nth c (nth r vals []) 0)).
  { intros r Hr. rewrite (nth_map2 _ fails (map (pick 0 ix) vals) r false [] []) by (rewrite ?map_length; lia).
    destruct (nth r fails false); [exact SL|].
    rewrite (nth_map' (pick 0 ix) vals r [] []) by exact Hr.
    unfold rel_row. rewrite (nth_map2 rel_value infos _ j dinfo 0 0) by (rewrite ?LP; lia).
    fold i. f_equal. unfold pick. apply (nth_map' (fun k => nth k (nth r vals []) 0)). exact Hj. }
  exists i, (nth j lie 0). repeat split; auto.
  - intros r Hr. rewrite ROW by exact Hr. rewrite SL. destruct (nth r fails false) eqn:F; [lra|].
    destruct (lie_is_worst _ _ _ _ S) as [l [Hl [_ [_ W]]]].
    + intro E. pose proof (nth_nonfail (column c vals) fails r) as I.
      unfold column in I at 1 2. rewrite map_length in I. specialize (I Hr LF F). fold (column c vals) in I.
      rewrite E in I. destruct I.
    + rewrite LV in Hl. injection Hl as <-. apply W.
      pose proof (nth_nonfail (column c vals) fails r) as I. unfold column in I at 1 2. rewrite map_length in I.
      specialize (I Hr LF F). fold (column c vals) in I.
      unfold column in I at 1. rewrite (nth_map' (fun r0 => nth c r0 0) vals r [] 0) in I by exact Hr. exact I.
  - rewrite (nth_map2 _ infos (pick None ix thr) j dinfo None None) by (rewrite ?LP; lia). fold i. f_equal.
    unfold pick. apply (nth_map' (fun k => nth k thr None)). exact Hj.
Qed.

(* ------------------------------------------------------------------------------------------ the decidable
   specifications evaluated on the implementation's outputs mean what the theorems say *)
Lemma order_spec_b_iff o vals scaled : order_spec_b o vals scaled = true <->
  forall p q, In p (combine vals scaled) -> In q (combine vals scaled) -> (better o (fst p) (fst q) <-> snd p < snd q).
Proof.
  unfold order_spec_b. rewrite forallb_forall. split.
  - intros H p q Hp Hq. specialize (H p Hp). rewrite forallb_forall in H. specialize (H q Hq).
    apply eqb_prop in H. rewrite <- better_b_iff, <- Qltb_true. rewrite H. tauto.
  - intros H p Hp. rewrite forallb_forall. intros q Hq. specialize (H p q Hp Hq).
    rewrite <- better_b_iff, <- Qltb_true in H.
    destruct (better_b o (fst p) (fst q)), (Qltb (snd p) (snd q)); simpl; auto; destruct H; auto.
Qed.

Lemma lie_spec_b_iff o nf l : lie_spec_b o nf l = true <->
  (exists v, In v nf /\ v == l) /\ forall v, In v nf -> ~ better o l v.
Proof.
  unfold lie_spec_b. rewrite andb_true_iff, existsb_exists, forallb_forall. split.
  - intros [[v [Hv E]] H]. split.
    + exists v. split; auto. now apply Qeq_bool_iff.
    + intros w Hw B. apply better_b_iff in B. specialize (H w Hw). rewrite B in H. discriminate.
  - intros [[v [Hv E]] H]. split.
    + exists v. split; auto. now apply Qeq_bool_iff.
    + intros w Hw. destruct (better_b o l w) eqn:B; auto. apply better_b_iff in B. exfalso. eapply H; eauto.
Qed.

(* ------------------------------------------------------------------------------------------ the laws, for every
   constructed object *)
Theorem order_law_c vals fails o i a b : smmi vals fails o = Some i ->
  (better o a b <-> rel_value i a < rel_value i b).
Proof. intro H. apply order_law. eapply smmi_wf; eauto. Qed.

Theorem undo_relative_id_c vals fails o i v : smmi vals fails o = Some i ->
  exists v', undo_value i (rel_value i v) = Some v' /\ v' == v.
Proof. intro H. eapply undo_relative_id. eapply smmi_wf; eauto. Qed.

Theorem relative_undo_id_c vals fails o i y : smmi vals fails o = Some i ->
  exists v, undo_value i y = Some v /\ rel_value i v == y.
Proof. intro H. eapply relative_undo_id. eapply smmi_wf; eauto. Qed.

Theorem span_exact_c vals fails o i : smmi vals fails o = Some i ->
  (i_branch i = BRegular <->
   exists a b, In a (nonfail vals fails) /\ In b (nonfail vals fails) /\ 2 * MIN_HALF_WIDTH <= a - b) /\
  (i_branch i = BRegular ->
   (forall v, In v (nonfail vals fails) -> -(1 # 10) <= rel_value i v <= 1 # 10) /\
   (exists lo, In lo (nonfail vals fails) /\ rel_value i lo == -(1 # 10)) /\
   (exists hi, In hi (nonfail vals fails) /\ rel_value i hi == 1 # 10)).
Proof. intro H. split; [eapply regular_iff; eauto | eapply span_exact; eauto]. Qed.

Theorem variance_law_c vals fails o i w a b : smmi vals fails o = Some i ->
  (rel_value i a - rel_value i b) * (rel_value i a - rel_value i b) == var_factor i * ((a - b) * (a - b)) /\
  MIN_VALUE_VAR <= rel_var i w /\ var_floor i <= rel_var i w /\ w * var_factor i <= rel_var i w /\
  (rel_var i w == w * var_factor i \/ rel_var i w == var_floor i) /\
  (var_floor i <= w * var_factor i -> exists w', undo_var i (rel_var i w) = Some w' /\ w' == w).
Proof.
  intro H. pose proof (smmi_wf _ _ _ _ H) as W. split; [eapply value_scale_squared; eauto|].
  destruct (variance_scaling i w) as [A [B [C D]]]. repeat split; auto. intro F. eapply variance_undo; eauto.
Qed.

Theorem degenerate_c vals fails o i : smmi vals fails o = Some i ->
  (nonfail vals fails = [] -> i_skip i = true /\ forall v, rel_value i v == negate_of o * v) /\
  (i_skip i = false -> 0 < i_scale i) /\
  (forall x, (forall v, In v (nonfail vals fails) -> v == x) -> nonfail vals fails <> [] ->
     i_skip i = false /\ (i_branch i = BDegenBig \/ i_branch i = BDegenSmall)).
Proof.
  intro H. pose proof (smmi_wf _ _ _ _ H) as [_ S]. pose proof (smmi_cases _ _ _ _ H) as [_ [N C]]. repeat split; auto.
  - rewrite H0 in C. tauto.
  - intro v. rewrite H0 in C. unfold rel_value. destruct C as [-> _]. rewrite N. reflexivity.
  - destruct (nonfail vals fails); [congruence | tauto].
  - destruct (nonfail vals fails) as [|y r] eqn:E; [congruence|]. destruct C as [_ A].
    destruct (list_min_spec y r) as [Imn _]. destruct (list_max_spec y r) as [Imx _].
    pose proof (H0 _ Imn) as E1. pose proof (H0 _ Imx) as E2.
    unfold arm in A. destruct A as [[_ [W _]] | [[B _] | [B _]]]; auto.
    unfold MIN_HALF_WIDTH in W. assert (0 < 1 # 100000000) by reflexivity. lra.
Qed.

(* ------------------------------------------------------------------------------------------ the value stored with a failed
   observation is never read *)
Lemma overwrite_failed_length {A} : forall fails (vals junk : list A), length (overwrite_failed fails vals junk) = length vals.
Proof.
  induction fails as [|f fs IH]; intros vals junk; [reflexivity|].
  destruct vals as [|v vs]; [reflexivity|]. cbn [overwrite_failed length]. f_equal. apply IH.
Qed.

Lemma select_overwrite_failed {A} : forall fails (vals junk : list A),
  select (map negb fails) (overwrite_failed fails vals junk) = select (map negb fails) vals.
Proof.
  induction fails as [|f fs IH]; intros vals junk; [reflexivity|].
  destruct vals as [|v vs]; [reflexivity|]. cbn [overwrite_failed map select]. destruct f; cbn [negb]; rewrite IH; reflexivity.
Qed.

Lemma map_overwrite_failed {A B} (g : A -> B) : forall fails (vals junk : list A),
  map g (overwrite_failed fails vals junk) = overwrite_failed fails (map g vals) (map g junk).
Proof.
  induction fails as [|f fs IH]; intros vals junk; [reflexivity|].
  destruct vals as [|v vs]; [reflexivity|]. cbn [overwrite_failed map]. rewrite IH. f_equal.
  - destruct f; [|reflexivity]. destruct junk; reflexivity.
  - destruct junk; reflexivity.
Qed.

Lemma map2_overwrite_failed {A C} (g : bool -> A -> C) : (forall x y, g true x = g true y) ->
  forall fails (vals junk : list A), map2 g fails (overwrite_failed fails vals junk) = map2 g fails vals.
Proof.
  intros Hg. induction fails as [|f fs IH]; intros vals junk; [reflexivity|].
  destruct vals as [|v vs]; [reflexivity|]. cbn [overwrite_failed map2]. rewrite IH. f_equal.
  destruct f; [apply Hg|reflexivity].
Qed.

(* scale, midpoint, sign, branch, skip flag and the non-failed values: the whole scaling object *)
Theorem smmi_overwrite_failed vals fails junk o : smmi (overwrite_failed fails vals junk) fails o = smmi vals fails o.
Proof. unfold smmi. rewrite select_overwrite_failed. reflexivity. Qed.

Theorem mmi_overwrite_failed m vals fails junk objs :
  mmi m (overwrite_failed fails vals junk) fails objs = mmi m vals fails objs.
Proof.
  unfold mmi. f_equal.
  assert (E : map (fun k => smmi (column k (overwrite_failed fails vals junk)) fails (obj_at objs k)) (seq 0 m) =
              map (fun k => smmi (column k vals) fails (obj_at objs k)) (seq 0 m)).
  { apply map_ext. intros k. unfold column. rewrite map_overwrite_failed. apply smmi_overwrite_failed. }
  rewrite E. reflexivity.
Qed.

(* the view: scaled values (failed rows hold the lie), lies, variances and thresholds *)
Theorem preprocess_overwrite_failed ix vals vars fails objs thr junk :
  preprocess ix (overwrite_failed fails vals junk) vars fails objs thr = preprocess ix vals vars fails objs thr.
Proof.
  unfold preprocess. rewrite map_overwrite_failed. rewrite mmi_overwrite_failed.
  destruct (mmi (length ix) (map (pick 0 ix) vals) fails (Some (pick NoObjective ix objs))) as [infos|]; [|reflexivity].
  destruct (lie_row infos LieMin) as [lie|]; [|reflexivity].
  rewrite map2_overwrite_failed; [reflexivity|]. intros x y. reflexivity.
Qed.
