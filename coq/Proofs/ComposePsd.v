(* C02 x C03 composed: the posterior covariance of the generated GP (Gen.GenGP: GPNoise / GPNugget / GPNoiseZeroMean .cov) is positive
   semi-definite for the SquareExponential kernel, UNCONDITIONALLY apart from the Cholesky contract.

   Three ingredients that existed side by side:
     (A) Proofs/GP.v (MathComp, abstract realFieldType): psd (block_mx K K_eval^T K_eval Kss) -> psd (GPNoise.cov ...)   (Schur complement)
     (B) Proofs/SEPsd.v (Coq's R, nat-indexed, bigsum): psdR N (SquareExponential.kernel_matrix_sym dim X noise ...) for every point set X
     (C) Lib/RStruct.v: Coq's R is a MathComp realFieldType, so (A) can be instantiated at R.
   The bridge built here:
     1. psd_psdR / psdR_psd: for M : nat -> nat -> R, psdR n M <-> psd (\matrix_(i, j) M i j : 'M[R]_n), and psd A <-> psdR n (mxv A);
     2. block_mx_joint: the block matrix of the four restrictions of G : nat -> nat -> R to [0,n) / [n,n+m) is the (n+m) x (n+m) matrix of G;
     3. SE_joint_block: for the SE kernel, with Kker / K_eval / Kss the kernel matrices of the sampled points xs (n of them), of the evaluation
        points xe against xs (m x n: rows = evaluation points) and of xe, the block matrix [[Kker + diag noise, K_eval^T], [K_eval, Kss]] IS the
        generated symmetric kernel matrix (kernel_matrix_sym) of the CONCATENATED point set (xs then xe) with the noise vector padded by zeros.
   Points are nat-indexed functions (what the generated definitions take): point a of the joint set is xs a for a < n and xe (a - n) otherwise. *)
From Coq Require Import Reals Lra Arith Lia.
From Coquelicot Require Import Coquelicot.
From mathcomp Require Import all_ssreflect all_fingroup all_algebra.
From LV Require Import Lib.RBase Lib.MxAux Lib.RStruct Gen.GenGP Gen.GenCovariance Proofs.GP Proofs.Covariance Proofs.Hadamard Proofs.SEPsd
                       Proofs.LogLikFull.
Set Implicit Arguments. Unset Strict Implicit. Unset Printing Implicit Defensive.
Import GRing.Theory.
Local Open Scope ring_scope.

(* ------------------------------------------------------------------ 1. psdR (bigsum, nat-indexed)  <->  psd (MathComp, at R) *)
Section Bridge.
Variable n : nat.

(* the MathComp matrix of a nat-indexed function *)
Definition mxof (M : nat -> nat -> R) : 'M[R]_n := \matrix_(i, j) M i j.

Lemma mxv_in m' n' (A : 'M[R]_(m',n')) (a b : nat) (Ha : (a < m')%N) (Hb : (b < n')%N) : mxv A a b = A (Ordinal Ha) (Ordinal Hb).
Proof. by rewrite /mxv !insubT. Qed.
Lemma mxv_out_row m' n' (A : 'M[R]_(m',n')) (a b : nat) : (m' <= a)%N -> mxv A a b = 0.
Proof. by move=> H; rewrite /mxv insubF // ltnNge H. Qed.
Lemma cvv_out (v : 'cV[R]_n) (a : nat) : (n <= a)%N -> cvv v a = 0.
Proof. exact: mxv_out_row. Qed.
Lemma mxv_mxof M a b : (a < n)%N -> (b < n)%N -> mxv (mxof M) a b = M a b.
Proof. by move=> Ha Hb; rewrite (mxv_in _ Ha Hb) mxE. Qed.
Lemma mxof_mxv (A : 'M[R]_n) : mxof (mxv A) = A.
Proof. by apply/matrixP => i j; rewrite mxE mxvE. Qed.

(* the quadratic form v' A v as the double bigsum of the nat-indexed views *)
Lemma quadform_bigsum (A : 'M[R]_n) (v : 'cV[R]_n) :
  (v^T *m A *m v) 0 0 = bigsum n (fun a => bigsum n (fun b => (cvv v a * mxv A a b * cvv v b)%Re)).
Proof.
  rewrite bigsum_ord. under [RHS]eq_bigr => j _ do rewrite bigsum_ord.
  rewrite [LHS]mxE. under [LHS]eq_bigr => l _ do rewrite mxE big_distrl /=.
  rewrite exchange_big /=. apply: eq_bigr => j _. apply: eq_bigr => l _. by rewrite cvvE mxvE cvvE !mxE.
Qed.

Lemma psd_mxv (A : 'M[R]_n) : psd A <-> psdR n (mxv A).
Proof.
  split.
  - move=> H w. pose v : 'cV[R]_n := \col_i w i. have /RleP := H v. rewrite quadform_bigsum => H0.
    have E c : (c < n)%N -> cvv v c = w c by move=> Hc; rewrite -[c]/(nat_of_ord (Ordinal Hc)) cvvE mxE.
    suff -> : bigsum n (fun a => bigsum n (fun b => (w a * mxv A a b * w b)%Re))
              = bigsum n (fun a => bigsum n (fun b => (cvv v a * mxv A a b * cvv v b)%Re)) by [].
    apply: bigsum_ext2 => a b /ltP Ha /ltP Hb. by rewrite (E a Ha) (E b Hb).
  - move=> H v. apply/RleP. rewrite quadform_bigsum. exact: (H (cvv v)).
Qed.

Lemma psdR_psd (M : nat -> nat -> R) : psdR n M -> psd (mxof M).
Proof.
  move=> H; apply/psd_mxv. apply: (psd_ext n M) H => a b /ltP Ha /ltP Hb. by rewrite mxv_mxof.
Qed.
Lemma psd_psdR (M : nat -> nat -> R) : psd (mxof M) -> psdR n M.
Proof.
  move=> /psd_mxv H. apply: (psd_ext n (mxv (mxof M))) H => a b /ltP Ha /ltP Hb. by rewrite mxv_mxof.
Qed.
Theorem psdR_iff_psd (M : nat -> nat -> R) : psdR n M <-> psd (mxof M).
Proof. split; [exact: psdR_psd | exact: psd_psdR]. Qed.
End Bridge.

(* ------------------------------------------------------------------ 2. block matrices  =  concatenated index ranges *)
Lemma block_mx_joint n m (G : nat -> nat -> R) :
  block_mx (\matrix_(i < n, j < n) G i j) (\matrix_(i < n, j < m) G i (n + j)%N)
           (\matrix_(i < m, j < n) G (n + i)%N j) (\matrix_(i < m, j < m) G (n + i)%N (n + j)%N)
  = (mxof (n + m) G : 'M[R]_(n + m)).
Proof.
  apply/matrixP => a b. rewrite !mxE.
  by case: splitP => i Ha; rewrite !mxE; case: splitP => j Hb; rewrite !mxE Ha Hb.
Qed.

(* concatenation of two nat-indexed point sets: the first n points are xs, the following ones xe *)
Definition joinp (n : nat) (xs xe : nat -> nat -> R) (a : nat) : nat -> R := if (a < n)%N then xs a else xe (a - n)%N.
Lemma joinp_l n xs xe (a : nat) : (a < n)%N -> joinp n xs xe a = xs a.
Proof. by rewrite /joinp => ->. Qed.
Lemma joinp_r n xs xe (i : nat) : joinp n xs xe (n + i)%N = xe i.
Proof. by rewrite /joinp ltnNge leq_addr /= addKn. Qed.

(* ------------------------------------------------------------------ 3. the SquareExponential entry points, row by row *)
Section SERows.
Variables (dim : nat) (ls lsq lcu : nat -> R) (alpha : R).
Local Open Scope R_scope.

(* exp(-1/2 |p/l - q/l|^2) for two points p q (coordinates k < dim) *)
Definition se_pair (p q : nat -> R) : R := exp (- (1 / 2) * bigsum dim (fun k => (p k / ls k - q k / ls k) ^ 2)).
Lemma se_pair_sym p q : se_pair p q = se_pair q p.
Proof. rewrite /se_pair. congr (exp (_ * _)). apply: bigsum_ext => k _. ring. Qed.

Lemma SE_sym_entry xs noise a b :
  SquareExponential.kernel_matrix_sym dim xs noise ls lsq lcu alpha a b
  = alpha * se_pair (xs a) (xs b) + (if Nat.eqb a b then noise a else 0).
Proof. by []. Qed.
(* rows of kernel_matrix_cross are the points of its SECOND point-set argument (points_to_sample), columns those of the first (points_sampled) *)
Lemma SE_cross_entry xs xe i j :
  SquareExponential.kernel_matrix_cross dim xs xe ls lsq lcu alpha i j = alpha * se_pair (xe i) (xs j).
Proof.
  rewrite /SquareExponential.kernel_matrix_cross /se_pair. congr (_ * exp (_ * _)).
  rewrite (expand_square dim (fun k => xe i k / ls k) (fun k => xs j k / ls k)).
  apply: Rmax_right. apply: bigsum_nonneg => k _. exact: pow2_ge_0.
Qed.
End SERows.

Section SEJoint.
Variables (n m dim : nat) (xs xe : nat -> nat -> R) (noise : 'cV[R]_n) (ls lsq lcu : nat -> R) (alpha : R).
Variables (Kker : 'M[R]_n) (K_eval : 'M[R]_(m,n)) (Kss : 'M[R]_m).
Hypothesis HK : forall i j, Kker i j = (alpha * se_pair dim ls (xs i) (xs j))%Re.
Hypothesis HE : forall i j, K_eval i j = (alpha * se_pair dim ls (xe i) (xs j))%Re.
Hypothesis HS : forall i j, Kss i j = (alpha * se_pair dim ls (xe i) (xe j))%Re.

(* [[Kker + diag noise, K_eval'], [K_eval, Kss]] is the generated symmetric kernel matrix of the concatenated point set, noise padded by 0 *)
Lemma SE_joint_block :
  block_mx (GPNoise.kernel_matrix Kker noise) K_eval^T K_eval Kss
  = mxof (n + m) (fun a b => SquareExponential.kernel_matrix_sym dim (joinp n xs xe) (cvv noise) ls lsq lcu alpha a b).
Proof.
  rewrite -block_mx_joint. congr block_mx; apply/matrixP => i j; rewrite !mxE SE_sym_entry.
  - rewrite HK (joinp_l _ _ (ltn_ord i)) (joinp_l _ _ (ltn_ord j)) cvvE. congr (_ + _)%Re.
    have -> : (i == j) = (nat_of_ord i == nat_of_ord j) by [].
    by case: (Nat.eqb_spec i j) => [->|/eqP/negbTE->]; rewrite ?eqxx.
  - rewrite HE (joinp_l _ _ (ltn_ord i)) joinp_r se_pair_sym.
    case: (Nat.eqb_spec i (n + j)) => [E|_]; last by rewrite /GRing.zero /=; ring.
    by have := ltn_ord i; rewrite E ltnNge leq_addr.
  - rewrite HE (joinp_l _ _ (ltn_ord j)) joinp_r.
    case: (Nat.eqb_spec (n + i) j) => [E|_]; last by rewrite /GRing.zero /=; ring.
    by have := ltn_ord j; rewrite -E ltnNge leq_addr.
  - rewrite HS !joinp_r cvv_out ?leq_addr //. case: (Nat.eqb (n + i) (n + j)); rewrite /GRing.zero /=; ring.
Qed.

Hypothesis Halpha : Rle 0 alpha.
Hypothesis Hnoise : forall i, Rle 0 (noise i 0).

Lemma cvv_nonneg a : Rle 0 (cvv noise a).
Proof.
  case: (ltnP a n) => Ha; last by rewrite cvv_out //; exact: Rle_refl.
  by rewrite -[a]/(nat_of_ord (Ordinal Ha)) cvvE.
Qed.

(* the joint Gram matrix (observations + noise, queries) of the SE kernel is PSD *)
Theorem SE_joint_block_psd : psd (block_mx (GPNoise.kernel_matrix Kker noise) K_eval^T K_eval Kss).
Proof. rewrite SE_joint_block. apply: psdR_psd. exact: (SE_sym_gram_psd_any_ls (n + m) dim _ ls lsq lcu alpha _ Halpha cvv_nonneg). Qed.

Variable chol : 'M[R]_n -> 'M[R]_n.
Let K := GPNoise.kernel_matrix Kker noise.
Hypothesis cholK : chol K *m (chol K)^T = K.
Hypothesis cholu : chol K \in unitmx.

Theorem SE_posterior_cov_psd_entries : psd (GPNoise.cov chol Kker noise K_eval Kss).
Proof. exact: (@noise_cov_psd _ _ _ chol _ _ _ _ cholK cholu SE_joint_block_psd). Qed.
End SEJoint.

(* ------------------------------------------------------------------ the theorem with the generated entry points spelled out *)
Section SEPosterior.
Variables (n m dim : nat) (chol : 'M[R]_n -> 'M[R]_n) (xs xe : nat -> nat -> R) (ls lsq lcu : nat -> R) (alpha : R).

(* what gaussian_process.py computes them with:
     Kker   build_kernel_matrix(points_sampled [, noise_variance added by GenGP's kernel_matrix])   -> kernel_matrix_sym, zero noise
     K_eval build_kernel_matrix(points_sampled, points_to_sample=points_to_sample)                  -> kernel_matrix_cross xs xe (m x n)
     Kss    build_kernel_matrix(points_to_sample)                                                    -> kernel_matrix_sym on xe, zero noise *)
Definition SE_Kker : 'M[R]_n := \matrix_(i, j) SquareExponential.kernel_matrix_sym dim xs (fun _ => 0%Re) ls lsq lcu alpha i j.
Definition SE_K_eval : 'M[R]_(m,n) := \matrix_(i, j) SquareExponential.kernel_matrix_cross dim xs xe ls lsq lcu alpha i j.
Definition SE_Kss : 'M[R]_m := \matrix_(i, j) SquareExponential.kernel_matrix_sym dim xe (fun _ => 0%Re) ls lsq lcu alpha i j.
(* the same two square blocks through the other entry point (points_to_sample = the same point set: clamped-expansion path) *)
Definition SE_Kker_cross : 'M[R]_n := \matrix_(i, j) SquareExponential.kernel_matrix_cross dim xs xs ls lsq lcu alpha i j.
Definition SE_Kss_cross : 'M[R]_m := \matrix_(i, j) SquareExponential.kernel_matrix_cross dim xe xe ls lsq lcu alpha i j.

Lemma SE_Kker_entry i j : SE_Kker i j = (alpha * se_pair dim ls (xs i) (xs j))%Re.
Proof. rewrite mxE SE_sym_entry. case: (Nat.eqb i j); ring. Qed.
Lemma SE_Kss_entry i j : SE_Kss i j = (alpha * se_pair dim ls (xe i) (xe j))%Re.
Proof. rewrite mxE SE_sym_entry. case: (Nat.eqb i j); ring. Qed.
Lemma SE_K_eval_entry i j : SE_K_eval i j = (alpha * se_pair dim ls (xe i) (xs j))%Re.
Proof. by rewrite mxE SE_cross_entry. Qed.
Lemma SE_Kker_cross_entry i j : SE_Kker_cross i j = (alpha * se_pair dim ls (xs i) (xs j))%Re.
Proof. by rewrite mxE SE_cross_entry. Qed.
Lemma SE_Kss_cross_entry i j : SE_Kss_cross i j = (alpha * se_pair dim ls (xe i) (xe j))%Re.
Proof. by rewrite mxE SE_cross_entry. Qed.
Lemma SE_Kker_cross_eq : SE_Kker_cross = SE_Kker.
Proof. by apply/matrixP => i j; rewrite SE_Kker_cross_entry SE_Kker_entry. Qed.
Lemma SE_Kss_cross_eq : SE_Kss_cross = SE_Kss.
Proof. by apply/matrixP => i j; rewrite SE_Kss_cross_entry SE_Kss_entry. Qed.

(* GenGP's kernel_matrix (kernel part + diag noise) IS the generated symmetric SE kernel matrix with the noise vector *)
Lemma SE_kernel_matrix_generated (noise : 'cV[R]_n) :
  GPNoise.kernel_matrix SE_Kker noise = \matrix_(i, j) SquareExponential.kernel_matrix_sym dim xs (cvv noise) ls lsq lcu alpha i j.
Proof.
  apply/matrixP => i j. rewrite !mxE !SE_sym_entry cvvE.
  have -> : (i == j) = (nat_of_ord i == nat_of_ord j) by [].
  case: (Nat.eqb_spec i j) => [->|/eqP/negbTE->]; rewrite ?eqxx ?mulr1n ?mulr0n /GRing.add /GRing.zero /=; ring.
Qed.

Variable noise : 'cV[R]_n.
Hypothesis Hls : forall k, Rlt 0 (ls k).
Hypothesis Halpha : Rle 0 alpha.
Hypothesis Hnoise : forall i, Rle 0 (noise i 0).

Theorem SE_posterior_cov_psd :
  let K := GPNoise.kernel_matrix SE_Kker noise in
  chol K *m (chol K)^T = K -> chol K \in unitmx ->
  K = \matrix_(i, j) SquareExponential.kernel_matrix_sym dim xs (cvv noise) ls lsq lcu alpha i j /\
  psd (block_mx K SE_K_eval^T SE_K_eval SE_Kss) /\
  psd (GPNoise.cov chol SE_Kker noise SE_K_eval SE_Kss) /\
  psd (GPNoiseZeroMean.cov chol SE_Kker noise SE_K_eval SE_Kss).
Proof.
  move=> K H1 H2. split; first exact: SE_kernel_matrix_generated.
  have Hb := SE_joint_block_psd lsq lcu SE_Kker_entry SE_K_eval_entry SE_Kss_entry Halpha Hnoise.
  split; first exact: Hb.
  have Hc := SE_posterior_cov_psd_entries lsq lcu SE_Kker_entry SE_K_eval_entry SE_Kss_entry Halpha Hnoise H1 H2.
  by split.
Qed.

(* the square blocks built by the cross entry point on one point set *)
Theorem SE_posterior_cov_psd_cross :
  let K := GPNoise.kernel_matrix SE_Kker_cross noise in
  chol K *m (chol K)^T = K -> chol K \in unitmx ->
  psd (GPNoise.cov chol SE_Kker_cross noise SE_K_eval SE_Kss_cross).
Proof.
  move=> K H1 H2.
  exact: (SE_posterior_cov_psd_entries lsq lcu SE_Kker_cross_entry SE_K_eval_entry SE_Kss_cross_entry Halpha Hnoise H1 H2).
Qed.
End SEPosterior.

(* nugget variant: GPNugget's kernel matrix / covariance are GPNoise's with the constant noise vector tik *)
Section SENugget.
Variables (n m dim : nat) (chol : 'M[R]_n -> 'M[R]_n) (xs xe : nat -> nat -> R) (ls lsq lcu : nat -> R) (alpha tik : R).
Hypothesis Hls : forall k, Rlt 0 (ls k).
Hypothesis Halpha : Rle 0 alpha.
Hypothesis Htik : Rle 0 tik.

Theorem SE_posterior_cov_psd_nugget :
  let Kker := SE_Kker n dim xs ls lsq lcu alpha in
  let K := GPNugget.kernel_matrix Kker tik in
  chol K *m (chol K)^T = K -> chol K \in unitmx ->
  psd (GPNugget.cov chol Kker tik (SE_K_eval n m dim xs xe ls lsq lcu alpha) (SE_Kss m dim xe ls lsq lcu alpha)).
Proof.
  move=> Kker K H1 H2.
  have Hn : forall i : 'I_n, Rle 0 ((const_mx tik : 'cV[R]_n) i 0) by move=> i; rewrite mxE.
  have [_ [_ [Hc _]]] := @SE_posterior_cov_psd n m dim chol xs xe ls lsq lcu alpha (const_mx tik) Halpha Hn H1 H2.
  exact: Hc.
Qed.
End SENugget.

(* ------------------------------------------------------------------ pointwise posterior variance: non-negative before the floor *)
Lemma psd_diag_ge0 k (A : 'M[R]_k) (i : 'I_k) : psd A -> Rle 0 (A i i).
Proof. move=> /psd_mxv H. rewrite -(mxvE A i i). exact: (psd_diag_nonneg k (mxv A) i H (ltP (ltn_ord i))). Qed.

Section SEVariance.
Variables (n m dim : nat) (chol : 'M[R]_n -> 'M[R]_n) (xs xe : nat -> nat -> R) (ls lsq lcu : nat -> R) (alpha : R) (noise : 'cV[R]_n).
Variable min_var : R.
Hypothesis Halpha : Rle 0 alpha.
Hypothesis Hnoise : forall i, Rle 0 (noise i 0).
Let Kker := SE_Kker n dim xs ls lsq lcu alpha.
Let K_eval := SE_K_eval n m dim xs xe ls lsq lcu alpha.
Let Kss := SE_Kss m dim xe ls lsq lcu alpha.
(* K_x_x_array = covariance(points_to_sample, points_to_sample): the pairwise entry point on (xe i, xe i) *)
Definition SE_kxx : 'cV[R]_m := \col_i SquareExponential.covariance dim xe xe ls lsq lcu alpha i.

Lemma SE_kxx_diag i : SE_kxx i 0 = Kss i i.
Proof.
  rewrite mxE SE_Kss_entry /SquareExponential.covariance /se_pair.
  rewrite -/(d2w dim xe xe ls i i) d2w_diag sqrt_0.
  have -> : bigsum dim (fun k => ((xe i k / ls k - xe i k / ls k) ^ 2)%Re) = 0%Re.
    rewrite (bigsum_ext dim _ (fun _ => 0%Re)); first exact: bigsum_zero.
    move=> k _. rewrite /Rminus Rplus_opp_r. ring.
  congr (alpha * exp (_ * _))%Re. ring.
Qed.

Let K := GPNoise.kernel_matrix Kker noise.
Hypothesis cholK : chol K *m (chol K)^T = K.
Hypothesis cholu : chol K \in unitmx.

Theorem SE_posterior_variance :
  let v := SE_kxx - diagcol (K_eval *m invmx K *m K_eval^T) in
  GPNoise.var_tri chol Kker noise K_eval SE_kxx min_var = floor_at min_var v /\
  (forall i, v i 0 = GPNoise.cov chol Kker noise K_eval Kss i i) /\
  (forall i, Rle 0 (v i 0)).
Proof.
  move=> v. split; first exact: (@noise_var_closed_form _ _ _ chol _ _ K_eval SE_kxx min_var cholK cholu).
  have Hd i : v i 0 = GPNoise.cov chol Kker noise K_eval Kss i i.
    rewrite (@noise_cov_closed_form _ _ _ chol _ _ K_eval Kss cholK cholu) /v [LHS]mxE SE_kxx_diag [RHS]mxE.
    congr (_ + _). rewrite [LHS]mxE [RHS]mxE. congr (- _). by rewrite [LHS]mxE.
  split; first exact: Hd. move=> i. rewrite Hd. apply: psd_diag_ge0.
  have [_ [_ [Hc _]]] := @SE_posterior_cov_psd n m dim chol xs xe ls lsq lcu alpha noise Halpha Hnoise cholK cholu.
  exact: Hc.
Qed.
End SEVariance.

(* ------------------------------------------------------------------ the hypotheses are satisfiable: one observation, any number of queries *)
Section Instance.
Definition chol11 (A : 'M[R]_1) : 'M[R]_1 := (sqrt (A 0 0))%:M.
Lemma chol11_ok (A : 'M[R]_1) : Rlt 0 (A 0 0) -> chol11 A *m (chol11 A)^T = A /\ chol11 A \in unitmx.
Proof.
  move=> H; split.
  - rewrite /chol11 tr_scalar_mx -scalar_mxM.
    have -> : sqrt (A 0 0) * sqrt (A 0 0) = A 0 0 by apply: sqrt_sqrt; apply: Rlt_le.
    by rewrite -mx11_scalar.
  - rewrite unitmxE det_scalar1 unitfE. apply/eqP => E. have := sqrt_lt_R0 _ H. rewrite E. exact: Rlt_irrefl.
Qed.

Variables (m dim : nat) (xs xe : nat -> nat -> R) (ls lsq lcu : nat -> R) (alpha : R) (noise : 'cV[R]_1).
Hypothesis Halpha : Rlt 0 alpha.
Hypothesis Hnoise : forall i, Rle 0 (noise i 0).

Lemma SE_K11_pos : Rlt 0 (GPNoise.kernel_matrix (SE_Kker 1 dim xs ls lsq lcu alpha) noise 0 0).
Proof.
  rewrite /GPNoise.kernel_matrix mxE SE_Kker_entry !mxE eqxx mulr1n /GRing.add /=.
  apply: Rplus_lt_le_0_compat; last exact: Hnoise. apply: Rmult_lt_0_compat => //. exact: exp_pos.
Qed.

Theorem SE_posterior_cov_psd_instance :
  let Kker := SE_Kker 1 dim xs ls lsq lcu alpha in
  let K := GPNoise.kernel_matrix Kker noise in
  (chol11 K *m (chol11 K)^T = K /\ chol11 K \in unitmx) /\
  psd (GPNoise.cov chol11 Kker noise (SE_K_eval 1 m dim xs xe ls lsq lcu alpha) (SE_Kss m dim xe ls lsq lcu alpha)).
Proof.
  move=> Kker K. have [H1 H2] := chol11_ok SE_K11_pos. split; first by [].
  have [_ [_ [Hc _]]] := @SE_posterior_cov_psd 1 m dim chol11 xs xe ls lsq lcu alpha noise (Rlt_le _ _ Halpha) Hnoise H1 H2.
  exact: Hc.
Qed.
End Instance.
