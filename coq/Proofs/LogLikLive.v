(* The live likelihood object (Model.LogLikLive): a set that returns normally has fitted the vector it was given on every observation the
   container holds at that moment - whatever happened to the object before. *)
From Coq Require Import List QArith Bool Arith Lia.
From LV Require Import Model.LogLikLive.
Import ListNotations.
Open Scope Q_scope.

(* a normal return: the GP the value is read from was built from THIS vector (kernel part, nugget slot) on ALL observations held now *)
Theorem set_normal_fits o hp ok o' : l_set o hp ok = (o', RNormal) ->
  ok = true /\ length hp = problem_size o /\
  l_cov o' = firstn (S (l_dim o)) hp /\
  l_gp o' = mksnap (firstn (S (l_dim o)) hp) (if l_auto o then Some (last hp 0) else None) (l_n o) /\
  l_n o' = l_n o /\ l_dim o' = l_dim o /\ l_auto o' = l_auto o /\ fitted o'.
Proof.
  unfold l_set. destruct (length hp =? problem_size o)%nat eqn:El; cbn [negb]; [|intros H; inversion H].
  destruct (forallb lpos_b (firstn (S (l_dim o)) hp)); cbn [negb]; [|intros H; inversion H].
  destruct ok; intros H; inversion H; subst. apply Nat.eqb_eq in El. cbn. unfold fitted. cbn. repeat split; auto.
Qed.

(* a vector whose kernel matrix cannot be factored is NEVER accepted, whatever the state of the object and however often it is sent *)
Theorem set_unfactorable_never_normal o hp : snd (l_set o hp false) <> RNormal.
Proof.
  unfold l_set. destruct (negb (length hp =? problem_size o)%nat); [cbn; discriminate|].
  destruct (negb (forallb lpos_b (firstn (S (l_dim o)) hp))); cbn; discriminate.
Qed.

(* the outcome of a set does not depend on the kernel hyperparameters, the fit or the number of fitted observations the object had
   before - in particular sending the vector the object already reports is not a no-op *)
Theorem set_outcome_history_free o1 o2 hp ok : l_dim o1 = l_dim o2 -> l_auto o1 = l_auto o2 -> l_n o1 = l_n o2 ->
  snd (l_set o1 hp ok) = snd (l_set o2 hp ok) /\
  (snd (l_set o1 hp ok) = RNormal -> fst (l_set o1 hp ok) = fst (l_set o2 hp ok)).
Proof.
  intros Hd Ha Hn. unfold l_set, problem_size. rewrite Hd, Ha, Hn.
  destruct (negb (length hp =? S (l_dim o2) + (if l_auto o2 then 1 else 0))%nat); [cbn; split; [reflexivity|discriminate]|].
  destruct (negb (forallb lpos_b (firstn (S (l_dim o2)) hp))); [cbn; split; [reflexivity|discriminate]|].
  destruct ok; cbn; split; try reflexivity; discriminate.
Qed.

Lemma l_run_cons o op r : l_run o (op :: r) = (fst (l_run (fst (l_step o op)) r), snd (l_step o op) :: snd (l_run (fst (l_step o op)) r)).
Proof. cbn. destruct (l_step o op) as [o1 out]. cbn. destruct (l_run o1 r). reflexivity. Qed.

Lemma l_run_app ops1 : forall o ops2,
  l_run o (ops1 ++ ops2) = (fst (l_run (fst (l_run o ops1)) ops2), snd (l_run o ops1) ++ snd (l_run (fst (l_run o ops1)) ops2)).
Proof.
  induction ops1 as [|op r IH]; intros o ops2; [cbn; destruct (l_run o ops2); reflexivity|].
  change ((op :: r) ++ ops2) with (op :: (r ++ ops2)). rewrite !l_run_cons, IH. reflexivity.
Qed.

Lemma l_run_length ops : forall o, length (snd (l_run o ops)) = length ops.
Proof. induction ops as [|op r IH]; intros o; [reflexivity|]. rewrite l_run_cons. cbn. rewrite IH. reflexivity. Qed.

(* dimension, nugget mode never change; the number of observations held is the initial one plus everything appended *)
Fixpoint appended (ops : list lop) : nat := match ops with [] => O | LAppend k :: r => (k + appended r)%nat | _ :: r => appended r end.
Lemma l_step_static o op : l_dim (fst (l_step o op)) = l_dim o /\ l_auto (fst (l_step o op)) = l_auto o /\
  l_n (fst (l_step o op)) = (l_n o + match op with LAppend k => k | _ => O end)%nat.
Proof.
  destruct op as [hp ok|k| |]; cbn; try (repeat split; lia).
  unfold l_set. destruct (negb (length hp =? problem_size o)%nat); [cbn; repeat split; lia|].
  destruct (negb (forallb lpos_b (firstn (S (l_dim o)) hp))); [cbn; repeat split; lia|]. destruct ok; cbn; repeat split; lia.
Qed.
Lemma l_run_static ops : forall o, l_dim (fst (l_run o ops)) = l_dim o /\ l_auto (fst (l_run o ops)) = l_auto o /\
  l_n (fst (l_run o ops)) = (l_n o + appended ops)%nat.
Proof.
  induction ops as [|op r IH]; intros o; [cbn; repeat split; lia|]. rewrite l_run_cons. cbn [fst].
  destruct (IH (fst (l_step o op))) as (A & B & C'). destruct (l_step_static o op) as (A' & B' & C''). rewrite A, B, C', A', B', C''.
  repeat split; try reflexivity. destruct op; cbn [appended]; lia.
Qed.

(* IN ANY HISTORY: when a set returns normally, the value read right after it is the value of the GP built from the vector just sent, on
   the n0 + (everything appended so far) observations the container holds - not of any earlier fit *)
Theorem history_value_after_normal_set o ops1 hp ok ops2 :
  nth (length ops1) (snd (l_run o (ops1 ++ LSet hp ok :: LValue :: ops2))) (MSet RLen) = MSet RNormal ->
  nth (S (length ops1)) (snd (l_run o (ops1 ++ LSet hp ok :: LValue :: ops2))) (MSet RLen)
  = MValue (mksnap (firstn (S (l_dim o)) hp) (if l_auto o then Some (last hp 0) else None) (l_n o + appended ops1)).
Proof.
  rewrite l_run_app. cbn [snd]. rewrite !app_nth2; rewrite l_run_length; [|lia|lia].
  replace (S (length ops1) - length ops1)%nat with 1%nat by lia. rewrite Nat.sub_diag.
  set (o1 := fst (l_run o ops1)). destruct (l_run_static ops1 o) as (Hd & Ha & Hn). fold o1 in Hd, Ha, Hn.
  rewrite l_run_cons. cbn [snd nth]. cbn [l_step]. destruct (l_set o1 hp ok) as [o2 r] eqn:E. cbn [fst snd]. intros Hr. injection Hr as ->.
  rewrite l_run_cons. cbn [snd nth l_step]. destruct (set_normal_fits _ _ _ _ E) as (_ & _ & _ & Hg & _). rewrite Hg, Hd, Ha, Hn. reflexivity.
Qed.
