(* Proofs for C07 about Model.Optim: monitoring invariant, differential evolution, Adam bookkeeping and formulas,
   box / fixed-index restriction. *)
From Coq Require Import List QArith Bool Arith Lia Lra Psatz Qabs.
From LV Require Import Model.Optim.
Import ListNotations.
Open Scope Q_scope.

Lemma Qltb_true x y : Qltb x y = true <-> x < y.
Proof.
  unfold Qltb. rewrite negb_true_iff. split; intro H.
  - apply Qnot_le_lt. intro L. apply Qle_bool_iff in L. congruence.
  - destruct (Qle_bool y x) eqn:E; auto. apply Qle_bool_iff in E. exfalso. apply (Qlt_not_le _ _ H E).
Qed.
Lemma Qltb_false x y : Qltb x y = false <-> y <= x.
Proof.
  unfold Qltb. rewrite negb_false_iff. apply Qle_bool_iff.
Qed.

Lemma Forall2_imp {A B} (P Q : A -> B -> Prop) l l' :
  (forall a b, P a b -> Q a b) -> Forall2 P l l' -> Forall2 Q l l'.
Proof. intros H F. induction F; constructor; auto. Qed.

Lemma bind_ok {A B} (r : result A) (f : A -> result B) b :
  bind r f = Ok b -> exists a, r = Ok a /\ f a = Ok b.
Proof. destruct r; simpl; intro H; [eauto | discriminate]. Qed.

Section OptProofs.
  Variable af : point -> option Q.
  Variable restrict : nat -> batch -> batch.
  Variable gen : nat -> batch.
  Variable dom : point -> Prop.
  Hypothesis restrict_dom : forall k b, Forall dom (restrict k b).
  Hypothesis restrict_len : forall k b, length (restrict k b) = length b.

  (* p is the first element of flat whose value is defined and maximal among the defined values: its value is v, every
     defined value before it is smaller, every defined value after it is not larger (None = NaN takes no part) *)
  Definition first_max (flat : batch) (p : point) (v : Q) : Prop :=
    af p = Some v /\ exists l1 l2, flat = l1 ++ p :: l2 /\
      (forall q w, In q l1 -> af q = Some w -> w < v) /\ (forall q w, In q l2 -> af q = Some w -> w <= v).
  Definition best_spec (flat : batch) (b : option (point * Q)) : Prop :=
    match b with None => flat = [] | Some (p, v) => first_max flat p v end.
  (* what a nanargmax scan holds after having seen flat *)
  Definition scan_spec (flat : batch) (c : option (point * Q)) : Prop :=
    match c with None => forall q, In q flat -> af q = None | Some (p, v) => first_max flat p v end.

  Lemma first_max_all_le flat p v : first_max flat p v -> forall q w, In q flat -> af q = Some w -> w <= v.
  Proof.
    intros [Hv (l1 & l2 & E & H1 & H2)] q w Hq Hw. subst flat.
    apply in_app_or in Hq. destruct Hq as [Hq | [Hq | Hq]].
    - apply Qlt_le_weak. eauto.
    - subst q. rewrite Hv in Hw. injection Hw as <-. apply Qle_refl.
    - eauto.
  Qed.
  Lemma first_max_in flat p v : first_max flat p v -> In p flat.
  Proof. intros [_ (l1 & l2 & E & _)]. subst. apply in_or_app. right. left. reflexivity. Qed.
  Lemma first_max_defined flat p v : first_max flat p v -> af p = Some v.
  Proof. intros [H _]. exact H. Qed.

  Lemma first_max_app_old flat pts p v :
    first_max flat p v -> (forall q w, In q pts -> af q = Some w -> w <= v) -> first_max (flat ++ pts) p v.
  Proof.
    intros [Hv (l1 & l2 & E & H1 & H2)] Hp. split; [exact Hv|].
    exists l1, (l2 ++ pts). split; [subst flat; rewrite <- app_assoc; reflexivity|]. split; [exact H1|].
    intros q w Hq. apply in_app_or in Hq. destruct Hq; eauto.
  Qed.
  Lemma first_max_app_new flat pts p v :
    (forall q w, In q flat -> af q = Some w -> w < v) -> first_max pts p v -> first_max (flat ++ pts) p v.
  Proof.
    intros Hf [Hv (l1 & l2 & E & H1 & H2)]. split; [exact Hv|].
    exists (flat ++ l1), l2. split; [subst pts; rewrite <- app_assoc; reflexivity|]. split; [|exact H2].
    intros q w Hq. apply in_app_or in Hq. destruct Hq; eauto.
  Qed.
  Lemma first_max_single x v : af x = Some v -> first_max [x] x v.
  Proof. intro H. split; [exact H|]. exists [], []. repeat split; intros q w []. Qed.

  Lemma scan_step pre x c :
    scan_spec pre c ->
    scan_spec (pre ++ [x])
      match af x with
      | None => c
      | Some v => match c with
                  | None => Some (x, v)
                  | Some (_, bv) => if Qltb bv v then Some (x, v) else c
                  end
      end.
  Proof.
    intro Hc. destruct (af x) as [v|] eqn:Ex.
    - destruct c as [[bp bv]|]; simpl in Hc.
      + destruct (Qltb bv v) eqn:E.
        * apply Qltb_true in E. simpl. apply first_max_app_new; [|apply first_max_single; exact Ex].
          intros q w Hq Hw. pose proof (first_max_all_le _ _ _ Hc q w Hq Hw). lra.
        * apply Qltb_false in E. simpl. apply first_max_app_old; [exact Hc|].
          intros q w [Hq | []] Hw. subst q. rewrite Ex in Hw. injection Hw as <-. exact E.
      + simpl. apply first_max_app_new; [|apply first_max_single; exact Ex].
        intros q w Hq Hw. rewrite (Hc q Hq) in Hw. discriminate.
    - destruct c as [[bp bv]|]; simpl in *.
      + apply first_max_app_old; [exact Hc|]. intros q w [Hq | []] Hw. subst q. congruence.
      + intros q Hq. apply in_app_or in Hq. destruct Hq as [Hq | [Hq | []]]; [auto | subst q; exact Ex].
  Qed.

  Lemma nanargmax_from_spec l : forall pre c,
    scan_spec pre c -> scan_spec (pre ++ l) (nanargmax_from af c l).
  Proof.
    induction l as [|x l IH]; intros pre c Hc; simpl.
    - rewrite app_nil_r. exact Hc.
    - replace (pre ++ x :: l) with ((pre ++ [x]) ++ l) by (rewrite <- app_assoc; reflexivity).
      pose proof (scan_step pre x c Hc) as Hs.
      destruct (af x) as [v|]; [|apply IH; exact Hs].
      destruct c as [[bp bv]|]; [|apply IH; exact Hs].
      destruct (Qltb bv v); apply IH; exact Hs.
  Qed.

  Lemma nanargmax_spec pts : scan_spec pts (nanargmax_from af None pts).
  Proof. apply (nanargmax_from_spec pts [] None). intros q []. Qed.

  Lemma concat_snoc (l : list batch) (b : batch) : concat (l ++ [b]) = concat l ++ b.
  Proof. rewrite concat_app. simpl. rewrite app_nil_r. reflexivity. Qed.

  Lemma monitor_spec s pts s' :
    best_spec (concat (evals s)) (best s) -> monitor af s pts = Ok s' ->
    best_spec (concat (evals s')) (best s') /\ evals s' = evals s ++ [pts] /\ rins s' = rins s /\
    (exists p v, best s' = Some (p, v)) /\
    (forall p v, best s = Some (p, v) -> exists p' v', best s' = Some (p', v') /\ v <= v').
  Proof.
    intros Hs Hm. unfold monitor in Hm. destruct pts as [|x r]; [discriminate|].
    pose proof (nanargmax_spec (x :: r)) as Hnow.
    destruct (nanargmax_from af None (x :: r)) as [now|]; [|discriminate].
    injection Hm as Hm. subst s'. cbn [best evals rins].
    split; [|split; [reflexivity|split; [reflexivity|]]].
    - rewrite concat_snoc. destruct (best s) as [[bp bv]|] eqn:Eb; simpl in Hs.
      + destruct (Qltb bv (snd now)) eqn:E.
        * apply Qltb_true in E. destruct now as [p v]. simpl in *. apply first_max_app_new; [|exact Hnow].
          intros q w Hq Hw. pose proof (first_max_all_le _ _ _ Hs q w Hq Hw). lra.
        * apply Qltb_false in E. simpl. apply first_max_app_old; [exact Hs|].
          destruct now as [p v]. simpl in *.
          intros q w Hq Hw. pose proof (first_max_all_le _ _ _ Hnow q w Hq Hw). lra.
      + rewrite Hs. simpl. destruct now as [p v]. exact Hnow.
    - split.
      + destruct (best s) as [[bp bv]|]; [destruct (Qltb bv (snd now))|]; try destruct now; eauto.
      + intros p v Ep. rewrite Ep. destruct (Qltb v (snd now)) eqn:E.
        * apply Qltb_true in E. destruct now as [p' v']. exists p', v'. split; [reflexivity|]. simpl in E. lra.
        * exists p, v. split; [reflexivity | apply Qle_refl].
  Qed.

  (* evaluate_and_monitor fails exactly on an empty batch and on a batch whose values are all NaN *)
  Lemma monitor_err s pts e :
    monitor af s pts = Err e -> e = ValueError /\ forall q, In q pts -> af q = None.
  Proof.
    unfold monitor. destruct pts as [|x r]; [intro H; injection H as <-; split; [reflexivity | intros q []]|].
    pose proof (nanargmax_spec (x :: r)) as Hnow.
    destruct (nanargmax_from af None (x :: r)) as [now|]; [discriminate|].
    intro H. injection H as <-. split; [reflexivity | exact Hnow].
  Qed.
  Lemma monitor_defined s pts q w :
    pts <> [] -> In q pts -> af q = Some w -> exists s', monitor af s pts = Ok s'.
  Proof.
    intros Hne Hq Hw. destruct (monitor af s pts) as [s'|e] eqn:E; [eauto|].
    destruct (monitor_err _ _ _ E) as [_ Hall]. rewrite (Hall q Hq) in Hw. discriminate.
  Qed.

  (* ---------------------------------------------------------------- invariants *)
  Definition InvA (s : state) (pts : batch) : Prop :=
    best_spec (concat (evals s)) (best s) /\ Forall (Forall dom) (evals s) /\ Forall dom pts.
  Definition Inv (s : state) (pop : batch) : Prop :=
    InvA s pop /\ incl pop (concat (evals s)).

  Lemma init_spec : best_spec (concat (evals init)) (best init).
  Proof. reflexivity. Qed.

  Lemma monitor_InvA s pts s' : InvA s pts -> monitor af s pts = Ok s' -> Inv s' pts.
  Proof.
    intros (Hb & He & Hp) Hm. destruct (monitor_spec _ _ _ Hb Hm) as (Hb' & Ee & _).
    split; [split; [exact Hb'|split; [|exact Hp]]|].
    - rewrite Ee. apply Forall_app. split; [exact He|]. constructor; [exact Hp|constructor].
    - rewrite Ee, concat_snoc. intros q Hq. apply in_or_app. right. exact Hq.
  Qed.

  Lemma replace_in bv : forall pop r q, In q (replace af bv pop r) -> In q pop \/ In q r.
  Proof.
    induction pop as [|p pop IH]; intros [|t r] q Hq; simpl in Hq; try contradiction.
    destruct Hq as [Hq | Hq].
    - destruct (af t) as [w|]; [destruct (Qle_bool bv w)|]; subst q; [right|left|left]; left; reflexivity.
    - destruct (IH _ _ Hq); [left|right]; right; assumption.
  Qed.
  Lemma replace_spec bv : forall pop r, length r = length pop ->
    Forall2 (fun old new => new = old \/ (In new r /\ exists w, af new = Some w /\ bv <= w)) pop (replace af bv pop r).
  Proof.
    induction pop as [|p pop IH]; intros [|t r] Hl; simpl in *; try discriminate; [constructor|].
    constructor.
    - destruct (af t) as [w|] eqn:Et; [|left; reflexivity].
      destruct (Qle_bool bv w) eqn:E; [right|left; reflexivity].
      apply Qle_bool_iff in E. split; [left; reflexivity | exists w; split; [exact Et | exact E]].
    - injection Hl as Hl. specialize (IH r Hl).
      eapply Forall2_imp; [|exact IH]. intros a b [H | [H1 H2]]; [left; exact H | right; split; [right; exact H1 | exact H2]].
  Qed.

  Lemma map3_length {A B C D} (f : A -> B -> C -> D) : forall a b c n,
    length a = n -> length b = n -> length c = n -> length (map3 f a b c) = n.
  Proof.
    induction a as [|x a IH]; intros [|y b] [|z c] n Ha Hb Hc; simpl in *; try congruence.
    destruct n; [discriminate|]. f_equal. apply IH; congruence.
  Qed.
  Lemma mapi_from_length {A B} (f : nat -> A -> B) : forall l i, length (mapi_from f i l) = length l.
  Proof. induction l; intros; simpl; [reflexivity | f_equal; auto]. Qed.

  (* one DE generation: the invariant is kept, and a member is replaced only by its restricted trial, whose value
     is the (new) best value, hence at least the old member's value *)
  Lemma de_step_spec P s pop d s' pop' :
    Inv s pop -> de_step af restrict P (s, pop) d = Ok (s', pop') ->
    Inv s' pop' /\
    (exists r, evals s' = evals s ++ [r] /\ Forall dom r /\ length r = length pop /\ length pop = de_n P) /\
    exists bp bv, best s' = Some (bp, bv) /\
      Forall2 (fun old new => new = old \/
                 exists w, af new = Some w /\ w == bv /\ forall u, af old = Some u -> u <= w) pop pop'.
  Proof.
    intros [(Hb & He & Hp) Hi] Hstep. unfold de_step in Hstep. destruct d as [sel us].
    destruct (de_n P <? 2)%nat; [discriminate|].
    destruct (sel_ok P sel) eqn:Esel; [|discriminate]. destruct (us_ok P us) eqn:Eus; [|discriminate].
    destruct (Nat.eqb (length pop) (de_n P)) eqn:Elen; [|discriminate]. simpl in Hstep.
    destruct (best s) as [[bl bv0]|] eqn:Ebest; [|discriminate].
    unfold do_restrict in Hstep.
    set (trials := map3 (cross (de_CR P)) us (mapi_from (mutant P bl pop) 0 sel) pop) in *.
    set (r := restrict (length (rins s)) trials) in *.
    set (s1 := mkst (Some (bl, bv0)) (evals s) (rins s ++ [trials])) in *.
    apply bind_ok in Hstep. destruct Hstep as (s2 & Hm & Hrest).
    assert (Hb1 : best_spec (concat (evals s1)) (best s1)) by exact Hb.
    destruct (monitor_spec _ _ _ Hb1 Hm) as (Hb2 & Ee & _ & _ & Hmono).
    destruct (best s2) as [[bp bv]|] eqn:Eb2; [|discriminate]. injection Hrest as Hs' Hpop'. subst s' pop'.
    apply Nat.eqb_eq in Elen. unfold sel_ok in Esel. apply andb_true_iff in Esel. destruct Esel as [Esel _].
    apply Nat.eqb_eq in Esel. unfold us_ok in Eus. apply andb_true_iff in Eus. destruct Eus as [Eus _]. apply Nat.eqb_eq in Eus.
    assert (Hrl : length r = length pop).
    { unfold r. rewrite restrict_len. unfold trials. rewrite Elen.
      apply map3_length; [exact Eus | rewrite mapi_from_length; exact Esel | exact Elen]. }
    assert (Hrd : Forall dom r) by apply restrict_dom.
    cbn [evals s1] in Ee.
    assert (Hincl : forall q, In q r -> In q (concat (evals s2))).
    { intros q Hq. rewrite Ee, concat_snoc. apply in_or_app. right. exact Hq. }
    split; [|split].
    - split; [split; [rewrite Eb2; exact Hb2|split]|].
      + rewrite Ee. apply Forall_app. split; [exact He | constructor; [exact Hrd | constructor]].
      + apply Forall_forall. intros q Hq. apply replace_in in Hq. rewrite Forall_forall in Hp, Hrd. destruct Hq; auto.
      + intros q Hq. apply replace_in in Hq. destruct Hq as [Hq | Hq]; [|auto].
        rewrite Ee, concat_snoc. apply in_or_app. left. apply Hi. exact Hq.
    - exists r. repeat split; assumption.
    - exists bp, bv. split; [exact Eb2|].
      simpl in Hb2.
      pose proof (replace_spec bv pop r Hrl) as HF.
      assert (Hold : forall q u, In q pop -> af q = Some u -> u <= bv).
      { intros q u Hq. apply (first_max_all_le _ _ _ Hb2). rewrite Ee, concat_snoc. apply in_or_app. left. apply Hi. exact Hq. }
      assert (Hr' : forall q u, In q r -> af q = Some u -> u <= bv).
      { intros q u Hq. apply (first_max_all_le _ _ _ Hb2). apply Hincl. exact Hq. }
      clearbody r. clear - HF Hold Hr'.
      induction HF as [|old new l l' H HF IH]; constructor.
      + destruct H as [H | [H1 (w & Hw & H2)]]; [left; exact H | right].
        pose proof (Hr' new w H1 Hw) as Hle.
        exists w. split; [exact Hw|]. split; [lra|].
        intros u Hu. pose proof (Hold old u (or_introl eq_refl) Hu). lra.
      + apply IH. intros q u Hq. apply Hold. right. exact Hq.
  Qed.

  Lemma de_loop_spec P : forall ds s pop s' pop',
    Inv s pop -> de_loop af restrict P ds (s, pop) = Ok (s', pop') ->
    Inv s' pop' /\ exists ext, evals s' = evals s ++ ext.
  Proof.
    induction ds as [|d ds IH]; intros s pop s' pop' HI Hl; simpl in Hl.
    - injection Hl as -> ->. split; [exact HI | exists []; rewrite app_nil_r; reflexivity].
    - apply bind_ok in Hl. destruct Hl as ([s1 pop1] & Hstep & Hl).
      destruct (de_step_spec _ _ _ _ _ _ HI Hstep) as (HI1 & (r & Ee & _) & _).
      destruct (IH _ _ _ _ HI1 Hl) as (HI' & ext & Eext).
      split; [exact HI'|]. exists (r :: ext). rewrite Eext, Ee, <- app_assoc. reflexivity.
  Qed.

  (* the full statement about one run of DEOptimizer.optimize / AdamOptimizer.optimize *)
  Definition run_ok (starting : batch) (o : output) : Prop :=
    let s := o_state o in
    (* every batch handed to the acquisition function lies in the domain *)
    Forall (Forall dom) (evals s) /\
    (* the returned point is the first evaluated point of maximal value, and its reported value is reproducible *)
    (exists p v, best s = Some (p, v) /\ first_max (concat (evals s)) p v /\
       (* never lower than the value at any domain-restricted starting point *)
       (forall q w, In q (restrict 0 starting) -> af q = Some w -> w <= v)) /\
    (* OptimizationResults *)
    o_start o = starting /\ o_vals o = map af (o_end o) /\ Forall dom (o_end o) /\
    exists pre, evals s = pre ++ [o_end o].

  Theorem de_optimize_ok P maxiter selected ds o :
    de_optimize af restrict gen P maxiter selected ds = Ok o ->
    run_ok (starting_points gen (de_n P) selected) o.
  Proof.
    unfold de_optimize. set (starting := starting_points gen (de_n P) selected).
    unfold do_restrict. cbn [rins init length].
    set (pop0 := restrict 0 starting). set (s0 := mkst (best init) (evals init) ([] ++ [starting])).
    destruct (length ds <? maxiter)%nat; [discriminate|]. intro H.
    apply bind_ok in H. destruct H as (s1 & Hm1 & H).
    apply bind_ok in H. destruct H as ([s2 pop] & Hloop & H).
    apply bind_ok in H. destruct H as (s3 & Hm3 & H). injection H as <-. cbn [fst snd] in *.
    assert (HA0 : InvA s0 pop0) by (split; [reflexivity | split; [constructor | apply restrict_dom]]).
    pose proof (monitor_InvA _ _ _ HA0 Hm1) as HI1.
    destruct (monitor_spec _ _ _ (proj1 HA0) Hm1) as (_ & Ee1 & _).
    destruct (de_loop_spec _ _ _ _ _ _ HI1 Hloop) as (HI2 & ext & Eext).
    destruct HI2 as [HA2 _].
    pose proof (monitor_InvA _ _ _ HA2 Hm3) as [(Hb3 & He3 & Hp3) _].
    destruct (monitor_spec _ _ _ (proj1 HA2) Hm3) as (_ & Ee3 & _ & (p & v & Eb) & _).
    unfold run_ok. cbn [o_state o_start o_end o_vals].
    split; [exact He3|]. split; [|repeat split; eauto].
    exists p, v. split; [exact Eb|]. rewrite Eb in Hb3. simpl in Hb3. split; [exact Hb3|].
    intros q w Hq. apply (first_max_all_le _ _ _ Hb3).
    rewrite Ee3, concat_snoc, Eext, concat_app, Ee1, concat_snoc.
    apply in_or_app. left. apply in_or_app. left. apply in_or_app. right. exact Hq.
  Qed.

  (* the replacement rule, along any run: after any number of generations, the next one replaces a member only by
     a trial at least as good (indeed of the best value seen), and the population stays in the domain *)
  Theorem de_no_worse_replacement P selected ds1 d s1 s pop s' pop' :
    monitor af (fst (do_restrict restrict init (starting_points gen (de_n P) selected)))
               (snd (do_restrict restrict init (starting_points gen (de_n P) selected))) = Ok s1 ->
    de_loop af restrict P ds1 (s1, snd (do_restrict restrict init (starting_points gen (de_n P) selected))) = Ok (s, pop) ->
    de_step af restrict P (s, pop) d = Ok (s', pop') ->
    Forall dom pop /\ Forall dom pop' /\ length pop = de_n P /\
    exists bv, option_map snd (best s') = Some bv /\
      Forall2 (fun old new => new = old \/
                 exists w, af new = Some w /\ w == bv /\ forall u, af old = Some u -> u <= w) pop pop'.
  Proof.
    intros Hm1 Hloop Hstep.
    assert (HA0 : InvA (fst (do_restrict restrict init (starting_points gen (de_n P) selected)))
                       (snd (do_restrict restrict init (starting_points gen (de_n P) selected)))).
    { split; [reflexivity | split; [constructor | apply restrict_dom]]. }
    pose proof (monitor_InvA _ _ _ HA0 Hm1) as HI1.
    destruct (de_loop_spec _ _ _ _ _ _ HI1 Hloop) as (HI & _).
    destruct (de_step_spec _ _ _ _ _ _ HI Hstep) as (HI' & (r & _ & _ & _ & Hn) & bp & bv & Eb & HF).
    split; [apply HI|]. split; [apply HI'|]. split; [exact Hn|].
    exists bv. rewrite Eb. split; [reflexivity | exact HF].
  Qed.

  (* ---------------------------------------------------------------- Adam bookkeeping *)
  Lemma adam_loop_spec : forall ups s pts s' pts',
    InvA s pts -> adam_loop af restrict ups (s, pts) = Ok (s', pts') ->
    InvA s' pts' /\ exists ext, evals s' ++ [pts'] = evals s ++ [pts] ++ ext.
  Proof.
    induction ups as [|u ups IH]; intros s pts s' pts' HA Hl; simpl in Hl.
    - injection Hl as -> ->. split; [exact HA | exists []; rewrite app_nil_r; reflexivity].
    - apply bind_ok in Hl. destruct Hl as (s1 & Hm & Hl).
      destruct (same_shape pts u); [|discriminate]. simpl in Hl.
      destruct (monitor_InvA _ _ _ HA Hm) as [(Hb1 & He1 & _) _].
      destruct (monitor_spec _ _ _ (proj1 HA) Hm) as (_ & Ee1 & _).
      unfold do_restrict in Hl.
      set (s2 := mkst (best s1) (evals s1) (rins s1 ++ [map2 vadd pts u])) in *.
      set (pts2 := restrict (length (rins s1)) (map2 vadd pts u)) in *.
      assert (HA2 : InvA s2 pts2) by (split; [exact Hb1 | split; [exact He1 | apply restrict_dom]]).
      destruct (IH _ _ _ _ HA2 Hl) as (HA' & ext & Eext).
      split; [exact HA'|]. exists ([pts2] ++ ext). rewrite Eext. cbn [evals s2]. rewrite Ee1, <- !app_assoc. reflexivity.
  Qed.

  Theorem adam_optimize_ok n maxiter selected ups o :
    adam_optimize af restrict gen n maxiter selected ups = Ok o ->
    run_ok (starting_points gen n selected) o.
  Proof.
    unfold adam_optimize. set (starting := starting_points gen n selected).
    unfold do_restrict. cbn [rins init length].
    set (p0 := restrict 0 starting). set (s0 := mkst (best init) (evals init) ([] ++ [starting])).
    destruct (length ups <? maxiter - 1)%nat; [discriminate|]. intro H.
    apply bind_ok in H. destruct H as ([s1 p] & Hloop & H).
    apply bind_ok in H. destruct H as (s2 & Hm & H). injection H as <-. cbn [fst snd] in *.
    assert (HA0 : InvA s0 p0) by (split; [reflexivity | split; [constructor | apply restrict_dom]]).
    destruct (adam_loop_spec _ _ _ _ _ HA0 Hloop) as (HA1 & ext & Eext).
    pose proof (monitor_InvA _ _ _ HA1 Hm) as [(Hb2 & He2 & Hp2) _].
    destruct (monitor_spec _ _ _ (proj1 HA1) Hm) as (_ & Ee2 & _ & (q & v & Eb) & _).
    unfold run_ok. cbn [o_state o_start o_end o_vals].
    split; [exact He2|]. split; [|repeat split; eauto].
    exists q, v. split; [exact Eb|]. rewrite Eb in Hb2. simpl in Hb2. split; [exact Hb2|].
    intros x w Hx. apply (first_max_all_le _ _ _ Hb2).
    rewrite Ee2, Eext, !concat_app. apply in_or_app. right. apply in_or_app. left. simpl. rewrite app_nil_r. exact Hx.
  Qed.
End OptProofs.

(* ---------------------------------------------------------------- fixed coordinates are re-imposed by every restriction *)
Lemma mapi_from_nth {A B} (f : nat -> A -> B) d d' : forall l k i,
  (i < length l)%nat -> nth i (mapi_from f k l) d = f (k + i)%nat (nth i l d').
Proof.
  induction l as [|x l IH]; intros k i Hi; simpl in *; [lia|].
  destruct i as [|i]; [rewrite Nat.add_0_r; reflexivity|].
  rewrite IH by lia. replace (S k + i)%nat with (k + S i)%nat by lia. reflexivity.
Qed.
Lemma fix_point_length fixed p : length (fix_point fixed p) = length p.
Proof. unfold fix_point. apply mapi_from_length. Qed.

Theorem fix_point_fixed fixed p k v d :
  lookup k fixed = Some v -> (k < length p)%nat -> nth k (fix_point fixed p) d = v.
Proof. intros Hl Hk. unfold fix_point. rewrite (mapi_from_nth _ d 0) by exact Hk. simpl. rewrite Hl. reflexivity. Qed.
Theorem fix_point_free fixed p k d :
  lookup k fixed = None -> (k < length p)%nat -> nth k (fix_point fixed p) d = nth k p d.
Proof. intros Hl Hk. unfold fix_point. rewrite (mapi_from_nth _ d d) by exact Hk. simpl. rewrite Hl. reflexivity. Qed.

(* every row returned by the box restriction of a fixed-index domain carries the fixed values *)
Theorem restrict_box_fixed lb ub fixed b q k v d :
  In q (restrict_box lb ub fixed b) -> lookup k fixed = Some v -> (k < length q)%nat -> nth k q d = v.
Proof.
  unfold restrict_box. intros Hq Hl Hk. apply in_map_iff in Hq. destruct Hq as (p & <- & _).
  rewrite fix_point_length in Hk. apply fix_point_fixed; assumption.
Qed.

Lemma clip_range lo hi x : lo <= hi -> lo <= clip lo hi x /\ clip lo hi x <= hi.
Proof.
  intro H. unfold clip. destruct (Qle_bool lo x) eqn:E1.
  - apply Qle_bool_iff in E1. destruct (Qle_bool x hi) eqn:E2.
    + apply Qle_bool_iff in E2. split; assumption.
    + split; [exact H | apply Qle_refl].
  - destruct (Qle_bool lo hi) eqn:E2; [split; [apply Qle_refl | exact H]|].
    apply Qle_bool_iff in H. congruence.
Qed.
