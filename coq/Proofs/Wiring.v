(* C06: structural laws of the reference pipeline Model/Wiring.v, for all requests.  The laws about the scaled values are
   obtained from C12's theorems (Proofs/Midpoint.v), the ones about the encoding from C09's (Proofs/Decode.v), the ones
   about the data filter from C14's lemmas (Proofs/Filters.v). *)
From Coq Require Import List QArith ZArith Qabs Bool Arith Lia Lra Psatz.
From LV Require Model.Lies.
From LV Require Import Model.Domain Model.Decode Model.Midpoint Model.Pareto Model.Phases Model.Filters Model.Wiring.
From LV Require Proofs.Domain Proofs.Decode Proofs.Midpoint Proofs.Pareto Proofs.Filters.
Import ListNotations.
Open Scope Q_scope.

(* ------------------------------------------------------------------------------------------ small list facts *)
Lemma sequence_In {A} (l : list (option A)) r x : sequence l = Some r -> In x r -> In (Some x) l.
Proof. intros H Hx. rewrite (Proofs.Midpoint.sequence_some l r H). apply in_map. exact Hx. Qed.

Lemma sequence_map_seq {A} (f : nat -> option A) n r x : sequence (map f (seq 0 n)) = Some r -> In x r ->
  exists i, (i < n)%nat /\ f i = Some x.
Proof.
  intros H Hx. apply (sequence_In _ _ _ H) in Hx. apply in_map_iff in Hx. destruct Hx as (i & Hi & Hin).
  apply in_seq in Hin. exists i. split; [lia|exact Hi].
Qed.

Lemma sequence_map_seq_nth {A} (f : nat -> option A) n r d : sequence (map f (seq 0 n)) = Some r ->
  length r = n /\ forall i, (i < n)%nat -> f i = Some (nth i r d).
Proof.
  intros H. pose proof (Proofs.Midpoint.sequence_some _ _ H) as E.
  assert (L : length r = n) by (apply (f_equal (@length _)) in E; rewrite !map_length, seq_length in E; lia).
  split; [exact L|]. intros i Hi.
  apply (f_equal (fun l => nth i l None)) in E.
  rewrite (Proofs.Midpoint.nth_map' f (seq 0 n) i O None) in E by (rewrite seq_length; exact Hi).
  rewrite seq_nth in E by exact Hi. simpl in E. rewrite E.
  apply (Proofs.Midpoint.nth_map' Some r i d None). lia.
Qed.

Lemma select_incl {A} (m : list bool) (l : list A) : incl (Pareto.select m l) l.
Proof.
  intros x Hx. apply Proofs.Filters.select_spec in Hx. destruct Hx as (j & _ & Hj). eapply nth_error_In; exact Hj.
Qed.

Lemma In_combine_nth {A B} (a : list A) (b : list B) x y da db : In (x, y) (combine a b) ->
  exists k, (k < length a)%nat /\ (k < length b)%nat /\ nth k a da = x /\ nth k b db = y.
Proof.
  revert b. induction a as [|p a IH]; intros [|q b] H; simpl in H; try contradiction.
  destruct H as [H|H].
  - injection H as -> ->. exists O. simpl. repeat split; lia.
  - destruct (IH b H) as (k & Ha & Hb & E1 & E2). exists (S k). simpl. repeat split; try lia; assumption.
Qed.

Lemma combine_app_eq {A B} (a a' : list A) (b b' : list B) : length a = length b ->
  combine (a ++ a') (b ++ b') = combine a b ++ combine a' b'.
Proof.
  revert b. induction a as [|x a IH]; intros [|y b] H; simpl in *; try discriminate; try reflexivity.
  f_equal. apply IH. lia.
Qed.

(* ------------------------------------------------------------------------------------------ encoding *)
Lemma encode_rows_spec d t : forall ps cs rows, encode_rows d t ps cs = Some rows ->
  length rows = length ps /\
  forall k, (k < length ps)%nat ->
    length (nth k ps []) = length (comps d) /\ encode_ok (comps d) (nth k ps []) = true /\
    (t = true -> (k < length cs)%nat) /\
    nth k rows [] = encode_with_task d (nth k ps []) (if t then Some (nth k cs 0) else None).
Proof.
  induction ps as [|p ps IH]; intros cs rows H; simpl in H.
  - injection H as <-. split; [reflexivity|]. intros k Hk. simpl in Hk. lia.
  - destruct (Nat.eqb (length p) (length (comps d)) && encode_ok (comps d) p) eqn:Eok; simpl in H; [|discriminate].
    apply andb_true_iff in Eok. destruct Eok as [El Eo]. apply Nat.eqb_eq in El.
    destruct t.
    + destruct cs as [|c cs]; [discriminate|].
      destruct (encode_rows d true ps cs) as [rs|] eqn:E; simpl in H; [|discriminate]. injection H as <-.
      destruct (IH cs rs E) as [L N]. split; [simpl; lia|].
      intros [|k] Hk; simpl in *.
      * repeat split; auto. lia.
      * destruct (N k ltac:(lia)) as (A1 & A2 & A3 & A4). repeat split; auto. intros _. specialize (A3 eq_refl). lia.
    + destruct (encode_rows d false ps cs) as [rs|] eqn:E; simpl in H; [|discriminate]. injection H as <-.
      destruct (IH cs rs E) as [L N]. split; [simpl; lia|].
      intros [|k] Hk; simpl in *.
      * repeat split; auto. discriminate.
      * destruct (N k ltac:(lia)) as (A1 & A2 & A3 & A4). repeat split; auto. discriminate.
Qed.

(* ------------------------------------------------------------------------------------------ one Gaussian process *)
Definition is_cl (r : request) : bool := match q_par r with ConstantLiar => true | QEI => false end.
Definition lied {A} (r : request) (data extra : list A) : list A := if is_cl r then data ++ extra else data.

Lemma single_gp_inv r pend pts vals noise lie m g : single_gp r pend pts vals noise lie m = Some g ->
  exists h, nth_error (q_hypers r) m = Some h /\ hyper_vec (comps (q_dom r)) h = Some (g_hyp g) /\
    poly_indices (q_mean r) (q_poly r) (dim_with_task r) = Some (g_mean g) /\
    g_metric g = m /\ g_pts g = lied r pts pend /\ g_vals g = lied r vals (repeat lie (length pend)) /\
    g_noise g = lied r noise (repeat Lies.lie_noise (length pend)) /\
    g_kernel g = (if has_tasks r then KC4xSE else KC4) /\ g_tik g = hp_tik h /\
    length (g_hyp g) = S (dim_with_task r) /\ g_pts g <> [] /\ (length (g_mean g) <= length (g_pts g))%nat /\
    Forall (fun x => 0 < x) (g_hyp g) /\ Forall (fun p => length p = dim_with_task r) (g_pts g).
Proof.
  unfold single_gp. intros H.
  destruct (nth_error (q_hypers r) m) as [h|] eqn:Eh; [|discriminate].
  destruct (hyper_vec (comps (q_dom r)) h) as [hv|] eqn:Ehv; [|discriminate].
  destruct (poly_indices (q_mean r) (q_poly r) (dim_with_task r)) as [pi|] eqn:Epi; [|discriminate].
  cbv zeta in H.
  match type of H with (if ?c then _ else _) = _ => destruct c eqn:C; [|discriminate] end.
  injection H as <-. exists h. cbn [g_metric g_pts g_vals g_noise g_kernel g_hyp g_tik g_mean].
  apply andb_true_iff in C. destruct C as [C C5]. apply andb_true_iff in C. destruct C as [C C4].
  apply andb_true_iff in C. destruct C as [C C3]. apply andb_true_iff in C. destruct C as [C1 C2].
  unfold lied, is_cl.
  do 9 (split; [first [reflexivity | assumption]|]).
  split; [apply Nat.eqb_eq; exact C1|].
  split; [intro E; rewrite E in C3; discriminate|].
  split; [apply Nat.leb_le; exact C4|].
  split.
  - apply Forall_forall. intros x Hx. rewrite forallb_forall in C2. specialize (C2 x Hx).
    unfold Pareto.Qltb in C2. apply negb_true_iff in C2. destruct (Qlt_le_dec 0 x) as [L|L]; [exact L|].
    apply Qle_bool_iff in L. congruence.
  - apply Forall_forall. intros p Hp. rewrite forallb_forall in C5. apply Nat.eqb_eq. apply C5. exact Hp.
Qed.

(* ------------------------------------------------------------------------------------------ where the data comes from *)
(* the data of a Gaussian process comes from column j of a preprocessed block (optimised or constraint metrics): its
   (point, value) pairs are pairs of the full table (encoded observation, scaled value in column j) *)
Definition from_block (r : request) (pend allpts : list row) (src : view_out) (ix : list nat) (j : nat) (g : gp_desc) : Prop :=
  (j < length ix)%nat /\
  exists dpts dvals dnoise,
    single_gp r pend dpts dvals dnoise (nth j (v_lie src) 0) (nth j ix O) = Some g /\
    length dpts = length dvals /\ incl (combine dpts dvals) (combine allpts (col j (v_values src))).

Definition origin (r : request) (pend allpts : list row) (g : gp_desc) : Prop :=
  (exists o j, opt_of r = Some o /\ from_block r pend allpts o (q_opt_ix r) j g) \/
  (exists c j, q_con_ix r <> [] /\ con_of r = Some c /\ from_block r pend allpts c (q_con_ix r) j g).

Lemma gp_for_pf_block r src ix pts pend j g : gp_for_pf r src ix pts pend j = Some g -> (j < length ix)%nat ->
  length pts = length (v_values src) -> from_block r pend pts src ix j g.
Proof.
  intros H Hj L. split; [exact Hj|]. exists pts, (col j (v_values src)), (col j (v_vars src)).
  split; [exact H|]. split; [rewrite Proofs.Filters.col_length; exact L|apply incl_refl].
Qed.

Lemma opt_of_nonempty r o : opt_of r = Some o -> q_opt_ix r <> [].
Proof. unfold opt_of. destruct (q_opt_ix r); [discriminate|discriminate]. Qed.

Lemma opt_of_pre r o : opt_of r = Some o ->
  preprocess (q_opt_ix r) (q_values r) (q_vars r) (q_fails r) (q_objs r) (q_thr r) = Some o.
Proof. unfold opt_of. destruct (q_opt_ix r) eqn:E; [discriminate|]. intro H. exact H. Qed.

Lemma main_origin r o pts pend gs ws : opt_of r = Some o -> info_ok r = true -> length pts = length (v_values o) ->
  main_gps r o pts pend = Some (gs, ws) ->
  Forall (fun g => exists j, from_block r pend pts o (q_opt_ix r) j g) gs /\
  match q_info r with
  | Convex w0 w1 => ws = [w0; w1] /\ length gs = length (q_opt_ix r) /\
                    forall i, (i < length (q_opt_ix r))%nat ->
                      gp_for_pf r o (q_opt_ix r) pts pend i = Some (nth i gs (mkgp O [] [] [] KC4 [] None []))
  | EpsC om cm eps =>
      ws = [] /\ exists g, gs = [g] /\
        let keep := map negb (pf_labelling eps om cm (v_values o) (q_fails r)) in
        single_gp r pend (Pareto.select keep pts) (Pareto.select keep (col om (v_values o)))
                  (Pareto.select keep (col om (v_vars o))) (nth om (v_lie o) 0) (nth om (q_opt_ix r) O) = Some g
  | i => ws = [] /\ exists g, gs = [g] /\ gp_for_pf r o (q_opt_ix r) pts pend (opt_metric i) = Some g
  end.
Proof.
  intros Ho Hi L H. pose proof (opt_of_nonempty r o Ho) as Hne.
  unfold info_ok in Hi. unfold main_gps in H.
  destruct (q_info r) as [|om cm|w0 w1|om cm eps] eqn:Ei.
  - (* NotMM *)
    cbn [filter_gp filter_one_metric o_pts o_vals o_vars o_lie arr1 arr0 opt_metric] in H.
    match type of H with match ?e with _ => _ end = _ => destruct e as [g|] eqn:E; [|discriminate] end.
    injection H as <- <-.
    assert (B : from_block r pend pts o (q_opt_ix r) 0 g).
    { apply gp_for_pf_block; [exact E| destruct (q_opt_ix r); [congruence|simpl; lia] | exact L]. }
    split; [constructor; [exists O; exact B|constructor]|]. split; [reflexivity|]. exists g. split; [reflexivity|exact E].
  - (* OptOne *)
    cbn [filter_gp filter_one_metric o_pts o_vals o_vars o_lie arr1 arr0 opt_metric] in H.
    match type of H with match ?e with _ => _ end = _ => destruct e as [g|] eqn:E; [|discriminate] end.
    injection H as <- <-.
    apply andb_true_iff in Hi. destruct Hi as [Hi Hs]. apply andb_true_iff in Hi. destruct Hi as [_ Hl].
    apply Nat.eqb_eq in Hl. apply Nat.eqb_eq in Hs.
    assert (B : from_block r pend pts o (q_opt_ix r) om g).
    { apply gp_for_pf_block; [exact E| lia | exact L]. }
    split; [constructor; [exists om; exact B|constructor]|]. split; [reflexivity|]. exists g. split; [reflexivity|exact E].
  - (* Convex *)
    cbn [filter_gp filter_sum_of_gps o_pts o_vals o_vars o_lie arr1 arr2] in H.
    match type of H with match ?e with _ => _ end = _ => destruct e as [gl|] eqn:E; [|discriminate] end.
    injection H as <- <-.
    split.
    + apply Forall_forall. intros g Hg. destruct (sequence_map_seq _ _ _ _ E Hg) as (i & Hlt & Hgi). exists i.
      apply gp_for_pf_block; [exact Hgi|exact Hlt|exact L].
    + split; [reflexivity|]. destruct (sequence_map_seq_nth _ _ _ (mkgp O [] [] [] KC4 [] None []) E) as [Hlen Hnth].
      split; [exact Hlen|]. intros i Hlt. exact (Hnth i Hlt).
  - (* EpsC *)
    cbn [filter_gp filter_prob_failure o_pts o_vals o_vars o_lie arr1 arr0 opt_metric] in H.
    match type of H with match ?e with _ => _ end = _ => destruct e as [g|] eqn:E; [|discriminate] end.
    injection H as <- <-.
    apply andb_true_iff in Hi. destruct Hi as [Hi Hs]. apply andb_true_iff in Hi. destruct Hi as [_ Hl].
    apply Nat.eqb_eq in Hl. repeat (apply andb_true_iff in Hs; destruct Hs as [Hs ?]). apply Nat.eqb_eq in Hs.
    split.
    + constructor; [|constructor]. exists om. split; [lia|].
      eexists _, _, _. split; [exact E|]. split.
      * apply Proofs.Filters.select_length_eq. rewrite Proofs.Filters.col_length. exact L.
      * rewrite <- Proofs.Filters.select_combine. apply select_incl.
    + split; [reflexivity|]. exists g. split; [reflexivity|exact E].
Qed.

(* the failure models of the epsilon-constraint phase *)
Lemma eps_pfs_origin r o pts pend pf : opt_of r = Some o -> info_ok r = true -> length pts = length (v_values o) ->
  eps_pfs r o pts pend = Some pf ->
  Forall (fun p => p_kind p = PfLogistic /\
                   exists j, (j < length (q_opt_ix r))%nat /\ gp_for_pf r o (q_opt_ix r) pts pend j = Some (p_gp p)) pf /\
  match q_info r with
  | EpsC om cm eps =>
      exists p, In p pf /\ gp_for_pf r o (q_opt_ix r) pts pend cm = Some (p_gp p) /\
                p_thr p = eps_threshold_view eps cm (v_values o) (v_thresholds o)
  | _ => pf = []
  end.
Proof.
  intros Ho Hi L H. unfold eps_pfs in H. unfold info_ok in Hi.
  destruct (q_info r) as [|om cm|w0 w1|om cm eps] eqn:Ei; try (injection H as <-; split; [constructor|reflexivity]).
  apply andb_true_iff in Hi. destruct Hi as [Hi Hs]. apply andb_true_iff in Hi. destruct Hi as [_ Hl].
  apply Nat.eqb_eq in Hl. repeat (apply andb_true_iff in Hs; destruct Hs as [Hs ?]). apply Nat.eqb_eq in Hs.
  cbv zeta in H.
  set (cthr := eps_threshold_view eps cm (v_values o) (v_thresholds o)) in *.
  destruct (Nat.eqb cm 0) eqn:Ecm.
  - apply Nat.eqb_eq in Ecm. subst cm.
    destruct (gp_for_pf r o (q_opt_ix r) pts pend 0) as [g0|] eqn:E0; simpl in H; [|discriminate].
    destruct (option_map snd (both_thresholds (v_thresholds o))) as [t1|].
    + destruct (gp_for_pf r o (q_opt_ix r) pts pend 1) as [g1|] eqn:E1; simpl in H; [|discriminate].
      injection H as <-. split.
      * repeat constructor; simpl; eexists; (split; [|eassumption]); lia.
      * exists (mkpf PfLogistic cthr g0). simpl. auto.
    + injection H as <-. split.
      * repeat constructor; simpl; eexists; (split; [|eassumption]); lia.
      * exists (mkpf PfLogistic cthr g0). simpl. auto.
  - apply Nat.eqb_neq in Ecm. assert (cm = 1%nat) by lia. subst cm.
    destruct (option_map fst (both_thresholds (v_thresholds o))) as [t0|].
    + destruct (gp_for_pf r o (q_opt_ix r) pts pend 0) as [g0|] eqn:E0; simpl in H; [|discriminate].
      destruct (gp_for_pf r o (q_opt_ix r) pts pend 1) as [g1|] eqn:E1; simpl in H; [|discriminate].
      injection H as <-. split.
      * repeat constructor; simpl; eexists; (split; [|eassumption]); lia.
      * exists (mkpf PfLogistic cthr g1). simpl. auto.
    + destruct (gp_for_pf r o (q_opt_ix r) pts pend 1) as [g1|] eqn:E1; simpl in H; [|discriminate].
      injection H as <-. split.
      * repeat constructor; simpl; eexists; (split; [|eassumption]); lia.
      * exists (mkpf PfLogistic cthr g1). simpl. auto.
Qed.

(* the failure models of the constraint metrics: one per constraint metric, in order *)
Definition dpf : pf_desc := mkpf PfCdf 0 (mkgp O [] [] [] KC4 [] None []).
Lemma con_pfs_origin r pts pend pf : con_pfs r pts pend = Some pf ->
  (q_con_ix r = [] /\ pf = []) \/
  (q_con_ix r <> [] /\ exists c, con_of r = Some c /\ length pf = length (q_con_ix r) /\
     forall i, (i < length (q_con_ix r))%nat ->
       p_kind (nth i pf dpf) = PfCdf /\ nth i (v_thresholds c) None = Some (p_thr (nth i pf dpf)) /\
       gp_for_pf r c (q_con_ix r) pts pend i = Some (p_gp (nth i pf dpf))).
Proof.
  unfold con_pfs. intros H. destruct (q_con_ix r) as [|c0 ix] eqn:Eix.
  - left. injection H as <-. auto.
  - right. split; [discriminate|]. destruct (con_of r) as [c|]; [|discriminate]. exists c. split; [reflexivity|].
    destruct (sequence_map_seq_nth _ _ _ dpf H) as [Hlen Hnth]. split; [exact Hlen|].
    intros i Hlt. specialize (Hnth i Hlt). cbv beta in Hnth.
    destruct (nth i (v_thresholds c) None) as [t|]; [|discriminate].
    destruct (gp_for_pf r c (c0 :: ix) pts pend i) as [g|]; simpl in Hnth; [|discriminate].
    injection Hnth as Hn. rewrite <- Hn. simpl. auto.
Qed.

(* ------------------------------------------------------------------------------------------ inversion of the endpoint *)
Lemma wire_inv r d : wire r = Some d ->
  shape_ok r = true /\ info_ok r = true /\
  exists o pts pend ev gs ws pf1 pf2,
    opt_of r = Some o /\
    encode_rows (q_dom r) (has_tasks r) (q_points r) (q_costs r) = Some pts /\
    encode_rows (q_dom r) (has_tasks r) (q_pending r) (q_pending_costs r) = Some pend /\
    encode_rows (q_dom r) (has_tasks r) (q_eval r) (q_eval_costs r) = Some ev /\
    main_gps r o pts pend = Some (gs, ws) /\ eps_pfs r o pts pend = Some pf1 /\ con_pfs r pts pend = Some pf2 /\
    a_gps d = gs /\ a_weights d = ws /\ a_pfs d = pf1 ++ pf2 /\ a_eval d = ev /\ a_cost d = has_tasks r /\
    a_kind d = choose_af (use_qei r pend) (negb (Nat.eqb (length (pf1 ++ pf2)) 0)) (pred_noise gs ws) /\
    a_pending d = (if use_qei r pend then pend else []) /\
    a_batch d = (if use_qei r pend then Z.min (q_max_af r) MAX_QEI_POINTS else q_max_af r) /\ (0 <= a_batch d)%Z /\
    a_best d = match a_kind d with AfEI | AfQEI => min_q (pred_vals gs ws) | _ => None end.
Proof.
  unfold wire. intros H.
  destruct (shape_ok r && info_ok r) eqn:E1; simpl in H; [|discriminate].
  apply andb_true_iff in E1. destruct E1 as [Hs Hi]. split; [exact Hs|]. split; [exact Hi|].
  destruct (opt_of r) as [o|]; [|discriminate].
  destruct (encode_rows (q_dom r) (has_tasks r) (q_points r) (q_costs r)) as [pts|]; [|discriminate].
  destruct (encode_rows (q_dom r) (has_tasks r) (q_pending r) (q_pending_costs r)) as [pend|]; [|discriminate].
  destruct (encode_rows (q_dom r) (has_tasks r) (q_eval r) (q_eval_costs r)) as [ev|]; [|discriminate].
  destruct (main_gps r o pts pend) as [[gs ws]|] eqn:Em; [|discriminate].
  destruct (eps_pfs r o pts pend) as [pf1|] eqn:Ef1; [|discriminate].
  destruct (con_pfs r pts pend) as [pf2|] eqn:Ef2; [|discriminate].
  cbv zeta in H.
  match type of H with (if ?c then _ else _) = _ => destruct c eqn:Eb; [discriminate|] end.
  injection H as <-. exists o, pts, pend, ev, gs, ws, pf1, pf2.
  cbn [a_kind a_gps a_weights a_pfs a_pending a_cost a_batch a_eval a_best].
  repeat (split; [first [reflexivity|assumption]|]). split; [|reflexivity]. apply Z.ltb_ge in Eb. exact Eb.
Qed.

Lemma shape_lengths r : shape_ok r = true ->
  length (q_values r) = length (q_points r) /\ length (q_vars r) = length (q_points r) /\
  length (q_fails r) = length (q_points r) /\ q_eval r <> [].
Proof.
  unfold shape_ok. intro H. repeat (apply andb_true_iff in H; destruct H as [H ?]).
  repeat match goal with E : Nat.eqb _ _ = true |- _ => apply Nat.eqb_eq in E end.
  repeat split; try assumption. intro E. rewrite E in *. discriminate.
Qed.

Lemma preprocess_rows ix vals vars fails objs thr o : length fails = length vals ->
  preprocess ix vals vars fails objs thr = Some o -> length (v_values o) = length vals.
Proof.
  intros L H. destruct (Proofs.Midpoint.view_law ix vals vars fails objs thr L) as (out & E & _ & Hl & _).
  rewrite E in H. injection H as <-. exact Hl.
Qed.

(* every Gaussian process of the description has an origin *)
Lemma wire_origins r d : wire r = Some d ->
  exists pts pend,
    encode_rows (q_dom r) (has_tasks r) (q_points r) (q_costs r) = Some pts /\
    encode_rows (q_dom r) (has_tasks r) (q_pending r) (q_pending_costs r) = Some pend /\
    length pts = length (q_points r) /\
    Forall (origin r pend pts) (all_gps d).
Proof.
  intros H. destruct (wire_inv r d H) as (Hs & Hi & o & pts & pend & ev & gs & ws & pf1 & pf2 & Ho & Ep & Epe & Eev & Hm & H1 & H2 &
    Ag & Aw & Ap & _).
  destruct (shape_lengths r Hs) as (Lv & Lw & Lf & _).
  destruct (encode_rows_spec _ _ _ _ _ Ep) as [Lp _].
  assert (Lo : length pts = length (v_values o)).
  { assert (Lfv : length (q_fails r) = length (q_values r)) by lia.
    rewrite (preprocess_rows _ _ _ _ _ _ o Lfv (opt_of_pre r o Ho)). lia. }
  exists pts, pend. split; [exact Ep|]. split; [exact Epe|]. split; [exact Lp|].
  unfold all_gps. rewrite Ag, Ap. apply Forall_app. split.
  - destruct (main_origin r o pts pend gs ws Ho Hi Lo Hm) as [F _].
    eapply Forall_impl; [|exact F]. intros g (j & B). left. exists o, j. split; assumption.
  - rewrite map_app. apply Forall_app. split.
    + destruct (eps_pfs_origin r o pts pend pf1 Ho Hi Lo H1) as [F _].
      apply Forall_forall. intros g Hg. apply in_map_iff in Hg. destruct Hg as (p & <- & Hp).
      rewrite Forall_forall in F. destruct (F p Hp) as (_ & j & Hj & E).
      left. exists o, j. split; [exact Ho|]. apply gp_for_pf_block; assumption.
    + destruct (con_pfs_origin r pts pend pf2 H2) as [[_ ->]|(Hne & c & Hc & Hlen & Hn)]; [constructor|].
      apply Forall_forall. intros g Hg. apply in_map_iff in Hg. destruct Hg as (p & <- & Hp).
      destruct (In_nth _ _ dpf Hp) as (i & Hi' & <-). rewrite Hlen in Hi'. destruct (Hn i Hi') as (_ & _ & E).
      right. exists c, i. split; [exact Hne|]. split; [exact Hc|].
      apply gp_for_pf_block; [exact E|exact Hi'|].
      assert (Lfv : length (q_fails r) = length (q_values r)) by lia.
      unfold con_of in Hc. rewrite (preprocess_rows _ _ _ _ _ _ c Lfv Hc). lia.
Qed.

(* ------------------------------------------------------------------------------------------ hyperparameter layout *)
Lemma sequence_app {A} (a b : list (option A)) r : sequence (a ++ b) = Some r ->
  exists ra rb, sequence a = Some ra /\ sequence b = Some rb /\ r = ra ++ rb.
Proof.
  revert r. induction a as [|[x|] a IH]; intros r H; simpl in *.
  - exists [], r. auto.
  - destruct (sequence (a ++ b)) as [r'|] eqn:E; [|discriminate]. injection H as <-.
    destruct (IH r' eq_refl) as (ra & rb & -> & Hb & ->). exists (x :: ra), rb. auto.
  - discriminate.
Qed.

Lemma hyper_vec_layout cs h hv : hyper_vec cs h = Some hv ->
  exists ls, sequence (ls_to_one_hot cs (hp_ls h)) = Some ls /\
             hv = hp_alpha h :: ls ++ match hp_task h with None => [] | Some t => [t] end.
Proof.
  unfold hyper_vec. intros H. simpl in H.
  destruct (sequence (ls_to_one_hot cs (hp_ls h) ++ match hp_task h with None => [] | Some t => [Some t] end)) as [t|] eqn:E;
    [|discriminate].
  injection H as <-. destruct (sequence_app _ _ _ E) as (ra & rb & Ha & Hb & ->). exists ra. split; [exact Ha|].
  f_equal. f_equal. destruct (hp_task h); simpl in Hb; injection Hb as <-; reflexivity.
Qed.

(* column_selection + hyper_selection: every Gaussian process of the description is built from one optimised or one
   constraint metric m (never a stored one): its kernel hyperparameters, nugget and kernel class are those of
   hyperparameters[m], laid out [alpha] ++ one-hot length scales ++ [task length] *)
Theorem selection_law r d g : wire r = Some d -> In g (all_gps d) ->
  In (g_metric g) (q_opt_ix r ++ q_con_ix r) /\
  exists h ls, nth_error (q_hypers r) (g_metric g) = Some h /\
    sequence (ls_to_one_hot (comps (q_dom r)) (hp_ls h)) = Some ls /\
    g_hyp g = hp_alpha h :: ls ++ match hp_task h with None => [] | Some t => [t] end /\
    length (g_hyp g) = S (dim_with_task r) /\ Forall (fun x => 0 < x) (g_hyp g) /\
    g_tik g = hp_tik h /\ g_kernel g = (if has_tasks r then KC4xSE else KC4) /\
    poly_indices (q_mean r) (q_poly r) (dim_with_task r) = Some (g_mean g).
Proof.
  intros H Hg. destruct (wire_origins r d H) as (pts & pend & _ & _ & _ & F).
  rewrite Forall_forall in F. specialize (F g Hg).
  assert (K : exists ix j dp dv dn lie, (ix = q_opt_ix r \/ ix = q_con_ix r) /\ (j < length ix)%nat /\
                single_gp r pend dp dv dn lie (nth j ix O) = Some g).
  { destruct F as [(o & j & _ & Hj & dp & dv & dn & E & _)|(c & j & _ & _ & Hj & dp & dv & dn & E & _)].
    - exists (q_opt_ix r), j, dp, dv, dn, (nth j (v_lie o) 0). auto.
    - exists (q_con_ix r), j, dp, dv, dn, (nth j (v_lie c) 0). auto. }
  destruct K as (ix & j & dp & dv & dn & lie & Hix & Hj & E).
  destruct (single_gp_inv _ _ _ _ _ _ _ _ E) as (h & Eh & Ehv & Epi & Em & _ & _ & _ & Ek & Et & El & _ & _ & Fp & _).
  split.
  - rewrite Em. apply in_or_app. destruct Hix as [-> | ->]; [left|right]; apply nth_In; exact Hj.
  - destruct (hyper_vec_layout _ _ _ Ehv) as (ls & Els & Ehyp). exists h, ls. rewrite Em. auto 10.
Qed.

(* ------------------------------------------------------------------------------------------ the values *)
(* the law of one (encoded observation, value) pair of a Gaussian process on metric m with C12 scaling object i and lie l *)
Definition row_pair (r : request) (pts : list row) (m : nat) (i : info) (l : Q) (xy : row * Q) : Prop :=
  exists k, (k < length (q_points r))%nat /\ fst xy = nth k pts [] /\
            snd xy = if nth k (q_fails r) false then rel_value i l else rel_value i (nth m (nth k (q_values r) []) 0).

Lemma block_values_law r pend pts src ix j g :
  preprocess ix (q_values r) (q_vars r) (q_fails r) (q_objs r) (q_thr r) = Some src ->
  length (q_fails r) = length (q_values r) -> length pts = length (q_values r) -> length (q_values r) = length (q_points r) ->
  from_block r pend pts src ix j g ->
  let m := g_metric g in
  m = nth j ix O /\
  exists i l, smmi (column m (q_values r)) (q_fails r) (nth m (q_objs r) NoObjective) = Some i /\
    lie_value i LieMin = Some l /\
    nth j (v_thresholds src) None = option_map (rel_value i) (nth m (q_thr r) None) /\
    exists dp dv, length dp = length dv /\
      g_pts g = lied r dp pend /\ g_vals g = lied r dv (repeat (rel_value i l) (length pend)) /\
      Forall (row_pair r pts m i l) (combine dp dv) /\
      Forall (fun y => y <= rel_value i l) (g_vals g).
Proof.
  intros Hpre Lf Lp Lv (Hj & dp & dv & dn & E & Ld & Hincl) m.
  destruct (single_gp_inv _ _ _ _ _ _ _ _ E) as (h & _ & _ & _ & Em & Epts & Evals & _).
  destruct (Proofs.Midpoint.view_law ix (q_values r) (q_vars r) (q_fails r) (q_objs r) (q_thr r) Lf)
    as (out & Eo & Hlie & Hvals & Hlaw).
  rewrite Hpre in Eo. injection Eo as <-.
  destruct (Hlaw j Hj) as (i & l & Hsm & Hl & Hlv & Hrow & Hle & Hthr).
  subst m. rewrite Em. split; [reflexivity|]. exists i, l. split; [exact Hsm|]. split; [exact Hl|]. split; [exact Hthr|].
  exists dp, dv. split; [exact Ld|]. split; [exact Epts|]. rewrite Evals, Hlv. split; [reflexivity|].
  assert (P : Forall (row_pair r pts (nth j ix O) i l) (combine dp dv)).
  { apply Forall_forall. intros [x y] Hxy. apply Hincl in Hxy.
    destruct (In_combine_nth _ _ _ _ [] 0 Hxy) as (k & Hk1 & Hk2 & Hx & Hy).
    rewrite Proofs.Filters.col_length in Hk2.
    exists k. split; [lia|]. split; [simpl; symmetry; exact Hx|]. simpl. rewrite <- Hy.
    rewrite Proofs.Filters.col_nth by exact Hk2. unfold at_. rewrite Hvals in Hk2. apply Hrow. exact Hk2. }
  split; [exact P|].
  assert (Q1 : Forall (fun y => y <= rel_value i l) dv).
  { apply Forall_forall. intros y Hy.
    destruct (In_nth _ _ 0 Hy) as (k & Hk & Ek).
    assert (Hin : In (nth k dp [], y) (combine dp dv)).
    { rewrite <- Ek. rewrite <- (combine_nth dp dv k [] 0 Ld). apply nth_In. rewrite combine_length. lia. }
    apply Hincl in Hin. destruct (In_combine_nth _ _ _ _ [] 0 Hin) as (k' & _ & Hk2 & _ & Hy').
    rewrite Proofs.Filters.col_length in Hk2. rewrite <- Hy'. rewrite Proofs.Filters.col_nth by exact Hk2. unfold at_.
    rewrite <- Hlv. apply Hle. rewrite Hvals in Hk2. exact Hk2. }
  unfold lied. destruct (is_cl r); [|exact Q1]. apply Forall_app. split; [exact Q1|].
  apply Forall_forall. intros y Hy. apply repeat_spec in Hy. subst y. apply Qle_refl.
Qed.

(* column_selection + sign_and_scale + lies_for_failures_and_pending, for every Gaussian process of the description *)
Theorem values_law r d g : wire r = Some d -> In g (all_gps d) ->
  let m := g_metric g in
  exists pts pend i l,
    encode_rows (q_dom r) (has_tasks r) (q_points r) (q_costs r) = Some pts /\
    encode_rows (q_dom r) (has_tasks r) (q_pending r) (q_pending_costs r) = Some pend /\
    smmi (column m (q_values r)) (q_fails r) (nth m (q_objs r) NoObjective) = Some i /\
    lie_value i LieMin = Some l /\
    exists dp dv, length dp = length dv /\
      g_pts g = (if is_cl r then dp ++ pend else dp) /\
      g_vals g = (if is_cl r then dv ++ repeat (rel_value i l) (length pend) else dv) /\
      Forall (row_pair r pts m i l) (combine dp dv) /\
      Forall (fun y => y <= rel_value i l) (g_vals g).
Proof.
  intros H Hg m. destruct (wire_origins r d H) as (pts & pend & Ep & Epe & Lp & F).
  destruct (wire_inv r d H) as (Hs & _). destruct (shape_lengths r Hs) as (Lv & _ & Lf & _).
  rewrite Forall_forall in F. specialize (F g Hg).
  assert (Lfv : length (q_fails r) = length (q_values r)) by lia.
  assert (Lpv : length pts = length (q_values r)) by lia.
  exists pts, pend.
  destruct F as [(o & j & Ho & B)|(c & j & _ & Hc & B)].
  - destruct (block_values_law r pend pts o (q_opt_ix r) j g (opt_of_pre r o Ho) Lfv Lpv Lv B)
      as (_ & i & l & A1 & A2 & _ & dp & dv & A3 & A4 & A5 & A6 & A7).
    exists i, l. repeat (split; [assumption|]). exists dp, dv. auto.
  - destruct (block_values_law r pend pts c (q_con_ix r) j g Hc Lfv Lpv Lv B)
      as (_ & i & l & A1 & A2 & _ & dp & dv & A3 & A4 & A5 & A6 & A7).
    exists i, l. repeat (split; [assumption|]). exists dp, dv. auto.
Qed.

(* ------------------------------------------------------------------------------------------ which metric is optimised *)
Definition dgp : gp_desc := mkgp O [] [] [] KC4 [] None [].
Theorem main_metric_law r d : wire r = Some d ->
  match q_info r with
  | Convex w0 w1 => a_weights d = [w0; w1] /\ length (a_gps d) = length (q_opt_ix r) /\
                    forall i, (i < length (q_opt_ix r))%nat -> g_metric (nth i (a_gps d) dgp) = nth i (q_opt_ix r) O
  | EpsC om cm eps =>
      a_weights d = [] /\ exists g o pts pend, a_gps d = [g] /\ g_metric g = nth om (q_opt_ix r) O /\
        opt_of r = Some o /\ encode_rows (q_dom r) (has_tasks r) (q_points r) (q_costs r) = Some pts /\
        encode_rows (q_dom r) (has_tasks r) (q_pending r) (q_pending_costs r) = Some pend /\
        g_pts g = lied r (Pareto.select (map negb (pf_labelling eps om cm (v_values o) (q_fails r))) pts) pend
  | i => a_weights d = [] /\ exists g, a_gps d = [g] /\ g_metric g = nth (opt_metric i) (q_opt_ix r) O
  end.
Proof.
  intros H. destruct (wire_inv r d H) as (Hs & Hi & o & pts & pend & ev & gs & ws & pf1 & pf2 & Ho & Ep & Epe & Eev & Hm & H1 & H2 &
    Ag & Aw & Ap & _).
  destruct (shape_lengths r Hs) as (Lv & Lw & Lf & _).
  destruct (encode_rows_spec _ _ _ _ _ Ep) as [Lp _].
  assert (Lfv : length (q_fails r) = length (q_values r)) by lia.
  assert (Lo : length pts = length (v_values o)).
  { rewrite (preprocess_rows _ _ _ _ _ _ o Lfv (opt_of_pre r o Ho)). lia. }
  destruct (main_origin r o pts pend gs ws Ho Hi Lo Hm) as [_ M]. rewrite Ag, Aw.
  destruct (q_info r) as [|om cm|w0 w1|om cm eps].
  - destruct M as (-> & g & -> & E). split; [reflexivity|]. exists g. split; [reflexivity|].
    destruct (single_gp_inv _ _ _ _ _ _ _ _ E) as (h & _ & _ & _ & Em & _). exact Em.
  - destruct M as (-> & g & -> & E). split; [reflexivity|]. exists g. split; [reflexivity|].
    destruct (single_gp_inv _ _ _ _ _ _ _ _ E) as (h & _ & _ & _ & Em & _). exact Em.
  - destruct M as (-> & Hl & Hn). split; [reflexivity|]. split; [exact Hl|]. intros i Hlt.
    specialize (Hn i Hlt). destruct (single_gp_inv _ _ _ _ _ _ _ _ Hn) as (h & _ & _ & _ & Em & _). exact Em.
  - destruct M as (-> & g & -> & E). split; [reflexivity|]. exists g, o, pts, pend. split; [reflexivity|].
    destruct (single_gp_inv _ _ _ _ _ _ _ _ E) as (h & _ & _ & _ & Em & Epts & _). auto 10.
Qed.

(* ------------------------------------------------------------------------------------------ the failure models *)
(* constraint metric i (raw column con_ix[i]) gets a CDF failure model on that column's Gaussian process whose threshold is
   the user's threshold of that metric pushed through that metric's own scaling; the epsilon-constraint phase puts a
   logistic model on the constrained optimised metric with the epsilon threshold computed on all rows *)
Theorem failure_models_law r d : wire r = Some d ->
  exists pf1 pf2, a_pfs d = pf1 ++ pf2 /\
    Forall (fun p => p_kind p = PfLogistic /\ In (g_metric (p_gp p)) (q_opt_ix r)) pf1 /\
    match q_info r with
    | EpsC om cm eps => exists p o, In p pf1 /\ opt_of r = Some o /\ g_metric (p_gp p) = nth cm (q_opt_ix r) O /\
                                    p_thr p = eps_threshold_view eps cm (v_values o) (v_thresholds o)
    | _ => pf1 = []
    end /\
    length pf2 = length (q_con_ix r) /\
    forall k, (k < length (q_con_ix r))%nat ->
      let p := nth k pf2 dpf in let m := nth k (q_con_ix r) O in
      p_kind p = PfCdf /\ g_metric (p_gp p) = m /\
      exists i t, smmi (column m (q_values r)) (q_fails r) (nth m (q_objs r) NoObjective) = Some i /\
                  nth m (q_thr r) None = Some t /\ p_thr p = rel_value i t.
Proof.
  intros H. destruct (wire_inv r d H) as (Hs & Hi & o & pts & pend & ev & gs & ws & pf1 & pf2 & Ho & Ep & Epe & Eev & Hm & H1 & H2 &
    Ag & Aw & Ap & _).
  destruct (shape_lengths r Hs) as (Lv & Lw & Lf & _).
  destruct (encode_rows_spec _ _ _ _ _ Ep) as [Lp _].
  assert (Lfv : length (q_fails r) = length (q_values r)) by lia.
  assert (Lo : length pts = length (v_values o)).
  { rewrite (preprocess_rows _ _ _ _ _ _ o Lfv (opt_of_pre r o Ho)). lia. }
  exists pf1, pf2. split; [exact Ap|].
  destruct (eps_pfs_origin r o pts pend pf1 Ho Hi Lo H1) as [F1 M1].
  split.
  { eapply Forall_impl; [|exact F1]. intros p (Hk & j & Hj & E). split; [exact Hk|].
    destruct (single_gp_inv _ _ _ _ _ _ _ _ E) as (h & _ & _ & _ & Em & _). rewrite Em. apply nth_In. exact Hj. }
  split.
  { destruct (q_info r) as [|om cm|w0 w1|om cm eps]; try exact M1.
    destruct M1 as (p & Hp & E & Ht). exists p, o. split; [exact Hp|]. split; [exact Ho|]. split; [|exact Ht].
    destruct (single_gp_inv _ _ _ _ _ _ _ _ E) as (h & _ & _ & _ & Em & _). exact Em. }
  destruct (con_pfs_origin r pts pend pf2 H2) as [[E0 ->]|(Hne & c & Hc & Hlen & Hn)].
  { rewrite E0. split; [reflexivity|]. intros k Hk. simpl in Hk. lia. }
  split; [exact Hlen|]. intros k Hk p m. destruct (Hn k Hk) as (K1 & K2 & K3). fold p in K1, K2, K3.
  split; [exact K1|].
  destruct (single_gp_inv _ _ _ _ _ _ _ _ K3) as (h & _ & _ & _ & Em & _). split; [exact Em|].
  destruct (Proofs.Midpoint.view_law (q_con_ix r) (q_values r) (q_vars r) (q_fails r) (q_objs r) (q_thr r) Lfv)
    as (out & Eo & _ & _ & Hlaw).
  unfold con_of in Hc. rewrite Hc in Eo. injection Eo as <-.
  destruct (Hlaw k Hk) as (i & l & Hsm & _ & _ & _ & _ & Hthr). fold m in Hsm, Hthr.
  rewrite K2 in Hthr. destruct (nth m (q_thr r) None) as [t|] eqn:Et; simpl in Hthr; [|discriminate].
  exists i, t. split; [exact Hsm|]. split; [reflexivity|]. injection Hthr as ->. reflexivity.
Qed.

(* ------------------------------------------------------------------------------------------ choice of acquisition function *)
Lemma choose_af_spec q f noise :
  let k := choose_af q f noise in
  (k = AfQEI <-> q = true /\ f = false) /\ (k = AfQEIF <-> q = true /\ f = true) /\
  (k = AfEIF <-> q = false /\ f = true) /\
  (k = AfAEI <-> q = false /\ f = false /\ AEI_THRESHOLD < mean_q noise) /\
  (k = AfEI <-> q = false /\ f = false /\ mean_q noise <= AEI_THRESHOLD).
Proof.
  unfold choose_af. destruct q, f; cbv zeta; cbn [negb].
  1-3: repeat split; intros; try discriminate; try reflexivity;
       repeat match goal with H : _ /\ _ |- _ => destruct H end; try discriminate.
  destruct (Pareto.Qltb AEI_THRESHOLD (mean_q noise)) eqn:E; unfold Pareto.Qltb in E.
  - apply negb_true_iff in E. assert (L : AEI_THRESHOLD < mean_q noise).
    { destruct (Qlt_le_dec AEI_THRESHOLD (mean_q noise)) as [L|L]; [exact L|]. apply Qle_bool_iff in L. congruence. }
    repeat split; intros; try discriminate; try reflexivity; try exact L;
      repeat match goal with H : _ /\ _ |- _ => destruct H end; try discriminate.
    exfalso. eapply Qlt_not_le; eassumption.
  - apply negb_false_iff in E. apply Qle_bool_iff in E.
    repeat split; intros; try discriminate; try reflexivity; try exact E;
      repeat match goal with H : _ /\ _ |- _ => destruct H end; try discriminate.
    exfalso. eapply Qlt_not_le; eassumption.
Qed.

Theorem af_choice_law r d : wire r = Some d ->
  exists pend, encode_rows (q_dom r) (has_tasks r) (q_pending r) (q_pending_costs r) = Some pend /\
  let par := use_qei r pend in
  let fm := negb (Nat.eqb (length (a_pfs d)) 0) in
  let noise := pred_noise (a_gps d) (a_weights d) in
  (par = true <-> q_par r = QEI /\ q_pending r <> []) /\
  (fm = false <-> q_con_ix r = [] /\ forall om cm eps, q_info r <> EpsC om cm eps) /\
  (a_kind d = AfQEI <-> par = true /\ fm = false) /\ (a_kind d = AfQEIF <-> par = true /\ fm = true) /\
  (a_kind d = AfEIF <-> par = false /\ fm = true) /\
  (a_kind d = AfAEI <-> par = false /\ fm = false /\ AEI_THRESHOLD < mean_q noise) /\
  (a_kind d = AfEI <-> par = false /\ fm = false /\ mean_q noise <= AEI_THRESHOLD) /\
  a_pending d = (if par then pend else []) /\
  a_batch d = (if par then Z.min (q_max_af r) MAX_QEI_POINTS else q_max_af r) /\
  a_best d = match a_kind d with AfEI | AfQEI => min_q (pred_vals (a_gps d) (a_weights d)) | _ => None end.
Proof.
  intros H. destruct (wire_inv r d H) as (Hs & Hi & o & pts & pend & ev & gs & ws & pf1 & pf2 & Ho & Ep & Epe & Eev & Hm & H1 & H2 &
    Ag & Aw & Ap & Ae & Ac & Ak & Apd & Ab & _ & Abest).
  exists pend. split; [exact Epe|]. intros par fm noise.
  destruct (shape_lengths r Hs) as (Lv & Lw & Lf & _).
  destruct (encode_rows_spec _ _ _ _ _ Ep) as [Lp _]. destruct (encode_rows_spec _ _ _ _ _ Epe) as [Lpe _].
  assert (Lfv : length (q_fails r) = length (q_values r)) by lia.
  assert (Lo : length pts = length (v_values o)).
  { rewrite (preprocess_rows _ _ _ _ _ _ o Lfv (opt_of_pre r o Ho)). lia. }
  split.
  { subst par. unfold use_qei. destruct (q_par r).
    - split; [discriminate|intros [? _]; discriminate].
    - split.
      + intro E. split; [reflexivity|]. intro E0. rewrite E0 in Lpe. simpl in Lpe. rewrite Lpe in E. discriminate.
      + intros [_ Hn]. destruct pend; [|reflexivity]. simpl in Lpe. destruct (q_pending r); [contradiction|discriminate]. }
  split.
  { subst fm. rewrite Ap.
    destruct (eps_pfs_origin r o pts pend pf1 Ho Hi Lo H1) as [_ M1].
    assert (L2 : length pf2 = length (q_con_ix r)).
    { destruct (con_pfs_origin r pts pend pf2 H2) as [[E0 ->]|(_ & c & _ & Hlen & _)]; [rewrite E0; reflexivity|exact Hlen]. }
    rewrite app_length, L2. split.
    - intro E. apply negb_false_iff in E. apply Nat.eqb_eq in E.
      split; [destruct (q_con_ix r); [reflexivity|simpl in E; lia]|].
      intros om cm eps Ei. rewrite Ei in M1. destruct M1 as (p & Hp & _). destruct pf1; [contradiction|simpl in E; lia].
    - intros [E0 Hn]. rewrite E0. destruct (q_info r) as [|om cm|w0 w1|om cm eps]; try (rewrite M1; reflexivity).
      exfalso. apply (Hn om cm eps). reflexivity. }
  subst gs ws. rewrite <- Ap in Ak.
  change (a_kind d = choose_af par fm noise) in Ak.
  destruct (choose_af_spec par fm noise) as (C1 & C2 & C3 & C4 & C5). cbv zeta in C1, C2, C3, C4, C5.
  rewrite <- Ak in C1, C2, C3, C4, C5.
  split; [exact C1|]. split; [exact C2|]. split; [exact C3|]. split; [exact C4|]. split; [exact C5|].
  split; [exact Apd|]. split; [exact Ab|]. exact Abest.
Qed.

(* ------------------------------------------------------------------------------------------ encoding and cost division *)
Theorem encoding_law r d : wire r = Some d ->
  length (a_eval d) = length (q_eval r) /\ a_cost d = has_tasks r /\
  forall k, (k < length (q_eval r))%nat ->
    let p := nth k (q_eval r) [] in
    let c := if has_tasks r then Some (nth k (q_eval_costs r) 0) else None in
    nth k (a_eval d) [] = encode_with_task (q_dom r) p c /\
    encode_ok (comps (q_dom r)) p = true /\
    (has_tasks r = true -> last (nth k (a_eval d) []) 1 = nth k (q_eval_costs r) 0) /\
    (wf_domain (q_dom r) = true -> Admissible (q_dom r) p ->
       exists q, decode_det (q_dom r) (firstn (one_hot_dim (comps (q_dom r))) (nth k (a_eval d) [])) = Some q /\ peq q p).
Proof.
  intros H. destruct (wire_inv r d H) as (_ & _ & o & pts & pend & ev & gs & ws & pf1 & pf2 & _ & _ & _ & Eev & _ & _ & _ &
    _ & _ & _ & Ae & Ac & _).
  destruct (encode_rows_spec _ _ _ _ _ Eev) as [Le Hn]. rewrite Ae. split; [exact Le|]. split; [exact Ac|].
  intros k Hk p c. destruct (Hn k Hk) as (_ & Hok & _ & Hrow). fold p in Hok, Hrow. fold c in Hrow.
  split; [exact Hrow|]. split; [exact Hok|]. split.
  - intro Ht. rewrite Hrow. subst c. rewrite Ht. simpl. apply last_last.
  - intros Hwf Hadm. destruct (Proofs.Decode.round_roundtrip (q_dom r) p Hwf Hadm) as (q & Hq & Hpq & _ & Hlen).
    exists q. split; [|exact Hpq]. rewrite Hrow. subst c. unfold encode_with_task.
    destruct (has_tasks r).
    + rewrite (Proofs.Decode.firstn_app_len _ _ _ Hlen). exact Hq.
    + rewrite <- Hlen. rewrite firstn_all. exact Hq.
Qed.

Theorem cost_division_law r d af : wire r = Some d -> length af = length (q_eval r) ->
  (has_tasks r = false -> finalize d af = af) /\
  (has_tasks r = true -> length (finalize d af) = length af /\
     forall k, (k < length af)%nat -> nth k (finalize d af) 0 = nth k af 0 / nth k (q_eval_costs r) 0).
Proof.
  intros H L. destruct (encoding_law r d H) as (Le & Ac & Hn). unfold finalize. rewrite Ac. split.
  - intros ->. reflexivity.
  - intros Ht. rewrite Ht. split.
    + rewrite Proofs.Midpoint.length_map2. lia.
    + intros k Hk. rewrite (Proofs.Midpoint.nth_map2 _ af (a_eval d) k 0 [] 0) by lia.
      destruct (Hn k ltac:(lia)) as (_ & _ & Hl & _). rewrite (Hl Ht). reflexivity.
Qed.

(* sign_and_scale: the scaling object of values_law is C12's, so C12's order law holds for the values each Gaussian process
   receives: better in the user's sense <-> strictly smaller after scaling, for both objectives *)
Theorem sign_and_scale_law r d g : wire r = Some d -> In g (all_gps d) ->
  let m := g_metric g in
  exists i, smmi (column m (q_values r)) (q_fails r) (nth m (q_objs r) NoObjective) = Some i /\
    forall a b, Proofs.Midpoint.better (nth m (q_objs r) NoObjective) a b <-> rel_value i a < rel_value i b.
Proof.
  intros H Hg m. destruct (values_law r d g H Hg) as (pts & pend & i & l & _ & _ & Hsm & _).
  exists i. split; [exact Hsm|]. intros a b. exact (Proofs.Midpoint.order_law_c _ _ _ i a b Hsm).
Qed.
