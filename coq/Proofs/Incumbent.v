From Coq Require Import List QArith Bool Arith Lia.
From LV Require Import Model.Pareto Model.Incumbent Proofs.Pareto.
Import ListNotations.
Open Scope Q_scope.

(* a pointwise function applied batch by batch is the map: the value does not depend on the batch size *)
Lemma batched_is_map {A B} (g : A -> B) : forall fuel bs pts, (0 < bs)%nat -> (length pts <= fuel)%nat ->
  batched (map g) bs fuel pts = map g pts.
Proof.
  induction fuel as [|fuel IH]; intros bs pts Hbs Hlen.
  - destruct pts; [reflexivity|simpl in Hlen; lia].
  - destruct pts as [|x pts]; [reflexivity|]. cbn [batched].
    rewrite IH; [|exact Hbs|].
    + rewrite <- map_app. rewrite firstn_skipn. reflexivity.
    + rewrite skipn_length. cbn [length] in *. lia.
Qed.

Theorem batched_eval_is_map {A B} (g : A -> B) (b : option nat) (pts : list A) :
  (pts <> [] \/ exists k, b = Some (S k)) ->
  evaluate_at_point_list (map g) b pts = Some (map g pts).
Proof.
  intros H. unfold evaluate_at_point_list.
  set (bs := match b with Some b0 => if Nat.eqb b0 0 then length pts else b0 | None => length pts end).
  assert (Hbs : (0 < bs)%nat).
  { unfold bs. destruct H as [H|(k & ->)]; [|simpl; lia].
    assert (0 < length pts)%nat by (destruct pts; [congruence|simpl; lia]).
    destruct b as [b0|]; [|lia]. destruct (Nat.eqb_spec b0 0); lia. }
  destruct (Nat.eqb_spec bs 0) as [E|E]; [lia|].
  rewrite batched_is_map; [reflexivity|lia|lia].
Qed.

(* the plain incumbent is the value at the first minimum *)
Theorem incumbent_plain_spec vals : vals <> [] ->
  let '(i, v) := incumbent_plain vals in
  (i < length vals)%nat /\ v = nth i vals 0 /\ (forall k, (k < length vals)%nat -> v <= nth k vals 0) /\
  (forall k, (k < i)%nat -> v < nth k vals 0).
Proof.
  intros H. unfold incumbent_plain. pose proof (argmin_first_min vals 0 H) as (H1 & H2 & H3). repeat split; assumption.
Qed.

(* the augmented-EI incumbent is the mean at the first minimum of mean + q * sd *)
Theorem incumbent_aei_spec q means sds : means <> [] -> length means = length sds ->
  let '(i, v) := incumbent_aei q means sds in
  (i < length means)%nat /\ v = nth i means 0 /\
  (forall k, (k < length means)%nat -> nth i means 0 + q * nth i sds 0 <= nth k means 0 + q * nth k sds 0).
Proof.
  intros H Hl. unfold incumbent_aei.
  set (qs := map (fun p => fst p + q * snd p) (combine means sds)).
  assert (Hq : qs <> []) by (unfold qs; destruct means, sds; simpl in *; try congruence; discriminate).
  assert (Hlen : length qs = length means) by (unfold qs; rewrite map_length, combine_length; lia).
  assert (Hnth : forall k, (k < length means)%nat -> nth k qs 0 = nth k means 0 + q * nth k sds 0).
  { intros k Hk. unfold qs. rewrite nth_indep with (d' := (fun p => fst p + q * snd p) (0, 0)) by (rewrite map_length, combine_length; lia).
    rewrite (map_nth (fun p => fst p + q * snd p)). rewrite combine_nth by exact Hl. reflexivity. }
  pose proof (argmin_first_min qs 0 Hq) as (H1 & H2 & _). rewrite Hlen in H1, H2.
  repeat split; [exact H1|]. intros k Hk. rewrite <- !Hnth by assumption. apply H2. exact Hk.
Qed.
