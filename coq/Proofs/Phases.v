(* C14: phase selectors are total and monotone; fractions, weights and epsilon lie in their ranges. *)
From Coq Require Import List QArith ZArith Bool Qround Lia Lra Psatz.
From LV Require Import Model.Pareto Proofs.Pareto Model.Phases.
Import ListNotations.
Open Scope Q_scope.

(* ------------------------------------------------------------------ boolean comparisons *)
Lemma Qle_bool_false a b : Qle_bool a b = false -> b < a.
Proof.
  intros H. destruct (Qlt_le_dec b a) as [L|L]; [exact L|]. apply Qle_bool_iff in L. congruence.
Qed.

Ltac qbool :=
  repeat match goal with
  | H : Qle_bool _ _ = true |- _ => apply Qle_bool_iff in H
  | H : Qle_bool _ _ = false |- _ => apply Qle_bool_false in H
  | H : Qltb _ _ = true |- _ => apply Qltb_lt in H
  | H : Qltb _ _ = false |- _ => apply Qltb_ge in H
  | H : _ || _ = true |- _ => apply orb_true_iff in H
  | H : _ || _ = false |- _ => apply orb_false_iff in H; destruct H
  | H : _ && _ = true |- _ => apply andb_true_iff in H; destruct H
  | H : _ && _ = false |- _ => apply andb_false_iff in H
  | H : negb _ = true |- _ => apply negb_true_iff in H
  | H : negb _ = false |- _ => apply negb_false_iff in H
  end.

Ltac qsplit := qbool; repeat (match goal with H : _ \/ _ |- _ => destruct H end; qbool).

Ltac norm_hyps := repeat match goal with
  | H : _ /\ _ |- _ => destruct H
  | H : ~ (_ \/ _) |- _ => apply Decidable.not_or in H
  | H : ~ (_ <= _) |- _ => apply Qnot_le_lt in H
  | H : _ \/ _ |- _ => destruct H
  end.
Ltac norm_goal := repeat match goal with
  | |- _ /\ _ => split
  | |- ~ _ => intro
  end.

(* ------------------------------------------------------------------ the adjusted budget *)
Lemma adjusted_pos b f o : (1 <= adjusted_budget b f o)%Z.
Proof. unfold adjusted_budget. lia. Qed.

Lemma qz_pos d : (1 <= d)%Z -> 0 < qz d.
Proof. intros H. unfold qz. change 0 with (inject_Z 0). rewrite <- Zlt_Qlt. lia. Qed.

Lemma frac_mono (a a' d : Z) : (1 <= d)%Z -> (a <= a')%Z -> qz a / qz d <= qz a' / qz d.
Proof.
  intros Hd Ha. unfold Qdiv. apply Qmult_le_compat_r.
  - unfold qz. rewrite <- Zle_Qle. exact Ha.
  - apply Qinv_le_0_compat. apply Qlt_le_weak, qz_pos, Hd.
Qed.

(* ------------------------------------------------------------------ identify_multimetric_phase *)
Lemma mstage_ix_nonneg s : (0 <= mstage_ix s)%Z.
Proof. destruct s; cbn; lia. Qed.

Ltac unfold_fracs :=
  unfold INITIALIZE_FRAC, COMPLETED_FLOOR, OPTIMIZE_ONE_METRIC_FRAC, CONVEX_RANDOM_FRAC, CONVEX_SPREAD_FRAC,
         POLISH_ONE_METRIC_FRAC, EPSILON_CONSTRAINT_FRAC in *.

Lemma mm_stage_of_mono thr x y p q : x <= y -> p <= q ->
  (mstage_ix (fst (mm_stage_of thr x p)) <= mstage_ix (fst (mm_stage_of thr y q)))%Z.
Proof.
  intros Hxy Hpq. unfold mm_stage_of. destruct thr; unfold_fracs; unfold CONVEX_SPREAD_FRAC;
  repeat match goal with |- context [if ?b then _ else _] => destruct b eqn:? end; cbn; try lia;
  exfalso; qsplit; lra.
Qed.

Theorem mm_stage_monotone thr b f o c c' : (c <= c')%Z ->
  (mstage_ix (fst (mm_stage thr b c f o)) <= mstage_ix (fst (mm_stage thr b c' f o)))%Z.
Proof.
  intros Hc. unfold mm_stage. apply mm_stage_of_mono; unfold fraction_served, fraction_completed;
  apply frac_mono; try apply adjusted_pos; lia.
Qed.

(* the keyword argument exists exactly for the three phases that read it, and it is a fraction in [0, 1] *)
Definition needs_fraction (s : mstage) : bool := match s with MRandom | MSeq | MEps => true | _ => false end.

Lemma mm_stage_of_fraction thr x p :
  match snd (mm_stage_of thr x p) with
  | Some cf => needs_fraction (fst (mm_stage_of thr x p)) = true /\ 0 < cf <= 1
  | None => needs_fraction (fst (mm_stage_of thr x p)) = false
  end.
Proof.
  unfold mm_stage_of. destruct thr; unfold_fracs; unfold CONVEX_SPREAD_FRAC;
  repeat match goal with |- context [if ?b then _ else _] => destruct b eqn:? end; cbn [fst snd needs_fraction];
  try reflexivity; (split; [reflexivity|]); qbool.
  all: match goal with |- 0 < ?n / ?d <= 1 =>
         let dv := fresh "dv" in
         assert (dv : 0 < d) by (unfold Qlt; cbn; lia);
         split; [apply Qlt_shift_div_l; [exact dv|lra] | apply Qle_shift_div_r; [exact dv|lra]] end.
Qed.

Theorem mm_phase_total thr b c f o :
  (1 <= adjusted_budget b f o)%Z /\
  match snd (mm_stage thr b c f o) with
  | Some cf => needs_fraction (fst (mm_stage thr b c f o)) = true /\ 0 < cf <= 1
  | None => needs_fraction (fst (mm_stage thr b c f o)) = false
  end.
Proof. split; [apply adjusted_pos|apply mm_stage_of_fraction]. Qed.

(* the stage is initialisation exactly while at most 15% is served or at most 10% completed; afterwards the stage
   is the position of the served fraction among the documented fractions *)
Theorem mm_stage_table thr b c f o :
  let fs := fraction_served b c f o in let fc := fraction_completed b c f o in
  let s := fst (mm_stage thr b c f o) in
  (s = MInit <-> fs <= 15#100 \/ fc <= 1#10) /\
  (s = MOptOne <-> ~ (fs <= 15#100 \/ fc <= 1#10) /\ fs <= 30#100) /\
  (s = MRandom <-> ~ fc <= 1#10 /\ 30#100 < fs <= 45#100) /\
  (s = MSeq <-> ~ fc <= 1#10 /\ 45#100 < fs <= 55#100) /\
  (s = MPolish <-> ~ fc <= 1#10 /\ 55#100 < fs <= POLISH_ONE_METRIC_FRAC thr) /\
  (s = MEps <-> ~ fc <= 1#10 /\ POLISH_ONE_METRIC_FRAC thr < fs <= 95#100) /\
  (s = MCompletion <-> ~ fc <= 1#10 /\ 95#100 < fs).
Proof.
  cbv zeta. unfold mm_stage. generalize (fraction_served b c f o) (fraction_completed b c f o). intros x p.
  unfold mm_stage_of. destruct thr; unfold_fracs; unfold CONVEX_SPREAD_FRAC;
  repeat match goal with |- context [if ?b then _ else _] => destruct b eqn:? end; cbn [fst];
  qsplit; repeat (match goal with |- _ /\ _ => split end);
  (split; [intros E; try discriminate E; clear E; norm_goal; norm_hyps; try lra; try (left; lra); try (right; lra)
          |intros A; try reflexivity; exfalso; norm_hyps; lra]).
Qed.

(* ------------------------------------------------------------------ identify_search_phase *)
Theorem search_phase_monotone b o f c c' : (c <= c')%Z ->
  (sphase_ix (search_phase b c o f) <= sphase_ix (search_phase b c' o f))%Z.
Proof.
  intros Hc. unfold search_phase, fraction_served.
  assert (Hm := frac_mono (c + o) (c' + o) _ (adjusted_pos b f o) ltac:(lia)).
  revert Hm. generalize (qz (c + o) / qz (adjusted_budget b f o)) (qz (c' + o) / qz (adjusted_budget b f o)).
  intros x y Hm.
  repeat match goal with |- context [if ?b then _ else _] => destruct b eqn:? end; cbn; try lia; exfalso; qbool; lra.
Qed.

Theorem search_phase_table b o f c :
  let fs := fraction_served b c f o in
  (search_phase b c o f = SInit <-> fs <= 2#10) /\
  (search_phase b c o f = SExploit <-> 2#10 < fs <= 4#10) /\
  (search_phase b c o f = SResolve <-> 4#10 < fs).
Proof.
  cbv zeta. unfold search_phase. generalize (fraction_served b c f o). intros x.
  repeat match goal with |- context [if ?b then _ else _] => destruct b eqn:? end; qbool;
  repeat split; intros; try discriminate; try reflexivity; try lra.
Qed.

(* ------------------------------------------------------------------ get_experiment_phase *)
Lemma spe_phase_of_mono x y t t' s s' : x <= y -> t <= t' -> s <= s' ->
  (pphase_ix (spe_phase_of x t s) <= pphase_ix (spe_phase_of y t' s'))%Z.
Proof.
  intros Hx Ht Hs. unfold spe_phase_of, INITIALIZATION_PHASE_LIMIT, SKO_PHASE_LIMIT, MINIMUM_SUCCESS_THRESHOLD.
  repeat match goal with |- context [if ?b then _ else _] => destruct b eqn:? end; cbn; try lia; exfalso; qbool;
  repeat match goal with H : _ \/ _ |- _ => destruct H end; qbool; try lra.
Qed.

Lemma proportion_mono f c c' : (0 <= f)%Z -> (0 <= c <= c')%Z -> success_proportion c f <= success_proportion c' f.
Proof.
  intros Hf Hc. unfold success_proportion.
  assert (D : 0 < qz (1 + c)) by (apply qz_pos; lia).
  assert (D' : 0 < qz (1 + c')) by (apply qz_pos; lia).
  assert (F : 0 <= qz f) by (unfold qz; change 0 with (inject_Z 0); rewrite <- Zle_Qle; lia).
  assert (DD : qz (1 + c) <= qz (1 + c')) by (unfold qz; rewrite <- Zle_Qle; lia).
  assert (G : qz f / qz (1 + c') <= qz f / qz (1 + c)).
  { apply Qle_shift_div_r; [exact D'|].
    assert (E : qz f == qz f / qz (1 + c) * qz (1 + c)) by (field; lra).
    assert (N : 0 <= qz f / qz (1 + c)) by (apply Qle_shift_div_l; [exact D|lra]).
    revert E N. generalize (qz f / qz (1 + c)). intros k E N. nra. }
  lra.
Qed.

Theorem spe_phase_monotone b f c c' : (1 <= b)%Z -> (0 <= f)%Z -> (0 <= c <= c')%Z ->
  (pphase_ix (fst (spe_phase b c f)) <= pphase_ix (fst (spe_phase b c' f)))%Z.
Proof.
  intros Hb Hf Hc. unfold spe_phase. cbn [fst]. apply spe_phase_of_mono.
  - unfold success_progress. apply frac_mono; lia.
  - unfold total_progress. apply frac_mono; lia.
  - apply proportion_mono; lia.
Qed.

(* ------------------------------------------------------------------ the budget SPENextPoints.view hands to the selector *)
Definition budget_ok (ob : option Z) : Prop := forall b, ob = Some b -> (0 <= b)%Z.

Lemma spe_view_budget_cases ob dim :
  (forall b, ob = Some b -> (1 <= b)%Z -> spe_view_budget ob dim = b) /\
  (ob = None \/ ob = Some 0%Z -> spe_view_budget ob dim = (50 * dim)%Z).
Proof.
  unfold spe_view_budget, SPE_PHANTOM_BUDGET_FACTOR. split.
  - intros b -> Hb. destruct (b =? 0)%Z eqn:E; [apply Z.eqb_eq in E; lia|reflexivity].
  - intros [->| ->]; [|rewrite Z.eqb_refl]; lia.
Qed.

Lemma spe_view_budget_pos ob dim : (1 <= dim)%Z -> budget_ok ob -> (1 <= spe_view_budget ob dim)%Z.
Proof.
  intros Hd Hb. unfold spe_view_budget, SPE_PHANTOM_BUDGET_FACTOR. destruct ob as [b|]; [|lia].
  specialize (Hb b eq_refl). destruct (b =? 0)%Z eqn:E; [lia|]. apply Z.eqb_neq in E. lia.
Qed.

(* for every request (no budget, budget 0, positive budget; domain of >= 1 parameters) a phase is served, and it is the
   selector's phase at the effective budget: the given one when positive, 50 * dim otherwise *)
Theorem spe_view_phase_total ob dim c f : (1 <= dim)%Z -> budget_ok ob ->
  let eff := match ob with Some b => if (1 <=? b)%Z then b else (50 * dim)%Z | None => (50 * dim)%Z end in
  (1 <= eff)%Z /\ spe_view_phase ob dim c f = Some (spe_phase eff c f).
Proof.
  intros Hd Hb. cbv zeta.
  assert (E : spe_view_budget ob dim = match ob with Some b => if (1 <=? b)%Z then b else (50 * dim)%Z | None => (50 * dim)%Z end).
  { destruct ob as [b|]; [|apply spe_view_budget_cases; left; reflexivity]. specialize (Hb b eq_refl).
    destruct (1 <=? b)%Z eqn:E1.
    - apply Z.leb_le in E1. apply spe_view_budget_cases; [reflexivity|exact E1].
    - apply Z.leb_gt in E1. assert (b = 0%Z) by lia. subst b. apply spe_view_budget_cases. right. reflexivity. }
  pose proof (spe_view_budget_pos ob dim Hd Hb) as P. rewrite E in P. split; [exact P|].
  unfold spe_view_phase. rewrite E.
  match goal with |- context [(?x =? 0)%Z] => destruct (x =? 0)%Z eqn:Z0 end; [apply Z.eqb_eq in Z0; lia|reflexivity].
Qed.

Theorem spe_view_phase_monotone ob dim f c c' : (1 <= dim)%Z -> budget_ok ob -> (0 <= f)%Z -> (0 <= c <= c')%Z ->
  match spe_view_phase ob dim c f, spe_view_phase ob dim c' f with
  | Some (p, _), Some (p', _) => (pphase_ix p <= pphase_ix p')%Z
  | _, _ => False
  end.
Proof.
  intros Hd Hb Hf Hc.
  destruct (spe_view_phase_total ob dim c f Hd Hb) as [P ->]. destruct (spe_view_phase_total ob dim c' f Hd Hb) as [_ ->].
  pose proof (spe_phase_monotone _ f c c' P Hf Hc) as M.
  destruct (spe_phase _ c f) as [p pr]. destruct (spe_phase _ c' f) as [p' pr']. exact M.
Qed.

(* the documented table of the Parzen-estimator selector, as a function of the three fractions *)
Theorem spe_phase_table b c f :
  let sp := success_progress b c f in let tp := total_progress b c in let pr := success_proportion c f in
  let p := fst (spe_phase b c f) in
  (p = PInit <-> sp < 15#100 /\ ~ (30#100 < tp /\ 1#10 < pr)) /\
  (p = PSko <-> ~ (sp < 15#100 /\ ~ (30#100 < tp /\ 1#10 < pr)) /\ sp < 75#100) /\
  (p = PCompletion <-> 75#100 <= sp) /\ snd (spe_phase b c f) = sp.
Proof.
  cbv zeta. unfold spe_phase. cbn [fst snd].
  generalize (success_progress b c f) (total_progress b c) (success_proportion c f). intros x t s.
  unfold spe_phase_of, INITIALIZATION_PHASE_LIMIT, SKO_PHASE_LIMIT, MINIMUM_SUCCESS_THRESHOLD.
  repeat match goal with |- context [if ?b then _ else _] => destruct b eqn:? end; qsplit;
  repeat split; intros; try discriminate; try reflexivity; try lra; try tauto;
  repeat match goal with H : _ /\ _ |- _ => destruct H end; try lra; try (exfalso; tauto).
Qed.

(* gamma stays a proper fraction whenever the failures are among the observations *)
Theorem spe_gamma_range b c f u : (1 <= b)%Z -> (0 <= f <= c)%Z ->
  let '(p, progress) := spe_phase b c f in
  let gamma := fst (spe_solver_options p progress u) in
  6#100 <= gamma <= 11#100 /\ (p <> PSko -> gamma == 6#100 /\ snd (spe_solver_options p progress u) = u).
Proof.
  intros Hb Hf. unfold spe_phase.
  assert (P : 0 <= success_progress b c f).
  { unfold success_progress. apply Qle_shift_div_l; [apply qz_pos; exact Hb|].
    unfold qz. rewrite Qmult_0_l. change 0 with (inject_Z 0). rewrite <- Zle_Qle. lia. }
  revert P. generalize (success_progress b c f) (total_progress b c) (success_proportion c f). intros x t s P.
  unfold spe_phase_of, INITIALIZATION_PHASE_LIMIT, SKO_PHASE_LIMIT, MINIMUM_SUCCESS_THRESHOLD.
  repeat match goal with |- context [if ?b then _ else _] => destruct b eqn:? end;
  cbn [spe_solver_options fst snd]; unfold TOP_GAMMA, BOTTOM_GAMMA, INITIALIZATION_PHASE_LIMIT, SKO_PHASE_LIMIT;
  qsplit; (split; [|intros N; first [congruence | split; reflexivity]]); try lra.
  all: assert (E : (x - (15 # 100)) / ((75 # 100) - (15 # 100)) == (x - (15#100)) * (100#60)) by (field); rewrite E; lra.
Qed.

(* ------------------------------------------------------------------ weight and epsilon tables *)
Definition draws_ok (us : list Q) : Prop := us <> [] /\ forall u, In u us -> 0 <= u < 1.
Definition band (x : Q) : Prop := 1#10 <= x <= 9#10.

Lemma in_band_spec x : in_band x = true <-> band x.
Proof.
  unfold in_band, band, BORDER_BUFFER. rewrite andb_true_iff, !Qle_bool_iff.
  split; intros [A B]; split; lra.
Qed.

Lemma in_unit_spec f : in_unit f = true <-> 0 <= f <= 1.
Proof. unfold in_unit. rewrite andb_true_iff, !Qle_bool_iff. tauto. Qed.

Lemma take_frac_unit f us : draws_ok us -> exists f', take_frac f us = Some f' /\ 0 <= f' <= 1.
Proof.
  intros [Hne Hr]. unfold take_frac. destruct (in_unit f) eqn:E.
  - exists f. split; [reflexivity|apply in_unit_spec; exact E].
  - destruct us as [|u r]; [congruence|]. exists u. split; [reflexivity|].
    destruct (Hr u (or_introl eq_refl)). split; lra.
Qed.

Lemma index_range f : 0 <= f <= 1 -> (0 <= qtrunc (100 * f) <= 100)%Z.
Proof.
  intros [A B]. unfold qtrunc.
  assert (L : 0 <= 100 * f) by lra. assert (U : 100 * f <= 100) by lra.
  apply Qle_bool_iff in L as L'. rewrite L'.
  apply Qfloor_resp_le in L. apply Qfloor_resp_le in U.
  change (Qfloor 0) with 0%Z in L. change (Qfloor 100) with 100%Z in U. lia.
Qed.

Lemma table_lookup t i : halton_ok t = true -> (0 <= i <= 100)%Z ->
  exists w, table_at t i = Some w /\ In w t /\ band w.
Proof.
  intros H Hi. unfold halton_ok in H. apply andb_true_iff in H. destruct H as [Hl Hb].
  apply Nat.eqb_eq in Hl. unfold table_at.
  destruct (i <? 0)%Z eqn:E; [apply Z.ltb_lt in E; lia|].
  destruct (nth_error t (Z.to_nat i)) as [w|] eqn:N.
  - exists w. split; [reflexivity|]. apply nth_error_In in N. split; [exact N|].
    apply in_band_spec. rewrite forallb_forall in Hb. apply Hb. exact N.
  - apply nth_error_None in N. lia.
Qed.

Lemma grid_table_ok : halton_ok grid_table = true.
Proof. vm_compute. reflexivity. Qed.

(* the sequential table is the documented one: 0.1 + 0.8 k / 100 *)
Lemma grid_value k : grid k == (1#10) + (8#10) * (qz (Z.of_nat k) / 100).
Proof. unfold grid, BORDER_BUFFER. field. Qed.

Theorem weights_spec rs halton f us : halton_ok halton = true -> draws_ok us ->
  exists w0 w1, form_weights rs halton f us = Some (w0, w1) /\ band w0 /\ band w1 /\ w0 + w1 == 1 /\
                In w0 (if rs then halton else grid_table).
Proof.
  intros Hh Hu. unfold form_weights.
  destruct (take_frac_unit f us Hu) as (f' & -> & Hf).
  assert (Ht : halton_ok (if rs then halton else grid_table) = true) by (destruct rs; [exact Hh|apply grid_table_ok]).
  destruct (table_lookup _ _ Ht (index_range f' Hf)) as (w & -> & Hin & Hw).
  exists w, (1 - w). unfold band in *. repeat split; try lra. exact Hin.
Qed.

Theorem epsilon_spec f us : draws_ok us -> exists e, form_epsilon f us = Some e /\ band e /\ In e grid_table.
Proof.
  intros Hu. unfold form_epsilon. destruct (take_frac_unit f us Hu) as (f' & -> & Hf).
  destruct (table_lookup _ _ grid_table_ok (index_range f' Hf)) as (w & -> & Hin & Hw).
  exists w. repeat split; try apply Hw. exact Hin.
Qed.

(* in range, the table index is floor(100 f): the fraction selects the cell it lies in *)
Theorem index_is_cell f : 0 <= f <= 1 ->
  let k := qtrunc (100 * f) in qz k <= 100 * f < qz k + 1.
Proof.
  intros [A B]. cbv zeta. unfold qtrunc. assert (L : 0 <= 100 * f) by lra.
  apply Qle_bool_iff in L. rewrite L. unfold qz. split; [apply Qfloor_le|].
  assert (H := Qlt_floor (100 * f)). rewrite inject_Z_plus in H. exact H.
Qed.

(* ------------------------------------------------------------------ form_multimetric_info_from_phase *)
Definition metric_pair (om cm : nat) : Prop := (om = 0 /\ cm = 1)%nat \/ (om = 1 /\ cm = 0)%nat.
Definition info_ok (i : minfo) : Prop :=
  match i with
  | NotMM => True
  | OptOne om cm => metric_pair om cm
  | Convex w0 w1 => band w0 /\ band w1 /\ w0 + w1 == 1
  | EpsC om cm e => metric_pair om cm /\ band e
  end.

Lemma metric_pair_b om cm :
  (Nat.eqb om 0 && Nat.eqb cm 1) || (Nat.eqb om 1 && Nat.eqb cm 0) = true <-> metric_pair om cm.
Proof.
  unfold metric_pair. rewrite orb_true_iff, !andb_true_iff, !Nat.eqb_eq. tauto.
Qed.

Lemma info_ok_b_spec i : info_ok_b i = true <-> info_ok i.
Proof.
  destruct i as [|om cm|w0 w1|om cm e]; cbn [info_ok_b info_ok].
  - tauto.
  - apply metric_pair_b.
  - unfold weights_ok_b. rewrite !andb_true_iff, !in_band_spec, Qeq_bool_iff. tauto.
  - rewrite andb_true_iff, in_band_spec, metric_pair_b. tauto.
Qed.

(* a label and its keyword argument fit together when the three fraction-reading phases carry a fraction *)
Definition kw_fits (l : mlabel) (kw : option Q) : Prop :=
  match l with LRandom | LSeq | LEps0 | LEps1 => kw <> None | _ => True end.

Theorem info_from_phase_spec l kw pick us halton : halton_ok halton = true -> draws_ok us -> kw_fits l kw ->
  exists i, info_from_phase l kw pick us halton = Some i /\ info_ok i.
Proof.
  intros Hh Hu Hk.
  assert (MP01 : metric_pair 0 1) by (left; split; reflexivity).
  assert (MP10 : metric_pair 1 0) by (right; split; reflexivity).
  destruct l; cbn [info_from_phase kw_fits] in *.
  - exists NotMM. split; [reflexivity|exact I].
  - destruct pick; eexists; (split; [reflexivity|]); cbn; assumption.
  - eexists; (split; [reflexivity|]); cbn; assumption.
  - eexists; (split; [reflexivity|]); cbn; assumption.
  - destruct kw as [f|]; [|congruence].
    destruct (weights_spec true halton f us Hh Hu) as (w0 & w1 & -> & B0 & B1 & S & _).
    exists (Convex w0 w1). split; [reflexivity|]. cbn. tauto.
  - destruct kw as [f|]; [|congruence].
    destruct (weights_spec false halton f us Hh Hu) as (w0 & w1 & -> & B0 & B1 & S & _).
    exists (Convex w0 w1). split; [reflexivity|]. cbn. tauto.
  - destruct kw as [f|]; [|congruence].
    destruct (epsilon_spec f us Hu) as (e & -> & B & _). eexists. split; [reflexivity|]. cbn. tauto.
  - destruct kw as [f|]; [|congruence].
    destruct (epsilon_spec f us Hu) as (e & -> & B & _). eexists. split; [reflexivity|]. cbn. tauto.
  - destruct Hu as [Hne Hr]. destruct us as [|u us']; [congruence|].
    assert (Hu1 : 0 <= u <= 1) by (destruct (Hr u (or_introl eq_refl)); split; lra).
    unfold form_epsilon, take_frac. apply in_unit_spec in Hu1 as Hu2. rewrite Hu2.
    destruct (table_lookup _ _ grid_table_ok (index_range u Hu1)) as (w & -> & Hin & Hw).
    destruct pick; eexists; (split; [reflexivity|]); cbn; tauto.
Qed.

Lemma mm_phase_kw_fits thr b c f o : kw_fits (fst (mm_phase thr b c f o)) (snd (mm_phase thr b c f o)).
Proof.
  unfold mm_phase. destruct (mm_phase_total thr b c f o) as [_ H].
  destruct (mm_stage thr b c f o) as [s kw]. cbn [fst snd] in *.
  destruct kw as [cf|].
  - destruct s; cbn in *; try (destruct H; discriminate); try destruct (Z.odd c); cbn; congruence.
  - destruct s; cbn in *; try discriminate; try destruct (Z.odd c); cbn; exact I.
Qed.

(* every request of every size gets a well-formed multimetric_info *)
Theorem schedule_spec rp thr b c f o pick us halton : halton_ok halton = true -> draws_ok us ->
  exists i, view_info rp thr b c f o pick us halton = Some i /\ info_ok i.
Proof.
  intros Hh Hu. unfold view_info. destruct rp; cbn [negb].
  - assert (K := mm_phase_kw_fits thr b c f o). destruct (mm_phase thr b c f o) as [l kw].
    apply info_from_phase_spec; assumption.
  - exists NotMM. split; [reflexivity|exact I].
Qed.

(* which metric is optimised alternates with the parity of the observation count *)
Theorem mm_label_parity thr b c f o :
  let l := fst (mm_phase thr b c f o) in
  (l = LOpt1 \/ l = LEps1 -> Z.odd c = true) /\ (l = LOpt0 \/ l = LEps0 -> Z.odd c = false).
Proof.
  cbv zeta. unfold mm_phase. destruct (mm_stage thr b c f o) as [s kw]. cbn [fst].
  destruct s; cbn; destruct (Z.odd c); split; intros [E|E]; congruence.
Qed.

(* ------------------------------------------------------------------ the request-level wiring
   (MetricsInfo.has_optimized_metric_thresholds and View.form_multimetric_info) *)
Definition has_optimized_threshold (thr : list (option Q)) (optimized : list nat) : Prop :=
  exists i t, In i optimized /\ nth_error thr i = Some (Some t).
Definition in_range (thr : list (option Q)) (optimized : list nat) : Prop :=
  forall i, In i optimized -> (i < length thr)%nat.

Lemma optimized_threshold_b_spec thr opt : optimized_threshold_b thr opt = true <-> has_optimized_threshold thr opt.
Proof.
  unfold optimized_threshold_b, has_optimized_threshold. rewrite existsb_exists. split.
  - intros (i & Hin & H). destruct (nth_error thr i) as [[t|]|] eqn:E; try discriminate. exists i, t. split; assumption.
  - intros (i & t & Hin & E). exists i. split; [exact Hin|]. rewrite E. reflexivity.
Qed.

Lemma columns_in_range_spec thr opt : columns_in_range thr opt = true <-> in_range thr opt.
Proof.
  unfold columns_in_range, in_range. rewrite forallb_forall. split; intros H i Hi; specialize (H i Hi).
  - apply Nat.ltb_lt. exact H.
  - apply Nat.ltb_lt. exact H.
Qed.

Lemma any_threshold_at_spec thr : forall opt, in_range thr opt ->
  any_threshold_at thr opt = Some (optimized_threshold_b thr opt).
Proof.
  induction opt as [|i r IH]; intros Hr; [reflexivity|].
  cbn [any_threshold_at optimized_threshold_b existsb].
  assert (Hi : (i < length thr)%nat) by (apply Hr; left; reflexivity).
  destruct (nth_error thr i) as [[t|]|] eqn:E.
  - reflexivity.
  - cbn [orb]. apply IH. intros j Hj. apply Hr. right. exact Hj.
  - apply nth_error_None in E. lia.
Qed.

(* the flag the request hands to the phase selector is "some optimised metric COLUMN carries a threshold": thresholds of
   constraint or stored metrics, wherever their columns are, are not consulted *)
Theorem has_thresholds_spec thr opt : in_range thr opt ->
  exists flag, has_optimized_metric_thresholds thr opt = Some flag /\ (flag = true <-> has_optimized_threshold thr opt).
Proof.
  intros Hr. exists (optimized_threshold_b thr opt). split; [|apply optimized_threshold_b_spec].
  unfold has_optimized_metric_thresholds. destruct opt as [|i r]; [reflexivity|]. apply any_threshold_at_spec. exact Hr.
Qed.

(* the flag depends only on the entries at the optimised columns, not on the order in which the columns are listed *)
Theorem has_thresholds_only_optimized_columns thr thr' opt opt' : in_range thr opt -> in_range thr' opt' ->
  (forall i, In i opt <-> In i opt') ->
  (forall i, In i opt -> (nth_error thr i = Some None <-> nth_error thr' i = Some None)) ->
  has_optimized_metric_thresholds thr opt = has_optimized_metric_thresholds thr' opt'.
Proof.
  intros Hr Hr' Hsame Hagree.
  destruct (has_thresholds_spec thr opt Hr) as (b & -> & Hb).
  destruct (has_thresholds_spec thr' opt' Hr') as (b' & -> & Hb').
  f_equal. apply eq_true_iff_eq. rewrite Hb, Hb'. unfold has_optimized_threshold.
  split; intros (i & t & Hin & E).
  - assert (Hi' : In i opt') by (apply Hsame; exact Hin).
    destruct (nth_error thr' i) as [[t'|]|] eqn:E'.
    + exists i, t'. split; assumption.
    + apply (Hagree i Hin) in E'. congruence.
    + apply nth_error_None in E'. specialize (Hr' i Hi'). lia.
  - assert (Hi : In i opt) by (apply Hsame; exact Hin).
    destruct (nth_error thr i) as [[t'|]|] eqn:E'.
    + exists i, t'. split; assumption.
    + apply (Hagree i Hi) in E'. congruence.
    + apply nth_error_None in E'. specialize (Hr i Hi). lia.
Qed.

(* the phase of a request is the phase selector applied to the documented flags and counts *)
Theorem request_phase_documented r : in_range (rq_thresholds r) (rq_optimized r) ->
  exists flag, (flag = true <-> has_optimized_threshold (rq_thresholds r) (rq_optimized r)) /\
    request_phase r =
      Some (if rq_pareto r
            then mm_phase flag (rq_budget r) (Z.of_nat (length (rq_failures r))) (Z.of_nat (count_true (rq_failures r)))
                          (match rq_open r with Some k => Z.of_nat k | None => 0%Z end)
            else (LNotMM, None)) /\
    forall pick us halton,
      request_info r pick us halton =
      view_info (rq_pareto r) flag (rq_budget r) (Z.of_nat (length (rq_failures r))) (Z.of_nat (count_true (rq_failures r)))
                (match rq_open r with Some k => Z.of_nat k | None => 0%Z end) pick us halton.
Proof.
  intros Hr. destruct (has_thresholds_spec _ _ Hr) as (flag & E & Hflag).
  exists flag. split; [exact Hflag|].
  unfold request_info, request_phase, view_info, rq_count, rq_failure_count, rq_open_count. rewrite E.
  destruct (rq_pareto r); cbn [negb]; split; try reflexivity; intros pick us halton; reflexivity.
Qed.

(* every request of every shape gets a well-formed multimetric_info *)
Theorem request_schedule_spec r pick us halton : in_range (rq_thresholds r) (rq_optimized r) ->
  halton_ok halton = true -> draws_ok us ->
  exists i, request_info r pick us halton = Some i /\ info_ok i.
Proof.
  intros Hr Hh Hu. destruct (request_phase_documented r Hr) as (flag & _ & _ & ->).
  apply schedule_spec; assumption.
Qed.

(* the pair of boundaries that depends on the flag: with more than 10 % completed and the served fraction in (55 %, 65 %] a
   request polishes one metric exactly when no optimised column carries a threshold, and is in the epsilon-constraint phase
   otherwise *)
Theorem request_polish_window r : in_range (rq_thresholds r) (rq_optimized r) -> rq_pareto r = true ->
  let fs := fraction_served (rq_budget r) (rq_count r) (rq_failure_count r) (rq_open_count r) in
  let fc := fraction_completed (rq_budget r) (rq_count r) (rq_failure_count r) (rq_open_count r) in
  55#100 < fs <= 65#100 -> ~ fc <= 1#10 ->
  exists l kw, request_phase r = Some (l, kw) /\
    (has_optimized_threshold (rq_thresholds r) (rq_optimized r) -> (l = LEps0 \/ l = LEps1) /\ kw <> None) /\
    (~ has_optimized_threshold (rq_thresholds r) (rq_optimized r) -> (l = LOpt0 \/ l = LOpt1) /\ kw = None).
Proof.
  intros Hr Hp. cbv zeta. intros Hfs Hfc.
  destruct (has_thresholds_spec _ _ Hr) as (flag & E & Hflag).
  unfold request_phase. rewrite Hp, E. cbn [negb].
  pose proof (mm_stage_table flag (rq_budget r) (rq_count r) (rq_failure_count r) (rq_open_count r)) as T. cbv zeta in T.
  destruct T as (_ & _ & _ & _ & TP & TE & _).
  pose proof (mm_phase_total flag (rq_budget r) (rq_count r) (rq_failure_count r) (rq_open_count r)) as [_ Tot].
  unfold mm_phase. destruct (mm_stage flag _ _ _ _) as [s kw] eqn:Es. cbn [fst snd] in *.
  exists (mm_label s (rq_count r)), kw. split; [reflexivity|]. split.
  - intros H. apply Hflag in H. subst flag. cbn [POLISH_ONE_METRIC_FRAC] in TE. unfold CONVEX_SPREAD_FRAC in TE.
    assert (Hs : s = MEps) by (apply TE; split; [exact Hfc|split; lra]). subst s. cbn [mm_label needs_fraction] in *.
    split; [destruct (Z.odd _); auto|]. destruct kw; [discriminate|discriminate Tot].
  - intros H. assert (flag = false) by (destruct flag; [exfalso; apply H, Hflag; reflexivity|reflexivity]). subst flag.
    cbn [POLISH_ONE_METRIC_FRAC] in TP.
    assert (Hs : s = MPolish) by (apply TP; split; [exact Hfc|split; lra]). subst s. cbn [mm_label needs_fraction] in *.
    split; [destruct (Z.odd _); auto|]. destruct kw as [cf|]; [destruct Tot; discriminate|reflexivity].
Qed.
