(* The failure model of the search endpoints - a product of normal-CDF models over the definitions regenerated from
   probabilistic_failures.py - takes values in [0,1] (every factor in (0,1)): uses 0 < Phi < 1 from Lib/Gauss.v. *)
From Coq Require Import Reals Lra.
From LV Require Import Lib.RBase Gen.GenAcq Proofs.Acq Proofs.AcqGauss.
Open Scope R_scope.

Lemma cdf_product_range nq dim x (mean var : nat -> nat -> R) gmean gvar (thr : nat -> R) i :
  0 <= Product.value nq (fun q i => CDF.value dim x (mean q) (var q) gmean gvar (thr q) i) i <= 1.
Proof.
  apply product_model_range. intros q _.
  pose proof (cdf_model_range_unconditional dim x (mean q) (var q) gmean gvar (thr q) i). lra.
Qed.

Lemma cdf_failure_model_is_probability nq dim x (mean var : nat -> nat -> R) gmean gvar (thr : nat -> R) i :
  (forall q, 0 < CDF.value dim x (mean q) (var q) gmean gvar (thr q) i < 1) /\
  0 <= Product.value nq (fun q i => CDF.value dim x (mean q) (var q) gmean gvar (thr q) i) i <= 1.
Proof.
  split; [intros q; exact (cdf_model_range_unconditional dim x (mean q) (var q) gmean gvar (thr q) i)
         |exact (cdf_product_range nq dim x mean var gmean gvar thr i)].
Qed.
