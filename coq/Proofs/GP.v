(* C02 / C11 / C17: theorems about the GP linear-algebra dataflow REGENERATED from gaussian_process.py,
   gaussian_process_sum.py and log_likelihood.py (coq/Gen/GenGP.v), over an abstract real field.
   LAPACK calls carry their exact-arithmetic meaning (Lib/MxAux.v); the Cholesky factor is a contract. *)
From mathcomp Require Import all_ssreflect all_fingroup all_algebra.
From LV Require Import Lib.MxAux Gen.GenGP.
Set Implicit Arguments. Unset Strict Implicit. Unset Printing Implicit Defensive.
Import Order.TTheory GRing.Theory Num.Theory.
Local Open Scope ring_scope.

(* ------------------------------------------------------------------ generic facts, for any invertible K *)
Section Generic.
Variable F : realFieldType.
Variables n m p : nat.
Variables (K : 'M[F]_n) (P : 'M[F]_(n,p)) (y : 'cV[F]_n).
Hypothesis Ku : K \in unitmx.

Let K_inv_y := cho_solve K y.
Let K_inv_P := cho_solve K P.
Let PKP := P^T *m K_inv_P.
Let b := cho_solve PKP (P^T *m K_inv_y).
Let a := K_inv_y - cho_solve K (P *m b).
Hypothesis PKPu : PKP \in unitmx.

(* universal-kriging saddle point: the closed-form statement of "conditional Gaussian with GLS mean" *)
Lemma saddle1 : K *m a + P *m b = y.
Proof. by rewrite /a /K_inv_y /cho_solve mulmxBr !mulKVmx // subrK. Qed.
Lemma saddle2 : P^T *m a = 0.
Proof.
  rewrite /a mulmxBr /cho_solve.
  rewrite [invmx K *m (P *m _)]mulmxA [P^T *m (_ *m b)]mulmxA.
  rewrite [P^T *m (invmx K *m P)](_ : _ = PKP); last by rewrite /PKP /K_inv_P /cho_solve.
  by rewrite /b /cho_solve mulKVmx // subrr.
Qed.
Lemma a_is_Kinv_residual : a = invmx K *m (y - P *m b).
Proof. by rewrite /a /K_inv_y /cho_solve mulmxBr. Qed.
(* the saddle point has a unique solution: any (a', b') solving it is the code's *)
Lemma saddle_unique (a' : 'cV[F]_n) (b' : 'cV[F]_p) : K *m a' + P *m b' = y -> P^T *m a' = 0 -> a' = a /\ b' = b.
Proof.
  move=> H1 H2.
  have Ha' : a' = invmx K *m (y - P *m b') by rewrite -H1 addrK mulKmx.
  have Hb' : PKP *m b' = P^T *m K_inv_y.
    have := H2; rewrite Ha' !mulmxBr => /eqP; rewrite subr_eq0 => /eqP H.
    by rewrite /PKP /K_inv_P /K_inv_y /cho_solve H -!mulmxA.
  have Eb : b' = b by rewrite /b /cho_solve -Hb' mulKmx.
  by split=> //; rewrite Ha' Eb a_is_Kinv_residual.
Qed.
End Generic.

Section Predict.
Variable F : realFieldType.
Variables n m : nat.
Variable chol : 'M[F]_n -> 'M[F]_n.
Variable K : 'M[F]_n.
Hypothesis cholK : chol K *m (chol K)^T = K.      (* contract: a successful Cholesky factorisation *)
Hypothesis cholu : chol K \in unitmx.
Variables (K_eval : 'M[F]_(m,n)) (kxx : 'cV[F]_m) (Kss : 'M[F]_m).

Let V := tri_solve chol K (K_eval^T).
Let card := (cho_solve K (K_eval^T))^T.

Lemma Ku : K \in unitmx. Proof. by rewrite -cholK unitmx_mul unitmx_tr cholu. Qed.
Lemma invK : invmx K = invmx ((chol K)^T) *m invmx (chol K).
Proof.
  have LTu : (chol K)^T \in unitmx by rewrite unitmx_tr.
  rewrite -[RHS]mul1mx -(mulVmx Ku) -!mulmxA -[X in invmx K *m (X *m _)]cholK.
  by rewrite -!mulmxA [(chol K)^T *m _]mulmxA mulmxV // mul1mx mulmxV // mulmx1.
Qed.
Lemma VtV : V^T *m V = K_eval *m invmx K *m K_eval^T.
Proof. by rewrite /V /tri_solve trmx_mul trmxK invK trmx_inv !mulmxA. Qed.
Lemma var_branches : colsumsq V = rowdot K_eval card.
Proof. by rewrite colsumsq_diag rowdot_diag VtV /card trmxK /cho_solve mulmxA. Qed.
Lemma var_closed : colsumsq V = diagcol (K_eval *m invmx K *m K_eval^T).
Proof. by rewrite colsumsq_diag VtV. Qed.
Lemma cov_closed : Kss - V^T *m V = Kss - K_eval *m invmx K *m K_eval^T.
Proof. by rewrite VtV. Qed.
Lemma cov_sym : Kss^T = Kss -> K^T = K -> (Kss - V^T *m V)^T = Kss - V^T *m V.
Proof. by move=> Hs HK; rewrite cov_closed linearB /= Hs !trmx_mul trmxK trmx_inv HK mulmxA. Qed.
(* posterior covariance is PSD whenever the joint Gram matrix of observations (+noise) and queries is *)
Lemma cov_psd : psd (block_mx K K_eval^T K_eval Kss) -> psd (Kss - V^T *m V).
Proof.
  move=> H; rewrite cov_closed.
  have HS := @schur_psd F n m K (K_eval^T) Kss Ku.
  by rewrite trmxK in HS; apply: HS.
Qed.
End Predict.

(* ------------------------------------------------------------------ the generated GP, per-point noise on the diagonal *)
Section Noise.
Variable F : realFieldType.
Variables n m p s : nat.
Variable chol : 'M[F]_n -> 'M[F]_n.
Variables (Kker : 'M[F]_n) (noise : 'cV[F]_n) (y : 'cV[F]_n) (Pmx : 'M[F]_(n,p)).
Variables (K_eval : 'M[F]_(m,n)) (Peval : 'M[F]_(m,p)) (kxx : 'cV[F]_m) (Kss : 'M[F]_m) (min_var : F).
Let K := GPNoise.kernel_matrix Kker noise.
Let a := GPNoise.K_inv_demeaned_y Kker noise y Pmx.
Let b := GPNoise.poly_coef Kker noise y Pmx.
Hypothesis cholK : chol K *m (chol K)^T = K.
Hypothesis cholu : chol K \in unitmx.
Hypothesis PKPu : GPNoise.PT_K_inv_P Kker noise Pmx \in unitmx.

Lemma noise_K : K = Kker + diag_mx noise^T. Proof. by []. Qed.

Theorem noise_saddle_point : K *m a + Pmx *m b = y /\ Pmx^T *m a = 0.
Proof. split; [exact: (@saddle1 F n p K Pmx y (Ku cholK cholu))|]. exact: (@saddle2 F n p K Pmx y PKPu). Qed.
Theorem noise_saddle_unique a' b' : K *m a' + Pmx *m b' = y -> Pmx^T *m a' = 0 -> a' = a /\ b' = b.
Proof. exact: (@saddle_unique F n p K Pmx y (Ku cholK cholu) PKPu). Qed.
Theorem noise_mean : GPNoise.mean Kker noise y Pmx K_eval Peval = K_eval *m a + Peval *m b.
Proof. by []. Qed.
Theorem noise_residual : a = invmx K *m GPNoise.demeaned_y Kker noise y Pmx.
Proof. exact: (@a_is_Kinv_residual F n p K Pmx y). Qed.
Theorem noise_var_branches_agree :
  GPNoise.var_tri chol Kker noise K_eval kxx min_var = GPNoise.var_card Kker noise K_eval kxx min_var.
Proof.
  rewrite /GPNoise.var_tri /GPNoise.var_card /GPNoise.schur_complement_component /GPNoise.schur_complement_component_2.
  by rewrite /GPNoise.V /GPNoise.card (var_branches cholK cholu).
Qed.
Theorem noise_var_closed_form :
  GPNoise.var_tri chol Kker noise K_eval kxx min_var = floor_at min_var (kxx - diagcol (K_eval *m invmx K *m K_eval^T)).
Proof. by rewrite /GPNoise.var_tri /GPNoise.schur_complement_component /GPNoise.V (var_closed cholK cholu). Qed.
Theorem noise_var_positive i : 0 < min_var -> 0 < GPNoise.var_tri chol Kker noise K_eval kxx min_var i 0.
Proof. by move=> H; apply: lt_le_trans H _; rewrite /GPNoise.var_tri floor_at_ge. Qed.
Theorem noise_cov_closed_form :
  GPNoise.cov chol Kker noise K_eval Kss = Kss - K_eval *m invmx K *m K_eval^T.
Proof. by rewrite /GPNoise.cov /GPNoise.V_2 (cov_closed cholK cholu). Qed.
Theorem noise_cov_symmetric : Kss^T = Kss -> K^T = K ->
  (GPNoise.cov chol Kker noise K_eval Kss)^T = GPNoise.cov chol Kker noise K_eval Kss.
Proof. by move=> H1 H2; rewrite /GPNoise.cov /GPNoise.V_2; apply: (cov_sym cholK cholu). Qed.
Theorem noise_cov_psd : psd (block_mx K K_eval^T K_eval Kss) -> psd (GPNoise.cov chol Kker noise K_eval Kss).
Proof. by move=> H; rewrite /GPNoise.cov /GPNoise.V_2; apply: (cov_psd cholK cholu). Qed.
(* posterior samples: mean + (L Z)^T; the deviations have second moment L (Z Z^T) L^T, i.e. L L^T for white Z *)
Theorem sample_second_moment (Lsamp : 'M[F]_m) (Z : 'M[F]_(m,s)) :
  (GPNoise.sample_dev Lsamp Z)^T *m GPNoise.sample_dev Lsamp Z = Lsamp *m (Z *m Z^T) *m Lsamp^T.
Proof. by rewrite /GPNoise.sample_dev trmxK trmx_mul !mulmxA. Qed.
End Noise.

(* ------------------------------------------------------------------ nugget replaces the per-point noise *)
Section Nugget.
Variable F : realFieldType.
Variables n m p : nat.
Variable chol : 'M[F]_n -> 'M[F]_n.
Variables (Kker : 'M[F]_n) (tik : F) (y : 'cV[F]_n) (Pmx : 'M[F]_(n,p)).
Variables (K_eval : 'M[F]_(m,n)) (Peval : 'M[F]_(m,p)) (kxx : 'cV[F]_m) (Kss : 'M[F]_m) (min_var : F).
Let K := GPNugget.kernel_matrix Kker tik.
Let a := GPNugget.K_inv_demeaned_y Kker tik y Pmx.
Let b := GPNugget.poly_coef Kker tik y Pmx.
Hypothesis cholK : chol K *m (chol K)^T = K.
Hypothesis cholu : chol K \in unitmx.
Hypothesis PKPu : GPNugget.PT_K_inv_P Kker tik Pmx \in unitmx.

(* with a nugget the matrix is kernel + tik * I: the per-point noise does not enter (it is not even an argument) *)
Theorem nugget_K : K = Kker + tik%:M.
Proof.
  rewrite /K /GPNugget.kernel_matrix /GPNugget.noise_diag_vector; congr (_ + _).
  by apply/matrixP=> i j; rewrite !mxE.
Qed.
Theorem nugget_saddle_point : K *m a + Pmx *m b = y /\ Pmx^T *m a = 0.
Proof. split; [exact: (@saddle1 F n p K Pmx y (Ku cholK cholu))|exact: (@saddle2 F n p K Pmx y PKPu)]. Qed.
Theorem nugget_mean : GPNugget.mean Kker tik y Pmx K_eval Peval = K_eval *m a + Peval *m b.
Proof. by []. Qed.
Theorem nugget_var_closed_form :
  GPNugget.var_tri chol Kker tik K_eval kxx min_var = floor_at min_var (kxx - diagcol (K_eval *m invmx K *m K_eval^T)).
Proof. by rewrite /GPNugget.var_tri /GPNugget.schur_complement_component /GPNugget.V (var_closed cholK cholu). Qed.
Theorem nugget_cov_closed_form : GPNugget.cov chol Kker tik K_eval Kss = Kss - K_eval *m invmx K *m K_eval^T.
Proof. by rewrite /GPNugget.cov /GPNugget.V_2 (cov_closed cholK cholu). Qed.
End Nugget.

(* ------------------------------------------------------------------ zero mean *)
Section ZeroMean.
Variable F : realFieldType.
Variables n m p : nat.
Variables (Kker : 'M[F]_n) (noise : 'cV[F]_n) (y : 'cV[F]_n) (K_eval : 'M[F]_(m,n)) (Peval : 'M[F]_(m,p)).
Let K := GPNoiseZeroMean.kernel_matrix Kker noise.
Theorem zero_mean_weights : GPNoiseZeroMean.K_inv_demeaned_y Kker noise y = invmx K *m y /\ GPNoiseZeroMean.demeaned_y y = y.
Proof. by []. Qed.
Theorem zero_mean_mean : GPNoiseZeroMean.mean Kker noise y K_eval Peval = K_eval *m (invmx K *m y).
Proof. by rewrite /GPNoiseZeroMean.mean mulmx0 addr0. Qed.
End ZeroMean.

(* ------------------------------------------------------------------ weighted sum of GPs *)
Section Sum.
Variable F : realFieldType.
Variables m G : nat.
Variables (w : 'I_G -> F) (mean_g var_g : 'I_G -> 'cV[F]_m) (cov_g : 'I_G -> 'M[F]_m).
Theorem gpsum_laws :
  GPSum.sum_mean w mean_g = \sum_(g < G) w g *: mean_g g /\
  GPSum.sum_var w var_g = \sum_(g < G) (w g) ^+ 2 *: var_g g /\
  GPSum.sum_cov w cov_g = \sum_(g < G) (w g) ^+ 2 *: cov_g g /\
  GPSum.sum_mv_mean w mean_g = GPSum.sum_mean w mean_g /\ GPSum.sum_mv_var w var_g = GPSum.sum_var w var_g.
Proof. by []. Qed.
(* the gradient entry points: weighted sum of the components' mean gradients, squared-weight sum of their variance gradients,
   and the joint entry point returns exactly what the four separate ones return *)
Variable d : nat.
Variables (gmean_g gvar_g : 'I_G -> 'M[F]_(m, d)).
Theorem gpsum_grad_laws :
  GPSum.sum_grad_mean w gmean_g = \sum_(g < G) w g *: gmean_g g /\
  GPSum.sum_grad_var w gvar_g = \sum_(g < G) (w g) ^+ 2 *: gvar_g g /\
  GPSum.sum_j_mean w mean_g = GPSum.sum_mean w mean_g /\ GPSum.sum_j_var w var_g = GPSum.sum_var w var_g /\
  GPSum.sum_j_grad_mean w gmean_g = GPSum.sum_grad_mean w gmean_g /\ GPSum.sum_j_grad_var w gvar_g = GPSum.sum_grad_var w gvar_g.
Proof. by []. Qed.
End Sum.

(* ------------------------------------------------------------------ log marginal likelihood value *)
Section LogLik.
Variable F : realFieldType.
Variable n : nat.
Variable chol : 'M[F]_n -> 'M[F]_n.
Variable sumlogdiag : 'M[F]_n -> F.
Variables (K : 'M[F]_n) (r : 'cV[F]_n) (scaling_factor : F).
(* with log det K := 2 * sum(log(diag(chol K)))  (contract on the Cholesky diagonal) and K^-1 r as computed by the GP *)
Theorem loglik_value :
  LogLik.log_likelihood_value chol sumlogdiag K r (invmx K *m r) scaling_factor =
  - scaling_factor * ((r^T *m invmx K *m r) 0 0 + 2%:R * sumlogdiag (chol K)).
Proof. by rewrite /LogLik.log_likelihood_value /LogLik.log_likelihood mulmxA. Qed.
End LogLik.

(* ------------------------------------------------------------------ ordering of the observations *)
(* Permuting the observations (rows of the data, of P, and the columns of K_eval) does not change the weights' effect: the
   permuted system has the permuted weights as its unique saddle-point solution, so the mean is unchanged. *)
Section Permutation.
Variable F : realFieldType.
Variables n m p : nat.
Variables (K : 'M[F]_n) (P : 'M[F]_(n,p)) (y : 'cV[F]_n) (K_eval : 'M[F]_(m,n)) (Peval : 'M[F]_(m,p)).
Variable s : 'S_n.
Let Pm : 'M[F]_n := perm_mx s.
Let K' := Pm *m K *m Pm^T.
Let P' := Pm *m P.
Let y' := Pm *m y.
Let K_eval' := K_eval *m Pm^T.
Hypothesis Ku : K \in unitmx.
Hypothesis PKPu : P^T *m cho_solve K P \in unitmx.
Hypothesis Ku' : K' \in unitmx.
Hypothesis PKPu' : P'^T *m cho_solve K' P' \in unitmx.

Let b0 := cho_solve (P^T *m cho_solve K P) (P^T *m cho_solve K y).
Let a0 := cho_solve K y - cho_solve K (P *m b0).
Let b1 := cho_solve (P'^T *m cho_solve K' P') (P'^T *m cho_solve K' y').
Let a1 := cho_solve K' y' - cho_solve K' (P' *m b1).

Lemma PmtPm : Pm^T *m Pm = 1%:M.
Proof. by rewrite /Pm tr_perm_mx -perm_mxM mulVg perm_mx1. Qed.

Theorem perm_weights : a1 = Pm *m a0 /\ b1 = b0.
Proof.
  have [S1 S2] : K *m a0 + P *m b0 = y /\ P^T *m a0 = 0.
    by split; [exact: (@saddle1 F n p K P y Ku)|exact: (@saddle2 F n p K P y PKPu)].
  have H1 : K' *m (Pm *m a0) + P' *m b0 = y'.
    rewrite /K' /P' /y' -!mulmxA [Pm^T *m (Pm *m a0)]mulmxA PmtPm mul1mx -mulmxDr.
    by rewrite [K *m a0 + _]S1.
  have H2 : P'^T *m (Pm *m a0) = 0.
    by rewrite /P' trmx_mul -mulmxA [Pm^T *m (Pm *m a0)]mulmxA PmtPm mul1mx S2.
  by have [-> ->] := @saddle_unique F n p K' P' y' Ku' PKPu' (Pm *m a0) b0 H1 H2.
Qed.

Theorem perm_mean_invariant : K_eval' *m a1 + Peval *m b1 = K_eval *m a0 + Peval *m b0.
Proof.
  have [-> ->] := perm_weights.
  by rewrite /K_eval' -mulmxA [Pm^T *m (Pm *m a0)]mulmxA PmtPm mul1mx.
Qed.
End Permutation.
