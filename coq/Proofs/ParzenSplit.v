(* Lemmas and theorems for C16 (model: LV.Model.ParzenSplit). *)
From Coq Require Import List QArith ZArith Bool Arith Lia Lra Psatz Permutation Sorted Qround.
From LV Require Import Model.ParzenSplit Model.ParzenSplitCorr.
Import ListNotations.
Open Scope Q_scope.

(* ------------------------------------------------------------------ int() is floor on non-negative numbers *)
Lemma trunc_floor q : 0 <= q -> trunc q = Qfloor q.
Proof.
  destruct q as [n d]. unfold Qle, trunc, Qfloor. cbn [Qnum Qden]. intro H.
  apply Z.quot_div_nonneg; lia.
Qed.

Lemma trunc_nonneg q : 0 <= q -> (0 <= trunc q)%Z.
Proof.
  destruct q as [n d]. unfold Qle, trunc. cbn [Qnum Qden]. intro H.
  apply Z.quot_pos; lia.
Qed.

Lemma Qltb_lt x y : Qltb x y = true <-> x < y.
Proof.
  unfold Qltb. rewrite negb_true_iff. split; intro H.
  - apply Qnot_le_lt. intro L. apply Qle_bool_iff in L. congruence.
  - destruct (Qle_bool y x) eqn:E; [|reflexivity]. apply Qle_bool_iff in E. lra.
Qed.

(* ------------------------------------------------------------------ sizes and errors *)
Lemma split_sizes_ok gamma forget n m s :
  split_sizes gamma forget n = Ok (m, s) ->
  let zm := unforgotten forget n in let zs := lower_size gamma zm in
  m = Z.to_nat zm /\ s = Z.to_nat zs /\ (10 <= zm)%Z /\ (3 <= zs)%Z /\ (zs <= zm - 1)%Z.
Proof.
  intros H zm zs. unfold split_sizes, SPE_MINIMUM_UNFORGOTTEN_POINT_TOTAL in H.
  fold zm in H. fold zs in H.
  destruct (zm <? 10)%Z eqn:E1; [discriminate|].
  destruct (zm - 1 <? zs)%Z eqn:E2; [discriminate|].
  injection H as <- <-. apply Z.ltb_ge in E1. apply Z.ltb_ge in E2.
  repeat split; try lia. unfold zs, lower_size, SPE_MINIMUM_LOWER_POINT_TOTAL. lia.
Qed.

Lemma split_errors gamma forget n :
  let zm := unforgotten forget n in let zs := lower_size gamma zm in
  split_sizes gamma forget n = ErrInsufficientData <-> (zm < 10 \/ zm - 1 < zs)%Z.
Proof.
  intros zm zs. unfold split_sizes, SPE_MINIMUM_UNFORGOTTEN_POINT_TOTAL. fold zm. fold zs.
  destruct (zm <? 10)%Z eqn:E1.
  - apply Z.ltb_lt in E1. split; auto.
  - apply Z.ltb_ge in E1. destruct (zm - 1 <? zs)%Z eqn:E2.
    + apply Z.ltb_lt in E2. split; auto.
    + apply Z.ltb_ge in E2. split; [discriminate|lia].
Qed.

Lemma unforgotten_le forget n : 0 <= forget -> (unforgotten forget n <= Z.of_nat n)%Z.
Proof.
  intro H. unfold unforgotten.
  assert (0 <= forget * inject_Z (Z.of_nat n)).
  { apply Qmult_le_0_compat; [exact H|]. unfold Qle, inject_Z. cbn. lia. }
  pose proof (trunc_nonneg _ H0). lia.
Qed.

Lemma unforgotten_floor forget n : 0 <= forget ->
  unforgotten forget n = (Z.of_nat n - Qfloor (forget * inject_Z (Z.of_nat n)))%Z.
Proof.
  intro H. unfold unforgotten. rewrite trunc_floor; [reflexivity|].
  apply Qmult_le_0_compat; [exact H|]. unfold Qle, inject_Z. cbn. lia.
Qed.

Lemma lower_size_floor gamma m : 0 <= gamma -> (0 <= m)%Z ->
  lower_size gamma m = Z.max (Qfloor (inject_Z m * gamma)) 3.
Proof.
  intros H Hm. unfold lower_size, SPE_MINIMUM_LOWER_POINT_TOTAL. rewrite trunc_floor; [reflexivity|].
  apply Qmult_le_0_compat; [|exact H]. unfold Qle, inject_Z. cbn. lia.
Qed.

(* ------------------------------------------------------------------ permutations and sortedness *)
Lemma existsb_eqb_In i l : existsb (Nat.eqb i) l = true <-> In i l.
Proof.
  rewrite existsb_exists. split.
  - intros [x [Hx E]]. apply Nat.eqb_eq in E. subst. exact Hx.
  - intro H. exists i. split; [exact H|apply Nat.eqb_refl].
Qed.

Lemma is_perm_b_sound perm m : is_perm_b perm m = true -> Permutation (seq 0 m) perm.
Proof.
  unfold is_perm_b. rewrite andb_true_iff. intros [L I]. apply Nat.eqb_eq in L.
  apply NoDup_Permutation_bis.
  - apply seq_NoDup.
  - rewrite seq_length. lia.
  - intros i Hi. rewrite forallb_forall in I. apply existsb_eqb_In. apply I. exact Hi.
Qed.

Lemma map_nth_seq {A} (l : list A) d : map (fun i => nth i l d) (seq 0 (length l)) = l.
Proof.
  apply nth_ext with (d := nth 0 l d) (d' := d).
  - rewrite map_length, seq_length. reflexivity.
  - intros n Hn. rewrite map_length, seq_length in Hn.
    rewrite (map_nth (fun i => nth i l d) (seq 0 (length l)) 0%nat n).
    rewrite seq_nth by exact Hn. reflexivity.
Qed.

Lemma take_perm_permutation {A} (d : A) l perm :
  is_perm_b perm (length l) = true -> Permutation (take_perm d l perm) l.
Proof.
  intro H. apply is_perm_b_sound in H. unfold take_perm.
  apply Permutation_trans with (map (fun i => nth i l d) (seq 0 (length l))).
  - apply Permutation_map. apply Permutation_sym. exact H.
  - rewrite map_nth_seq. apply Permutation_refl.
Qed.

Lemma sorted_b_sound l : sorted_b l = true -> StronglySorted Qle l.
Proof.
  intro H. apply Sorted_StronglySorted.
  - intros x y z. apply Qle_trans.
  - induction l as [|x [|y r] IH]; constructor.
    + constructor.
    + constructor.
    + apply IH. cbn in H. apply andb_true_iff in H. apply H.
    + constructor. cbn in H. apply andb_true_iff in H. apply Qle_bool_iff. apply H.
Qed.

Lemma strongly_sorted_app (l1 l2 : list Q) :
  StronglySorted Qle (l1 ++ l2) -> forall x y, In x l1 -> In y l2 -> x <= y.
Proof.
  induction l1 as [|a l1 IH]; intros S x y Hx Hy; [destruct Hx|].
  cbn in S. apply StronglySorted_inv in S. destruct S as [S F].
  destruct Hx as [<-|Hx].
  - rewrite Forall_forall in F. apply F. apply in_or_app. right. exact Hy.
  - apply IH; assumption.
Qed.

Lemma kept_obs_length m (pts : list point) (vals : list Q) :
  length vals = length pts -> (m <= length pts)%nat -> length (kept_obs m pts vals) = m.
Proof.
  intros L Hm. unfold kept_obs. rewrite combine_length, !firstn_length. lia.
Qed.

Lemma snd_nth_kept m (pts : list point) (vals : list Q) i :
  length vals = length pts ->
  snd (nth i (kept_obs m pts vals) ([], 0)) = nth i (firstn m vals) 0.
Proof.
  intro L. unfold kept_obs. rewrite combine_nth; [reflexivity|].
  rewrite !firstn_length. lia.
Qed.

(* ------------------------------------------------------------------ the split *)
Theorem split_spec gamma forget pts vals perm lower greater :
  0 <= forget -> length vals = length pts ->
  form_model gamma forget pts vals perm = Ok (lower, greater) ->
  let zm := unforgotten forget (length pts) in
  let m := Z.to_nat zm in
  let s := Z.to_nat (lower_size gamma zm) in
  sorting_perm_b (firstn m vals) perm = true ->
  length lower = s /\ length greater = (m - s)%nat /\ (3 <= s)%nat /\ (s < m)%nat /\ (10 <= m <= length pts)%nat /\
  Permutation (lower ++ greater) (kept_obs m pts vals) /\
  (forall a b, In a lower -> In b greater -> snd a <= snd b).
Proof.
  intros Hf L H zm m s SP. unfold form_model in H.
  destruct (split_sizes gamma forget (length pts)) as [[m' s']|] eqn:E; [|discriminate].
  apply split_sizes_ok in E. cbn zeta in E. fold zm in E.
  destruct E as (-> & -> & H10 & H3 & Hs). fold m in H. fold s in H.
  injection H as <- <-.
  pose proof (unforgotten_le forget (length pts) Hf) as Hle. fold zm in Hle.
  assert (Hm : (m <= length pts)%nat) by (unfold m; lia).
  assert (Hsm : (s < m)%nat) by (unfold s, m; lia).
  assert (H3s : (3 <= s)%nat) by (unfold s; lia).
  unfold sorting_perm_b in SP. apply andb_true_iff in SP. destruct SP as [P S].
  assert (Lv : length (firstn m vals) = m) by (rewrite firstn_length; lia).
  rewrite Lv in P.
  set (o := kept_obs m pts vals) in *.
  assert (Lo : length o = m) by (apply kept_obs_length; assumption).
  set (data := take_perm ([], 0) o perm).
  assert (Ld : length data = m).
  { unfold data, take_perm. rewrite map_length. apply andb_true_iff in P. destruct P as [P _].
    apply Nat.eqb_eq in P. exact P. }
  assert (Pd : Permutation data o).
  { apply take_perm_permutation. rewrite Lo. exact P. }
  repeat split.
  - rewrite firstn_length. lia.
  - rewrite skipn_length. lia.
  - exact H3s.
  - exact Hsm.
  - unfold m. lia.
  - exact Hm.
  - rewrite firstn_skipn. exact Pd.
  - intros a b Ha Hb.
    assert (SS : StronglySorted Qle (map snd data)).
    { apply sorted_b_sound.
      replace (map snd data) with (take_perm 0 (firstn m vals) perm); [exact S|].
      unfold data, take_perm. rewrite map_map. apply map_ext. intro i.
      symmetry. apply snd_nth_kept. exact L. }
    rewrite <- (firstn_skipn s data) in SS. rewrite map_app in SS.
    apply (strongly_sorted_app _ _ SS); apply in_map; assumption.
Qed.

(* the error is raised exactly when fewer than ten points are unforgotten or the lower set would not leave a
   greater point *)
Theorem split_error_iff gamma forget pts vals perm :
  let zm := unforgotten forget (length pts) in
  form_model gamma forget pts vals perm = ErrInsufficientData <-> (zm < 10 \/ zm - 1 < lower_size gamma zm)%Z.
Proof.
  intro zm. unfold form_model.
  pose proof (split_errors gamma forget (length pts)) as E. cbn zeta in E. fold zm in E. rewrite <- E.
  destruct (split_sizes gamma forget (length pts)) as [[m s]|]; split; intro H; try discriminate; reflexivity.
Qed.

(* ------------------------------------------------------------------ sums and means *)
Lemma qlen_cons {A} (x : A) l : qlen (x :: l) == qlen l + 1.
Proof.
  unfold qlen. cbn [length]. rewrite Nat2Z.inj_succ. unfold Z.succ. rewrite inject_Z_plus. reflexivity.
Qed.

Lemma qlen_nonneg {A} (l : list A) : 0 <= qlen l.
Proof. unfold qlen, Qle, inject_Z. cbn. lia. Qed.

Lemma qlen_pos {A} (l : list A) : l <> [] -> 0 < qlen l.
Proof.
  destruct l as [|x l]; [congruence|]. intros _. rewrite qlen_cons. pose proof (qlen_nonneg l). lra.
Qed.

Lemma qsum_app l l' : qsum (l ++ l') == qsum l + qsum l'.
Proof.
  unfold qsum. induction l as [|x l IH]; cbn [app fold_right]; [ring|]. rewrite IH. ring.
Qed.

Lemma qlen_app {A} (l l' : list A) : qlen (l ++ l') == qlen l + qlen l'.
Proof.
  induction l as [|x l IH]; cbn [app].
  - unfold qlen at 2. cbn. ring.
  - rewrite !qlen_cons, IH. ring.
Qed.

Lemma qsum_le_len l a : (forall x, In x l -> x <= a) -> qsum l <= qlen l * a.
Proof.
  induction l as [|x l IH]; intro H.
  - change (qlen (@nil Q)) with 0. change (qsum []) with 0. lra.
  - rewrite qlen_cons. change (qsum (x :: l)) with (x + qsum l).
    assert (x <= a) by (apply H; left; reflexivity).
    assert (qsum l <= qlen l * a) by (apply IH; intros y Hy; apply H; right; exact Hy).
    lra.
Qed.

Lemma qsum_ge_len l a : (forall x, In x l -> a <= x) -> qlen l * a <= qsum l.
Proof.
  induction l as [|x l IH]; intro H.
  - change (qlen (@nil Q)) with 0. change (qsum []) with 0. lra.
  - rewrite qlen_cons. change (qsum (x :: l)) with (x + qsum l).
    assert (a <= x) by (apply H; left; reflexivity).
    assert (qlen l * a <= qsum l) by (apply IH; intros y Hy; apply H; right; exact Hy).
    lra.
Qed.

Lemma qmean_some l : l <> [] -> qmean l = Some (qsum l / qlen l).
Proof. destruct l; [congruence|reflexivity]. Qed.

Lemma qmean_bounds l lo hi : l <> [] -> (forall x, In x l -> lo <= x <= hi) ->
  lo <= qsum l / qlen l <= hi.
Proof.
  intros Hn H. pose proof (qlen_pos l Hn) as Hp. split.
  - apply Qle_shift_div_l; [exact Hp|]. rewrite Qmult_comm. apply qsum_ge_len. intros x Hx. apply H. exact Hx.
  - apply Qle_shift_div_r; [exact Hp|]. rewrite Qmult_comm. apply qsum_le_len. intros x Hx. apply H. exact Hx.
Qed.

(* ------------------------------------------------------------------ densities *)
(* the greater density is the mean of the kernel values (d * n = sum), non-negative, and at most alpha *)
Theorem density_nonneg krow alpha : krow <> [] -> (forall x, In x krow -> 0 <= x <= alpha) ->
  exists d, greater_density krow = Some d /\ d * qlen krow == qsum krow /\ 0 <= d <= alpha.
Proof.
  intros Hn H. exists (qsum krow / qlen krow). split; [apply qmean_some; exact Hn|]. split.
  - rewrite Qmult_comm. apply Qmult_div_r. pose proof (qlen_pos krow Hn). lra.
  - apply qmean_bounds; assumption.
Qed.

(* the lower density is the kernel mean plus the 1e-10 floor, hence strictly positive *)
Theorem lower_floor krow alpha : krow <> [] -> (forall x, In x krow -> 0 <= x <= alpha) ->
  exists d, lower_density krow = Some (d + SPE_MINIMUM_LOWER_DENSITY_VALUE) /\ greater_density krow = Some d /\
            d * qlen krow == qsum krow /\
            SPE_MINIMUM_LOWER_DENSITY_VALUE <= d + SPE_MINIMUM_LOWER_DENSITY_VALUE /\
            0 < d + SPE_MINIMUM_LOWER_DENSITY_VALUE <= alpha + SPE_MINIMUM_LOWER_DENSITY_VALUE.
Proof.
  intros Hn H. destruct (density_nonneg krow alpha Hn H) as (d & E & M & B).
  exists d. unfold lower_density. unfold greater_density in E. rewrite E.
  unfold SPE_MINIMUM_LOWER_DENSITY_VALUE in *. repeat split; try assumption; try lra.
Qed.

Lemma Qinv_antitone a b : 0 < a -> a <= b -> 1 / b <= 1 / a.
Proof.
  intros Ha Hab. apply Qle_shift_div_r; [lra|].
  assert (E : (1 / a) * a == 1) by (field; lra).
  assert (P : 0 < 1 / a) by (apply Qlt_shift_div_l; lra).
  nra.
Qed.

(* ratio = 1 / (gamma + (1 - gamma) g / l), in (0, 1/gamma] *)
Theorem ratio_spec gamma l g : 0 < gamma -> gamma < 1 -> 0 < l -> 0 <= g ->
  exists r, ratio gamma l g = Some r /\ r == 1 / (gamma + (1 - gamma) * (g / l)) /\ 0 < r /\ r <= 1 / gamma.
Proof.
  intros G0 G1 Hl Hg. unfold ratio.
  destruct (Qeq_bool l 0) eqn:El; [apply Qeq_bool_iff in El; lra|].
  assert (Hq : 0 <= g / l) by (apply Qle_shift_div_l; lra).
  set (q := g / l) in *.
  assert (Hden : gamma <= gamma + q * (1 - gamma)) by nra.
  destruct (Qeq_bool (gamma + q * (1 - gamma)) 0) eqn:Ed; [apply Qeq_bool_iff in Ed; lra|].
  eexists. split; [reflexivity|]. split; [|split].
  - assert (E : gamma + q * (1 - gamma) == gamma + (1 - gamma) * q) by ring. rewrite E. reflexivity.
  - apply Qlt_shift_div_l; lra.
  - apply Qinv_antitone; assumption.
Qed.

(* more greater density (e.g. after a lie there) never raises the ratio *)
Theorem ratio_antitone_in_greater gamma l g g' r r' : 0 < gamma -> gamma < 1 -> 0 < l -> 0 <= g -> g <= g' ->
  ratio gamma l g = Some r -> ratio gamma l g' = Some r' -> r' <= r.
Proof.
  intros G0 G1 Hl Hg Hgg. unfold ratio.
  destruct (Qeq_bool l 0) eqn:El; [discriminate|].
  assert (Hq : 0 <= g / l) by (apply Qle_shift_div_l; lra).
  assert (Hqq : g / l <= g' / l).
  { unfold Qdiv. apply Qmult_le_compat_r; [exact Hgg|]. apply Qlt_le_weak. apply Qinv_lt_0_compat. exact Hl. }
  set (q := g / l) in *. set (q' := g' / l) in *.
  destruct (Qeq_bool (gamma + q * (1 - gamma)) 0); [discriminate|].
  destruct (Qeq_bool (gamma + q' * (1 - gamma)) 0); [discriminate|].
  intros E E'. injection E as <-. injection E' as <-.
  apply Qinv_antitone; nra.
Qed.

(* evaluate_expected_improvement on non-empty sets with valid kernel values *)
Theorem ei_spec gamma alpha klow kgre : 0 < gamma -> gamma < 1 -> klow <> [] -> kgre <> [] ->
  (forall x, In x klow -> 0 <= x <= alpha) -> (forall x, In x kgre -> 0 <= x <= alpha) ->
  exists l g r, expected_improvement gamma klow kgre = Some (l, g, r) /\
    lower_density klow = Some l /\ greater_density kgre = Some g /\
    0 < l /\ 0 <= g /\
    r == 1 / (gamma + (1 - gamma) * (g / l)) /\ 0 < r /\ r <= 1 / gamma.
Proof.
  intros G0 G1 Nl Ng Hl Hg.
  destruct (lower_floor klow alpha Nl Hl) as (dl & El & _ & _ & _ & Pl).
  destruct (density_nonneg kgre alpha Ng Hg) as (dg & Eg & _ & Pg).
  destruct (ratio_spec gamma (dl + SPE_MINIMUM_LOWER_DENSITY_VALUE) dg G0 G1) as (r & Er & F & R0 & R1); try lra.
  exists (dl + SPE_MINIMUM_LOWER_DENSITY_VALUE), dg, r.
  unfold expected_improvement. rewrite El, Eg, Er. repeat split; try assumption; lra.
Qed.

(* an empty greater (or lower) set gives NaN: no ratio *)
Lemma ei_empty_greater gamma klow : expected_improvement gamma klow [] = None.
Proof. unfold expected_improvement. destruct (lower_density klow); reflexivity. Qed.

(* ------------------------------------------------------------------ lies *)
Lemma mean_with_one_more krow a : krow <> [] -> qsum krow / qlen krow <= a ->
  qsum krow / qlen krow <= qsum (krow ++ [a]) / qlen (krow ++ [a]) /\
  qsum (krow ++ [a]) / qlen (krow ++ [a]) <= a.
Proof.
  intros Hn Ha. pose proof (qlen_pos krow Hn) as Hp.
  set (d := qsum krow / qlen krow) in *.
  assert (E : qlen krow * d == qsum krow) by (apply Qmult_div_r; lra).
  assert (S' : qsum (krow ++ [a]) == qsum krow + a) by (rewrite qsum_app; unfold qsum; cbn [fold_right]; ring).
  assert (N' : qlen (krow ++ [a]) == qlen krow + 1) by (rewrite qlen_app; unfold qlen at 2; cbn; ring).
  rewrite S', N'. split.
  - apply Qle_shift_div_l; [lra|]. nra.
  - apply Qle_shift_div_r; [lra|]. nra.
Qed.

(* adding a lie at p does not lower the density at p: the new kernel entry is k(p,p) = alpha >= every entry *)
Theorem lie_raises_density krow alpha d d' : krow <> [] -> (forall x, In x krow -> x <= alpha) ->
  qmean krow = Some d -> qmean (append_lie_entries krow [alpha]) = Some d' -> d <= d' /\ d' <= alpha.
Proof.
  intros Hn H E E'. rewrite qmean_some in E by exact Hn. injection E as <-.
  unfold append_lie_entries in E'. rewrite qmean_some in E' by (destruct krow; discriminate). injection E' as <-.
  apply mean_with_one_more; [exact Hn|].
  pose proof (qlen_pos krow Hn). apply Qle_shift_div_r; [assumption|]. rewrite Qmult_comm. apply qsum_le_len. exact H.
Qed.

(* any number of lies at p, appended one after another *)
Theorem lies_raise_density krow alpha j d d' : krow <> [] -> (forall x, In x krow -> x <= alpha) ->
  qmean krow = Some d -> qmean (append_lie_entries krow (repeat alpha j)) = Some d' -> d <= d' /\ d' <= alpha.
Proof.
  intros Hn H E. revert d'. induction j as [|j IH]; intros d' E'.
  - unfold append_lie_entries in E'. cbn in E'. rewrite app_nil_r in E'. rewrite E in E'. injection E' as <-.
    split; [lra|]. rewrite qmean_some in E by exact Hn. injection E as <-.
    pose proof (qlen_pos krow Hn). apply Qle_shift_div_r; [assumption|]. rewrite Qmult_comm. apply qsum_le_len. exact H.
  - unfold append_lie_entries in *.
    assert (R : repeat alpha (S j) = repeat alpha j ++ [alpha]).
    { clear. induction j as [|j IHj]; [reflexivity|]. cbn [repeat]. rewrite IHj at 1. reflexivity. }
    rewrite R, app_assoc in E'.
    set (k := krow ++ repeat alpha j) in *.
    assert (Hk : k <> []) by (unfold k; destruct krow; [congruence|discriminate]).
    destruct (IH _ (qmean_some k Hk)) as [I1 I2].
    rewrite qmean_some in E' by (destruct k; discriminate). injection E' as <-.
    destruct (mean_with_one_more k alpha Hk I2) as [M1 M2]. split; [lra|exact M2].
Qed.

(* the same for the lower density (lies told to the lower set): the floor is added on both sides *)
Theorem lie_raises_lower_density krow alpha l l' : krow <> [] -> (forall x, In x krow -> x <= alpha) ->
  lower_density krow = Some l -> lower_density (append_lie_entries krow [alpha]) = Some l' -> l <= l'.
Proof.
  intros Hn H. unfold lower_density.
  destruct (qmean krow) as [d|] eqn:E; [|discriminate].
  destruct (qmean (append_lie_entries krow [alpha])) as [d'|] eqn:E'; [|discriminate].
  intros A B. injection A as <-. injection B as <-.
  destruct (lie_raises_density krow alpha d d' Hn H E E'). lra.
Qed.

(* ------------------------------------------------------------------ bandwidths *)
Lemma valid_hyper1_spec x : valid_hyper1 x = true <-> exists q, x = Some q /\ 0 < q.
Proof.
  destruct x as [q|]; cbn [valid_hyper1]; split.
  - intro H. exists q. split; [reflexivity|]. apply Qltb_lt. exact H.
  - intros (q' & E & P). injection E as ->. apply Qltb_lt. exact P.
  - discriminate.
  - intros (q' & E & _). discriminate.
Qed.

Lemma choose_hyper_valid h : valid_hyper (choose_hyper h) = true.
Proof.
  unfold choose_hyper. destruct (valid_hyper h) eqn:E; [exact E|].
  unfold valid_hyper. clear E. induction h as [|x h IH]; [reflexivity|]. cbn. exact IH.
Qed.

Lemma choose_hyper_length h : length (choose_hyper h) = length h.
Proof. unfold choose_hyper. destruct (valid_hyper h); [reflexivity|apply map_length]. Qed.

Lemma hyper_tail_length numerical c i bw2 : length (hyper_tail numerical c i bw2) = length bw2.
Proof. revert i. induction bw2 as [|b r IH]; intro i; cbn; [reflexivity|]. rewrite IH. reflexivity. Qed.

(* whatever the point spread is (NaN from an empty set, zero, huge), the covariance that is built has
   1 + one_hot_dim hyperparameters, all finite and > 0 *)
Theorem bandwidths_valid numerical cat_ls factor stds :
  let h := one_hot_covariance numerical cat_ls factor stds in
  length h = S (length stds) /\ forall x, In x h -> exists q, x = Some q /\ 0 < q.
Proof.
  intro h. split.
  - unfold h, one_hot_covariance. rewrite choose_hyper_length. unfold raw_hyperparameters. cbn [length].
    rewrite hyper_tail_length, map_length. reflexivity.
  - intros x Hx. apply valid_hyper1_spec.
    pose proof (choose_hyper_valid (raw_hyperparameters numerical cat_ls (map (bandwidth_sq factor) stds))) as V.
    unfold valid_hyper in V. rewrite forallb_forall in V. apply V. exact Hx.
Qed.

Lemma hyper_tail_valid numerical c i bw2 : valid_hyper1 c = true -> forallb valid_hyper1 bw2 = true ->
  forallb valid_hyper1 (hyper_tail numerical c i bw2) = true.
Proof.
  intros Hc. revert i. induction bw2 as [|b r IH]; intros i H; [reflexivity|].
  cbn in H. apply andb_true_iff in H. destruct H as [Hb Hr]. cbn [hyper_tail forallb].
  rewrite (IH (S i) Hr). destruct (existsb (Nat.eqb i) numerical); [rewrite Hb|rewrite Hc]; reflexivity.
Qed.

(* with a finite non-negative spread in every column and positive factor / categorical length scale the fallback is
   not taken: the hyperparameters are 1, factor^2 (std + 1e-8) / 2 on numerical columns, cat_length_scale elsewhere *)
Theorem bandwidths_from_spread numerical c factor stds :
  0 < factor -> 0 < c -> (forall s, In s stds -> exists q, s = Some q /\ 0 <= q) ->
  one_hot_covariance numerical (Some c) factor stds =
    raw_hyperparameters numerical (Some c) (map (bandwidth_sq factor) stds) /\
  forall s q, In s stds -> s = Some q ->
    exists b, bandwidth_sq factor s = Some b /\ b == factor * factor * ((q + STD_EPSILON_HACK) / 2) /\ 0 < b.
Proof.
  intros Hf Hc H. split.
  - unfold one_hot_covariance, choose_hyper.
    assert (V : valid_hyper (raw_hyperparameters numerical (Some c) (map (bandwidth_sq factor) stds)) = true).
    { unfold valid_hyper, raw_hyperparameters. cbn [forallb]. apply andb_true_iff. split; [reflexivity|].
      apply hyper_tail_valid; [apply Qltb_lt; exact Hc|].
      rewrite forallb_forall. intros x Hx. apply in_map_iff in Hx. destruct Hx as (s & <- & Hs).
      destruct (H s Hs) as (q & -> & Hq). cbn [bandwidth_sq valid_hyper1]. apply Qltb_lt.
      unfold STD_EPSILON_HACK.
      assert (0 < (q + (1 # 100000000)) / 2) by (apply Qlt_shift_div_l; lra).
      assert (0 < factor * factor) by nra. nra. }
    rewrite V. reflexivity.
  - intros s q Hs ->. destruct (H _ Hs) as (q' & E & Hq). injection E as <-.
    eexists. split; [reflexivity|]. split; [reflexivity|].
    unfold STD_EPSILON_HACK.
    assert (0 < (q + (1 # 100000000)) / 2) by (apply Qlt_shift_div_l; lra).
    assert (0 < factor * factor) by nra. nra.
Qed.

(* ------------------------------------------------------------------ search variant *)
Lemma select_length {A} mask (l : list A) : length mask = length l ->
  length (select mask l) = count_true mask.
Proof.
  revert l. induction mask as [|b m IH]; intros [|x l] L; try discriminate; [reflexivity|].
  cbn in L. injection L as L. unfold count_true in *. cbn [select filter].
  destruct b; cbn [length]; rewrite IH by exact L; reflexivity.
Qed.

Lemma count_true_le mask : (count_true mask <= length mask)%nat.
Proof.
  unfold count_true. induction mask as [|b m IH]; [cbn; lia|]. cbn [filter]. destruct b; cbn [length]; lia.
Qed.

Lemma select_partition {A} mask (l : list A) : length mask = length l ->
  Permutation (select (map negb mask) l ++ select mask l) l.
Proof.
  revert l. induction mask as [|b m IH]; intros [|x l] L; try discriminate; [constructor|].
  cbn in L. injection L as L. cbn [map select]. destruct b; cbn [negb].
  - apply Permutation_sym. apply Permutation_cons_app. apply Permutation_sym. apply IH. exact L.
  - cbn [app]. constructor. apply IH. exact L.
Qed.

Lemma In_select {A} mask (l : list A) d x : length mask = length l ->
  (In x (select mask l) <-> exists i, (i < length l)%nat /\ nth i mask false = true /\ nth i l d = x).
Proof.
  revert l. induction mask as [|b m IH]; intros [|y l] L; try discriminate.
  - cbn. split; [tauto|]. intros (i & Hi & _). lia.
  - cbn in L. injection L as L. cbn [select]. split.
    + intro H. destruct b.
      * destruct H as [<-|H]; [exists 0%nat; cbn; repeat split; lia|].
        apply IH in H; [|exact L]. destruct H as (i & Hi & Hm & Hx). exists (S i). cbn. repeat split; try assumption. lia.
      * apply IH in H; [|exact L]. destruct H as (i & Hi & Hm & Hx). exists (S i). cbn. repeat split; try assumption. lia.
    + intros (i & Hi & Hm & Hx). destruct i as [|i].
      * cbn in Hm, Hx. rewrite Hm. left. exact Hx.
      * cbn in Hi, Hm, Hx. assert (In x (select m l)) by (apply IH; [exact L|]; exists i; repeat split; try assumption; lia).
        destruct b; [right|]; assumption.
Qed.

Lemma nth_violations thr pf i : (i < length pf)%nat ->
  nth i (violations thr pf) false = negb (within thr (nth i pf [])).
Proof.
  intro Hi. unfold violations.
  rewrite (nth_indep _ false (negb (within thr [])))  by (rewrite map_length; exact Hi).
  apply (map_nth (fun r => negb (within thr r))).
Qed.

Lemma nth_map_negb mask i : (i < length mask)%nat -> nth i (map negb mask) false = negb (nth i mask false).
Proof.
  intro Hi. rewrite (nth_indep _ false (negb false)) by (rewrite map_length; exact Hi). apply map_nth.
Qed.

Lemma search_forced_spec dim n nv : search_forced dim n nv = true <-> (0 < nv /\ dim < n - nv)%nat.
Proof.
  unfold search_forced. rewrite andb_true_iff, !Nat.ltb_lt. reflexivity.
Qed.

(* when some observation violates a threshold and more observations satisfy the thresholds than the space has dimensions:
   lower = the satisfiers, greater = the violators (each observation in exactly one of them), both non-empty,
   gamma = #violators / n in (0, 1) *)
Theorem search_split_spec dim (pts : list point) thr pf dflt :
  length pf = length pts ->
  let viol := violations thr pf in
  (0 < count_true viol)%nat ->
  (dim < length pts - count_true viol)%nat ->
  exists lower greater gamma,
    search_split dim pts viol dflt = (lower, greater, gamma) /\
    Permutation (lower ++ greater) pts /\
    length greater = count_true viol /\ length lower = (length pts - count_true viol)%nat /\
    (forall x, In x lower <-> exists i, (i < length pts)%nat /\ within thr (nth i pf []) = true /\ nth i pts [] = x) /\
    (forall x, In x greater <-> exists i, (i < length pts)%nat /\ within thr (nth i pf []) = false /\ nth i pts [] = x) /\
    gamma == inject_Z (Z.of_nat (count_true viol)) / inject_Z (Z.of_nat (length pts)) /\
    0 < gamma /\ gamma < 1 /\ lower <> [] /\ greater <> [].
Proof.
  intros L viol Hv Hd.
  assert (Lv : length viol = length pts) by (unfold viol, violations; rewrite map_length; exact L).
  unfold search_split.
  rewrite (proj2 (search_forced_spec dim (length pts) (count_true viol)) (conj Hv Hd)).
  eexists _, _, _. split; [reflexivity|].
  pose proof (count_true_le viol) as Cle.
  assert (Lg : length (select viol pts) = count_true viol) by (apply select_length; exact Lv).
  assert (P : Permutation (select (map negb viol) pts ++ select viol pts) pts) by (apply select_partition; exact Lv).
  assert (Ll : length (select (map negb viol) pts) = (length pts - count_true viol)%nat).
  { apply Permutation_length in P. rewrite app_length in P. lia. }
  set (nv := count_true viol) in *. set (n := length pts) in *.
  assert (Hn : 0 < inject_Z (Z.of_nat n)) by (unfold Qlt, inject_Z; cbn; lia).
  assert (Hnv : 0 < inject_Z (Z.of_nat nv)) by (unfold Qlt, inject_Z; cbn; lia).
  assert (Hlt : inject_Z (Z.of_nat nv) < inject_Z (Z.of_nat n)) by (rewrite <- Zlt_Qlt; lia).
  split; [exact P|]. split; [exact Lg|]. split; [exact Ll|]. split; [|split; [|split; [|split; [|split; [|split]]]]].
  - intro x. rewrite (In_select _ _ [] x) by (rewrite map_length; exact Lv). split.
    + intros (i & Hi & Hm & Hx). exists i. split; [exact Hi|]. split; [|exact Hx].
      rewrite nth_map_negb in Hm by (fold n; lia). unfold viol in Hm. rewrite nth_violations in Hm by (rewrite L; exact Hi).
      rewrite negb_involutive in Hm. exact Hm.
    + intros (i & Hi & Hm & Hx). exists i. split; [exact Hi|]. split; [|exact Hx].
      rewrite nth_map_negb by (fold n; lia). unfold viol. rewrite nth_violations by (rewrite L; exact Hi).
      rewrite negb_involutive. exact Hm.
  - intro x. rewrite (In_select _ _ [] x) by exact Lv. split.
    + intros (i & Hi & Hm & Hx). exists i. split; [exact Hi|]. split; [|exact Hx].
      unfold viol in Hm. rewrite nth_violations in Hm by (rewrite L; exact Hi). apply negb_true_iff in Hm. exact Hm.
    + intros (i & Hi & Hm & Hx). exists i. split; [exact Hi|]. split; [|exact Hx].
      unfold viol. rewrite nth_violations by (rewrite L; exact Hi). rewrite Hm. reflexivity.
  - rewrite Lv. reflexivity.
  - rewrite Lv. apply Qlt_shift_div_l; lra.
  - rewrite Lv. apply Qlt_shift_div_r; lra.
  - intro E. rewrite E in Ll. cbn in Ll. lia.
  - intro E. rewrite E in Lg. cbn in Lg. lia.
Qed.

(* otherwise - no violator at all, or too few satisfiers - the constructor's split and gamma stay *)
Theorem search_split_default {A} dim (pts : list A) viol dflt :
  (count_true viol = 0 \/ ~ (dim < length pts - count_true viol))%nat -> search_split dim pts viol dflt = dflt.
Proof.
  intro H. unfold search_split.
  destruct (search_forced dim (length pts) (count_true viol)) eqn:E; [|reflexivity].
  apply search_forced_spec in E. destruct E as [E1 E2]. destruct H as [H|H]; [lia|contradiction].
Qed.

(* ------------------------------------------------------------------ the ratio clause on a model *)
(* "both densities are kernel means, the ratio lies in (0, 1/gamma]" for an estimator with lower set lo, greater
   set gr and parameter gamma, whatever valid kernel values the covariances produce *)
Definition ratio_clause {A} (gamma : Q) (lo gr : list A) : Prop :=
  forall alpha klow kgre, length klow = length lo -> length kgre = length gr ->
    (forall x, In x klow -> 0 <= x <= alpha) -> (forall x, In x kgre -> 0 <= x <= alpha) ->
    exists l g r, expected_improvement gamma klow kgre = Some (l, g, r) /\ 0 < l /\ 0 <= g /\
                  r == 1 / (gamma + (1 - gamma) * (g / l)) /\ 0 < r /\ r <= 1 / gamma.

Lemma ratio_clause_nonempty {A} gamma (lo gr : list A) : 0 < gamma -> gamma < 1 -> lo <> [] -> gr <> [] ->
  ratio_clause gamma lo gr.
Proof.
  intros G0 G1 Nl Ng alpha klow kgre Ll Lg Hl Hg.
  assert (klow <> []) by (destruct klow; [destruct lo; [congruence|discriminate]|discriminate]).
  assert (kgre <> []) by (destruct kgre; [destruct gr; [congruence|discriminate]|discriminate]).
  destruct (ei_spec gamma alpha klow kgre) as (l & g & r & E & _ & _ & R); try assumption.
  exists l, g, r. split; [exact E|]. exact R.
Qed.

(* the estimator built by the constructor satisfies the ratio clause for every observation set, gamma in (0,1),
   forget factor and sorting permutation *)
Theorem constructor_ratio_clause gamma forget pts vals perm lower greater :
  0 < gamma -> gamma < 1 -> 0 <= forget -> length vals = length pts ->
  form_model gamma forget pts vals perm = Ok (lower, greater) ->
  sorting_perm_b (firstn (Z.to_nat (unforgotten forget (length pts))) vals) perm = true ->
  ratio_clause gamma (map fst lower) (map fst greater).
Proof.
  intros G0 G1 Hf L H SP.
  destruct (split_spec gamma forget pts vals perm lower greater Hf L H SP) as (Ll & Lg & H3 & Hs & _).
  apply ratio_clause_nonempty; try assumption.
  - intro E. apply (f_equal (@length _)) in E. rewrite map_length in E. cbn in E. lia.
  - intro E. apply (f_equal (@length _)) in E. rewrite map_length in E. cbn in E. lia.
Qed.

(* the threshold split, whenever it is forced, gives gamma in (0, 1) and satisfies the ratio clause *)
Theorem search_ratio_clause_forced dim (pts : list point) thr pf dflt lower greater gamma :
  length pf = length pts ->
  (0 < count_true (violations thr pf))%nat ->
  (dim < length pts - count_true (violations thr pf))%nat ->
  search_split dim pts (violations thr pf) dflt = (lower, greater, gamma) ->
  0 < gamma /\ gamma < 1 /\ ratio_clause gamma lower greater.
Proof.
  intros L Hv Hd E.
  destruct (search_split_spec dim pts thr pf dflt L Hv Hd) as (lo & gr & g & E' & _ & _ & _ & _ & _ & _ & G0 & G1 & Nl & Ng).
  rewrite E in E'. injection E' as <- <- <-.
  repeat split; try assumption. apply ratio_clause_nonempty; assumption.
Qed.

(* the search view builds its estimator with forget factor 0: every observation is kept *)
Lemma unforgotten_zero n : unforgotten 0 n = Z.of_nat n.
Proof.
  unfold unforgotten, trunc, Qmult. cbn [Qnum Qden]. rewrite Z.mul_0_l, Z.quot_0_l by lia. lia.
Qed.

Lemma kept_obs_all (pts : list point) (vals : list Q) :
  length vals = length pts -> kept_obs (length pts) pts vals = combine pts vals.
Proof.
  intro L. unfold kept_obs. rewrite firstn_all. rewrite <- L. rewrite firstn_all. reflexivity.
Qed.

(* NO VIOLATOR: the search estimator is the constructor's own (the forced split would leave an empty greater set, which has
   no density): gamma stays gamma0 (0.2 in the view), the lower set holds the s = max(floor(gamma0 n), 3) observations with the
   lowest values of the chosen constraint metric and the greater set the n - s >= 1 others, both densities are defined and
   the ratio lies in (0, 1/gamma0] *)
Theorem search_model_no_violator gamma0 dim pts vals perm thr pf lower greater gamma :
  0 < gamma0 -> gamma0 < 1 -> length vals = length pts ->
  count_true (violations thr pf) = 0%nat ->
  sorting_perm_b vals perm = true ->
  search_model gamma0 dim pts vals perm thr pf = Ok (lower, greater, gamma) ->
  gamma = gamma0 /\
  exists lo gr, form_model gamma0 0 pts vals perm = Ok (lo, gr) /\ lower = map fst lo /\ greater = map fst gr /\
    let n := length pts in
    let s := Z.to_nat (lower_size gamma0 (Z.of_nat n)) in
    Z.of_nat s = Z.max (Qfloor (inject_Z (Z.of_nat n) * gamma0)) 3 /\
    length lower = s /\ length greater = (n - s)%nat /\ (3 <= s)%nat /\ (s < n)%nat /\ (10 <= n)%nat /\
    Permutation (lo ++ gr) (combine pts vals) /\
    (forall a b, In a lo -> In b gr -> snd a <= snd b) /\
    ratio_clause gamma lower greater.
Proof.
  intros G0 G1 L Hv SP H. unfold search_model in H.
  destruct (form_model gamma0 0 pts vals perm) as [[lo gr]|] eqn:F; [|discriminate].
  rewrite search_split_default in H by (left; exact Hv). injection H as <- <- <-.
  split; [reflexivity|]. exists lo, gr. split; [reflexivity|]. split; [reflexivity|]. split; [reflexivity|].
  assert (SP' : sorting_perm_b (firstn (Z.to_nat (unforgotten 0 (length pts))) vals) perm = true).
  { rewrite unforgotten_zero, Nat2Z.id, <- L, firstn_all. exact SP. }
  assert (F0 : 0 <= 0) by lra.
  pose proof (split_spec gamma0 0 pts vals perm lo gr F0 L F SP') as S.
  cbv zeta in S. rewrite unforgotten_zero, Nat2Z.id in S.
  destruct S as (Ll & Lg & H3 & Hs & Hm & P & Sep).
  rewrite kept_obs_all in P by exact L.
  cbv zeta. rewrite !map_length.
  split.
  { rewrite Z2Nat.id by (unfold lower_size, SPE_MINIMUM_LOWER_POINT_TOTAL; lia).
    apply lower_size_floor; [lra|lia]. }
  repeat (split; [first [assumption|lia]|]).
  apply (constructor_ratio_clause gamma0 0 pts vals perm lo gr G0 G1 F0 L F SP').
Qed.

(* EVERY estimator the search view builds - threshold split or constructor's split - has gamma in (0, 1), two non-empty
   sets, and satisfies the whole ratio clause *)
Theorem search_model_ratio_clause gamma0 dim pts vals perm thr pf lower greater gamma :
  0 < gamma0 -> gamma0 < 1 -> length vals = length pts -> length pf = length pts ->
  sorting_perm_b vals perm = true ->
  search_model gamma0 dim pts vals perm thr pf = Ok (lower, greater, gamma) ->
  0 < gamma /\ gamma < 1 /\ lower <> [] /\ greater <> [] /\ ratio_clause gamma lower greater.
Proof.
  intros G0 G1 L Lp SP H. unfold search_model in H.
  destruct (form_model gamma0 0 pts vals perm) as [[lo gr]|] eqn:F; [|discriminate].
  injection H as H.
  destruct (search_forced dim (length pts) (count_true (violations thr pf))) eqn:SF.
  - apply search_forced_spec in SF. destruct SF as [Hv Hd].
    destruct (search_split_spec dim pts thr pf (map fst lo, map fst gr, gamma0) Lp Hv Hd)
      as (lo' & gr' & g' & E' & _ & _ & _ & _ & _ & _ & P0 & P1 & Nl & Ng).
    rewrite H in E'. injection E' as <- <- <-.
    repeat (split; [assumption|]). apply ratio_clause_nonempty; assumption.
  - unfold search_split in H. rewrite SF in H. injection H as <- <- <-.
    assert (SP' : sorting_perm_b (firstn (Z.to_nat (unforgotten 0 (length pts))) vals) perm = true).
    { rewrite unforgotten_zero, Nat2Z.id, <- L, firstn_all. exact SP. }
    assert (F0 : 0 <= 0) by lra.
    destruct (split_spec gamma0 0 pts vals perm lo gr F0 L F SP') as (Ll & Lg & H3 & Hs & _).
    split; [exact G0|]. split; [exact G1|].
    split; [intro E; apply (f_equal (@length _)) in E; rewrite map_length in E; cbn in E; lia|].
    split; [intro E; apply (f_equal (@length _)) in E; rewrite map_length in E; cbn in E; lia|].
    apply (constructor_ratio_clause gamma0 0 pts vals perm lo gr G0 G1 F0 L F SP').
Qed.

(* the witness that was the counterexample before the repair of the view (ten 1-d observations 0..9, threshold 100, nothing
   violates): the estimator is now the constructor's, lower = the three lowest observations, gamma = 1/5 *)
Definition search_witness_pts : list point := map (fun k => [inject_Z (Z.of_nat k)]) (seq 0 10).
Definition search_witness_vals : list Q := map (fun k => inject_Z (Z.of_nat k)) (seq 0 10).
Definition search_witness_pf : list (list Q) := map (fun k => [inject_Z (Z.of_nat k)]) (seq 0 10).

Lemma search_examples :
  let rows a n := map (fun k => [inject_Z (Z.of_nat k)]) (seq a n) in
  sorting_perm_b search_witness_vals (seq 0 10) = true /\
  (* threshold 100: nothing violates, ten satisfiers > dimension 1 -> the constructor's split, gamma0 *)
  count_true (violations [Some 100] search_witness_pf) = 0%nat /\
  search_model (1 # 5) 1 search_witness_pts search_witness_vals (seq 0 10) [Some 100] search_witness_pf
    = Ok (rows 0 3, rows 3 7, 1 # 5)%nat /\
  (* threshold 8: the observations 8 and 9 violate, eight satisfiers > dimension 1 -> the threshold split, gamma = 2/10 *)
  count_true (violations [Some 8] search_witness_pf) = 2%nat /\
  search_model (1 # 5) 1 search_witness_pts search_witness_vals (seq 0 10) [Some 8] search_witness_pf
    = Ok (rows 0 8, rows 8 2, 2 # 10)%nat /\
  (* threshold 8 in a nine-dimensional space: eight satisfiers do not outnumber the dimension -> the constructor's split *)
  search_model (1 # 5) 9 search_witness_pts search_witness_vals (seq 0 10) [Some 8] search_witness_pf
    = Ok (rows 0 3, rows 3 7, 1 # 5)%nat /\
  (* the density and the ratio of the no-violator estimator on concrete kernel rows: defined, in (0, 5] *)
  (exists l g r, expected_improvement (1 # 5) [1; 1 # 2; 1 # 4] (repeat (1 # 8) 7) = Some (l, g, r) /\ 0 < r /\ r <= 5).
Proof.
  cbv zeta. repeat (split; [vm_compute; reflexivity|]).
  eexists _, _, _. split; [vm_compute; reflexivity|]. vm_compute. split; [reflexivity|discriminate].
Qed.

(* ------------------------------------------------------------------ soundness of the correspondence check (split) *)
Lemma row_eqb_sound a b : row_eqb a b = true -> Forall2 Qeq a b.
Proof.
  revert b. induction a as [|x a IH]; intros [|y b] H; try discriminate; constructor.
  - cbn in H. apply andb_true_iff in H. apply Qeq_bool_iff. apply H.
  - apply IH. cbn in H. apply andb_true_iff in H. apply H.
Qed.

Lemma rows_eqb_sound a b : rows_eqb a b = true -> Forall2 (Forall2 Qeq) a b.
Proof.
  revert b. induction a as [|x a IH]; intros [|y b] H; try discriminate; constructor.
  - cbn in H. apply andb_true_iff in H. apply row_eqb_sound. apply H.
  - apply IH. cbn in H. apply andb_true_iff in H. apply H.
Qed.

(* a split case accepted by the correspondence check (with the logged permutation) exhibits the implementation's
   lower / greater point rows as the point parts of a model split under a permutation meeting the argsort contract:
   theorem split_spec then applies to it *)
Theorem split_case_ok_sound gamma forget pts vals p lo gr :
  0 <= forget -> length vals = length pts ->
  split_case_ok gamma forget pts vals (Some p) (OOk lo gr) = true ->
  exists lower greater,
    form_model gamma forget pts vals p = Ok (lower, greater) /\
    Forall2 (Forall2 Qeq) (map fst lower) lo /\ Forall2 (Forall2 Qeq) (map fst greater) gr /\
    let m := Z.to_nat (unforgotten forget (length pts)) in
    let s := Z.to_nat (lower_size gamma (unforgotten forget (length pts))) in
    length lower = s /\ length greater = (m - s)%nat /\ (3 <= s)%nat /\ (s < m)%nat /\ (10 <= m <= length pts)%nat /\
    Permutation (lower ++ greater) (kept_obs m pts vals) /\
    (forall a b, In a lower -> In b greater -> snd a <= snd b).
Proof.
  intros Hf L H. unfold split_case_ok in H. apply andb_true_iff in H. destruct H as [_ H].
  destruct (form_model gamma forget pts vals p) as [[mlo mgr]|] eqn:E; [|discriminate].
  apply andb_true_iff in H. destruct H as [H Hg]. apply andb_true_iff in H. destruct H as [SP Hl].
  exists mlo, mgr. split; [reflexivity|]. split; [apply rows_eqb_sound; exact Hl|]. split; [apply rows_eqb_sound; exact Hg|].
  exact (split_spec gamma forget pts vals p mlo mgr Hf L E SP).
Qed.
