(* C02 x C03 composed for the MATERN kernels: the posterior covariance of the generated GP (Gen.GenGP: GPNoise / GPNugget /
   GPNoiseZeroMean .cov) is positive semi-definite for C0RadialMatern, C2RadialMatern and C4RadialMatern (the library's default),
   UNCONDITIONALLY apart from the Cholesky contract — the Matern analogue of Proofs/ComposePsd.v (SquareExponential), whose bridge
   (psdR <-> psd at R, block_mx_joint, joinp) is reused.  The part that does not depend on the kernel is proved once, for any kernel of the
   form alpha * kp(p, q) with kp symmetric whose nat-indexed Gram matrices (+ non-negative noise on the diagonal) are PSD (Section
   RadialJoint); the three kernels instantiate it with the n x n theorems of Proofs/MaternPsd.v. *)
From Coq Require Import Reals Lra Arith Lia.
From Coquelicot Require Import Coquelicot.
From mathcomp Require Import all_ssreflect all_fingroup all_algebra.
From LV Require Import Lib.RBase Lib.MxAux Lib.RStruct Gen.GenGP Gen.GenCovariance Proofs.GP Proofs.Covariance Proofs.Hadamard Proofs.SEPsd
                       Proofs.LogLikFull Proofs.ComposePsd Proofs.MaternPsd.
Set Implicit Arguments. Unset Strict Implicit. Unset Printing Implicit Defensive.
Import GRing.Theory.
Local Open Scope ring_scope.

(* ------------------------------------------------------------------ kernel-independent part *)
Section RadialJoint.
Variable kp : (nat -> R) -> (nat -> R) -> R.
Hypothesis kp_sym : forall p q, kp p q = kp q p.
Variable alpha : R.
(* the symmetric entry point of such a kernel: alpha * kp(x_a, x_b) + noise on the diagonal *)
Definition gsym (X : nat -> nat -> R) (nz : nat -> R) (a b : nat) : R := (alpha * kp (X a) (X b) + (if Nat.eqb a b then nz a else 0))%Re.
Hypothesis Halpha : Rle 0 alpha.
Hypothesis gsym_psd : forall N X nz, (forall j, Rle 0 (nz j)) -> psdR N (gsym X nz).

Variables (n m : nat) (xs xe : nat -> nat -> R) (noise : 'cV[R]_n).
Variables (Kker : 'M[R]_n) (K_eval : 'M[R]_(m,n)) (Kss : 'M[R]_m).
Hypothesis HK : forall i j, Kker i j = (alpha * kp (xs i) (xs j))%Re.
Hypothesis HE : forall i j, K_eval i j = (alpha * kp (xe i) (xs j))%Re.
Hypothesis HS : forall i j, Kss i j = (alpha * kp (xe i) (xe j))%Re.

Lemma radial_joint_block :
  block_mx (GPNoise.kernel_matrix Kker noise) K_eval^T K_eval Kss = mxof (n + m) (gsym (joinp n xs xe) (cvv noise)).
Proof.
  rewrite -block_mx_joint. congr block_mx; apply/matrixP => i j; rewrite !mxE /gsym.
  - rewrite HK (joinp_l _ _ (ltn_ord i)) (joinp_l _ _ (ltn_ord j)) cvvE. congr (_ + _)%Re.
    have -> : (i == j) = (nat_of_ord i == nat_of_ord j) by [].
    by case: (Nat.eqb_spec i j) => [->|/eqP/negbTE->]; rewrite ?eqxx.
  - rewrite HE (joinp_l _ _ (ltn_ord i)) joinp_r kp_sym.
    case: (Nat.eqb_spec i (n + j)) => [E|_]; last by rewrite /GRing.zero /=; ring.
    by have := ltn_ord i; rewrite E ltnNge leq_addr.
  - rewrite HE (joinp_l _ _ (ltn_ord j)) joinp_r.
    case: (Nat.eqb_spec (n + i) j) => [E|_]; last by rewrite /GRing.zero /=; ring.
    by have := ltn_ord j; rewrite -E ltnNge leq_addr.
  - rewrite HS !joinp_r cvv_out ?leq_addr //. case: (Nat.eqb (n + i) (n + j)); rewrite /GRing.zero /=; ring.
Qed.

Hypothesis Hnoise : forall i, Rle 0 (noise i 0).

Lemma cvv_noise_nonneg a : Rle 0 (cvv noise a).
Proof.
  case: (ltnP a n) => Ha; last by rewrite cvv_out //; exact: Rle_refl.
  by rewrite -[a]/(nat_of_ord (Ordinal Ha)) cvvE.
Qed.

Theorem radial_joint_block_psd : psd (block_mx (GPNoise.kernel_matrix Kker noise) K_eval^T K_eval Kss).
Proof. rewrite radial_joint_block. apply: psdR_psd. exact: (gsym_psd (n + m) _ cvv_noise_nonneg). Qed.

Variable chol : 'M[R]_n -> 'M[R]_n.
Let K := GPNoise.kernel_matrix Kker noise.
Hypothesis cholK : chol K *m (chol K)^T = K.
Hypothesis cholu : chol K \in unitmx.

Theorem radial_posterior_cov_psd : psd (GPNoise.cov chol Kker noise K_eval Kss) /\ psd (GPNoiseZeroMean.cov chol Kker noise K_eval Kss).
Proof. have H := @noise_cov_psd _ _ _ chol _ _ _ _ cholK cholu radial_joint_block_psd. by split. Qed.

(* pointwise variance: kxx = the diagonal of Kss *)
Variables (kxx : 'cV[R]_m) (min_var : R).
Hypothesis Hkxx : forall i, kxx i 0 = Kss i i.

Theorem radial_posterior_variance :
  let v := kxx - diagcol (K_eval *m invmx K *m K_eval^T) in
  GPNoise.var_tri chol Kker noise K_eval kxx min_var = floor_at min_var v /\
  (forall i, v i 0 = GPNoise.cov chol Kker noise K_eval Kss i i) /\
  (forall i, Rle 0 (v i 0)).
Proof.
  move=> v. split; first exact: (@noise_var_closed_form _ _ _ chol _ _ K_eval kxx min_var cholK cholu).
  have Hd i : v i 0 = GPNoise.cov chol Kker noise K_eval Kss i i.
    rewrite (@noise_cov_closed_form _ _ _ chol _ _ K_eval Kss cholK cholu) /v [LHS]mxE Hkxx [RHS]mxE.
    congr (_ + _). rewrite [LHS]mxE [RHS]mxE. congr (- _). by rewrite [LHS]mxE.
  split; first exact: Hd. move=> i. rewrite Hd. apply: psd_diag_ge0. by case: radial_posterior_cov_psd.
Qed.
End RadialJoint.

(* ================================================================== C0RadialMatern *)
Section C0Rows.
Variables (dim : nat) (ls lsq lcu : nat -> R) (alpha : R).
Local Open Scope R_scope.
(* phiC0(|p/l - q/l|) for two points p q (coordinates k < dim) *)
Definition c0_pair (p q : nat -> R) : R := phiC0 (sqrt (bigsum dim (fun k => (p k / ls k - q k / ls k) ^ 2))).
Lemma c0_pair_sym p q : c0_pair p q = c0_pair q p.
Proof. rewrite /c0_pair. congr (phiC0 (sqrt _)). apply: bigsum_ext => k _. ring. Qed.
Lemma C0_sym_entry xs noise a b :
  C0RadialMatern.kernel_matrix_sym dim xs noise ls lsq lcu alpha a b
  = alpha * c0_pair (xs a) (xs b) + (if Nat.eqb a b then noise a else 0).
Proof. exact: C0_sym_profile. Qed.
(* rows of kernel_matrix_cross are the points of its SECOND point-set argument (points_to_sample), columns those of the first *)
Lemma C0_cross_entry xs xe i j :
  C0RadialMatern.kernel_matrix_cross dim xs xe ls lsq lcu alpha i j = alpha * c0_pair (xe i) (xs j).
Proof.
  have E : Rmax 0 (bigsum dim (fun k => (xe i k / ls k) ^ 2) + bigsum dim (fun k => (xs j k / ls k) ^ 2)
                   - 2 * bigsum dim (fun k => xe i k / ls k * (xs j k / ls k)))
           = bigsum dim (fun k => (xe i k / ls k - xs j k / ls k) ^ 2).
    rewrite (expand_square dim (fun k => xe i k / ls k) (fun k => xs j k / ls k)).
    apply: Rmax_right. apply: bigsum_nonneg => k _. exact: pow2_ge_0.
  rewrite /C0RadialMatern.kernel_matrix_cross /c0_pair E. by [].
Qed.
Lemma C0_pair_entry xe i :
  C0RadialMatern.covariance dim xe xe ls lsq lcu alpha i = alpha * c0_pair (xe i) (xe i).
Proof.
  have E p : bigsum dim (fun k => (p k / ls k - p k / ls k) ^ 2) = 0.
    rewrite (bigsum_ext dim _ (fun _ => 0)); first exact: bigsum_zero.
    move=> k _. rewrite /Rminus Rplus_opp_r. ring.
  rewrite /C0RadialMatern.covariance /c0_pair E -/(d2w dim xe xe ls i i) d2w_diag /phiC0 sqrt_0. congr (alpha * _); field.
Qed.
End C0Rows.

Section C0Posterior.
Variables (n m dim : nat) (chol : 'M[R]_n -> 'M[R]_n) (xs xe : nat -> nat -> R) (ls lsq lcu : nat -> R) (alpha : R).
Definition C0_Kker : 'M[R]_n := \matrix_(i, j) C0RadialMatern.kernel_matrix_sym dim xs (fun _ => 0%Re) ls lsq lcu alpha i j.
Definition C0_K_eval : 'M[R]_(m,n) := \matrix_(i, j) C0RadialMatern.kernel_matrix_cross dim xs xe ls lsq lcu alpha i j.
Definition C0_Kss : 'M[R]_m := \matrix_(i, j) C0RadialMatern.kernel_matrix_sym dim xe (fun _ => 0%Re) ls lsq lcu alpha i j.
Definition C0_Kker_cross : 'M[R]_n := \matrix_(i, j) C0RadialMatern.kernel_matrix_cross dim xs xs ls lsq lcu alpha i j.
Definition C0_Kss_cross : 'M[R]_m := \matrix_(i, j) C0RadialMatern.kernel_matrix_cross dim xe xe ls lsq lcu alpha i j.
Definition C0_kxx : 'cV[R]_m := \col_i C0RadialMatern.covariance dim xe xe ls lsq lcu alpha i.

Lemma C0_Kker_entry i j : C0_Kker i j = (alpha * c0_pair dim ls (xs i) (xs j))%Re.
Proof. rewrite mxE C0_sym_entry. case: (Nat.eqb i j); ring. Qed.
Lemma C0_Kss_entry i j : C0_Kss i j = (alpha * c0_pair dim ls (xe i) (xe j))%Re.
Proof. rewrite mxE C0_sym_entry. case: (Nat.eqb i j); ring. Qed.
Lemma C0_K_eval_entry i j : C0_K_eval i j = (alpha * c0_pair dim ls (xe i) (xs j))%Re.
Proof. by rewrite mxE C0_cross_entry. Qed.
Lemma C0_Kker_cross_entry i j : C0_Kker_cross i j = (alpha * c0_pair dim ls (xs i) (xs j))%Re.
Proof. by rewrite mxE C0_cross_entry. Qed.
Lemma C0_Kss_cross_entry i j : C0_Kss_cross i j = (alpha * c0_pair dim ls (xe i) (xe j))%Re.
Proof. by rewrite mxE C0_cross_entry. Qed.
Lemma C0_kxx_diag i : C0_kxx i 0 = C0_Kss i i.
Proof. by rewrite mxE C0_pair_entry C0_Kss_entry. Qed.
Lemma C0_kxx_diag_cross i : C0_kxx i 0 = C0_Kss_cross i i.
Proof. by rewrite mxE C0_pair_entry C0_Kss_cross_entry. Qed.

(* GenGP's kernel_matrix (kernel part + diag noise) IS the generated symmetric kernel matrix with the noise vector *)
Lemma C0_kernel_matrix_generated (noise : 'cV[R]_n) :
  GPNoise.kernel_matrix C0_Kker noise = \matrix_(i, j) C0RadialMatern.kernel_matrix_sym dim xs (cvv noise) ls lsq lcu alpha i j.
Proof.
  apply/matrixP => i j. rewrite !mxE !C0_sym_entry cvvE.
  have -> : (i == j) = (nat_of_ord i == nat_of_ord j) by [].
  case: (Nat.eqb_spec i j) => [->|/eqP/negbTE->]; rewrite ?eqxx ?mulr1n ?mulr0n /GRing.add /GRing.zero /=; ring.
Qed.

(* the generated symmetric entry point is gsym of the pair function *)
Lemma C0_gsym_psd (Ha : Rle 0 alpha) N X nz : (forall j, Rle 0 (nz j)) -> psdR N (gsym (c0_pair dim ls) alpha X nz).
Proof.
  move=> Hn. apply: (psd_ext N (fun a b => C0RadialMatern.kernel_matrix_sym dim X nz ls lsq lcu alpha a b)).
  - move=> a b _ _. exact: C0_sym_entry.
  - exact: (C0_sym_gram_psd_any_ls N dim X ls lsq lcu alpha nz Ha Hn).
Qed.

Variable noise : 'cV[R]_n.
Hypothesis Halpha : Rle 0 alpha.
Hypothesis Hnoise : forall i, Rle 0 (noise i 0).

Lemma C0_joint_block :
  block_mx (GPNoise.kernel_matrix C0_Kker noise) C0_K_eval^T C0_K_eval C0_Kss
  = mxof (n + m) (fun a b => C0RadialMatern.kernel_matrix_sym dim (joinp n xs xe) (cvv noise) ls lsq lcu alpha a b).
Proof.
  rewrite (radial_joint_block (@c0_pair_sym dim ls) noise C0_Kker_entry C0_K_eval_entry C0_Kss_entry).
  apply/matrixP => a b. rewrite !mxE. symmetry. exact: C0_sym_entry.
Qed.

Theorem C0_posterior_cov_psd :
  let K := GPNoise.kernel_matrix C0_Kker noise in
  chol K *m (chol K)^T = K -> chol K \in unitmx ->
  K = \matrix_(i, j) C0RadialMatern.kernel_matrix_sym dim xs (cvv noise) ls lsq lcu alpha i j /\
  psd (block_mx K C0_K_eval^T C0_K_eval C0_Kss) /\
  psd (GPNoise.cov chol C0_Kker noise C0_K_eval C0_Kss) /\
  psd (GPNoiseZeroMean.cov chol C0_Kker noise C0_K_eval C0_Kss).
Proof.
  move=> K H1 H2. split; first exact: C0_kernel_matrix_generated.
  split; first exact: (radial_joint_block_psd (@c0_pair_sym dim ls) (C0_gsym_psd Halpha) C0_Kker_entry C0_K_eval_entry C0_Kss_entry Hnoise).
  exact: (radial_posterior_cov_psd (@c0_pair_sym dim ls) (C0_gsym_psd Halpha) C0_Kker_entry C0_K_eval_entry C0_Kss_entry Hnoise H1 H2).
Qed.

(* the square blocks built by the cross entry point on one point set *)
Theorem C0_posterior_cov_psd_cross :
  let K := GPNoise.kernel_matrix C0_Kker_cross noise in
  chol K *m (chol K)^T = K -> chol K \in unitmx ->
  psd (GPNoise.cov chol C0_Kker_cross noise C0_K_eval C0_Kss_cross).
Proof.
  move=> K H1 H2.
  by case: (radial_posterior_cov_psd (@c0_pair_sym dim ls) (C0_gsym_psd Halpha) C0_Kker_cross_entry C0_K_eval_entry C0_Kss_cross_entry Hnoise H1 H2).
Qed.

(* pointwise posterior variance: non-negative before the floor *)
Theorem C0_posterior_variance (min_var : R) :
  let K := GPNoise.kernel_matrix C0_Kker noise in
  chol K *m (chol K)^T = K -> chol K \in unitmx ->
  let v := C0_kxx - diagcol (C0_K_eval *m invmx K *m C0_K_eval^T) in
  GPNoise.var_tri chol C0_Kker noise C0_K_eval C0_kxx min_var = floor_at min_var v /\
  (forall i, v i 0 = GPNoise.cov chol C0_Kker noise C0_K_eval C0_Kss i i) /\
  (forall i, Rle 0 (v i 0)).
Proof.
  move=> K H1 H2.
  exact: (radial_posterior_variance (@c0_pair_sym dim ls) (C0_gsym_psd Halpha) C0_Kker_entry C0_K_eval_entry C0_Kss_entry Hnoise H1 H2
            min_var C0_kxx_diag).
Qed.
End C0Posterior.

(* nugget variant: GPNugget's kernel matrix / covariance are GPNoise's with the constant noise vector tik *)
Section C0Nugget.
Variables (n m dim : nat) (chol : 'M[R]_n -> 'M[R]_n) (xs xe : nat -> nat -> R) (ls lsq lcu : nat -> R) (alpha tik : R).
Hypothesis Halpha : Rle 0 alpha.
Hypothesis Htik : Rle 0 tik.
Theorem C0_posterior_cov_psd_nugget :
  let Kker := C0_Kker n dim xs ls lsq lcu alpha in
  let K := GPNugget.kernel_matrix Kker tik in
  chol K *m (chol K)^T = K -> chol K \in unitmx ->
  psd (GPNugget.cov chol Kker tik (C0_K_eval n m dim xs xe ls lsq lcu alpha) (C0_Kss m dim xe ls lsq lcu alpha)).
Proof.
  move=> Kker K H1 H2.
  have Hn : forall i : 'I_n, Rle 0 ((const_mx tik : 'cV[R]_n) i 0) by move=> i; rewrite mxE.
  have [_ [_ [Hc _]]] := @C0_posterior_cov_psd n m dim chol xs xe ls lsq lcu alpha (const_mx tik) Halpha Hn H1 H2.
  exact: Hc.
Qed.
End C0Nugget.

(* the hypotheses are satisfiable: one observation, any number of queries (chol11 of Proofs/ComposePsd.v) *)
Section C0Instance.
Variables (m dim : nat) (xs xe : nat -> nat -> R) (ls lsq lcu : nat -> R) (alpha : R) (noise : 'cV[R]_1).
Hypothesis Halpha : Rlt 0 alpha.
Hypothesis Hnoise : forall i, Rle 0 (noise i 0).
Lemma C0_K11_pos : Rlt 0 (GPNoise.kernel_matrix (C0_Kker 1 dim xs ls lsq lcu alpha) noise 0 0).
Proof.
  rewrite /GPNoise.kernel_matrix mxE C0_Kker_entry !mxE eqxx mulr1n /GRing.add /=.
  apply: Rplus_lt_le_0_compat; last exact: Hnoise. apply: Rmult_lt_0_compat => //.
  by case: (phiC0_range _ (sqrt_pos (bigsum dim (fun k => ((xs 0%N k / ls k - xs 0%N k / ls k) ^ 2)%Re)))).
Qed.
Theorem C0_posterior_cov_psd_instance :
  let Kker := C0_Kker 1 dim xs ls lsq lcu alpha in
  let K := GPNoise.kernel_matrix Kker noise in
  (chol11 K *m (chol11 K)^T = K /\ chol11 K \in unitmx) /\
  psd (GPNoise.cov chol11 Kker noise (C0_K_eval 1 m dim xs xe ls lsq lcu alpha) (C0_Kss m dim xe ls lsq lcu alpha)).
Proof.
  move=> Kker K. have [H1 H2] := chol11_ok C0_K11_pos. split; first by [].
  have [_ [_ [Hc _]]] := @C0_posterior_cov_psd 1 m dim chol11 xs xe ls lsq lcu alpha noise (Rlt_le _ _ Halpha) Hnoise H1 H2.
  exact: Hc.
Qed.
End C0Instance.

(* ================================================================== C2RadialMatern *)
Section C2Rows.
Variables (dim : nat) (ls lsq lcu : nat -> R) (alpha : R).
Local Open Scope R_scope.
(* phiC2(|p/l - q/l|) for two points p q (coordinates k < dim) *)
Definition c2_pair (p q : nat -> R) : R := phiC2 (sqrt (bigsum dim (fun k => (p k / ls k - q k / ls k) ^ 2))).
Lemma c2_pair_sym p q : c2_pair p q = c2_pair q p.
Proof. rewrite /c2_pair. congr (phiC2 (sqrt _)). apply: bigsum_ext => k _. ring. Qed.
Lemma C2_sym_entry xs noise a b :
  C2RadialMatern.kernel_matrix_sym dim xs noise ls lsq lcu alpha a b
  = alpha * c2_pair (xs a) (xs b) + (if Nat.eqb a b then noise a else 0).
Proof. exact: C2_sym_profile. Qed.
(* rows of kernel_matrix_cross are the points of its SECOND point-set argument (points_to_sample), columns those of the first *)
Lemma C2_cross_entry xs xe i j :
  C2RadialMatern.kernel_matrix_cross dim xs xe ls lsq lcu alpha i j = alpha * c2_pair (xe i) (xs j).
Proof.
  have E : Rmax 0 (bigsum dim (fun k => (xe i k / ls k) ^ 2) + bigsum dim (fun k => (xs j k / ls k) ^ 2)
                   - 2 * bigsum dim (fun k => xe i k / ls k * (xs j k / ls k)))
           = bigsum dim (fun k => (xe i k / ls k - xs j k / ls k) ^ 2).
    rewrite (expand_square dim (fun k => xe i k / ls k) (fun k => xs j k / ls k)).
    apply: Rmax_right. apply: bigsum_nonneg => k _. exact: pow2_ge_0.
  rewrite /C2RadialMatern.kernel_matrix_cross /c2_pair E. by [].
Qed.
Lemma C2_pair_entry xe i :
  C2RadialMatern.covariance dim xe xe ls lsq lcu alpha i = alpha * c2_pair (xe i) (xe i).
Proof.
  have E p : bigsum dim (fun k => (p k / ls k - p k / ls k) ^ 2) = 0.
    rewrite (bigsum_ext dim _ (fun _ => 0)); first exact: bigsum_zero.
    move=> k _. rewrite /Rminus Rplus_opp_r. ring.
  rewrite /C2RadialMatern.covariance /c2_pair E -/(d2w dim xe xe ls i i) d2w_diag /phiC2 sqrt_0. congr (alpha * _); field.
Qed.
End C2Rows.

Section C2Posterior.
Variables (n m dim : nat) (chol : 'M[R]_n -> 'M[R]_n) (xs xe : nat -> nat -> R) (ls lsq lcu : nat -> R) (alpha : R).
Definition C2_Kker : 'M[R]_n := \matrix_(i, j) C2RadialMatern.kernel_matrix_sym dim xs (fun _ => 0%Re) ls lsq lcu alpha i j.
Definition C2_K_eval : 'M[R]_(m,n) := \matrix_(i, j) C2RadialMatern.kernel_matrix_cross dim xs xe ls lsq lcu alpha i j.
Definition C2_Kss : 'M[R]_m := \matrix_(i, j) C2RadialMatern.kernel_matrix_sym dim xe (fun _ => 0%Re) ls lsq lcu alpha i j.
Definition C2_Kker_cross : 'M[R]_n := \matrix_(i, j) C2RadialMatern.kernel_matrix_cross dim xs xs ls lsq lcu alpha i j.
Definition C2_Kss_cross : 'M[R]_m := \matrix_(i, j) C2RadialMatern.kernel_matrix_cross dim xe xe ls lsq lcu alpha i j.
Definition C2_kxx : 'cV[R]_m := \col_i C2RadialMatern.covariance dim xe xe ls lsq lcu alpha i.

Lemma C2_Kker_entry i j : C2_Kker i j = (alpha * c2_pair dim ls (xs i) (xs j))%Re.
Proof. rewrite mxE C2_sym_entry. case: (Nat.eqb i j); ring. Qed.
Lemma C2_Kss_entry i j : C2_Kss i j = (alpha * c2_pair dim ls (xe i) (xe j))%Re.
Proof. rewrite mxE C2_sym_entry. case: (Nat.eqb i j); ring. Qed.
Lemma C2_K_eval_entry i j : C2_K_eval i j = (alpha * c2_pair dim ls (xe i) (xs j))%Re.
Proof. by rewrite mxE C2_cross_entry. Qed.
Lemma C2_Kker_cross_entry i j : C2_Kker_cross i j = (alpha * c2_pair dim ls (xs i) (xs j))%Re.
Proof. by rewrite mxE C2_cross_entry. Qed.
Lemma C2_Kss_cross_entry i j : C2_Kss_cross i j = (alpha * c2_pair dim ls (xe i) (xe j))%Re.
Proof. by rewrite mxE C2_cross_entry. Qed.
Lemma C2_kxx_diag i : C2_kxx i 0 = C2_Kss i i.
Proof. by rewrite mxE C2_pair_entry C2_Kss_entry. Qed.
Lemma C2_kxx_diag_cross i : C2_kxx i 0 = C2_Kss_cross i i.
Proof. by rewrite mxE C2_pair_entry C2_Kss_cross_entry. Qed.

(* GenGP's kernel_matrix (kernel part + diag noise) IS the generated symmetric kernel matrix with the noise vector *)
Lemma C2_kernel_matrix_generated (noise : 'cV[R]_n) :
  GPNoise.kernel_matrix C2_Kker noise = \matrix_(i, j) C2RadialMatern.kernel_matrix_sym dim xs (cvv noise) ls lsq lcu alpha i j.
Proof.
  apply/matrixP => i j. rewrite !mxE !C2_sym_entry cvvE.
  have -> : (i == j) = (nat_of_ord i == nat_of_ord j) by [].
  case: (Nat.eqb_spec i j) => [->|/eqP/negbTE->]; rewrite ?eqxx ?mulr1n ?mulr0n /GRing.add /GRing.zero /=; ring.
Qed.

(* the generated symmetric entry point is gsym of the pair function *)
Lemma C2_gsym_psd (Ha : Rle 0 alpha) N X nz : (forall j, Rle 0 (nz j)) -> psdR N (gsym (c2_pair dim ls) alpha X nz).
Proof.
  move=> Hn. apply: (psd_ext N (fun a b => C2RadialMatern.kernel_matrix_sym dim X nz ls lsq lcu alpha a b)).
  - move=> a b _ _. exact: C2_sym_entry.
  - exact: (C2_sym_gram_psd_any_ls N dim X ls lsq lcu alpha nz Ha Hn).
Qed.

Variable noise : 'cV[R]_n.
Hypothesis Halpha : Rle 0 alpha.
Hypothesis Hnoise : forall i, Rle 0 (noise i 0).

Lemma C2_joint_block :
  block_mx (GPNoise.kernel_matrix C2_Kker noise) C2_K_eval^T C2_K_eval C2_Kss
  = mxof (n + m) (fun a b => C2RadialMatern.kernel_matrix_sym dim (joinp n xs xe) (cvv noise) ls lsq lcu alpha a b).
Proof.
  rewrite (radial_joint_block (@c2_pair_sym dim ls) noise C2_Kker_entry C2_K_eval_entry C2_Kss_entry).
  apply/matrixP => a b. rewrite !mxE. symmetry. exact: C2_sym_entry.
Qed.

Theorem C2_posterior_cov_psd :
  let K := GPNoise.kernel_matrix C2_Kker noise in
  chol K *m (chol K)^T = K -> chol K \in unitmx ->
  K = \matrix_(i, j) C2RadialMatern.kernel_matrix_sym dim xs (cvv noise) ls lsq lcu alpha i j /\
  psd (block_mx K C2_K_eval^T C2_K_eval C2_Kss) /\
  psd (GPNoise.cov chol C2_Kker noise C2_K_eval C2_Kss) /\
  psd (GPNoiseZeroMean.cov chol C2_Kker noise C2_K_eval C2_Kss).
Proof.
  move=> K H1 H2. split; first exact: C2_kernel_matrix_generated.
  split; first exact: (radial_joint_block_psd (@c2_pair_sym dim ls) (C2_gsym_psd Halpha) C2_Kker_entry C2_K_eval_entry C2_Kss_entry Hnoise).
  exact: (radial_posterior_cov_psd (@c2_pair_sym dim ls) (C2_gsym_psd Halpha) C2_Kker_entry C2_K_eval_entry C2_Kss_entry Hnoise H1 H2).
Qed.

(* the square blocks built by the cross entry point on one point set *)
Theorem C2_posterior_cov_psd_cross :
  let K := GPNoise.kernel_matrix C2_Kker_cross noise in
  chol K *m (chol K)^T = K -> chol K \in unitmx ->
  psd (GPNoise.cov chol C2_Kker_cross noise C2_K_eval C2_Kss_cross).
Proof.
  move=> K H1 H2.
  by case: (radial_posterior_cov_psd (@c2_pair_sym dim ls) (C2_gsym_psd Halpha) C2_Kker_cross_entry C2_K_eval_entry C2_Kss_cross_entry Hnoise H1 H2).
Qed.

(* pointwise posterior variance: non-negative before the floor *)
Theorem C2_posterior_variance (min_var : R) :
  let K := GPNoise.kernel_matrix C2_Kker noise in
  chol K *m (chol K)^T = K -> chol K \in unitmx ->
  let v := C2_kxx - diagcol (C2_K_eval *m invmx K *m C2_K_eval^T) in
  GPNoise.var_tri chol C2_Kker noise C2_K_eval C2_kxx min_var = floor_at min_var v /\
  (forall i, v i 0 = GPNoise.cov chol C2_Kker noise C2_K_eval C2_Kss i i) /\
  (forall i, Rle 0 (v i 0)).
Proof.
  move=> K H1 H2.
  exact: (radial_posterior_variance (@c2_pair_sym dim ls) (C2_gsym_psd Halpha) C2_Kker_entry C2_K_eval_entry C2_Kss_entry Hnoise H1 H2
            min_var C2_kxx_diag).
Qed.
End C2Posterior.

(* nugget variant: GPNugget's kernel matrix / covariance are GPNoise's with the constant noise vector tik *)
Section C2Nugget.
Variables (n m dim : nat) (chol : 'M[R]_n -> 'M[R]_n) (xs xe : nat -> nat -> R) (ls lsq lcu : nat -> R) (alpha tik : R).
Hypothesis Halpha : Rle 0 alpha.
Hypothesis Htik : Rle 0 tik.
Theorem C2_posterior_cov_psd_nugget :
  let Kker := C2_Kker n dim xs ls lsq lcu alpha in
  let K := GPNugget.kernel_matrix Kker tik in
  chol K *m (chol K)^T = K -> chol K \in unitmx ->
  psd (GPNugget.cov chol Kker tik (C2_K_eval n m dim xs xe ls lsq lcu alpha) (C2_Kss m dim xe ls lsq lcu alpha)).
Proof.
  move=> Kker K H1 H2.
  have Hn : forall i : 'I_n, Rle 0 ((const_mx tik : 'cV[R]_n) i 0) by move=> i; rewrite mxE.
  have [_ [_ [Hc _]]] := @C2_posterior_cov_psd n m dim chol xs xe ls lsq lcu alpha (const_mx tik) Halpha Hn H1 H2.
  exact: Hc.
Qed.
End C2Nugget.

(* the hypotheses are satisfiable: one observation, any number of queries (chol11 of Proofs/ComposePsd.v) *)
Section C2Instance.
Variables (m dim : nat) (xs xe : nat -> nat -> R) (ls lsq lcu : nat -> R) (alpha : R) (noise : 'cV[R]_1).
Hypothesis Halpha : Rlt 0 alpha.
Hypothesis Hnoise : forall i, Rle 0 (noise i 0).
Lemma C2_K11_pos : Rlt 0 (GPNoise.kernel_matrix (C2_Kker 1 dim xs ls lsq lcu alpha) noise 0 0).
Proof.
  rewrite /GPNoise.kernel_matrix mxE C2_Kker_entry !mxE eqxx mulr1n /GRing.add /=.
  apply: Rplus_lt_le_0_compat; last exact: Hnoise. apply: Rmult_lt_0_compat => //.
  by case: (phiC2_range _ (sqrt_pos (bigsum dim (fun k => ((xs 0%N k / ls k - xs 0%N k / ls k) ^ 2)%Re)))).
Qed.
Theorem C2_posterior_cov_psd_instance :
  let Kker := C2_Kker 1 dim xs ls lsq lcu alpha in
  let K := GPNoise.kernel_matrix Kker noise in
  (chol11 K *m (chol11 K)^T = K /\ chol11 K \in unitmx) /\
  psd (GPNoise.cov chol11 Kker noise (C2_K_eval 1 m dim xs xe ls lsq lcu alpha) (C2_Kss m dim xe ls lsq lcu alpha)).
Proof.
  move=> Kker K. have [H1 H2] := chol11_ok C2_K11_pos. split; first by [].
  have [_ [_ [Hc _]]] := @C2_posterior_cov_psd 1 m dim chol11 xs xe ls lsq lcu alpha noise (Rlt_le _ _ Halpha) Hnoise H1 H2.
  exact: Hc.
Qed.
End C2Instance.

(* ================================================================== C4RadialMatern *)
Section C4Rows.
Variables (dim : nat) (ls lsq lcu : nat -> R) (alpha : R).
Local Open Scope R_scope.
(* phiC4(|p/l - q/l|) for two points p q (coordinates k < dim) *)
Definition c4_pair (p q : nat -> R) : R := phiC4 (sqrt (bigsum dim (fun k => (p k / ls k - q k / ls k) ^ 2))).
Lemma c4_pair_sym p q : c4_pair p q = c4_pair q p.
Proof. rewrite /c4_pair. congr (phiC4 (sqrt _)). apply: bigsum_ext => k _. ring. Qed.
Lemma C4_sym_entry xs noise a b :
  C4RadialMatern.kernel_matrix_sym dim xs noise ls lsq lcu alpha a b
  = alpha * c4_pair (xs a) (xs b) + (if Nat.eqb a b then noise a else 0).
Proof. exact: C4_sym_profile. Qed.
(* rows of kernel_matrix_cross are the points of its SECOND point-set argument (points_to_sample), columns those of the first *)
Lemma C4_cross_entry xs xe i j :
  C4RadialMatern.kernel_matrix_cross dim xs xe ls lsq lcu alpha i j = alpha * c4_pair (xe i) (xs j).
Proof.
  have E : Rmax 0 (bigsum dim (fun k => (xe i k / ls k) ^ 2) + bigsum dim (fun k => (xs j k / ls k) ^ 2)
                   - 2 * bigsum dim (fun k => xe i k / ls k * (xs j k / ls k)))
           = bigsum dim (fun k => (xe i k / ls k - xs j k / ls k) ^ 2).
    rewrite (expand_square dim (fun k => xe i k / ls k) (fun k => xs j k / ls k)).
    apply: Rmax_right. apply: bigsum_nonneg => k _. exact: pow2_ge_0.
  rewrite /C4RadialMatern.kernel_matrix_cross /c4_pair E. rewrite phiC4_sqrt //. apply: bigsum_nonneg => k _. exact: pow2_ge_0.
Qed.
Lemma C4_pair_entry xe i :
  C4RadialMatern.covariance dim xe xe ls lsq lcu alpha i = alpha * c4_pair (xe i) (xe i).
Proof.
  have E p : bigsum dim (fun k => (p k / ls k - p k / ls k) ^ 2) = 0.
    rewrite (bigsum_ext dim _ (fun _ => 0)); first exact: bigsum_zero.
    move=> k _. rewrite /Rminus Rplus_opp_r. ring.
  rewrite /C4RadialMatern.covariance /c4_pair E -/(d2w dim xe xe ls i i) d2w_diag /phiC4 sqrt_0. congr (alpha * _); field.
Qed.
End C4Rows.

Section C4Posterior.
Variables (n m dim : nat) (chol : 'M[R]_n -> 'M[R]_n) (xs xe : nat -> nat -> R) (ls lsq lcu : nat -> R) (alpha : R).
Definition C4_Kker : 'M[R]_n := \matrix_(i, j) C4RadialMatern.kernel_matrix_sym dim xs (fun _ => 0%Re) ls lsq lcu alpha i j.
Definition C4_K_eval : 'M[R]_(m,n) := \matrix_(i, j) C4RadialMatern.kernel_matrix_cross dim xs xe ls lsq lcu alpha i j.
Definition C4_Kss : 'M[R]_m := \matrix_(i, j) C4RadialMatern.kernel_matrix_sym dim xe (fun _ => 0%Re) ls lsq lcu alpha i j.
Definition C4_Kker_cross : 'M[R]_n := \matrix_(i, j) C4RadialMatern.kernel_matrix_cross dim xs xs ls lsq lcu alpha i j.
Definition C4_Kss_cross : 'M[R]_m := \matrix_(i, j) C4RadialMatern.kernel_matrix_cross dim xe xe ls lsq lcu alpha i j.
Definition C4_kxx : 'cV[R]_m := \col_i C4RadialMatern.covariance dim xe xe ls lsq lcu alpha i.

Lemma C4_Kker_entry i j : C4_Kker i j = (alpha * c4_pair dim ls (xs i) (xs j))%Re.
Proof. rewrite mxE C4_sym_entry. case: (Nat.eqb i j); ring. Qed.
Lemma C4_Kss_entry i j : C4_Kss i j = (alpha * c4_pair dim ls (xe i) (xe j))%Re.
Proof. rewrite mxE C4_sym_entry. case: (Nat.eqb i j); ring. Qed.
Lemma C4_K_eval_entry i j : C4_K_eval i j = (alpha * c4_pair dim ls (xe i) (xs j))%Re.
Proof. by rewrite mxE C4_cross_entry. Qed.
Lemma C4_Kker_cross_entry i j : C4_Kker_cross i j = (alpha * c4_pair dim ls (xs i) (xs j))%Re.
Proof. by rewrite mxE C4_cross_entry. Qed.
Lemma C4_Kss_cross_entry i j : C4_Kss_cross i j = (alpha * c4_pair dim ls (xe i) (xe j))%Re.
Proof. by rewrite mxE C4_cross_entry. Qed.
Lemma C4_kxx_diag i : C4_kxx i 0 = C4_Kss i i.
Proof. by rewrite mxE C4_pair_entry C4_Kss_entry. Qed.
Lemma C4_kxx_diag_cross i : C4_kxx i 0 = C4_Kss_cross i i.
Proof. by rewrite mxE C4_pair_entry C4_Kss_cross_entry. Qed.

(* GenGP's kernel_matrix (kernel part + diag noise) IS the generated symmetric kernel matrix with the noise vector *)
Lemma C4_kernel_matrix_generated (noise : 'cV[R]_n) :
  GPNoise.kernel_matrix C4_Kker noise = \matrix_(i, j) C4RadialMatern.kernel_matrix_sym dim xs (cvv noise) ls lsq lcu alpha i j.
Proof.
  apply/matrixP => i j. rewrite !mxE !C4_sym_entry cvvE.
  have -> : (i == j) = (nat_of_ord i == nat_of_ord j) by [].
  case: (Nat.eqb_spec i j) => [->|/eqP/negbTE->]; rewrite ?eqxx ?mulr1n ?mulr0n /GRing.add /GRing.zero /=; ring.
Qed.

(* the generated symmetric entry point is gsym of the pair function *)
Lemma C4_gsym_psd (Ha : Rle 0 alpha) N X nz : (forall j, Rle 0 (nz j)) -> psdR N (gsym (c4_pair dim ls) alpha X nz).
Proof.
  move=> Hn. apply: (psd_ext N (fun a b => C4RadialMatern.kernel_matrix_sym dim X nz ls lsq lcu alpha a b)).
  - move=> a b _ _. exact: C4_sym_entry.
  - exact: (C4_sym_gram_psd_any_ls N dim X ls lsq lcu alpha nz Ha Hn).
Qed.

Variable noise : 'cV[R]_n.
Hypothesis Halpha : Rle 0 alpha.
Hypothesis Hnoise : forall i, Rle 0 (noise i 0).

Lemma C4_joint_block :
  block_mx (GPNoise.kernel_matrix C4_Kker noise) C4_K_eval^T C4_K_eval C4_Kss
  = mxof (n + m) (fun a b => C4RadialMatern.kernel_matrix_sym dim (joinp n xs xe) (cvv noise) ls lsq lcu alpha a b).
Proof.
  rewrite (radial_joint_block (@c4_pair_sym dim ls) noise C4_Kker_entry C4_K_eval_entry C4_Kss_entry).
  apply/matrixP => a b. rewrite !mxE. symmetry. exact: C4_sym_entry.
Qed.

Theorem C4_posterior_cov_psd :
  let K := GPNoise.kernel_matrix C4_Kker noise in
  chol K *m (chol K)^T = K -> chol K \in unitmx ->
  K = \matrix_(i, j) C4RadialMatern.kernel_matrix_sym dim xs (cvv noise) ls lsq lcu alpha i j /\
  psd (block_mx K C4_K_eval^T C4_K_eval C4_Kss) /\
  psd (GPNoise.cov chol C4_Kker noise C4_K_eval C4_Kss) /\
  psd (GPNoiseZeroMean.cov chol C4_Kker noise C4_K_eval C4_Kss).
Proof.
  move=> K H1 H2. split; first exact: C4_kernel_matrix_generated.
  split; first exact: (radial_joint_block_psd (@c4_pair_sym dim ls) (C4_gsym_psd Halpha) C4_Kker_entry C4_K_eval_entry C4_Kss_entry Hnoise).
  exact: (radial_posterior_cov_psd (@c4_pair_sym dim ls) (C4_gsym_psd Halpha) C4_Kker_entry C4_K_eval_entry C4_Kss_entry Hnoise H1 H2).
Qed.

(* the square blocks built by the cross entry point on one point set *)
Theorem C4_posterior_cov_psd_cross :
  let K := GPNoise.kernel_matrix C4_Kker_cross noise in
  chol K *m (chol K)^T = K -> chol K \in unitmx ->
  psd (GPNoise.cov chol C4_Kker_cross noise C4_K_eval C4_Kss_cross).
Proof.
  move=> K H1 H2.
  by case: (radial_posterior_cov_psd (@c4_pair_sym dim ls) (C4_gsym_psd Halpha) C4_Kker_cross_entry C4_K_eval_entry C4_Kss_cross_entry Hnoise H1 H2).
Qed.

(* pointwise posterior variance: non-negative before the floor *)
Theorem C4_posterior_variance (min_var : R) :
  let K := GPNoise.kernel_matrix C4_Kker noise in
  chol K *m (chol K)^T = K -> chol K \in unitmx ->
  let v := C4_kxx - diagcol (C4_K_eval *m invmx K *m C4_K_eval^T) in
  GPNoise.var_tri chol C4_Kker noise C4_K_eval C4_kxx min_var = floor_at min_var v /\
  (forall i, v i 0 = GPNoise.cov chol C4_Kker noise C4_K_eval C4_Kss i i) /\
  (forall i, Rle 0 (v i 0)).
Proof.
  move=> K H1 H2.
  exact: (radial_posterior_variance (@c4_pair_sym dim ls) (C4_gsym_psd Halpha) C4_Kker_entry C4_K_eval_entry C4_Kss_entry Hnoise H1 H2
            min_var C4_kxx_diag).
Qed.
End C4Posterior.

(* nugget variant: GPNugget's kernel matrix / covariance are GPNoise's with the constant noise vector tik *)
Section C4Nugget.
Variables (n m dim : nat) (chol : 'M[R]_n -> 'M[R]_n) (xs xe : nat -> nat -> R) (ls lsq lcu : nat -> R) (alpha tik : R).
Hypothesis Halpha : Rle 0 alpha.
Hypothesis Htik : Rle 0 tik.
Theorem C4_posterior_cov_psd_nugget :
  let Kker := C4_Kker n dim xs ls lsq lcu alpha in
  let K := GPNugget.kernel_matrix Kker tik in
  chol K *m (chol K)^T = K -> chol K \in unitmx ->
  psd (GPNugget.cov chol Kker tik (C4_K_eval n m dim xs xe ls lsq lcu alpha) (C4_Kss m dim xe ls lsq lcu alpha)).
Proof.
  move=> Kker K H1 H2.
  have Hn : forall i : 'I_n, Rle 0 ((const_mx tik : 'cV[R]_n) i 0) by move=> i; rewrite mxE.
  have [_ [_ [Hc _]]] := @C4_posterior_cov_psd n m dim chol xs xe ls lsq lcu alpha (const_mx tik) Halpha Hn H1 H2.
  exact: Hc.
Qed.
End C4Nugget.

(* the hypotheses are satisfiable: one observation, any number of queries (chol11 of Proofs/ComposePsd.v) *)
Section C4Instance.
Variables (m dim : nat) (xs xe : nat -> nat -> R) (ls lsq lcu : nat -> R) (alpha : R) (noise : 'cV[R]_1).
Hypothesis Halpha : Rlt 0 alpha.
Hypothesis Hnoise : forall i, Rle 0 (noise i 0).
Lemma C4_K11_pos : Rlt 0 (GPNoise.kernel_matrix (C4_Kker 1 dim xs ls lsq lcu alpha) noise 0 0).
Proof.
  rewrite /GPNoise.kernel_matrix mxE C4_Kker_entry !mxE eqxx mulr1n /GRing.add /=.
  apply: Rplus_lt_le_0_compat; last exact: Hnoise. apply: Rmult_lt_0_compat => //.
  by case: (phiC4_range _ (sqrt_pos (bigsum dim (fun k => ((xs 0%N k / ls k - xs 0%N k / ls k) ^ 2)%Re)))).
Qed.
Theorem C4_posterior_cov_psd_instance :
  let Kker := C4_Kker 1 dim xs ls lsq lcu alpha in
  let K := GPNoise.kernel_matrix Kker noise in
  (chol11 K *m (chol11 K)^T = K /\ chol11 K \in unitmx) /\
  psd (GPNoise.cov chol11 Kker noise (C4_K_eval 1 m dim xs xe ls lsq lcu alpha) (C4_Kss m dim xe ls lsq lcu alpha)).
Proof.
  move=> Kker K. have [H1 H2] := chol11_ok C4_K11_pos. split; first by [].
  have [_ [_ [Hc _]]] := @C4_posterior_cov_psd 1 m dim chol11 xs xe ls lsq lcu alpha noise (Rlt_le _ _ Halpha) Hnoise H1 H2.
  exact: Hc.
Qed.
End C4Instance.
