(* C08, log_sample branch of ContinuousDomain.generate_quasi_random_points_in_domain: the sampler is run on the bounds log(lo), log(hi)
   and its output is exponentiated.  Over R: a sample inside the logarithmic bounds comes back inside the original bounds. *)
From Coq Require Import Reals Lra.
Open Scope R_scope.

Lemma exp_of_log_sample lo hi p : 0 < lo -> lo <= hi -> ln lo <= p <= ln hi -> lo <= exp p <= hi.
Proof.
  intros Hlo Hle [H1 H2]. assert (Hhi : 0 < hi) by lra. split.
  - rewrite <- (exp_ln lo Hlo). destruct (Rle_lt_or_eq_dec _ _ H1) as [L|E]; [left; apply exp_increasing; exact L|rewrite E; apply Rle_refl].
  - rewrite <- (exp_ln hi Hhi). destruct (Rle_lt_or_eq_dec _ _ H2) as [L|E]; [left; apply exp_increasing; exact L|rewrite E; apply Rle_refl].
Qed.

(* the logarithmic bounds are ordered like the original ones, so every box sampler's contract (lo' <= p <= hi' given lo' <= hi') applies *)
Lemma log_bounds_ordered lo hi : 0 < lo -> lo <= hi -> ln lo <= ln hi.
Proof.
  intros Hlo Hle. destruct (Rle_lt_or_eq_dec _ _ Hle) as [L|E]; [left; apply ln_increasing; assumption|rewrite E; apply Rle_refl].
Qed.
