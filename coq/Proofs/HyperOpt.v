(* Proofs for C11 about Model.HyperOpt (composing Model.Multistart of C07, Model.Midpoint of C12, Model.Decode of C09). *)
From Coq Require Import List QArith ZArith Bool Arith Lia Lra Psatz Qabs.
From LV Require Import Model.Domain Model.HyperOpt.
From LV Require Model.Decode Model.Midpoint Model.Optim Model.Multistart Proofs.Multistart Proofs.Midpoint.
Import ListNotations.
Open Scope Q_scope.

(* ------------------------------------------------------------------------------------------ small facts *)
Lemma Qltb_true a b : Qltb a b = true <-> a < b.
Proof.
  unfold Qltb. rewrite negb_true_iff. split; intro H.
  - apply Qnot_le_lt. intro C. apply Qle_bool_iff in C. congruence.
  - destruct (Qle_bool b a) eqn:E; [|reflexivity]. apply Qle_bool_iff in E. exfalso. apply (Qlt_not_le _ _ H E).
Qed.
Lemma pos_b_true x : pos_b x = true <-> 0 < x.
Proof. apply Qltb_true. Qed.

Lemma Qmaxb_cases a b : (Qmaxb a b = a /\ b <= a) \/ (Qmaxb a b = b /\ a <= b).
Proof.
  unfold Qmaxb. destruct (Qle_bool a b) eqn:E.
  - right. split; [reflexivity|]. apply Qle_bool_iff. exact E.
  - left. split; [reflexivity|]. apply Qlt_le_weak. apply Qnot_le_lt. intro C. apply Qle_bool_iff in C. congruence.
Qed.
Lemma Qminb_cases a b : (Qminb a b = a /\ a <= b) \/ (Qminb a b = b /\ b <= a).
Proof.
  unfold Qminb. destruct (Qle_bool a b) eqn:E.
  - left. split; [reflexivity|]. apply Qle_bool_iff. exact E.
  - right. split; [reflexivity|]. apply Qlt_le_weak. apply Qnot_le_lt. intro C. apply Qle_bool_iff in C. congruence.
Qed.

Lemma firstn_last_id {A} (d : A) : forall n l, length l = S n -> firstn n l ++ [last l d] = l.
Proof.
  induction n as [|n IH]; intros [|x [|y r]] H; simpl in H; try discriminate; try lia.
  - reflexivity.
  - change (x :: (firstn n (y :: r) ++ [last (y :: r) d]) = x :: y :: r). f_equal. apply IH. simpl. lia.
Qed.

Lemma firstn_plus {A} : forall a b (v : list A), firstn (a + b) v = firstn a v ++ firstn b (skipn a v).
Proof.
  induction a as [|a IH]; intros b v; [reflexivity|]. destruct v as [|x v]; simpl.
  - now rewrite firstn_nil.
  - f_equal. apply IH.
Qed.

(* =========================================================================================== Part A *)
Section LLProofs.
  Variable E L : Q -> Q.
  Variable D : Type.
  Implicit Types s : @ll D.

  Lemma ll_set_ok s hp s' : ll_set E s hp = Ok s' ->
    length hp = problem_size s /\
    forallb pos_b (firstn (S (ll_dim s)) (if ll_log s then map E hp else hp)) = true /\
    s' = mkll (ll_dim s) (ll_auto s) (ll_log s) (firstn (S (ll_dim s)) (if ll_log s then map E hp else hp))
              (if ll_auto s then Some (last (if ll_log s then map E hp else hp) 0) else None) (ll_data s).
  Proof.
    unfold ll_set. destruct (Nat.eqb (length hp) (problem_size s)) eqn:El; cbn [negb]; [|discriminate].
    destruct (forallb pos_b (firstn (S (ll_dim s)) (if ll_log s then map E hp else hp))) eqn:Ev; cbn [negb]; [|discriminate].
    intro H. injection H as <-. apply Nat.eqb_eq in El. auto.
  Qed.

  (* reading after a successful set returns exactly what was set, mapped through log . exp in the log parameterisation *)
  Lemma get_after_set s hp s' : ll_set E s hp = Ok s' ->
    ll_get L s' = Some (if ll_log s then map L (map E hp) else hp).
  Proof.
    intro H. apply ll_set_ok in H. destruct H as (Hl & _ & ->). unfold ll_get, problem_size in *.
    cbn [ll_auto ll_tik ll_cov ll_log].
    set (lin := if ll_log s then map E hp else hp) in *.
    assert (Hlin : length lin = length hp) by (unfold lin; destruct (ll_log s); [apply map_length|reflexivity]).
    destruct (ll_auto s).
    - rewrite firstn_last_id by lia. unfold lin. destruct (ll_log s); reflexivity.
    - rewrite firstn_all2 by lia. unfold lin. destruct (ll_log s); reflexivity.
  Qed.

  Theorem set_get_id_linear s hp s' : ll_log s = false -> ll_set E s hp = Ok s' -> ll_get L s' = Some hp.
  Proof. intros Hlog H. rewrite (get_after_set _ _ _ H), Hlog. reflexivity. Qed.

  Theorem set_get_id s hp s' : (forall a, L (E a) == a) -> ll_set E s hp = Ok s' ->
    exists hp', ll_get L s' = Some hp' /\ Forall2 Qeq hp' hp.
  Proof.
    intros HLE H. rewrite (get_after_set _ _ _ H). eexists. split; [reflexivity|].
    destruct (ll_log s).
    - clear H. induction hp as [|a r IH]; simpl; constructor; [apply HLE | exact IH].
    - clear H. induction hp as [|a r IH]; constructor; [reflexivity | exact IH].
  Qed.

  (* the freshly constructed object reads back the covariance hyperparameters, followed by 1e-10 when a nugget is fitted *)
  Lemma init_get dim auto cov (d : D) :
    ll_get L (ll_init dim auto false cov d) = Some (if auto then cov ++ [DEFAULT_TIK] else cov).
  Proof. unfold ll_get, ll_init. cbn [ll_auto ll_tik ll_cov ll_log]. destruct auto; reflexivity. Qed.

  (* setting what was read leaves the object as it is (linear parameterisation) *)
  Theorem get_set_id_linear s hp : ll_log s = false -> length (ll_cov s) = S (ll_dim s) ->
    forallb pos_b (ll_cov s) = true -> (ll_auto s = false -> ll_tik s = None) ->
    ll_get L s = Some hp -> ll_set E s hp = Ok s.
  Proof.
    intros Hlog Hlen Hpos Htik. unfold ll_get, ll_set, problem_size. rewrite Hlog.
    destruct s as [dim auto lg cov tik d]. cbn [ll_auto ll_tik ll_cov ll_log ll_dim ll_data] in *. subst lg.
    destruct auto.
    - destruct tik as [t|]; [|discriminate]. intro H. injection H as <-.
      assert (F : firstn (S dim) (cov ++ [t]) = cov).
      { rewrite <- Hlen. rewrite firstn_app, Nat.sub_diag, firstn_all. cbn [firstn]. apply app_nil_r. }
      rewrite app_length, Hlen. cbn [length]. rewrite Nat.eqb_refl. cbn [negb].
      rewrite F, Hpos. cbn [negb]. rewrite last_last. reflexivity.
    - intro H. injection H as <-. rewrite Hlen, Nat.add_0_r, Nat.eqb_refl. cbn [negb].
      assert (F : firstn (S dim) cov = cov) by (rewrite <- Hlen; apply firstn_all).
      rewrite F, Hpos. cbn [negb]. rewrite (Htik eq_refl). reflexivity.
  Qed.

  (* the value in the log parameterisation at a is the value in the linear parameterisation at exp a: both build the same
     GaussianProcess (same covariance hyperparameters, same nugget, same data); and one call fails iff the other does *)
  Theorem param_invariant (V : list Q -> option Q -> D -> Q) (scale : Q) s a :
    match ll_set E (with_log true s) a, ll_set E (with_log false s) (map E a) with
    | Ok s1, Ok s2 => ll_cov s1 = ll_cov s2 /\ ll_tik s1 = ll_tik s2 /\ ll_data s1 = ll_data s2 /\
                      ll_value V scale s1 = ll_value V scale s2
    | Err e1, Err e2 => e1 = e2
    | _, _ => False
    end.
  Proof.
    unfold ll_set, with_log, problem_size. cbn [ll_auto ll_tik ll_cov ll_log ll_dim ll_data]. rewrite map_length.
    destruct (Nat.eqb (length a) (S (ll_dim s) + (if ll_auto s then 1 else 0))); cbn [negb]; [|reflexivity].
    destruct (forallb pos_b (firstn (S (ll_dim s)) (map E a))); cbn [negb]; [|reflexivity].
    unfold ll_value. cbn [ll_auto ll_tik ll_cov ll_log ll_dim ll_data]. repeat split; reflexivity.
  Qed.
End LLProofs.

(* =========================================================================================== Part B: packing *)
Lemma take_spec {A} : forall n (v : list A), (n <= length v)%nat -> take n v = Some (firstn n v, skipn n v).
Proof.
  induction n as [|n IH]; intros v H; [reflexivity|]. destruct v as [|x v]; simpl in *; [lia|].
  rewrite IH by lia. reflexivity.
Qed.

Lemma regroup_spec : forall cs v, (Decode.one_hot_dim cs <= length v)%nat ->
  exists g, regroup cs v = Some g /\ Forall2 (fun c l => length l = Decode.width c) cs g /\
            concat g = firstn (Decode.one_hot_dim cs) v.
Proof.
  induction cs as [|c r IH]; intros v H.
  - exists []. repeat split. constructor.
  - change (Decode.one_hot_dim (c :: r)) with (Decode.width c + Decode.one_hot_dim r)%nat in *.
    cbn [regroup]. rewrite take_spec by lia.
    destruct (IH (skipn (Decode.width c) v)) as (g & Eg & Fg & Cg); [rewrite skipn_length; lia|].
    rewrite Eg. exists (firstn (Decode.width c) v :: g). split; [reflexivity|]. split.
    + constructor; [|exact Fg]. rewrite firstn_length. lia.
    + simpl. rewrite Cg. symmetry. apply firstn_plus.
Qed.

Lemma oget_concat_some g : map oget (concat (map (map (@Some Q)) g)) = concat g.
Proof.
  induction g as [|l g IH]; [reflexivity|]. simpl. rewrite map_app, IH. f_equal.
  rewrite map_map. simpl. apply map_id.
Qed.

Lemma structure_of_lengths cs g : Forall2 (fun c l => length l = Decode.width c) cs g ->
  forall2b (fun c l => Nat.eqb (length l) (Decode.width c) && forallb (fun o => negb (is_none o)) l) cs (map (map (@Some Q)) g) = true.
Proof.
  induction 1 as [|c l cs g Hl _ IH]; [reflexivity|]. simpl. rewrite map_length, Hl, Nat.eqb_refl, IH. simpl.
  rewrite andb_true_r. clear. induction l; simpl; auto.
Qed.

Definition b2n (b : bool) : nat := if b then 1%nat else 0%nat.

(* the returned dictionary: one length scale per numeric parameter and one per category, nugget iff one is fitted, task
   length iff multitask; and no value of the optimiser's vector is lost or moved: packing the dictionary gives the vector *)
Theorem unpack_structure cs mt auto v :
  length v = S (Decode.one_hot_dim cs + b2n mt + b2n auto) ->
  exists d, unpack cs mt auto v = Some d /\ structure_b cs mt auto d = true /\ pack d = v /\
            length (h_ls d) = length cs.
Proof.
  intro Hlen. destruct v as [|alpha rest]; [discriminate|]. simpl in Hlen. injection Hlen as Hlen.
  unfold unpack.
  set (n := Decode.one_hot_dim cs) in *.
  (* the nugget slot *)
  assert (Hr : exists rest' tik tl, (if auto then match rest with [] => None | _ => Some (removelast rest, Some (last rest 0)) end
                                  else Some (rest, None)) = Some (rest', tik) /\
                                 rest = rest' ++ tl /\ tl = match tik with Some t => [t] | None => [] end /\
                                 length rest' = (n + b2n mt)%nat /\ is_none tik = negb auto).
  { destruct auto; simpl in Hlen.
    - destruct rest as [|x r] eqn:Er; [simpl in Hlen; lia|]. rewrite <- Er in *.
      assert (Hne : rest <> []) by (rewrite Er; discriminate).
      exists (removelast rest), (Some (last rest 0)), [last rest 0]. repeat split.
      + apply app_removelast_last. exact Hne.
      + pose proof (app_removelast_last 0 Hne) as Hs. apply (f_equal (@length Q)) in Hs. rewrite app_length in Hs. simpl in Hs. lia.
    - exists rest, None, []. repeat split; [symmetry; apply app_nil_r | lia]. }
  destruct Hr as (rest' & tik & tl & -> & Erest & Etl & Lr & Etik).
  destruct (regroup_spec cs rest') as (g & Eg & Fg & Cg); [fold n; lia|]. rewrite Eg. fold n in Cg.
  assert (Ht : exists task tt, (if mt then match rest' with [] => None | _ => Some (Some (last rest' 0)) end else Some None) = Some task /\
                             tt = match task with Some t => [t] | None => [] end /\ firstn n rest' ++ tt = rest' /\
                             is_none task = negb mt).
  { destruct mt; simpl in Lr.
    - destruct rest' as [|x r] eqn:Er; [simpl in Lr; lia|]. rewrite <- Er in *.
      exists (Some (last rest' 0)), [last rest' 0]. repeat split. apply firstn_last_id. lia.
    - exists None, []. repeat split. rewrite app_nil_r. apply firstn_all2. lia. }
  destruct Ht as (task & tt & -> & Ett & Hre & Etask).
  eexists. split; [reflexivity|]. split; [|split].
  - unfold structure_b. cbn [h_ls h_task h_tik]. rewrite (structure_of_lengths _ _ Fg), Etask, Etik.
    destruct mt, auto; reflexivity.
  - unfold pack. cbn [h_alpha h_ls h_task h_tik]. rewrite oget_concat_some, Cg. f_equal.
    rewrite <- Ett, <- Etl, app_assoc, Hre. symmetry. exact Erest.
  - cbn [h_ls]. rewrite map_length. symmetry. clear -Fg. induction Fg; simpl; auto.
Qed.

(* =========================================================================================== Part B: the search box *)
Fixpoint increasing (l : list Q) : Prop :=
  match l with a :: ((b :: _) as r) => a < b /\ increasing r | _ => True end.
Definition grid_increasing (c : component) : Prop := match c with Grid es => increasing es | _ => True end.

Definition BoxOk (b : list (Q * Q)) : Prop := Forall (fun lh => 0 < fst lh /\ fst lh < snd lh) b.
Lemma box_ok_b_spec b : box_ok_b b = true <-> BoxOk b.
Proof.
  unfold box_ok_b, BoxOk. rewrite forallb_forall, Forall_forall. split; intros H x Hx; specialize (H x Hx).
  - apply andb_prop in H. destruct H as [H1 H2]. split; [apply pos_b_true|apply Qltb_true]; assumption.
  - destruct H as [H1 H2]. apply andb_true_intro. split; [apply pos_b_true|apply Qltb_true]; assumption.
Qed.

Lemma sample_var_pos l : MINVAR <= sample_var l.
Proof.
  unfold sample_var. destruct (variance l) as [v|]; [|apply Qle_refl].
  destruct (Qmaxb_cases v MINVAR) as [[-> H]|[-> H]]; [exact H|apply Qle_refl].
Qed.

Lemma fold_minb_le l : forall x, fold_left Qminb l x <= x.
Proof.
  induction l as [|y l IH]; intro x; simpl; [apply Qle_refl|].
  eapply Qle_trans; [apply IH|]. destruct (Qminb_cases x y) as [[-> H]|[-> H]]; [apply Qle_refl|exact H].
Qed.
Lemma fold_minb_pos l : forall x, 0 < x -> Forall (fun y => 0 < y) l -> 0 < fold_left Qminb l x.
Proof.
  induction l as [|y l IH]; intros x Hx Hl; simpl; [exact Hx|]. inversion Hl; subst. apply IH; [|assumption].
  destruct (Qminb_cases x y) as [[-> _]|[-> _]]; assumption.
Qed.

Lemma increasing_diffs_pos_cons : forall r a, increasing (a :: r) -> Forall (fun y => 0 < y) (diffs (a :: r)).
Proof.
  induction r as [|b r IH]; intros a H; [constructor|].
  change (diffs (a :: b :: r)) with ((b - a) :: diffs (b :: r)). destruct H as [H1 H2].
  constructor; [lra|apply IH; exact H2].
Qed.
Lemma increasing_diffs_pos l : increasing l -> Forall (fun y => 0 < y) (diffs l).
Proof. destruct l as [|a r]; [constructor|apply increasing_diffs_pos_cons]. Qed.
Lemma increasing_hd_le_last : forall l a, increasing (a :: l) -> a <= last (a :: l) 0.
Proof.
  induction l as [|b r IH]; intros a H; [simpl; apply Qle_refl|].
  destruct H as [H1 H2]. change (last (a :: b :: r) 0) with (last (b :: r) 0).
  specialize (IH b H2). lra.
Qed.

Lemma grid_box_ok es : (1 < length es)%nat -> increasing es ->
  let w := last es 0 - hd 0 es in
  0 < Qmaxb (GRID_LO * min_list (diffs es)) (LS_LO * w) /\ Qmaxb (GRID_LO * min_list (diffs es)) (LS_LO * w) < LS_HI * w.
Proof.
  intros Hlen Hinc. destruct es as [|a [|b r]]; simpl in Hlen; try lia.
  cbn [hd]. cbv zeta.
  pose proof (increasing_diffs_pos _ Hinc) as Hd.
  change (diffs (a :: b :: r)) with ((b - a) :: diffs (b :: r)) in *.
  remember (diffs (b :: r)) as ds eqn:Eds. clear Eds.
  inversion Hd as [|? ? Hd0 Hdr]; subst.
  unfold min_list.
  pose proof (fold_minb_pos _ _ Hd0 Hdr) as Hp. pose proof (fold_minb_le ds (b - a)) as Hle.
  remember (fold_left Qminb ds (b - a)) as m eqn:Em. clear Em.
  destruct Hinc as [Hab Hinc]. pose proof (increasing_hd_le_last _ _ Hinc) as Hl.
  change (last (a :: b :: r) 0) with (last (b :: r) 0). remember (last (b :: r) 0) as z eqn:Ez. clear Ez.
  unfold GRID_LO, LS_LO, LS_HI.
  destruct (Qmaxb_cases ((1 # 4) * m) ((1 # 1000) * (z - a))) as [[-> _]|[-> _]]; split; lra.
Qed.

Lemma forallb_repeat {A} (f : A -> bool) x n : f x = true -> forallb f (repeat x n) = true.
Proof. intro H. induction n; simpl; [reflexivity|]. now rewrite H, IHn. Qed.

Lemma comp_box_ok dll c : 0 < dll -> dll < 1 -> wf_component c = true -> grid_increasing c ->
  box_ok_b (comp_box dll c) = true.
Proof.
  intros H0 H1 Hwf Hg. unfold box_ok_b. destruct c as [lo hi|lo hi|es|es]; cbn [comp_box wf_component grid_increasing] in *.
  - apply Qltb_true in Hwf. cbn [forallb fst snd]. rewrite andb_true_r. apply andb_true_intro.
    unfold LS_LO, LS_HI. split; [apply pos_b_true|apply Qltb_true]; lra.
  - apply Z.ltb_lt in Hwf. assert (Hw : 1 <= inject_Z hi - inject_Z lo).
    { assert (H : (lo + 1 <= hi)%Z) by lia. rewrite Zle_Qle in H. rewrite inject_Z_plus in H. change (inject_Z 1) with 1 in H. lra. }
    cbn [forallb fst snd]. rewrite andb_true_r. apply andb_true_intro. unfold LS_LO, LS_HI.
    destruct (Qmaxb_cases dll ((1 # 1000) * (inject_Z hi - inject_Z lo))) as [[-> _]|[-> _]];
      (split; [apply pos_b_true|apply Qltb_true]; lra).
  - apply forallb_repeat. cbn [fst snd]. apply andb_true_intro. unfold CAT_HI. split; [apply pos_b_true|apply Qltb_true]; lra.
  - apply andb_prop in Hwf. destruct Hwf as [Hlen _]. apply Nat.ltb_lt in Hlen.
    destruct (grid_box_ok es Hlen Hg) as [Ha Hb]. cbn [forallb fst snd]. rewrite andb_true_r. apply andb_true_intro.
    split; [apply pos_b_true|apply Qltb_true]; assumption.
Qed.

Lemma comp_box_length dll c : length (comp_box dll c) = Decode.width c.
Proof. destruct c; simpl; auto. apply repeat_length. Qed.

(* bounds from the sample variance and the parameter widths, per parameter type, task length, nugget: all positive, lo < hi,
   one entry per coordinate of the hyperparameter vector *)
Theorem search_box_spec cs vals auto mt dll : 0 < dll -> dll < 1 ->
  Forall (fun c => wf_component c = true) cs -> Forall grid_increasing cs ->
  BoxOk (hp_box cs vals auto mt dll) /\
  length (hp_box cs vals auto mt dll) = S (Decode.one_hot_dim cs + b2n mt + b2n auto).
Proof.
  intros H0 H1 Hwf Hg. pose proof (sample_var_pos vals) as Hsv. unfold MINVAR in Hsv. split.
  - apply box_ok_b_spec. unfold hp_box, box_ok_b. cbn [forallb fst snd]. rewrite !forallb_app.
    apply andb_true_intro. split; [|apply andb_true_intro; split; [|apply andb_true_intro; split]].
    + apply andb_true_intro. unfold ALPHA_LO, ALPHA_HI. split; [apply pos_b_true|apply Qltb_true]; lra.
    + clear Hsv. induction cs as [|c r IH]; [reflexivity|]. inversion Hwf; inversion Hg; subst. simpl. rewrite forallb_app.
      apply andb_true_intro. split; [apply comp_box_ok; assumption|apply IH; assumption].
    + destruct mt; [|reflexivity]. cbn [forallb fst snd]. reflexivity.
    + destruct auto; [|reflexivity]. cbn [forallb fst snd]. rewrite andb_true_r. apply andb_true_intro.
      unfold TIK_LO, TIK_HI. split; [apply pos_b_true|apply Qltb_true]; lra.
  - unfold hp_box. cbn [length]. rewrite !app_length. f_equal.
    assert (Hf : length (flat_map (comp_box dll) cs) = Decode.one_hot_dim cs).
    { clear. induction cs as [|c r IH]; [reflexivity|]. simpl. rewrite app_length, comp_box_length, IH. reflexivity. }
    rewrite Hf. destruct mt, auto; simpl; lia.
Qed.

(* documentation of the hypothesis "grid elements listed in increasing order": a grid whose last element is below its first
   gives an inverted entry (the CategoricalDomain built from the box then fails its assertion) *)
Lemma search_box_unsorted_grid_refuted :
  exists cs vals, Forall (fun c => wf_component c = true) cs /\ box_ok_b (hp_box cs vals false false DLL) = false.
Proof. exists [Grid [3; 1]], [0; 1]. split; [repeat constructor|vm_compute; reflexivity]. Qed.

(* a point of a well-formed box is positive, coordinate by coordinate *)
Lemma in_box_positive : forall b p, BoxOk b -> in_boxb b p = true -> forallb pos_b p = true /\ length p = length b.
Proof.
  induction b as [|[lo hi] b IH]; intros [|x p] Hb Hin; simpl in Hin; try discriminate; [split; reflexivity|].
  inversion Hb as [|? ? [Hlo _] Hb']; subst. apply andb_prop in Hin. destruct Hin as [Hx Hin].
  apply andb_prop in Hx. destruct Hx as [Hx _]. apply Qle_bool_iff in Hx. cbn [fst snd] in *.
  destruct (IH p Hb' Hin) as [Hp Hl]. split; [|simpl; now rewrite Hl]. simpl. rewrite Hp, andb_true_r.
  apply pos_b_true. lra.
Qed.

(* =========================================================================================== Part B: the multistart *)
Section MSFirst.
  Variable acc : list Q -> bool.
  Variable run : nat -> list Q -> Multistart.outcome.
  Variable gen : nat -> list (list Q).

  Lemma ms_loop_inv (x0 : list Q) nm nsel : forall todo k st st',
    (exists q, Multistart.ms_best st = Some q /\ (acc q = true \/ q = x0)) ->
    Multistart.ms_loop acc run nm nsel k todo st = Optim.Ok st' ->
    exists p, Multistart.ms_best st' = Some p /\ (acc p = true \/ p = x0).
  Proof.
    induction todo as [|p r IH]; intros k st st' (q & Eq & Hq) Hl; simpl in Hl; [discriminate|].
    destruct (Multistart.ms_record acc p (run k p)) as [fv sc] eqn:Er.
    destruct (Multistart.is_none (Multistart.ms_best st) || sc && Multistart.gtv fv (Multistart.ms_bestv st)) eqn:Etake.
    - destruct (Multistart.is_none (Multistart.ms_best st) && negb sc) eqn:Efirst.
      + rewrite Eq in Efirst. discriminate.
      + assert (Hsc : sc = true).
        { rewrite Eq in Etake. simpl in Etake. apply andb_prop in Etake. tauto. }
        subst sc. pose proof (Proofs.Multistart.ms_record_success _ _ _ _ Er) as Hacc.
        match type of Hl with (if ?c then _ else _) = _ => destruct c end.
        * injection Hl as <-. cbn [Multistart.ms_best]. eexists. split; [reflexivity | left; exact Hacc].
        * apply IH in Hl; [exact Hl|]. cbn [Multistart.ms_best]. eexists. split; [reflexivity | left; exact Hacc].
    - match type of Hl with (if ?c then _ else _) = _ => destruct c end.
      * injection Hl as <-. cbn [Multistart.ms_best]. exists q. split; [exact Eq | exact Hq].
      * apply IH in Hl; [exact Hl|]. cbn [Multistart.ms_best]. exists q. split; [exact Eq | exact Hq].
  Qed.

  (* with the supplied start first: the result is an acceptable end point of a successful run, or that very start
     (taken only when its own run failed and no later run succeeded) -- never one of the random starts *)
  Theorem ms_first_or_acceptable nm x0 rest st :
    Multistart.ms_optimize acc run gen nm (Some (x0 :: rest)) = Optim.Ok st ->
    exists p, Multistart.ms_best st = Some p /\ (acc p = true \/ p = x0).
  Proof.
    unfold Multistart.ms_optimize.
    set (sel := x0 :: rest).
    set (initial := if (nm <=? length sel)%nat then sel else sel ++ gen (nm - length sel)).
    assert (Hi : exists tl, initial ++ gen Multistart.NUM_BACKUP = x0 :: tl).
    { unfold initial, sel. destruct (nm <=? length (x0 :: rest))%nat; simpl; eauto. }
    destruct Hi as (tl & ->). intro Hl. simpl in Hl.
    destruct (Multistart.ms_record acc x0 (run 0%nat x0)) as [fv sc] eqn:Er.
    cbn [Multistart.ms_best Multistart.ms_init Multistart.is_none orb andb] in Hl.
    destruct (negb sc) eqn:Esc.
    - match type of Hl with (if ?c then _ else _) = _ => destruct c end.
      + injection Hl as <-. cbn [Multistart.ms_best]. eexists. split; [reflexivity | right; reflexivity].
      + apply (ms_loop_inv x0) in Hl; [exact Hl|]. cbn [Multistart.ms_best]. eexists. split; [reflexivity | right; reflexivity].
    - apply negb_false_iff in Esc. subst sc. pose proof (Proofs.Multistart.ms_record_success _ _ _ _ Er) as Hacc.
      match type of Hl with (if ?c then _ else _) = _ => destruct c end.
      + injection Hl as <-. cbn [Multistart.ms_best]. eexists. split; [reflexivity | left; exact Hacc].
      + apply (ms_loop_inv x0) in Hl; [exact Hl|]. cbn [Multistart.ms_best]. eexists. split; [reflexivity | left; exact Hacc].
  Qed.
End MSFirst.

Theorem multistart_opt_in_box_or_start run gen k f p : multistart_opt run gen k f = Ok p ->
  in_boxb (f_box f) p = true \/ p = f_x0 f.
Proof.
  unfold multistart_opt.
  destruct (Multistart.ms_optimize (in_boxb (f_box f)) (run k) (gen k) NUM_MULTISTARTS (Some [f_x0 f])) as [st|e] eqn:Eo; [|discriminate].
  apply ms_first_or_acceptable in Eo. destruct Eo as (q & Eq & Hq). rewrite Eq. intro H. injection H as <-. exact Hq.
Qed.

(* the nugget slot of the start vector is the likelihood object's initial 1e-10, whatever nugget was supplied *)
Lemma start_vector_nugget_slot cs h t : h_tik h = Some t ->
  start_vector cs h = cov_vector cs h ++ [DEFAULT_TIK] /\ last (start_vector cs h) 0 = DEFAULT_TIK.
Proof. intro H. unfold start_vector. rewrite H. cbn [is_none]. split; [reflexivity|apply last_last]. Qed.
Lemma start_vector_no_nugget cs h : h_tik h = None -> start_vector cs h = cov_vector cs h.
Proof. intro H. unfold start_vector. rewrite H. apply app_nil_r. Qed.

(* =========================================================================================== Part B: the view *)
Lemma set_nth_length {A} (x : A) : forall k l, length (set_nth k x l) = length l.
Proof. induction k as [|k IH]; intros [|y l]; simpl; auto. Qed.
Lemma set_nth_same {A} (x : A) : forall k l, (k < length l)%nat -> nth_error (set_nth k x l) k = Some x.
Proof. induction k as [|k IH]; intros [|y l] H; simpl in *; try lia; auto. apply IH. lia. Qed.
Lemma set_nth_other {A} (x : A) : forall k l j, j <> k -> nth_error (set_nth k x l) j = nth_error l j.
Proof.
  induction k as [|k IH]; intros [|y l] [|j] H; simpl; auto; try congruence.
Qed.

Lemma NoDup_map_inj_in {A B} (f : A -> B) : forall l a b, NoDup (map f l) -> In a l -> In b l -> f a = f b -> a = b.
Proof.
  induction l as [|x l IH]; intros a b Hnd Ha Hb Hf; [destruct Ha|]. simpl in Hnd. inversion Hnd as [|? ? Hx Hl]; subst.
  destruct Ha as [->|Ha], Hb as [->|Hb]; auto.
  - exfalso. apply Hx. rewrite Hf. apply in_map. exact Hb.
  - exfalso. apply Hx. rewrite <- Hf. apply in_map. exact Ha.
Qed.

Definition idx (j : nat * list Q * list Q) : nat := fst (fst j).

Section ViewProofs.
  Variable cs : list component.
  Variable mt : bool.
  Variable rows : list (list Q).
  Variable hps0 : list hp_dict.
  Variable opt : nat -> fit -> result (list Q).
  Notation RJ := (run_jobs cs mt rows hps0 opt).

  Lemma run_jobs_cons index v w r cur trace res :
    RJ ((index, v, w) :: r) cur trace = Ok res ->
    exists d, ptp v = Some d /\
     ((d <= MINVAR /\ RJ r cur trace = Ok res) \/
      (~ d <= MINVAR /\ exists h x dd, nth_error hps0 index = Some h /\ forallb pos_b (cov_vector cs h) = true /\
          opt (length trace) (make_fit cs mt rows index v w h) = Ok x /\
          unpack cs mt (f_auto (make_fit cs mt rows index v w h)) x = Some dd /\
          RJ r (set_nth index dd cur) (trace ++ [make_fit cs mt rows index v w h]) = Ok res)).
  Proof.
    cbn [run_jobs]. destruct (ptp v) as [d|]; [|discriminate]. intro H. exists d. split; [reflexivity|].
    destruct (Qle_bool d MINVAR) eqn:Ed.
    - left. split; [apply Qle_bool_iff; exact Ed | exact H].
    - right. split; [intro C; apply Qle_bool_iff in C; congruence|].
      destruct (nth_error hps0 index) as [h|]; [|discriminate].
      destruct (forallb pos_b (cov_vector cs h)) eqn:Ep; cbn [negb] in H; [|discriminate].
      destruct (opt (length trace) (make_fit cs mt rows index v w h)) as [x|e] eqn:Eo; [|discriminate].
      destruct (unpack cs mt (f_auto (make_fit cs mt rows index v w h)) x) as [dd|] eqn:Eu; [|discriminate].
      exists h, x, dd. auto.
  Qed.

  (* a constructed fit belongs to one job: that job's metric index, values and variances, the supplied dictionary of that
     metric, the box derived from those values, the start vector from that dictionary; its values are not constant *)
  Definition fit_ok (jobs : list (nat * list Q * list Q)) (f : fit) : Prop :=
    exists v w h d, In (f_metric f, v, w) jobs /\ nth_error hps0 (f_metric f) = Some h /\
      f = make_fit cs mt rows (f_metric f) v w h /\ ptp v = Some d /\ ~ d <= MINVAR /\
      forallb pos_b (cov_vector cs h) = true.

  Lemma fit_ok_weaken j jobs f : fit_ok jobs f -> fit_ok (j :: jobs) f.
  Proof. intros (v & w & h & d & H & R). exists v, w, h, d. split; [right; exact H|exact R]. Qed.

  Lemma run_jobs_inv : forall jobs cur trace out tr,
    RJ jobs cur trace = Ok (out, tr) ->
    length out = length cur /\
    exists new, tr = trace ++ new /\
      Forall (fit_ok jobs) new /\
      (forall k, ~ In k (map f_metric new) -> nth_error out k = nth_error cur k) /\
      (NoDup (map idx jobs) -> forall i f, nth_error new i = Some f -> (f_metric f < length cur)%nat ->
         exists x dd, opt (length trace + i) f = Ok x /\ unpack cs mt (f_auto f) x = Some dd /\
                      nth_error out (f_metric f) = Some dd).
  Proof.
    induction jobs as [|[[index v] w] r IH]; intros cur trace out tr H.
    - simpl in H. injection H as <- <-. split; [reflexivity|]. exists []. rewrite app_nil_r.
      repeat split; auto. intros _ [|i] f Hf; discriminate.
    - apply run_jobs_cons in H. destruct H as (d & Hd & [[Hle H]|[Hnle (h & x & dd & Hh & Hp & Ho & Hu & H)]]).
      + destruct (IH _ _ _ _ H) as (Hlen & new & -> & Hf & Hun & Hres). split; [exact Hlen|]. exists new.
        split; [reflexivity|]. split; [|split; [exact Hun|]].
        * eapply Forall_impl; [|exact Hf]. intros f. apply fit_ok_weaken.
        * intro Hnd. simpl in Hnd. inversion Hnd; subst. apply Hres. assumption.
      + set (f := make_fit cs mt rows index v w h) in *.
        destruct (IH _ _ _ _ H) as (Hlen & new & -> & Hf & Hun & Hres). rewrite set_nth_length in Hlen.
        split; [exact Hlen|]. exists (f :: new). split; [rewrite <- app_assoc; reflexivity|]. split; [|split].
        * constructor.
          -- exists v, w, h, d. repeat split; auto. left. reflexivity.
          -- eapply Forall_impl; [|exact Hf]. intros f'. apply fit_ok_weaken.
        * intros k Hk. simpl in Hk. rewrite Hun by tauto. apply set_nth_other. intro C. apply Hk. left. subst k. reflexivity.
        * intros Hnd i f' Hi Hlt. simpl in Hnd. inversion Hnd as [|? ? Hx Hnd']; subst.
          destruct i as [|i].
          -- simpl in Hi. injection Hi as <-. rewrite Nat.add_0_r. exists x, dd. split; [exact Ho|]. split; [exact Hu|].
             change (f_metric f) with index in *. rewrite Hun; [apply set_nth_same; exact Hlt|].
             intro C. apply in_map_iff in C. destruct C as (f' & Ef & Hin). rewrite Forall_forall in Hf.
             destruct (Hf f' Hin) as (v' & w' & _ & _ & Hj & _). apply Hx. change (idx (index, v, w)) with index.
             apply in_map_iff. exists (f_metric f', v', w'). split; [exact Ef|exact Hj].
          -- simpl in Hi. destruct (Hres Hnd' i f' Hi) as (x' & dd' & Ho' & Hu' & Hn'); [rewrite set_nth_length; exact Hlt|].
             exists x', dd'. split; [|split; assumption]. rewrite <- Ho'. f_equal. rewrite app_length. simpl. lia.
  Qed.

  (* the skip rule: a job whose values span at most 1e-10 constructs nothing (so its dictionary is untouched) *)
  Lemma skipped_not_fitted jobs new index v w d : NoDup (map idx jobs) -> Forall (fit_ok jobs) new ->
    In (index, v, w) jobs -> ptp v = Some d -> d <= MINVAR -> ~ In index (map f_metric new).
  Proof.
    intros Hnd Hf Hin Hd Hle C. apply in_map_iff in C. destruct C as (f & Ef & Hfin). rewrite Forall_forall in Hf.
    destruct (Hf f Hfin) as (v' & w' & h & d' & Hj & _ & _ & Hd' & Hn & _). rewrite Ef in Hj.
    assert (E : (index, v', w') = (index, v, w)) by (apply (NoDup_map_inj_in idx jobs); auto).
    injection E as -> _. rewrite Hd in Hd'. injection Hd' as <-. exact (Hn Hle).
  Qed.
End ViewProofs.

Lemma map_snd_enumerate {A} : forall (l : list A) i, map snd (enumerate_from i l) = l.
Proof. induction l as [|x l IH]; intro i; simpl; [reflexivity|]. now rewrite IH. Qed.
Lemma map_idx_jobs_of succ ix o : map idx (jobs_of succ ix o) = ix.
Proof. unfold jobs_of. rewrite map_map. unfold idx. cbn [fst]. apply map_snd_enumerate. Qed.

Lemma in_enumerate {A} : forall (l : list A) s i x, In (i, x) (enumerate_from s l) <-> (s <= i)%nat /\ nth_error l (i - s) = Some x.
Proof.
  induction l as [|y l IH]; intros s i x; simpl.
  - split; [tauto|]. intros [_ H]. destruct (i - s)%nat; discriminate.
  - rewrite IH. split.
    + intros [H|[H1 H2]]; [injection H as <- <-; split; [lia|]; now rewrite Nat.sub_diag|].
      split; [lia|]. replace (i - s)%nat with (S (i - S s)) by lia. exact H2.
    + intros [H1 H2]. destruct (Nat.eq_dec i s) as [->|Hne].
      * left. rewrite Nat.sub_diag in H2. simpl in H2. injection H2 as ->. reflexivity.
      * right. split; [lia|]. replace (i - s)%nat with (S (i - S s)) in H2 by lia. exact H2.
Qed.

(* the jobs of a metric family: position i of the index list is fitted on column i of that family's scaled values and
   variances, at the successful observations only *)
Lemma in_jobs_of succ ix o index v w : In (index, v, w) (jobs_of succ ix o) <->
  exists i, nth_error ix i = Some index /\
            v = Midpoint.select succ (Midpoint.column i (Midpoint.v_values o)) /\
            w = Midpoint.select succ (Midpoint.column i (Midpoint.v_vars o)).
Proof.
  unfold jobs_of. rewrite in_map_iff. split.
  - intros ([i k] & E & Hin). apply in_enumerate in Hin. destruct Hin as [_ Hin]. rewrite Nat.sub_0_r in Hin.
    cbn [fst snd] in E. injection E as <- <- <-. exists i. auto.
  - intros (i & Hi & -> & ->). exists (i, index). split; [reflexivity|]. apply in_enumerate. rewrite Nat.sub_0_r. split; [lia|exact Hi].
Qed.

Definition view_pre (vals vars : list (list Q)) (fails : list bool) (objs : list Midpoint.objective) (ix : list nat)
  : option (list (nat * list Q * list Q)) :=
  match ix with
  | [] => Some []
  | _ => match Midpoint.preprocess ix vals vars fails objs (repeat (@None Q) (length objs)) with
         | Some o => Some (jobs_of (map negb fails) ix o) | None => None end
  end.
Definition view_jobs (vals vars : list (list Q)) (fails : list bool) (objs : list Midpoint.objective) (opt_ix con_ix : list nat)
  : option (list (nat * list Q * list Q)) :=
  match view_pre vals vars fails objs opt_ix, view_pre vals vars fails objs con_ix with
  | Some jo, Some jc => Some (jo ++ jc) | _, _ => None end.

Lemma view_pre_idx vals vars fails objs ix j : view_pre vals vars fails objs ix = Some j -> map idx j = ix.
Proof.
  unfold view_pre. destruct ix as [|a ix]; [intro H; injection H as <-; reflexivity|].
  destruct (Midpoint.preprocess (a :: ix) vals vars fails objs (repeat None (length objs))); [|discriminate].
  intro H. injection H as <-. apply map_idx_jobs_of.
Qed.

Lemma view_jobs_idx vals vars fails objs opt_ix con_ix jobs :
  view_jobs vals vars fails objs opt_ix con_ix = Some jobs -> map idx jobs = opt_ix ++ con_ix.
Proof.
  unfold view_jobs.
  destruct (view_pre vals vars fails objs opt_ix) as [jo|] eqn:E1; [|discriminate].
  destruct (view_pre vals vars fails objs con_ix) as [jc|] eqn:E2; [|discriminate].
  intro H. injection H as <-. rewrite map_app, (view_pre_idx _ _ _ _ _ _ E1), (view_pre_idx _ _ _ _ _ _ E2). reflexivity.
Qed.

Lemma view_pre_in vals vars fails objs ix j index v w : view_pre vals vars fails objs ix = Some j -> In (index, v, w) j ->
  exists o i, Midpoint.preprocess ix vals vars fails objs (repeat None (length objs)) = Some o /\ nth_error ix i = Some index /\
    v = Midpoint.select (map negb fails) (Midpoint.column i (Midpoint.v_values o)) /\
    w = Midpoint.select (map negb fails) (Midpoint.column i (Midpoint.v_vars o)).
Proof.
  unfold view_pre. destruct ix as [|a ix]; [intro H; injection H as <-; intros []|].
  destruct (Midpoint.preprocess (a :: ix) vals vars fails objs (repeat None (length objs))) as [o|]; [|discriminate].
  intro H. injection H as <-. intro Hin. apply in_jobs_of in Hin. destruct Hin as (i & Hi & Hv & Hw). exists o, i. auto.
Qed.

(* every job of the view is a column of one of the two families (per-metric data) *)
Lemma view_jobs_in vals vars fails objs opt_ix con_ix jobs index v w :
  view_jobs vals vars fails objs opt_ix con_ix = Some jobs -> In (index, v, w) jobs ->
  exists ix o i, (ix = opt_ix \/ ix = con_ix) /\
    Midpoint.preprocess ix vals vars fails objs (repeat None (length objs)) = Some o /\
    nth_error ix i = Some index /\
    v = Midpoint.select (map negb fails) (Midpoint.column i (Midpoint.v_values o)) /\
    w = Midpoint.select (map negb fails) (Midpoint.column i (Midpoint.v_vars o)).
Proof.
  unfold view_jobs.
  destruct (view_pre vals vars fails objs opt_ix) as [jo|] eqn:E1; [|discriminate].
  destruct (view_pre vals vars fails objs con_ix) as [jc|] eqn:E2; [|discriminate].
  intro H. injection H as <-. intro Hin. apply in_app_or in Hin. destruct Hin as [Hin|Hin].
  - destruct (view_pre_in _ _ _ _ _ _ _ _ _ E1 Hin) as (o & i & R). exists opt_ix, o, i. split; [left; reflexivity|exact R].
  - destruct (view_pre_in _ _ _ _ _ _ _ _ _ E2 Hin) as (o & i & R). exists con_ix, o, i. split; [right; reflexivity|exact R].
Qed.

Lemma hyperopt_view_unfold cs points tasks vals vars fails objs opt_ix con_ix hps opt :
  hyperopt_view cs points tasks vals vars fails objs opt_ix con_ix hps opt =
  match view_jobs vals vars fails objs opt_ix con_ix with
  | Some jobs => run_jobs cs (negb (is_none tasks)) (Midpoint.select (map negb fails) (one_hot_rows cs points tasks)) hps opt jobs hps []
  | None => Err ScalingError
  end.
Proof.
  unfold hyperopt_view, view_jobs, view_pre.
  destruct opt_ix as [|a oi]; destruct con_ix as [|b ci]; cbv zeta;
    repeat match goal with |- context [Midpoint.preprocess ?i ?a ?b ?c ?d ?e] => destruct (Midpoint.preprocess i a b c d e) end;
    reflexivity.
Qed.

(* The endpoint, for ANY optimiser behaviour `opt` (C11's "all optimizer randomness"). *)
Theorem hyperopt_view_spec cs points tasks vals vars fails objs opt_ix con_ix hps opt out tr :
  hyperopt_view cs points tasks vals vars fails objs opt_ix con_ix hps opt = Ok (out, tr) ->
  let mt := negb (is_none tasks) in
  let rows := Midpoint.select (map negb fails) (one_hot_rows cs points tasks) in
  exists jobs, view_jobs vals vars fails objs opt_ix con_ix = Some jobs /\ map idx jobs = opt_ix ++ con_ix /\
    length out = length hps /\
    Forall (fit_ok cs mt rows hps jobs) tr /\
    (forall k, ~ In k (map f_metric tr) -> nth_error out k = nth_error hps k) /\
    (forall k, ~ In k (opt_ix ++ con_ix) -> nth_error out k = nth_error hps k) /\
    (NoDup (opt_ix ++ con_ix) -> forall index v w d, In (index, v, w) jobs -> ptp v = Some d -> d <= MINVAR ->
        nth_error out index = nth_error hps index) /\
    (NoDup (opt_ix ++ con_ix) -> forall i f, nth_error tr i = Some f -> (f_metric f < length hps)%nat ->
        exists x dd, opt i f = Ok x /\ unpack cs mt (f_auto f) x = Some dd /\ nth_error out (f_metric f) = Some dd).
Proof.
  rewrite hyperopt_view_unfold. destruct (view_jobs vals vars fails objs opt_ix con_ix) as [jobs|] eqn:Ej; [|discriminate].
  intro H. cbv zeta. exists jobs. split; [reflexivity|]. pose proof (view_jobs_idx _ _ _ _ _ _ _ Ej) as Hidx.
  split; [exact Hidx|]. apply run_jobs_inv in H. destruct H as (Hlen & new & Etr & Hf & Hun & Hres). simpl in Etr. subst tr.
  split; [exact Hlen|]. split; [exact Hf|]. split; [exact Hun|]. split; [|split].
  - intros k Hk. apply Hun. intro C. apply Hk. rewrite <- Hidx. apply in_map_iff in C. destruct C as (f & <- & Hin).
    rewrite Forall_forall in Hf. destruct (Hf f Hin) as (v & w & _ & _ & Hj & _).
    change (f_metric f) with (idx (f_metric f, v, w)). apply in_map. exact Hj.
  - intros Hnd index v w d Hin Hd Hle. apply Hun. rewrite <- Hidx in Hnd.
    eapply skipped_not_fitted; eauto.
  - intros Hnd i f Hi Hlt. rewrite <- Hidx in Hnd. exact (Hres Hnd i f Hi Hlt).
Qed.

(* with the optimiser that is actually used (multistart over the fit's box from the fit's start vector): every fitted
   dictionary packs to a vector inside the box or to the start vector; its structure is the supplied one; all positive *)
Theorem fitted_dict_spec cs mt rows hps jobs f x dd :
  Forall (fun c => wf_component c = true) cs -> Forall grid_increasing cs ->
  fit_ok cs mt rows hps jobs f ->
  (in_boxb (f_box f) x = true \/ x = f_x0 f) ->
  unpack cs mt (f_auto f) x = Some dd ->
  (forall h, nth_error hps (f_metric f) = Some h ->
     length (start_vector cs h) = S (Decode.one_hot_dim cs + b2n mt + b2n (f_auto f))) ->
  structure_b cs mt (f_auto f) dd = true /\ pack dd = x /\ all_pos_b dd = true /\
  (in_boxb (f_box f) (pack dd) = true \/
   exists h, nth_error hps (f_metric f) = Some h /\ pack dd = start_vector cs h).
Proof.
  intros Hwf Hg (v & w & h & d & _ & Hh & Ef & _ & _ & Hpos) Hx Hu Hsv.
  assert (Hbox : BoxOk (f_box f) /\ length (f_box f) = S (Decode.one_hot_dim cs + b2n mt + b2n (f_auto f))).
  { rewrite Ef. cbn [f_box f_auto make_fit]. apply search_box_spec; auto; unfold DLL; lra. }
  destruct Hbox as [Hbox Hbl].
  assert (Hlen : length x = S (Decode.one_hot_dim cs + b2n mt + b2n (f_auto f)) /\ forallb pos_b x = true).
  { destruct Hx as [Hx| ->].
    - destruct (in_box_positive _ _ Hbox Hx) as [Hp Hl]. split; [congruence|exact Hp].
    - assert (E0 : f_x0 f = start_vector cs h) by (rewrite Ef; reflexivity). rewrite E0. split; [apply Hsv; exact Hh|].
      unfold start_vector. rewrite forallb_app, Hpos. destruct (is_none (h_tik h)); reflexivity. }
  destruct Hlen as [Hlen Hp].
  destruct (unpack_structure cs mt (f_auto f) x Hlen) as (d' & Hu' & Hs & Hpk & _). rewrite Hu in Hu'. injection Hu' as <-.
  split; [exact Hs|]. split; [exact Hpk|]. split; [unfold all_pos_b; rewrite Hpk; exact Hp|].
  rewrite Hpk. destruct Hx as [Hx| ->]; [left; exact Hx|]. right. exists h. split; [exact Hh|]. rewrite Ef. reflexivity.
Qed.

(* the strict reading "in the box or equal to the SUPPLIED values" fails in the nugget slot: with a supplied nugget and an
   optimiser all of whose runs fail, the endpoint returns the start vector, whose nugget is 1e-10 -- outside the box and
   different from the supplied 1/100 (known finding C11:endpoint:fallback-nugget-is-default-1e-10) *)
Definition all_fail_run (_ _ : nat) (p : list Q) : Multistart.outcome := Multistart.mkoc false false p None.
Definition no_gen (_ k : nat) : list (list Q) := repeat [1; 1; 1] k.
Lemma fallback_nugget_refuted :
  exists cs points vals vars fails objs hps out tr d f,
    hyperopt_view cs points None vals vars fails objs [0%nat] [] hps (multistart_opt all_fail_run no_gen) = Ok (out, tr) /\
    nth_error hps 0 = Some (mkhp 1 [[Some 1]] None (Some (1 # 100))) /\
    nth_error out 0 = Some d /\ tr = [f] /\
    h_tik d = Some DEFAULT_TIK /\ ~ DEFAULT_TIK == 1 # 100 /\ in_boxb (f_box f) (pack d) = false.
Proof.
  exists [Double 0 1], [[0]; [1 # 2]; [1]], [[0]; [1]; [3]], [[0]; [0]; [0]], [false; false; false], [Midpoint.Maximize],
         [mkhp 1 [[Some 1]] None (Some (1 # 100))].
  eexists. eexists. eexists. eexists.
  split; [vm_compute; reflexivity|]. split; [reflexivity|]. split; [reflexivity|]. split; [reflexivity|].
  split; [reflexivity|]. split; [intro C; vm_compute in C; discriminate|]. vm_compute. reflexivity.
Qed.

(* ------------------------------------------------------------------------------------------ which RAW column a job is fitted on
   (index lists in ANY order: position k of optimized_metrics_index / constraint_metrics_index pairs with column k of
   values[:, index_list], i.e. with raw column index_list[k]) *)
Lemma select_ext {A} (d : A) : forall (mask : list bool) (l1 l2 : list A),
  length l1 = length mask -> length l2 = length mask ->
  (forall r, (r < length mask)%nat -> nth r mask false = true -> nth r l1 d = nth r l2 d) ->
  Midpoint.select mask l1 = Midpoint.select mask l2.
Proof.
  induction mask as [|b m IH]; intros l1 l2 H1 H2 H; [reflexivity|].
  destruct l1 as [|x1 r1]; [discriminate|]. destruct l2 as [|x2 r2]; [discriminate|].
  simpl in H1, H2. injection H1 as H1. injection H2 as H2.
  assert (Hr : Midpoint.select m r1 = Midpoint.select m r2).
  { apply IH; auto. intros r Hr Hm. apply (H (S r)); simpl; [lia|exact Hm]. }
  simpl. destruct b.
  - rewrite Hr. f_equal. apply (H 0%nat); simpl; [lia|reflexivity].
  - exact Hr.
Qed.

Theorem job_on_own_raw_column vals vars fails objs opt_ix con_ix jobs index v w :
  length fails = length vals ->
  view_jobs vals vars fails objs opt_ix con_ix = Some jobs -> In (index, v, w) jobs ->
  exists i, Midpoint.smmi (Midpoint.column index vals) fails (nth index objs Midpoint.NoObjective) = Some i /\
    v = map (Midpoint.rel_value i) (Midpoint.select (map negb fails) (Midpoint.column index vals)).
Proof.
  intros LF Hj Hin.
  destruct (view_jobs_in _ _ _ _ _ _ _ _ _ _ Hj Hin) as (ix & o & j & _ & Hp & Hix & -> & _).
  destruct (Proofs.Midpoint.view_law ix vals vars fails objs (repeat None (length objs)) LF) as (o' & Hp' & _ & Hlen & Hlaw).
  rewrite Hp in Hp'. injection Hp' as <-.
  assert (Hjlt : (j < length ix)%nat) by (apply nth_error_Some; congruence).
  destruct (Hlaw j Hjlt) as (i & l & Hs & _ & _ & Hval & _).
  rewrite (nth_error_nth ix j 0%nat Hix) in Hs, Hval.
  exists i. split; [exact Hs|].
  rewrite <- Proofs.Midpoint.select_map.
  apply (select_ext 0).
  - unfold Midpoint.column. rewrite !map_length. lia.
  - unfold Midpoint.column. rewrite !map_length. lia.
  - rewrite map_length. intros r Hr Hm. rewrite LF in Hr.
    assert (Hf : nth r fails false = false).
    { rewrite (Proofs.Midpoint.nth_map' negb fails r false false) in Hm by lia. destruct (nth r fails false); [discriminate|reflexivity]. }
    unfold Midpoint.column.
    rewrite (Proofs.Midpoint.nth_map' (fun row => nth j row 0) (Midpoint.v_values o) r [] 0) by lia.
    rewrite map_map. rewrite (Proofs.Midpoint.nth_map' (fun row => Midpoint.rel_value i (nth index row 0)) vals r [] 0) by lia.
    rewrite (Hval r Hr), Hf. reflexivity.
Qed.
